"""AST canonicalisation in front of the strict syntactic extractors (first user: harness/extract_tracer.py).

`canonical_module(tree, keep_calls=...)` returns a deep copy of a module in which every function body has been
brought into a normal form, so that behaviour-preserving refactorings (renamed / annotated locals, early returns
versus nested ifs, De Morgan, a module constant for an inline tuple, a private helper for a few statements, a
comprehension for a loop, a temporary for a sub-expression ...) yield the SAME tree and a strict matcher written
against the normal form keeps failing closed on everything else.  The canonicaliser itself never guesses: every
rewrite has a side condition that is checked syntactically, and where the condition cannot be established the
code is left exactly as it is (so the matcher behind it rejects it).  It never raises on valid Python.

Trusted assumptions (the only things not derived from the syntax; each rule names the ones it uses):
  [A1] names bound exactly once at module level (def / class / import / one assignment) and never declared
       `global` in a function, the builtins that the module does not rebind, and attributes of imported modules
       (`inspect.CO_COROUTINE`, `sys.setprofile`) are not rebound while the code runs: loading them is STABLE.
  [A2] loading an attribute or an item, and applying an operator to operands, has no side effect: such an
       expression is a READ of the heap (it commutes with other READs, not with calls or stores).
  [A3] `_INT_ATTRS` / `_INT_CALLS` below are builtin ints, `_STR_ATTRS` builtin strs (or None) (code-object and
       frame fields, `inspect.CO_*`, `random.randrange`, `len`, items of `co_code`, `opcode.opmap[...]`).
  [A4] `self._m(...)` inside a method of the class that defines `_m` calls that definition when NO other class of
       the package defines a method `_m` and nothing in the package assigns an attribute `_m` (checked over the
       `universe` of modules handed to ModuleInfo; without a universe methods are never inlined - the assumption
       that a leading underscore alone keeps subclasses from overriding is FALSE in this very code base:
       stubs.ReplaceTypedDictsWithStubs overrides typing.TypeRewriter._rewrite_container).  Not checked: code
       outside the package (tests, users) overriding or patching a private name.
Normal form (per function body; details at each pass):
  1 docstrings, `pass`, annotations of locals dropped (annotations are never evaluated in a function scope);
  2 module-level constant tuples / aliases inlined; `dict()`/`list()`/`tuple()` -> `{}`/`[]`/`()`;
  3 a walrus that is the first thing a statement evaluates is split off (`if (x := E) is None` -> `x = E; if x is
    None`); `T = a if c else b` / `return a if c else b` -> if/else statements; `T = {k: v for x in it if c}` -> loop;
  4 calls of private helpers inlined (parameters bound to fresh locals, result bound to a fresh local);
  5 control shape: statements after an `if` whose branch ends in return/raise/continue/break move into the other
    branch; a return statement common to both branches is hoisted behind the `if`; a bare `return` in tail
    position (`continue` at the end of a loop body) is dropped; `if c: <nothing> else: B` -> `if not c: B`;
    tests are put into a negation normal form (De Morgan, `not a == b` -> `a != b` on builtin operands [A3],
    `(i & j) == 0` -> `not i & j` [A3], `x == A or x == B` <-> `x in (A, B)` on ints [A3]); an `assert T` whose T
    is the (STABLE, locals-only) test of an enclosing if / while or of an earlier assert is dropped;
  6 aliases `x = y` and single-use temporaries `x = E` are substituted when nothing that does not commute with E
    is evaluated between the definition and the use and the use is evaluated exactly once, unconditionally;
  7 maximal runs of assignments are put into the lexicographically least order reachable by swapping adjacent
    independent assignments (distinct targets, neither reads the other's target, effects commute [A1,A2]);
  8 locals are renamed `_v0, _v1, ...` in order of first binding (parameters keep their names).
"""
import ast
import copy

STABLE, READ, EFFECT = 0, 1, 2

_INT_ATTRS = {"co_flags", "co_argcount", "co_kwonlyargcount", "co_posonlyargcount", "co_nlocals", "co_stacksize",
              "co_firstlineno", "f_lasti", "f_lineno"}
_STR_ATTRS = {"co_name", "co_filename", "co_qualname", "__module__", "__name__", "__qualname__"}
_BYTES_ATTRS = {"co_code"}
_INT_CALLS = {"random.randrange", "len", "id", "random.getrandbits"}
_NEG_CMP = {ast.Is: ast.IsNot, ast.IsNot: ast.Is, ast.In: ast.NotIn, ast.NotIn: ast.In}
_NEG_CMP_BUILTIN = {ast.Eq: ast.NotEq, ast.NotEq: ast.Eq, ast.Lt: ast.GtE, ast.GtE: ast.Lt, ast.Gt: ast.LtE,
                    ast.LtE: ast.Gt}
_SCOPES = (ast.FunctionDef, ast.AsyncFunctionDef, ast.Lambda, ast.ClassDef)
_COMPS = (ast.ListComp, ast.SetComp, ast.DictComp, ast.GeneratorExp)
_OPAQUE = (ast.Lambda, ast.ListComp, ast.SetComp, ast.DictComp, ast.GeneratorExp, ast.Yield, ast.YieldFrom,
           ast.Await, ast.NamedExpr, ast.Starred)
_TERMINATORS = (ast.Return, ast.Raise, ast.Continue, ast.Break)


def src(node):
    return ast.unparse(node)


def same(a, b):
    return ast.dump(a) == ast.dump(b)


def walk_scope(node):
    """ast.walk that does not descend into nested function / class / lambda scopes (the root is always entered)."""
    todo = list(ast.iter_child_nodes(node))
    while todo:
        n = todo.pop()
        yield n
        if not isinstance(n, _SCOPES):
            todo.extend(ast.iter_child_nodes(n))


def walk_block(stmts):
    for s in stmts:
        yield s
        yield from walk_scope(s)


def dotted(node):
    """a.b.c -> ['a','b','c'] (None when the chain is not rooted at a plain name)"""
    parts = []
    while isinstance(node, ast.Attribute):
        parts.append(node.attr)
        node = node.value
    if isinstance(node, ast.Name):
        parts.append(node.id)
        return parts[::-1]
    return None


# --------------------------------------------------------------------------------------------- module facts

class ModuleInfo:
    def __init__(self, tree, universe=None):
        """universe: the trees of ALL modules of the package (this one included), or None.  Private methods are
        inlined only against a universe, see [A4]."""
        self.tree = tree
        self.closed_world = universe is not None
        self.method_defs = {}       # private method name -> number of definitions in any class of the universe
        self.attr_stores = set()    # attribute names that are assigned / deleted somewhere (`x._m = ...`)
        for t in (universe if universe is not None else [tree]):
            for n in ast.walk(t):
                if isinstance(n, ast.ClassDef):
                    for m in n.body:
                        if isinstance(m, (ast.FunctionDef, ast.AsyncFunctionDef)):
                            self.method_defs[m.name] = self.method_defs.get(m.name, 0) + 1
                        else:
                            for x in walk_block([m]):
                                if isinstance(x, ast.Name) and isinstance(x.ctx, (ast.Store, ast.Del)):
                                    self.attr_stores.add(x.id)      # class-level binding of that name
                elif isinstance(n, ast.Attribute) and isinstance(n.ctx, (ast.Store, ast.Del)):
                    self.attr_stores.add(n.attr)
                elif isinstance(n, ast.Call) and isinstance(n.func, ast.Name) and n.func.id in ("setattr", "delattr"):
                    # a dynamic attribute store: the name is known only if it is a literal
                    if len(n.args) >= 2 and isinstance(n.args[1], ast.Constant) and isinstance(n.args[1].value, str):
                        self.attr_stores.add(n.args[1].value)
                    else:
                        self.attr_stores.add(None)
        bound = {}          # name -> number of module-level bindings
        self.imports = set()        # names bound by `import x` / `import x.y` / `import x as y`  (modules)
        self.assign = {}    # name -> (index in tree.body, value) for plain single-target module-level assignments
        self.funcs = {}     # name -> FunctionDef (module level)
        self.classes = {}   # name -> ClassDef

        def bind(n):
            bound[n] = bound.get(n, 0) + 1
        for i, st in enumerate(tree.body):
            if isinstance(st, ast.Import):
                for a in st.names:
                    nm = a.asname or a.name.split(".")[0]
                    bind(nm)
                    self.imports.add(nm)
            elif isinstance(st, ast.ImportFrom):
                for a in st.names:
                    bind(a.asname or a.name)
            elif isinstance(st, (ast.FunctionDef, ast.AsyncFunctionDef)):
                bind(st.name)
                self.funcs[st.name] = st
            elif isinstance(st, ast.ClassDef):
                bind(st.name)
                self.classes[st.name] = st
            elif isinstance(st, ast.Assign) and len(st.targets) == 1 and isinstance(st.targets[0], ast.Name):
                bind(st.targets[0].id)
                self.assign[st.targets[0].id] = (i, st.value)
            elif isinstance(st, ast.AnnAssign) and isinstance(st.target, ast.Name) and st.value is not None:
                bind(st.target.id)
                self.assign[st.target.id] = (i, st.value)
            else:
                # anything else that binds names at module level (tuple targets, for, with, try, if, del ...):
                # every name stored anywhere inside is counted twice, i.e. "not single"
                for n in walk_block([st]):
                    if isinstance(n, ast.Name) and isinstance(n.ctx, (ast.Store, ast.Del)):
                        bind(n.id)
                        bind(n.id)
                    elif isinstance(n, (ast.FunctionDef, ast.AsyncFunctionDef, ast.ClassDef)):
                        bind(n.name)
                        bind(n.name)
                    elif isinstance(n, (ast.Import, ast.ImportFrom)):
                        for a in n.names:
                            bind(a.asname or a.name.split(".")[0])
                            bind(a.asname or a.name.split(".")[0])
        for n in ast.walk(tree):
            if isinstance(n, ast.Global):
                for nm in n.names:
                    bind(nm)
                    bind(nm)
        self.bound = bound
        self.single = {n for n, k in bound.items() if k == 1}
        self.imports &= self.single
        self.assign = {n: v for n, v in self.assign.items() if n in self.single}
        self.funcs = {n: f for n, f in self.funcs.items() if n in self.single}
        self.classes = {n: c for n, c in self.classes.items() if n in self.single}

    def stable_global(self, name):
        """[A1]"""
        if name in self.bound:
            return name in self.single
        import builtins
        return hasattr(builtins, name)

    def is_builtin(self, name):
        import builtins
        return name not in self.bound and hasattr(builtins, name)

    # ---- constants that may be inlined: `_X = (A, B)` / `_X = A` / `_X = mod.ATTR`
    def inlinable_constant(self, name):
        if name not in self.assign:
            return None
        idx, val = self.assign[name]

        def atom(e):
            if isinstance(e, ast.Constant):
                return True
            if isinstance(e, ast.Name):
                if e.id in self.assign:
                    return self.assign[e.id][0] < idx
                return self.stable_global(e.id) and e.id not in self.funcs and e.id not in self.classes
            d = dotted(e)
            return bool(d) and len(d) > 1 and d[0] in self.imports
        if isinstance(val, ast.Tuple) and isinstance(val.ctx, ast.Load) and val.elts and all(atom(e) for e in val.elts):
            return val
        if isinstance(val, (ast.Name, ast.Attribute)) and atom(val):
            return val
        return None

    # ---- [A3]
    def int_global(self, name, allow_none=False):
        if name not in self.assign:
            return False
        v = self.assign[name][1]
        if isinstance(v, ast.Constant):
            return (type(v.value) is int) or (allow_none and v.value is None)
        if isinstance(v, ast.Subscript) and src(v.value) == "opcode.opmap" and "opcode" in self.imports:
            return True
        if allow_none and isinstance(v, ast.Call) and src(v.func) == "opcode.opmap.get" and len(v.args) == 1 \
                and not v.keywords and "opcode" in self.imports:
            return True
        return False


class FuncInfo:
    """Name facts of one function scope."""

    def __init__(self, fn):
        self.fn = fn
        a = fn.args
        self.params = [x.arg for x in a.posonlyargs + a.args + a.kwonlyargs]
        if a.vararg:
            self.params.append(a.vararg.arg)
        if a.kwarg:
            self.params.append(a.kwarg.arg)
        self.refresh()

    def refresh(self):
        fn = self.fn
        self.declared = set()
        self.stores, self.loads = {}, {}
        self.nested_uses = set()      # names referenced from nested scopes / comprehensions
        for n in walk_block(fn.body):
            if isinstance(n, (ast.Global, ast.Nonlocal)):
                self.declared.update(n.names)
            elif isinstance(n, ast.Name):
                d = self.stores if isinstance(n.ctx, (ast.Store, ast.Del)) else self.loads
                d[n.id] = d.get(n.id, 0) + 1
            elif isinstance(n, ast.ExceptHandler) and n.name:
                self.stores[n.name] = self.stores.get(n.name, 0) + 2
            elif isinstance(n, (ast.FunctionDef, ast.AsyncFunctionDef, ast.ClassDef)):
                self.stores[n.name] = self.stores.get(n.name, 0) + 2
            elif isinstance(n, (ast.Import, ast.ImportFrom)):
                for al in n.names:
                    nm = al.asname or al.name.split(".")[0]
                    self.stores[nm] = self.stores.get(nm, 0) + 2
            if isinstance(n, _SCOPES) or isinstance(n, _COMPS):
                for m in ast.walk(n):
                    if isinstance(m, ast.Name):
                        self.nested_uses.add(m.id)
        self.locals = (set(self.stores) | set(self.params)) - self.declared

    def is_local(self, name):
        return name in self.locals


# --------------------------------------------------------------------------------------------- effects / types

class Ctx:
    """Module facts + the function being rewritten."""

    def __init__(self, mod, fi, cls=None):
        self.mod, self.fi, self.cls = mod, fi, cls

    def own_class(self, n):
        """Effect class of evaluating node `n` itself, its children being already evaluated."""
        if isinstance(n, ast.Constant):
            return STABLE
        if isinstance(n, ast.Name):
            if self.fi.is_local(n.id):
                return STABLE
            return STABLE if self.mod.stable_global(n.id) else READ
        if isinstance(n, ast.Attribute):
            d = dotted(n)
            if d and not self.fi.is_local(d[0]) and d[0] in self.mod.imports:
                return STABLE
            return READ
        if isinstance(n, ast.Subscript):
            return READ
        if isinstance(n, (ast.Tuple, ast.List, ast.Dict, ast.Set, ast.Slice)):
            return STABLE      # builds an object from references, looks into none of them
        if isinstance(n, ast.Compare) and all(isinstance(o, (ast.Is, ast.IsNot)) for o in n.ops):
            return STABLE
        if isinstance(n, (ast.BinOp, ast.UnaryOp, ast.Compare, ast.BoolOp, ast.IfExp, ast.JoinedStr,
                          ast.FormattedValue)):
            # [A2] no side effect, but an operator (or a truth test) looks into its operands: a READ, unless the
            # operands are immutable builtins [A3]
            ops = [c for c in ast.iter_child_nodes(n) if isinstance(c, ast.expr)]
            if isinstance(n, (ast.BinOp, ast.UnaryOp, ast.Compare)) and ops \
                    and all(self.is_int(o, True) or self.is_str(o) for o in ops):
                return STABLE
            return READ
        if isinstance(n, (ast.expr_context, ast.operator, ast.unaryop, ast.cmpop, ast.boolop, ast.keyword)):
            return STABLE
        return EFFECT

    def eclass(self, e):
        return max([self.own_class(e)] + [self.own_class(n) for n in ast.walk(e)])

    # ---- [A3]
    def is_int(self, e, allow_none=False, _seen=()):
        if isinstance(e, ast.Name) and e.id in _seen:
            return False
        if isinstance(e, ast.Constant):
            return type(e.value) is int or (allow_none and e.value is None)
        if isinstance(e, ast.Attribute):
            d = dotted(e)
            if d and d[0] == "inspect" and "inspect" in self.mod.imports and not self.fi.is_local("inspect") \
                    and len(d) == 2 and d[1].startswith("CO_"):
                return True
            return e.attr in _INT_ATTRS
        if isinstance(e, ast.Subscript):
            return isinstance(e.value, ast.Attribute) and e.value.attr in _BYTES_ATTRS \
                and not isinstance(e.slice, ast.Slice)
        if isinstance(e, ast.Call):
            d = dotted(e.func)
            if not d or self.fi.is_local(d[0]):
                return False
            nm = ".".join(d)
            if nm not in _INT_CALLS:
                return False
            return self.mod.is_builtin(d[0]) if len(d) == 1 else d[0] in self.mod.imports
        if isinstance(e, ast.BinOp) and isinstance(e.op, (ast.BitAnd, ast.BitOr, ast.BitXor, ast.Add, ast.Sub,
                                                         ast.Mult, ast.LShift, ast.RShift)):
            return self.is_int(e.left, False, _seen) and self.is_int(e.right, False, _seen)
        if isinstance(e, ast.Name):
            if self.fi.is_local(e.id):
                v = self.local_def(e.id)
                return v is not None and self.is_int(v, allow_none, _seen + (e.id,))
            return self.mod.int_global(e.id, allow_none)
        return False

    def is_str(self, e):
        if isinstance(e, ast.Constant):
            return type(e.value) is str or e.value is None
        if isinstance(e, ast.Attribute):
            return e.attr in _STR_ATTRS
        return False

    def builtin_pair(self, a, b):
        return (self.is_int(a, True) and self.is_int(b, True)) or (self.is_str(a) and self.is_str(b))

    def local_def(self, name):
        """The value of the only binding `name = value` of a local (None if there is not exactly one)."""
        if name in self.fi.params or self.fi.stores.get(name, 0) != 1:
            return None
        for n in walk_block(self.fi.fn.body):
            if isinstance(n, ast.Assign) and len(n.targets) == 1 and isinstance(n.targets[0], ast.Name) \
                    and n.targets[0].id == name:
                return n.value
        return None


def eval_order(e, cond=False):
    """Yield (node, conditional) in the order in which evaluation of the sub-expressions of `e` COMPLETES.
    Opaque nodes (lambda, comprehension, yield, await, walrus, starred) are yielded as a whole."""
    if isinstance(e, _OPAQUE):
        yield e, cond
        return
    if isinstance(e, ast.BoolOp):
        for i, v in enumerate(e.values):
            yield from eval_order(v, cond or i > 0)
    elif isinstance(e, ast.IfExp):
        yield from eval_order(e.test, cond)
        yield from eval_order(e.body, True)
        yield from eval_order(e.orelse, True)
    elif isinstance(e, ast.Compare):
        yield from eval_order(e.left, cond)
        for i, c in enumerate(e.comparators):
            yield from eval_order(c, cond or i > 0)
    elif isinstance(e, ast.Call):
        yield from eval_order(e.func, cond)
        for a in e.args:
            yield from eval_order(a, cond)
        for k in e.keywords:
            yield from eval_order(k.value, cond)
    elif isinstance(e, ast.Dict):
        for k, v in zip(e.keys, e.values):
            if k is not None:
                yield from eval_order(k, cond)
            yield from eval_order(v, cond)
    else:
        for c in ast.iter_child_nodes(e):
            if isinstance(c, ast.expr):
                yield from eval_order(c, cond)
    yield e, cond


def header_exprs(st):
    """The expressions of statement `st` that are evaluated first, once, whenever `st` is executed, in order."""
    if isinstance(st, ast.Assign):
        out = [st.value]
        if len(st.targets) != 1:
            return out
        for t in st.targets:
            if isinstance(t, ast.Attribute):
                out.append(t.value)
            elif isinstance(t, ast.Subscript):
                out += [t.value, t.slice]
            elif not isinstance(t, ast.Name):
                return out      # tuple targets etc.: only the value is offered
        return out
    if isinstance(st, (ast.Return, ast.Expr)):
        return [st.value] if st.value is not None else []
    if isinstance(st, ast.If):
        return [st.test]
    if isinstance(st, ast.For):
        return [st.iter]
    return []


# --------------------------------------------------------------------------------------------- tests (pass 5b)

def _not(e):
    return ast.UnaryOp(op=ast.Not(), operand=e)


def _flat(op, values):
    out = []
    for v in values:
        if isinstance(v, ast.BoolOp) and isinstance(v.op, type(op)):
            out.extend(v.values)      # a and (b and c) == a and b and c: same operands, same short-circuit order
        else:
            out.append(v)
    return ast.BoolOp(op=op, values=out) if len(out) > 1 else out[0]


def _tuple_of(e):
    if isinstance(e, (ast.Tuple, ast.List)) and isinstance(e.ctx, ast.Load) and e.elts \
            and all(isinstance(x, (ast.Name, ast.Constant)) for x in e.elts):
        return list(e.elts)
    return None


def truth(cx, e):
    """Normal form of `e` in a context where only its truth value is used (if / while test, operand of not/and/or
    inside such a context)."""
    if isinstance(e, ast.UnaryOp) and isinstance(e.op, ast.Not):
        return neg_nf(cx, truth(cx, e.operand))
    if isinstance(e, ast.BoolOp):
        e2 = _flat(e.op, [truth(cx, v) for v in e.values])
        return _membership(cx, e2)
    if isinstance(e, ast.Compare) and len(e.ops) == 1:
        l, r, op = e.left, e.comparators[0], e.ops[0]
        if isinstance(op, (ast.Eq, ast.NotEq)):
            # [A3] for a builtin int i:  i == 0  <=>  not i ;  i != 0  <=>  i
            z = None
            if isinstance(r, ast.Constant) and type(r.value) is int and r.value == 0 and cx.is_int(l):
                z = l
            elif isinstance(l, ast.Constant) and type(l.value) is int and l.value == 0 and cx.is_int(r):
                z = r
            if z is not None and not isinstance(z, ast.Constant):
                return _not(z) if isinstance(op, ast.Eq) else z
        if isinstance(op, (ast.In, ast.NotIn)):
            el = _tuple_of(r)
            if el is not None and isinstance(r, ast.List):
                # membership in a list display and in a tuple display of the same elements is the same test
                r = ast.Tuple(elts=el, ctx=ast.Load())
                e = ast.Compare(left=l, ops=[op], comparators=[r])
            if el is not None and len(el) == 1 and isinstance(l, ast.Name) and cx.is_int(l) \
                    and all(cx.is_int(x, True) for x in el):
                # [A3] i in (A,)  <=>  i == A   for builtin ints (None allowed on the right)
                return ast.Compare(left=l, ops=[ast.Eq() if isinstance(op, ast.In) else ast.NotEq()],
                                   comparators=[el[0]])
        return e
    return e


def _membership(cx, e):
    """[A3] x == A or x == B  ->  x in (A, B);   x != A and x != B  ->  x not in (A, B)   (x a builtin-int local,
    A, B builtin ints or None: `in` on a tuple display tests `A is x or A == x` element by element, left to right)."""
    if not isinstance(e, ast.BoolOp):
        return e
    want = ast.Eq if isinstance(e.op, ast.Or) else ast.NotEq
    subj, elts = None, []
    for v in e.values:
        if not (isinstance(v, ast.Compare) and len(v.ops) == 1 and isinstance(v.ops[0], want)
                and isinstance(v.left, ast.Name) and isinstance(v.comparators[0], (ast.Name, ast.Constant))):
            return e
        if subj is None:
            subj = v.left
        elif subj.id != v.left.id:
            return e
        elts.append(v.comparators[0])
    if not (cx.is_int(subj) and all(cx.is_int(x, True) for x in elts)):
        return e
    return ast.Compare(left=subj, ops=[ast.In() if want is ast.Eq else ast.NotIn()],
                       comparators=[ast.Tuple(elts=elts, ctx=ast.Load())])


def neg_nf(cx, e):
    """Negation of a test that is already in `truth` normal form, again in normal form (an involution)."""
    if isinstance(e, ast.UnaryOp) and isinstance(e.op, ast.Not):
        return e.operand
    if isinstance(e, ast.BoolOp):
        # De Morgan: same operands in the same order, the same ones are skipped by short-circuiting
        op = ast.Or() if isinstance(e.op, ast.And) else ast.And()
        return _flat(op, [neg_nf(cx, v) for v in e.values])
    if isinstance(e, ast.Compare) and len(e.ops) == 1:
        t = type(e.ops[0])
        if t in _NEG_CMP:
            return ast.Compare(left=e.left, ops=[_NEG_CMP[t]()], comparators=e.comparators)
        if t in _NEG_CMP_BUILTIN and cx.builtin_pair(e.left, e.comparators[0]):
            if t in (ast.Eq, ast.NotEq) or (cx.is_int(e.left) and cx.is_int(e.comparators[0])):
                return ast.Compare(left=e.left, ops=[_NEG_CMP_BUILTIN[t]()], comparators=e.comparators)
    return _not(e)


def negate(cx, e):
    return neg_nf(cx, truth(cx, e))


# --------------------------------------------------------------------------------------------- passes 1-3

class _Fresh:
    def __init__(self, fi):
        self.used = set(fi.stores) | set(fi.loads) | set(fi.params) | fi.nested_uses
        self.k = 0

    def __call__(self, hint):
        while True:
            nm = f"_t{self.k}_{hint}"
            self.k += 1
            if nm not in self.used:
                self.used.add(nm)
                return nm


def _map_blocks(stmts, f):
    """Apply `f: list[stmt] -> list[stmt]` to every statement list of this scope, innermost first."""
    for s in stmts:
        for field in ("body", "orelse", "finalbody"):
            b = getattr(s, field, None)
            if isinstance(b, list) and b and isinstance(b[0], ast.stmt) and not isinstance(s, _SCOPES):
                setattr(s, field, _map_blocks(b, f))
        if isinstance(s, ast.Try):
            for h in s.handlers:
                h.body = _map_blocks(h.body, f)
        if isinstance(s, ast.Match):
            for c in s.cases:
                c.body = _map_blocks(c.body, f)
    out = f(stmts)
    return out


def _fix_empty(stmts):
    for s in walk_block(stmts):
        for field in ("body", "finalbody"):
            if isinstance(getattr(s, field, None), list) and not getattr(s, field) and field == "body" \
                    and not isinstance(s, ast.Module):
                s.body = [ast.Pass()]
        if isinstance(s, ast.ExceptHandler) and not s.body:
            s.body = [ast.Pass()]
    return stmts or [ast.Pass()]


def p1_strip(cx, body):
    def f(stmts):
        out = []
        for s in stmts:
            if isinstance(s, ast.Pass):
                continue
            if isinstance(s, ast.Expr) and isinstance(s.value, ast.Constant):
                continue            # docstring / constant expression statement: nothing is evaluated
            if isinstance(s, ast.AnnAssign):
                # annotations are never evaluated in a function scope (PEP 526)
                if s.value is None:
                    continue
                s = ast.Assign(targets=[s.target], value=s.value, lineno=0)
            out.append(s)
        return out
    return _map_blocks(body, f)


class _InlineConst(ast.NodeTransformer):
    def __init__(self, cx):
        self.cx = cx

    def visit_Name(self, n):
        cx = self.cx
        if isinstance(n.ctx, ast.Load) and not cx.fi.is_local(n.id):
            seen = set()
            cur = n
            while isinstance(cur, ast.Name) and cur.id not in seen and not cx.fi.is_local(cur.id):
                seen.add(cur.id)
                v = cx.mod.inlinable_constant(cur.id)      # [A1]
                if v is None:
                    break
                cur = copy.deepcopy(v)
            if cur is not n:
                if isinstance(cur, ast.Tuple):
                    cur.elts = [self.visit(x) for x in cur.elts]
                return cur
        return n

    def visit_Call(self, n):
        self.generic_visit(n)
        # [A1] dict() / list() / tuple() without arguments build the empty display
        if isinstance(n.func, ast.Name) and not n.args and not n.keywords and self.cx.mod.is_builtin(n.func.id) \
                and not self.cx.fi.is_local(n.func.id):
            if n.func.id == "dict":
                return ast.Dict(keys=[], values=[])
            if n.func.id == "list":
                return ast.List(elts=[], ctx=ast.Load())
            if n.func.id == "tuple":
                return ast.Tuple(elts=[], ctx=ast.Load())
        return n

    def visit_FunctionDef(self, n):
        return n

    visit_AsyncFunctionDef = visit_ClassDef = visit_Lambda = visit_FunctionDef


def p2_constants(cx, body):
    tr = _InlineConst(cx)
    return [tr.visit(s) for s in body]


def p2b_walrus(cx, body):
    """`if (x := E) is None: ...`  ->  `x = E; if x is None: ...`  (also for the value of an assignment / return /
    expression statement and the iterable of a `for`): only when the walrus is the very first thing the statement
    evaluates, unconditionally, so that the binding happens at the same point.  Not for `while` (re-evaluated)."""
    def split(s):
        if not (isinstance(s, (ast.If, ast.Return, ast.Expr, ast.For))
                or (isinstance(s, ast.Assign) and len(s.targets) == 1)):
            return [s]
        hdr = header_exprs(s)
        if not hdr:
            return [s]
        first = next(eval_order(hdr[0]), None)
        if first is None:
            return [s]
        n, cond = first
        if not (isinstance(n, ast.NamedExpr) and not cond and isinstance(n.target, ast.Name)):
            return [s]
        pre = ast.Assign(targets=[ast.Name(id=n.target.id, ctx=ast.Store())], value=n.value, lineno=0)
        s2 = _Swap(n, ast.Name(id=n.target.id, ctx=ast.Load())).visit(s)
        return split(pre) + split(s2)

    def f(stmts):
        return [x for s in stmts for x in split(s)]
    return _map_blocks(body, f)


def p3_expr_statements(cx, body, fresh):
    # inside a `try` of the same function a half-built dict would be observable by the handler: leave those alone
    guarded = {id(n) for t in walk_block(body) if isinstance(t, ast.Try) for n in walk_block(t.body)}

    def f(stmts):
        out = []
        for s in stmts:
            v = s.value if isinstance(s, (ast.Assign, ast.Return)) else None
            if isinstance(v, ast.IfExp) and (isinstance(s, ast.Return) or len(s.targets) == 1):
                # the value is evaluated first in both forms, then (for an assignment) the target
                def leaf(x):
                    if isinstance(s, ast.Return):
                        return ast.Return(value=x)
                    return ast.Assign(targets=[copy.deepcopy(s.targets[0])], value=x, lineno=0)
                out.extend(f([ast.If(test=v.test, body=[leaf(v.body)], orelse=[leaf(v.orelse)])]))
                continue
            if isinstance(s, ast.Assign) and len(s.targets) == 1 and isinstance(s.targets[0], ast.Name) \
                    and isinstance(v, ast.DictComp) and len(v.generators) == 1:
                g = v.generators[0]
                t = s.targets[0].id
                inner = [n.id for n in ast.walk(v) if isinstance(n, ast.Name)]
                # the comprehension variable lives in its own scope: expanding it into a loop needs a variable
                # that nothing else in the function uses; the key must commute with the value (the loop
                # evaluates value, then key; the comprehension key, then value)
                if not g.is_async and isinstance(g.target, ast.Name) and t not in inner and id(s) not in guarded \
                        and cx.fi.is_local(t) and t not in cx.fi.nested_uses - set(inner) \
                        and cx.eclass(v.key) == STABLE and not any(isinstance(n, _OPAQUE + _COMPS)
                                                                   for x in (v.key, v.value, g.iter, *g.ifs)
                                                                   for n in ast.walk(x)):
                    var = fresh("c")
                    ren = _Rename({g.target.id: var})
                    key, val = ren.visit(copy.deepcopy(v.key)), ren.visit(copy.deepcopy(v.value))
                    st = ast.Assign(targets=[ast.Subscript(value=ast.Name(id=t, ctx=ast.Load()), slice=key,
                                                           ctx=ast.Store())], value=val, lineno=0)
                    for c in reversed(g.ifs):
                        st = ast.If(test=ren.visit(copy.deepcopy(c)), body=[st], orelse=[])
                    out.append(ast.Assign(targets=[ast.Name(id=t, ctx=ast.Store())],
                                          value=ast.Dict(keys=[], values=[]), lineno=0))
                    out.append(ast.For(target=ast.Name(id=var, ctx=ast.Store()), iter=g.iter, body=[st], orelse=[],
                                       lineno=0))
                    continue
            out.append(s)
        return out
    return _map_blocks(body, f)


class _Rename(ast.NodeTransformer):
    def __init__(self, m):
        self.m = m

    def visit_Name(self, n):
        if n.id in self.m:
            return ast.Name(id=self.m[n.id], ctx=n.ctx)
        return n

    def visit_ExceptHandler(self, n):
        self.generic_visit(n)
        if n.name in self.m:
            n.name = self.m[n.name]
        return n


# --------------------------------------------------------------------------------------------- pass 5: control shape

def terminates(stmts):
    """Every path through the block ends in return / raise / continue / break (syntactic, conservative)."""
    if not stmts:
        return False
    last = stmts[-1]
    if isinstance(last, _TERMINATORS):
        return True
    if isinstance(last, ast.If):
        return terminates(last.body) and terminates(last.orelse)
    return False


def _bare_return(s):
    return isinstance(s, ast.Return) and (s.value is None or (isinstance(s.value, ast.Constant) and s.value.value is None))


def shape(cx, stmts, tail, loop_tail=False):
    """tail: falling off the end of this block returns None from the function.  loop_tail: falling off the end of
    this block continues the innermost loop."""
    stmts = list(stmts)
    # (a) statements behind an `if` one of whose branches cannot fall through belong to the other branch
    for i, s in enumerate(stmts):
        if isinstance(s, ast.If) and i + 1 < len(stmts):
            rest = stmts[i + 1:]
            if terminates(s.body) and not terminates(s.orelse):
                s.orelse = s.orelse + rest
                stmts = stmts[:i + 1]
                break
            if terminates(s.orelse) and not terminates(s.body):
                s.body = s.body + rest
                stmts = stmts[:i + 1]
                break
    # (b) sub-blocks
    n = len(stmts)
    for i, s in enumerate(stmts):
        last = i == n - 1
        if isinstance(s, ast.If):
            s.test = truth(cx, s.test)
            s.body = shape(cx, s.body, tail and last, loop_tail and last)
            s.orelse = shape(cx, s.orelse, tail and last, loop_tail and last)
        elif isinstance(s, (ast.For, ast.AsyncFor, ast.While)):
            if isinstance(s, ast.While):
                s.test = truth(cx, s.test)
            s.body = shape(cx, s.body, False, True)
            s.orelse = shape(cx, s.orelse, False, False)
        elif isinstance(s, (ast.With, ast.AsyncWith)):
            s.body = shape(cx, s.body, False, False)
        elif isinstance(s, ast.Try):
            s.body = shape(cx, s.body, False, False)
            s.orelse = shape(cx, s.orelse, False, False)
            s.finalbody = shape(cx, s.finalbody, False, False)
            for h in s.handlers:
                h.body = shape(cx, h.body, False, False)
    # (c) a return statement that ends both branches of the last `if` is executed last either way: hoist it
    while stmts and isinstance(stmts[-1], ast.If):
        s = stmts[-1]
        if s.body and s.orelse and isinstance(s.body[-1], ast.Return) and isinstance(s.orelse[-1], ast.Return) \
                and same(s.body[-1], s.orelse[-1]):
            r = s.body.pop()
            s.orelse.pop()
            stmts.append(r)
        else:
            break
    # (d) `return` / `return None` where falling through returns None anyway; `continue` at the end of a loop body
    if stmts and ((tail and _bare_return(stmts[-1])) or (loop_tail and isinstance(stmts[-1], ast.Continue))):
        stmts.pop()
        if stmts and isinstance(stmts[-1], ast.If):      # the branches of that `if` are now in tail position
            s = stmts[-1]
            s.body = shape(cx, s.body, tail, loop_tail)
            s.orelse = shape(cx, s.orelse, tail, loop_tail)
    # (e) an empty then-branch: test the negation instead
    out = []
    for s in stmts:
        if isinstance(s, ast.If) and not s.body and s.orelse:
            s.test, s.body, s.orelse = neg_nf(cx, s.test), s.orelse, []
        out.append(s)
    return out


def _stored_names(stmts):
    out = set()
    for n in walk_block(stmts):
        if isinstance(n, ast.Name) and isinstance(n.ctx, (ast.Store, ast.Del)):
            out.add(n.id)
        elif isinstance(n, ast.ExceptHandler) and n.name:
            out.add(n.name)
        elif isinstance(n, (ast.FunctionDef, ast.AsyncFunctionDef, ast.ClassDef)):
            out.add(n.name)
        elif isinstance(n, (ast.Import, ast.ImportFrom)):
            out.update(a.asname or a.name.split(".")[0] for a in n.names)
        elif isinstance(n, ast.NamedExpr) and isinstance(n.target, ast.Name):
            out.add(n.target.id)
    return out


def p5b_asserts(cx, body):
    """Drop `assert T` where T is known to hold: T (in test normal form) is the test of an enclosing `if` / `while`
    (or the negation of it, in the else branch) or of an earlier assert, T is STABLE - it depends on nothing but
    the bindings of locals ([A3] for int / str operands) - and none of these locals is rebound in between."""
    fi = cx.fi

    def fact(t):
        names = _names(t)
        if names and not _has_opaque(t) and cx.eclass(t) == STABLE \
                and all(fi.is_local(n) and n not in fi.declared and n not in fi.nested_uses for n in names):
            return ast.dump(t), frozenset(names)
        return None

    def kill(facts, names):
        return {k: v for k, v in facts.items() if not (v & names)}

    def add(facts, t):
        fk = fact(t)
        if fk:
            facts[fk[0]] = fk[1]

    def go(stmts, facts):
        facts, out = dict(facts), []
        for s in stmts:
            if isinstance(s, ast.Assert):
                t = truth(cx, s.test)
                if ast.dump(t) in facts:
                    continue
                out.append(s)
                add(facts, t)
                continue
            if isinstance(s, ast.If):
                t = truth(cx, s.test)
                fb, fo = dict(facts), dict(facts)
                add(fb, t)
                add(fo, neg_nf(cx, t))
                s.body, s.orelse = go(s.body, fb), go(s.orelse, fo)
            elif isinstance(s, (ast.While, ast.For, ast.AsyncFor)):
                inner = kill(facts, _stored_names([s]))
                fb = dict(inner)
                if isinstance(s, ast.While):
                    add(fb, truth(cx, s.test))
                s.body, s.orelse = go(s.body, fb), go(s.orelse, inner)
            elif isinstance(s, (ast.With, ast.AsyncWith)):
                s.body = go(s.body, kill(facts, _stored_names([s])))
            elif isinstance(s, ast.Try):
                inner = kill(facts, _stored_names([s]))
                s.body, s.orelse, s.finalbody = go(s.body, inner), go(s.orelse, inner), go(s.finalbody, inner)
                for h in s.handlers:
                    h.body = go(h.body, inner)
            facts = kill(facts, _stored_names([s]))
            out.append(s)
        return out
    return go(body, {})


# --------------------------------------------------------------------------------------------- pass 4: private helpers

def _private(name):
    return name.startswith("_") and not name.startswith("__")


def _plain_method(fn):
    return isinstance(fn, ast.FunctionDef) and not fn.decorator_list


def _resolve(cx, call, keep):
    """-> (FunctionDef, receiver expr or None, class or None) of a private helper of this module [A1, A4]"""
    f = call.func
    if None in cx.mod.attr_stores:
        return None      # a setattr / delattr with a computed name somewhere in the package
    if isinstance(f, ast.Name) and _private(f.id) and f.id not in keep and not cx.fi.is_local(f.id) \
            and f.id in cx.mod.funcs and _plain_method(cx.mod.funcs[f.id]) and f.id not in cx.mod.attr_stores:
        return cx.mod.funcs[f.id], None, None
    if isinstance(f, ast.Attribute) and isinstance(f.value, ast.Name) and _private(f.attr) and f.attr not in keep \
            and cx.mod.closed_world and cx.mod.method_defs.get(f.attr, 0) == 1 and f.attr not in cx.mod.attr_stores \
            and cx.cls is not None and _plain_method(cx.fi.fn) and cx.fi.params \
            and f.value.id == cx.fi.params[0] and cx.fi.stores.get(f.value.id, 0) == 0 \
            and f.value.id not in cx.fi.declared:
        defs = [s for s in cx.cls.body if isinstance(s, (ast.FunctionDef, ast.AsyncFunctionDef)) and s.name == f.attr]
        others = [n for s in cx.cls.body for n in walk_block([s])
                  if isinstance(n, ast.Name) and n.id == f.attr and isinstance(n.ctx, ast.Store)]
        if len(defs) == 1 and not others and _plain_method(defs[0]):
            return defs[0], f.value, cx.cls
    return None


def _bind_args(fn, call, recv):
    """-> [(param, expr)] in evaluation order, or None"""
    a = fn.args
    if a.vararg or a.kwarg or any(isinstance(x, ast.Starred) for x in call.args) \
            or any(k.arg is None for k in call.keywords):
        return None
    pos = [x.arg for x in a.posonlyargs + a.args]
    out, given = [], set()
    actual = ([recv] if recv is not None else []) + list(call.args)
    if len(actual) > len(pos):
        return None
    for p, e in zip(pos, actual):
        out.append((p, e))
        given.add(p)
    names = [x.arg for x in a.args + a.kwonlyargs]
    for k in call.keywords:
        if k.arg in given or k.arg not in names:
            return None
        out.append((k.arg, k.value))
        given.add(k.arg)
    defaults = dict(zip(pos[len(pos) - len(a.defaults):], a.defaults))
    defaults.update({x.arg: d for x, d in zip(a.kwonlyargs, a.kw_defaults) if d is not None})
    for p in pos + [x.arg for x in a.kwonlyargs]:
        if p not in given:
            d = defaults.get(p)
            if not isinstance(d, ast.Constant):
                return None
            out.append((p, d))
    return out


def _returns_at_tail(stmts):
    """Return statements occur only as the last statement of the block or of the branches of a last `if`."""
    for s in stmts[:-1]:
        if any(isinstance(n, ast.Return) for n in [s, *walk_scope(s)]):
            return False
    if not stmts:
        return True
    last = stmts[-1]
    if isinstance(last, ast.Return):
        return True
    if isinstance(last, ast.If):
        return _returns_at_tail(last.body) and _returns_at_tail(last.orelse)
    return not any(isinstance(n, ast.Return) for n in [last, *walk_scope(last)])


def _replace_returns(stmts, mk):
    """mk(value expr or None) -> list of statements standing for `return value` / falling off the end"""
    if stmts and isinstance(stmts[-1], ast.Return):
        return stmts[:-1] + mk(stmts[-1].value)
    if stmts and isinstance(stmts[-1], ast.If) and (terminates(stmts[-1].body) or terminates(stmts[-1].orelse)
                                                     or any(isinstance(n, ast.Return)
                                                            for n in walk_scope(stmts[-1]))):
        s = stmts[-1]
        s.body = _replace_returns(s.body, mk)
        s.orelse = _replace_returns(s.orelse, mk)
        return stmts
    return stmts + mk(None)


class _Swap(ast.NodeTransformer):
    def __init__(self, old, new):
        self.old, self.new = old, new

    def generic_visit(self, node):
        if node is self.old:
            return self.new
        return super().generic_visit(node)

    def visit(self, node):
        if node is self.old:
            return self.new
        return super().visit(node)


def p4_helpers(cx, body, fresh, keep, stack):
    changed = [False]

    def try_inline(s):
        if not (isinstance(s, (ast.Return, ast.Expr)) or (isinstance(s, ast.Assign) and len(s.targets) == 1)):
            return None
        hdr = header_exprs(s)
        order = [x for e in hdr for x in eval_order(e)]
        for k, (n, cond) in enumerate(order):
            if not isinstance(n, ast.Call):
                continue
            r = _resolve(cx, n, keep)
            if r is None:
                continue
            fn, recv, cls = r
            if cond or fn.name in stack:
                return None
            inside = {id(x) for x in ast.walk(n)}
            for m, _c in order[:k]:
                if id(m) not in inside and (isinstance(m, _OPAQUE) or cx.own_class(m) != STABLE):
                    return None      # something that need not commute with the helper's body runs before the call
            binds = _bind_args(fn, n, recv)
            if binds is None:
                return None
            if any(isinstance(x, _OPAQUE) for _p, e in binds for x in ast.walk(e)):
                return None
            callee = copy.deepcopy(fn)
            if any(isinstance(x, (ast.Yield, ast.YieldFrom, ast.Await, ast.Global, ast.Nonlocal, ast.Lambda,
                                  ast.FunctionDef, ast.AsyncFunctionDef, ast.ClassDef, ast.Try))
                   or (isinstance(x, ast.Name) and isinstance(x.ctx, ast.Del))
                   for x in walk_block(callee.body)):
                return None
            cfi = FuncInfo(callee)
            ccx = Ctx(cx.mod, cfi, cls)
            cfresh = _Fresh(cfi)
            cbody = front(ccx, callee.body, cfresh, keep, stack + [fn.name])
            callee.body = cbody
            cfi.refresh()
            if not _returns_at_tail(cbody):
                return None
            for x in walk_block(cbody):
                if isinstance(x, ast.Name) and not cfi.is_local(x.id) and cx.fi.is_local(x.id):
                    return None      # a global of the helper would be captured by a local of the host
            ren = {nm: fresh(nm.strip("_") or "x") for nm in sorted(cfi.locals)}
            rn = _Rename(ren)
            cbody = [rn.visit(x) for x in cbody]
            pre = [ast.Assign(targets=[ast.Name(id=ren[p], ctx=ast.Store())], value=e, lineno=0) for p, e in binds]
            if isinstance(s, ast.Expr) and s.value is n:
                inl = _replace_returns(cbody, lambda v: [] if v is None or isinstance(v, (ast.Constant, ast.Name))
                                       else [ast.Expr(value=v)])
                return pre + inl
            res = fresh("r")

            def mk(v):
                return [ast.Assign(targets=[ast.Name(id=res, ctx=ast.Store())],
                                   value=v if v is not None else ast.Constant(value=None), lineno=0)]
            inl = _replace_returns(cbody, mk)
            s2 = _Swap(n, ast.Name(id=res, ctx=ast.Load())).visit(s)
            return pre + inl + [s2]

    def f(stmts):
        out = []
        for s in stmts:
            r = try_inline(s)
            if r is None:
                out.append(s)
            else:
                changed[0] = True
                out.extend(r)
        return out
    for _ in range(8):
        changed[0] = False
        body = _map_blocks(body, f)
        cx.fi.fn.body = body
        cx.fi.refresh()
        if not changed[0]:
            break
    return body


# --------------------------------------------------------------------------------------------- pass 6: temporaries

def _commute(c1, c2):
    return c1 == STABLE or c2 == STABLE or (c1 == READ and c2 == READ)


def _names(e):
    return {n.id for n in ast.walk(e) if isinstance(n, ast.Name)}


def _has_opaque(e):
    return any(isinstance(n, _OPAQUE) for n in ast.walk(e))


def _simple_assign(s):
    return isinstance(s, ast.Assign) and len(s.targets) == 1 and isinstance(s.targets[0], ast.Name)


def _count_loads(stmts, name):
    return sum(1 for n in walk_block(stmts) if isinstance(n, ast.Name) and n.id == name and isinstance(n.ctx, ast.Load))


def _stmt_order(body):
    """statement -> position in a pre-order walk of the statements of the scope"""
    pos, k = {}, [0]

    def go(stmts):
        for s in stmts:
            pos[id(s)] = k[0]
            k[0] += 1
            for field in ("body", "orelse", "finalbody"):
                b = getattr(s, field, None)
                if isinstance(b, list) and b and isinstance(b[0], ast.stmt) and not isinstance(s, _SCOPES):
                    go(b)
            for h in getattr(s, "handlers", []) or []:
                go(h.body)
    go(body)
    return pos


def _store_stmt(body, name):
    """the statements (pre-order positions) that store `name`"""
    pos = _stmt_order(body)
    out = []

    def go(stmts):
        for s in stmts:
            own = [c for c in ast.iter_child_nodes(s) if not isinstance(c, ast.stmt)]
            direct = False
            for c in own:
                for n in [c, *walk_scope(c)]:
                    if isinstance(n, ast.Name) and n.id == name and isinstance(n.ctx, (ast.Store, ast.Del)):
                        direct = True
            if direct:
                out.append(pos[id(s)])
            for field in ("body", "orelse", "finalbody"):
                b = getattr(s, field, None)
                if isinstance(b, list) and b and isinstance(b[0], ast.stmt) and not isinstance(s, _SCOPES):
                    go(b)
            for h in getattr(s, "handlers", []) or []:
                if h.name == name:
                    out.append(pos[id(s)])
                go(h.body)
    go(body)
    return out, pos


def p6_temporaries(cx, body):
    fi = cx.fi

    def eligible(x):
        return fi.is_local(x) and x not in fi.params and fi.stores.get(x, 0) == 1 and x not in fi.nested_uses \
            and x not in fi.declared

    def one_pass(stmts):
        for i, s in enumerate(stmts):
            if not _simple_assign(s):
                continue
            x, E = s.targets[0].id, s.value
            if not eligible(x) or _has_opaque(E) or x in _names(E):
                continue
            rest = stmts[i + 1:]
            total = fi.loads.get(x, 0)
            # --- alias of a local that is not rebound afterwards
            if isinstance(E, ast.Name) and fi.is_local(E.id) and E.id not in fi.nested_uses \
                    and _count_loads(rest, x) == total:
                y = E.id
                where, pos = _store_stmt(fi.fn.body, y)
                ok = (not where) if y in fi.params else (len(where) == 1 and fi.stores.get(y, 0) == 1
                                                         and where[0] < pos[id(s)])
                if ok:
                    rn = _Rename({x: y})
                    return stmts[:i] + [rn.visit(r) for r in rest]
            # --- single use
            if total != 1:
                continue
            cE = cx.eclass(E)
            reads = _names(E)
            for j, u in enumerate(rest):
                hdr = header_exprs(u)
                order = [p for e in hdr for p in eval_order(e)]
                hit = [k for k, (n, _c) in enumerate(order)
                       if isinstance(n, ast.Name) and n.id == x and isinstance(n.ctx, ast.Load)]
                if hit:
                    k = hit[0]
                    use, cond = order[k]
                    before = order[:k]
                    if cond or any(isinstance(m, _OPAQUE) or not _commute(cE, cx.own_class(m)) for m, _c in before):
                        break
                    stmts = list(stmts)
                    stmts[i + 1 + j] = _Swap(use, E).visit(u)
                    del stmts[i]
                    return stmts
                # the definition has to move across statement u
                if not (_simple_assign(u) and u.targets[0].id != x and u.targets[0].id not in reads
                        and not _has_opaque(u.value) and _commute(cE, cx.eclass(u.value))
                        and _count_loads([u], x) == 0):
                    break
        return None

    # blocks are rewritten one substitution at a time, with fresh counts over the whole function each time
    for _ in range(200):
        fi.fn.body = body
        fi.refresh()
        done = [False]

        def g(stmts):
            if done[0]:
                return stmts
            r = one_pass(stmts)
            if r is None:
                return stmts
            done[0] = True
            return r
        body = _map_blocks(body, g)
        if not done[0]:
            break
    fi.fn.body = body
    fi.refresh()
    return body


# --------------------------------------------------------------------------------------------- pass 7: order of runs

def _summary(cx, s):
    """(kind, key, reads, class) of an assignment that may take part in reordering, else None"""
    if not (isinstance(s, ast.Assign) and len(s.targets) == 1) or _has_opaque(s.value):
        return None
    t = s.targets[0]
    if isinstance(t, ast.Name):
        if not cx.fi.is_local(t.id) or t.id in cx.fi.nested_uses:
            return None
        return ("name", t.id, _names(s.value), cx.eclass(s.value))
    if isinstance(t, ast.Attribute) and isinstance(t.value, ast.Name) and cx.fi.is_local(t.value.id):
        return ("attr", t.attr, _names(s.value) | {t.value.id}, cx.eclass(s.value))
    return None


def _independent(a, b):
    (ka, ta, ra, ca), (kb, tb, rb, cb) = a, b
    if ka == "name" and kb == "name":
        return ta != tb and ta not in rb and tb not in ra and _commute(ca, cb)
    # a store to an attribute writes the heap: it commutes with a statement that does not read the heap, and with
    # a store to a different attribute name [A2]
    if ca != STABLE or cb != STABLE:
        return False
    if ka == "attr" and kb == "attr":
        return ta != tb
    name, reads_of_attr = (ta, rb) if ka == "name" else (tb, ra)
    return name not in reads_of_attr


def p7_order(cx, body):
    def f(stmts):
        out, i = [], 0
        while i < len(stmts):
            j = i
            sums = []
            while j < len(stmts):
                sm = _summary(cx, stmts[j])
                if sm is None:
                    break
                sums.append(sm)
                j += 1
            if j - i >= 2:
                run = stmts[i:j]
                keys = [(src(s.value), src(s.targets[0]) if sums[k][0] == "attr" else "") for k, s in enumerate(run)]
                left = list(range(len(run)))
                while left:
                    # candidates: statements all of whose remaining predecessors are independent of them
                    cands = [k for k in left if all(_independent(sums[p], sums[k]) for p in left if p < k)]
                    best = min(cands, key=lambda k: (keys[k], k))
                    out.append(run[best])
                    left.remove(best)
            else:
                out.extend(stmts[i:j])
            if j < len(stmts):
                out.append(stmts[j])
            i = j + 1
        return out
    return _map_blocks(body, f)


# --------------------------------------------------------------------------------------------- pass 8: names

def p8_rename(cx, body, prefix="_v"):
    fi = cx.fi
    fi.fn.body = body
    fi.refresh()
    scope_uses = set()
    for n in walk_block(body):
        if isinstance(n, _SCOPES):
            a = getattr(n, "args", None)
            if a is not None:
                scope_uses.update(x.arg for x in a.posonlyargs + a.args + a.kwonlyargs)
                scope_uses.update(x.arg for x in (a.vararg, a.kwarg) if x)
            scope_uses.update(m.id for m in ast.walk(n) if isinstance(m, ast.Name))
            if hasattr(n, "name"):
                scope_uses.add(n.name)
    order = []

    def store(name):
        if name not in order:
            order.append(name)

    def expr(e):
        # comprehension variables are bound before the element expression is evaluated
        if isinstance(e, _COMPS):
            for g in e.generators:
                expr(g.iter)
                expr(g.target)
                for c in g.ifs:
                    expr(c)
            for field in ("key", "value", "elt"):
                if hasattr(e, field):
                    expr(getattr(e, field))
            return
        if isinstance(e, ast.Name):
            if isinstance(e.ctx, (ast.Store, ast.Del)):
                store(e.id)
            return
        if isinstance(e, _SCOPES):
            return
        for c in ast.iter_child_nodes(e):
            expr(c)

    def go(stmts):
        for s in stmts:
            if isinstance(s, (ast.Assign, ast.AugAssign, ast.AnnAssign)):
                if getattr(s, "value", None) is not None:
                    expr(s.value)
                for t in (s.targets if isinstance(s, ast.Assign) else [s.target]):
                    expr(t)
            elif isinstance(s, (ast.For, ast.AsyncFor)):
                expr(s.iter)
                expr(s.target)
                go(s.body)
                go(s.orelse)
            elif isinstance(s, (ast.With, ast.AsyncWith)):
                for it in s.items:
                    expr(it.context_expr)
                    if it.optional_vars is not None:
                        expr(it.optional_vars)
                go(s.body)
            elif isinstance(s, ast.Try):
                go(s.body)
                for h in s.handlers:
                    if h.type is not None:
                        expr(h.type)
                    if h.name:
                        store(h.name)
                    go(h.body)
                go(s.orelse)
                go(s.finalbody)
            elif isinstance(s, (ast.If, ast.While)):
                expr(s.test)
                go(s.body)
                go(s.orelse)
            elif isinstance(s, _SCOPES):
                continue
            else:
                for c in ast.iter_child_nodes(s):
                    if isinstance(c, ast.stmt):
                        go([c])
                    else:
                        expr(c)
    go(body)
    todo = [n for n in order if fi.is_local(n) and n not in fi.params and n not in scope_uses]
    taken = (set(fi.loads) | set(fi.stores) | set(fi.params) | scope_uses) - set(todo)
    m, k = {}, 0
    for n in todo:
        while f"{prefix}{k}" in taken:
            k += 1
        m[n] = f"{prefix}{k}"
        k += 1
    # two-step so that a source that already uses _v names is renamed consistently
    tmp = {n: f"\x00{i}" for i, n in enumerate(todo)}
    body = [_Rename(tmp).visit(s) for s in body]
    body = [_Rename({tmp[n]: m[n] for n in todo}).visit(s) for s in body]
    fi.fn.body = body
    fi.refresh()
    return body


# --------------------------------------------------------------------------------------------- drivers

def front(cx, body, fresh, keep, stack):
    body = p1_strip(cx, body)
    cx.fi.fn.body = body
    cx.fi.refresh()
    body = p2_constants(cx, body)
    body = p2b_walrus(cx, body)
    body = p3_expr_statements(cx, body, fresh)
    cx.fi.fn.body = body
    cx.fi.refresh()
    body = p4_helpers(cx, body, fresh, keep, stack)
    body = shape(cx, body, True)
    cx.fi.fn.body = body
    cx.fi.refresh()
    body = shape(cx, p5b_asserts(cx, body), True)
    cx.fi.fn.body = body
    cx.fi.refresh()
    return body


def canonical_function(mod, fn, cls=None, keep_calls=()):
    """Normal form of one function (a fresh tree; `fn` is not modified).  mod: ModuleInfo of its module."""
    fn = copy.deepcopy(fn)
    fi = FuncInfo(fn)
    cx = Ctx(mod, fi, cls)
    fresh = _Fresh(fi)
    body = front(cx, fn.body, fresh, set(keep_calls), [fn.name])
    body = p6_temporaries(cx, body)
    body = shape(cx, body, True)       # substitutions may have exposed tests / types to the test normal form
    for _ in range(4):
        before = [ast.dump(s) for s in body]
        body = p7_order(cx, body)
        body = p8_rename(cx, body)
        if [ast.dump(s) for s in body] == before:
            break
    fn.body = _fix_empty(body)
    ast.fix_missing_locations(fn)
    return fn, cx


def canonical_module(tree, keep_calls=(), universe=None):
    """Deep copy of `tree` with every module-level function and every method of a module-level class in normal
    form (nested functions are left alone)."""
    mod = ModuleInfo(tree, universe)
    out = copy.deepcopy(tree)
    for i, st in enumerate(tree.body):
        if isinstance(st, (ast.FunctionDef, ast.AsyncFunctionDef)):
            out.body[i] = canonical_function(mod, st, None, keep_calls)[0]
        elif isinstance(st, ast.ClassDef):
            for j, m in enumerate(st.body):
                if isinstance(m, (ast.FunctionDef, ast.AsyncFunctionDef)):
                    out.body[i].body[j] = canonical_function(mod, m, st, keep_calls)[0]
    ast.fix_missing_locations(out)
    return out
