(* Proofs/UnionFacts.v — union_mk (Python's Union[...]) neither loses nor invents members. *)
From MT Require Import Types TypesFacts.
From Coq Require Import Lia.

Lemma flatten_wf ts : Forall wf_ty ts -> Forall wf_ty (flatten ts).
Proof.
  unfold flatten. induction ts as [|t r IH]; intros H; [constructor|].
  inversion H as [|? ? Ht Hr]; subst. cbn [flat_map]. apply Forall_app. split; [|apply IH; exact Hr].
  destruct t; try (constructor; [exact Ht|constructor]).
  apply wf_TUnion. exact Ht.
Qed.

Lemma dedup_incl seen ts : incl (dedup seen ts) ts.
Proof.
  revert seen. induction ts as [|t r IH]; intros seen; cbn [dedup]; [apply incl_refl|].
  destruct (negb (has_td t) && existsb (py_eqb t) seen).
  - apply incl_tl. apply IH.
  - apply incl_cons; [left; reflexivity|]. apply incl_tl. apply IH.
Qed.

Lemma dedup_wf seen ts : Forall wf_ty ts -> Forall wf_ty (dedup seen ts).
Proof. intros H. rewrite Forall_forall in *. intros x Hx. apply H. eapply dedup_incl. exact Hx. Qed.

Lemma union_mk_wf ts : Forall wf_ty ts -> wf_ty (union_mk ts).
Proof.
  intros H. unfold union_mk. pose proof (dedup_wf [] _ (flatten_wf _ H)) as W.
  destruct (dedup [] (flatten ts)) as [|t [|t' l]].
  - apply wf_TUnion. constructor.
  - inversion W; assumption.
  - apply wf_TUnion. exact W.
Qed.

Section UnionMember.
Variable anyb : bool.
Variable sub : cls -> cls -> bool.
Notation mem := (member anyb sub).

Lemma dedup_keeps_members v : forall ts seen,
  Forall wf_ty ts -> Forall wf_ty seen ->
  existsb (mem v) ts = true ->
  existsb (mem v) (dedup seen ts) = true \/ existsb (mem v) seen = true.
Proof.
  induction ts as [|t r IH]; intros seen Wt Ws H; [discriminate H|].
  inversion Wt as [|? ? Wt0 Wr]; subst. cbn [dedup].
  destruct (negb (has_td t) && existsb (py_eqb t) seen) eqn:D.
  - cbn [existsb] in H. apply orb_prop in H. destruct H as [H|H].
    + right. apply andb_prop in D. destruct D as [_ D]. apply existsb_exists in D. destruct D as [s [Hs E]].
      apply existsb_exists. exists s. split; [exact Hs|].
      rewrite Forall_forall in Ws. eapply py_eqb_member_imp; eauto.
    + apply IH; assumption.
  - cbn [existsb] in H |- *. apply orb_prop in H. destruct H as [H|H].
    + left. rewrite H. reflexivity.
    + destruct (IH (t :: seen) Wr (Forall_cons _ Wt0 Ws) H) as [H'|H'].
      * left. rewrite H'. apply orb_true_r.
      * cbn [existsb] in H'. apply orb_prop in H'. destruct H' as [H'|H'].
        -- left. rewrite H'. reflexivity.
        -- right. exact H'.
Qed.

Lemma member_union_mk_raw v ts : mem v (union_mk ts) = existsb (mem v) (dedup [] (flatten ts)).
Proof.
  unfold union_mk. destruct (dedup [] (flatten ts)) as [|t [|t' l]].
  - rewrite member_TUnion. reflexivity.
  - cbn [existsb]. rewrite orb_false_r. reflexivity.
  - rewrite member_TUnion. reflexivity.
Qed.

(* nothing is lost *)
Lemma union_mk_complete v ts :
  Forall wf_ty ts -> existsb (mem v) ts = true -> mem v (union_mk ts) = true.
Proof.
  intros W H. rewrite member_union_mk_raw.
  rewrite <- (existsb_flatten anyb sub) in H.
  destruct (dedup_keeps_members v (flatten ts) [] (flatten_wf _ W) (Forall_nil _) H) as [H'|H'];
    [exact H'|discriminate H'].
Qed.

(* nothing is invented *)
Lemma union_mk_sound v ts : mem v (union_mk ts) = true -> existsb (mem v) ts = true.
Proof.
  rewrite member_union_mk_raw. intros H.
  rewrite <- (existsb_flatten anyb sub). apply existsb_exists in H. destruct H as [x [Hx Mx]].
  apply existsb_exists. exists x. split; [|exact Mx]. eapply dedup_incl. exact Hx.
Qed.

End UnionMember.
