"""C07 — shipped rewriters never narrow, never crash, and fire only on their trigger."""
import random

from harness import common, infer_cases, typegen
from harness.valgen import ValGen

COQ_TARGETS = ["Check/RewriteCases.vo"]
TRUSTED_BASE = ["typing's Union normalisation / == / `is` (parametrisation cache) as modelled in Model/Types.v, Model/Rewrite.v",
                "class tables (__mro__, __bases__) handed to the model are the live ones"]
ASSUMPTIONS = ["`a is b` between TypedDict-free typing aliases coincides with structural equality (typing's cache)",
               "inputs are types MonkeyType can infer or the enumerated grammar of the property"]
PARTIAL = []

HEADER = """From MT Require Import RewriteCases.
Definition h : hierarchy := %s.
Definition bt : bases_table := %s.
"""


def rewriter_objs():
    from monkeytype import typing as mt
    single = {
        "RNoOp": mt.NoOpRewriter(),
        "RRemoveEmpty": mt.RemoveEmptyContainers(),
        "RConfigDict": mt.RewriteConfigDict(),
        # (the instance with the LARGER limit is built first: a limit that leaked from a later instance into an earlier one
        #  would make the earlier one collapse unions it must leave alone)
        "(RLargeUnion 5)": mt.RewriteLargeUnion(5),
        "(RLargeUnion 2)": mt.RewriteLargeUnion(2),
        "RGenerator": mt.RewriteGenerator(),
        "RCommonBase": mt.RewriteMostSpecificCommonBase(),
    }
    return single


def default_chain_terms():
    """The Coq rewriter list of DEFAULT_REWRITER, read off the live object (the model reads its own copy
    from Gen/Constants.v; the two are compared through every DEFAULT case)."""
    from monkeytype import typing as mt
    names = []
    for r in mt.DEFAULT_REWRITER.rewriters:
        n = type(r).__name__
        names.append({"RemoveEmptyContainers": "RRemoveEmpty", "RewriteConfigDict": "RConfigDict",
                      "RewriteGenerator": "RGenerator", "NoOpRewriter": "RNoOp",
                      "RewriteMostSpecificCommonBase": "RCommonBase"}.get(n) or
                     (f"(RLargeUnion {r.max_union_len})" if n == "RewriteLargeUnion" else f"(RUnknown_{n})"))
    return names


def classify(case):
    """Known-finding classes (DESIGN 4/C07): a chain in which RemoveEmptyContainers runs after a rewriter
    that introduces Any (RewriteLargeUnion) reads that Any as 'empty container'."""
    rs = case["rs"]
    seen_rlu = False
    for r in rs:
        if r.startswith("(RLargeUnion"):
            seen_rlu = True
        if r == "RRemoveEmpty" and seen_rlu:
            return "kf_rec_after_widening"
    return None


def directed():
    """Shapes aimed at the seams between rewriters (kept small; every pair of rewriters runs on them)."""
    from typing import Any, Dict, List, Optional, Set, Tuple, Union
    from harness import fxclasses as fx
    NoneType = type(None)
    return [
        (Union[List[Union[fx.A, fx.E, fx.X]], List[int]], [[fx.A(), fx.E(), fx.X()], [1], []]),
        (Union[Set[Union[int, str, float]], Set[bool]], [{1, "a", 1.5}, {True}, set()]),
        (Union[Dict[str, Union[fx.A, fx.E, fx.X]], Dict[str, int]], [{"a": fx.A()}, {"b": 1}, {}]),
        (Union[List[Any], int], [[], 1]),
        (Optional[List[Any]], [[], None]),
        (Union[Dict[Any, Any], Dict[str, int], NoneType], [{}, {"a": 1}, None]),
        (Union[List[Any], Set[int]], [[], {1}]),
        (Union[Tuple[()], int, str, float, bytes, bool, complex], [(), 1, "s"]),
        (Union[List[int], int], [[1], 1]),
        (Union[fx.B, fx.C], [fx.B(), fx.C(), fx.D()]),
        (Union[fx.XY1, fx.YX1, fx.X, fx.Y, fx.A, fx.E, fx.F], [fx.XY1(), fx.YX1(), fx.F()]),
    ]


def run(ctx):
    from monkeytype import typing as mt
    rnd = random.Random(ctx.seed)
    ct = common.ClassTable()
    single = rewriter_objs()
    n_types = 600 if ctx.tier == "quick" else 6000
    n_vals = 300 if ctx.tier == "quick" else 4000
    dtypes = directed()
    types = list(dtypes) + [(t, None) for t in typegen.type_stream(rnd, n_types)]
    g = ValGen(rnd)
    for _ in range(n_vals):
        k = rnd.choice(infer_cases.KS)
        vs = g.values()
        try:
            types.append((infer_cases.impl_infer(vs, k), vs))
        except Exception:
            pass
    names = list(single)
    pairs = [(a, b) for a in names for b in names if a != "RNoOp" and b != "RNoOp"]
    default_terms = default_chain_terms()
    cases = []
    dist = {"raised": 0, "changed": 0}
    for i, (t, vs) in enumerate(types):
        ws = list(vs) if vs is not None else typegen.inhabitants(t)
        try:
            t_term = common.reify_type(t, ct)
            w_terms = [common.reify_value(v, ct) for v in ws]
        except RecursionError:
            continue
        # every single rewriter + default on every type; chains of pairs on a rotating subset
        chains = [([n], [single[n]]) for n in names]
        chains.append((default_terms, list(mt.DEFAULT_REWRITER.rewriters)))
        if ctx.tier == "thorough" or i % 6 == 0 or i < len(dtypes):
            sel = pairs if ((ctx.tier == "thorough" and i % 4 == 0) or i < len(dtypes)) else [pairs[(i // 6 + j * 7) % len(pairs)] for j in range(4)]
            for a, b in sel:
                chains.append(([a, b], [mt.ChainedRewriter([single[a], single[b]])]))
        for rs_terms, objs in chains:
            raised = False
            err = None
            try:
                out = t
                for o in objs:
                    out = o.rewrite(out)
                out_term = common.reify_type(out, ct)
                if out is not t:
                    dist["changed"] += 1
            except Exception as e:
                raised = True
                err = f"{type(e).__name__}: {e}"
                out_term = "TAny"
                dist["raised"] += 1
            term = (f"RCase {common.coq_list(rs_terms)} ({t_term}) ({out_term}) {common.coq_bool(raised)} "
                    f"{common.coq_list(w_terms)}")
            cases.append({"rs": rs_terms, "type": repr(t)[:300], "out": out_term, "err": err, "term": term,
                          "nontrivial": len(ws) > 0 and "TUnion" in t_term})
    header = HEADER % (ct.hierarchy(), ct.bases_table())
    outs = common.run_coq_shards(ctx.work, "c07", header, [c["term"] for c in cases], "rcase",
                                 "bad (verdict_c07 h bt) 0 cases", shard_size=500)
    bad = common.parse_bad(outs)
    failures, mismatches = [], []
    for i, code in bad:
        c = cases[i]
        rec = {"rewriters": c["rs"], "type": c["type"], "impl": c["out"], "error": c["err"], "term": c["term"]}
        if code == 2:
            rec["finding"] = classify(c)
            rec["what"] = (f"rewriter chain {c['rs']} on {c['type'][:160]}: "
                           + (f"raised {c['err']}" if c["err"] else "narrowed a witness value or changed the type without its trigger"))
            failures.append(rec)
        else:
            mismatches.append(rec)
    distinct = len({common.digest(c["term"]) for c in cases if c["nontrivial"]})
    dist["types"] = len(types)
    dist["chains_per_type_min"] = len(names) + 1
    return {
        "evaluations": len(cases), "distinct_nontrivial": distinct,
        "rule": "systematic block of grammar types (atoms, user hierarchy with multiple inheritance, every generic kind, "
                "unions of 2..8, homogeneous-tuple and dict unions, TypedDicts) + sampled depth-2/3 types + types inferred "
                "from the C04 value stream; x {each shipped rewriter, RewriteLargeUnion(2|5), DEFAULT_REWRITER, rotating pairs}; "
                "non-trivial = input contains a union and has at least one witness value; distinct by hash of the reified case",
        "samples": [{"rewriters": c["rs"], "type": c["type"], "impl": c["out"]} for c in cases[1000:1003]],
        "distribution": dist,
        "failures": failures, "mismatches": mismatches, "relation": "corrb (rw_chain rs t) impl",
    }


def replay(ctx, payload):
    print(payload)
    return 0

CLAIM = {'note': "Trusted: Coq kernel + vm_compute; harness; typing's Union/==/`is` semantics as modelled; live "
         '__mro__/__bases__ tables.',
 'ref': '4/C07',
 'technique': 'Coq proof by nested induction over types (monotonicity of every rewriter and of chains) + vm_compute differential correspondence',
 'text': 'Coq model of the generic traversal and all shipped rewriters (Model/Rewrite.v) with DEFAULT_REWRITER regenerated from source; theorems for every class table with closed MROs, every well-formed type and every value: rw_never_narrows (each rewriter: values admitted by the input under the tight reading are admitted by the output), rw_never_narrows_annotation / _tight (the sharper per-reading statements), chain_never_narrows (every chain in which RemoveEmptyContainers never follows a RewriteLargeUnion, hence all such pairs), default_chain_never_narrows (the chain the source declares today), rw_well_formed; the trigger clause: rw_unchanged_without_trigger / rw_unchanged_unless_fires (a normal type is returned unchanged unless the documented trigger occurs at a position the rewriter visits), rw_changes_exactly_when_fires (for the rewriters of the default chain the trigger is exactly the condition for a change), large_union_only_above_max, infer_produces_normal, rw_keeps_normal; totality holds by construction of the model. Differential check over ~22k (rewriter chain, type) cases with Coq-evaluated verdicts: no exception, no witness value lost, change only with trigger, model = implementation.'}
