(* Proofs/GetTypeSound.v — get_type is sound and produces well-formed types; infer_sound. *)
From MT Require Import Types Infer TypesFacts UnionFacts InferFacts InferSound.
From Coq Require Import Lia.

Lemma nodup_strb_NoDup l : nodup_strb l = true -> NoDup l.
Proof.
  induction l as [|s r IH]; cbn [nodup_strb]; intros H; [constructor|].
  apply andb_prop in H. destruct H as [H1 H2]. constructor; [|apply IH; exact H2].
  intros Hc. apply negb_true_iff in H1.
  assert (X : existsb (String.eqb s) r = true).
  { apply existsb_exists. exists s. split; [exact Hc|apply String.eqb_refl]. }
  congruence.
Qed.

Lemma strkeys_all kvs : forallb is_strkey kvs = true -> strkeys kvs = map strkey kvs.
Proof.
  unfold strkeys. induction kvs as [|[kk vv] r IH]; cbn [forallb flat_map map]; intros H; [reflexivity|].
  apply andb_prop in H. destruct H as [H1 H2]. unfold is_strkey, strkey in *. cbn [fst] in *.
  destruct kk; try discriminate H1. cbn [app]. rewrite IH; auto.
Qed.

Section GT.
Variable sub : cls -> cls -> bool.
Hypothesis sub_refl : forall c, sub c c = true.
Variable k : nat.
Notation mem := (member false sub).

Definition gt_ok (v : value) : Prop :=
  wf_valueb v = true -> forall t, get_type k v = Some t -> mem v t = true /\ wf_ty t.

Lemma mapM_gt_ok {A} (proj : A -> value) (l : list A) ts :
  Forall (fun a => gt_ok (proj a)) l ->
  forallb (fun a => wf_valueb (proj a)) l = true ->
  mapM (fun a => get_type k (proj a)) l = Some ts ->
  Forall wf_ty ts /\ Forall2 (fun a t => mem (proj a) t = true) l ts.
Proof.
  intros HF HW HM. apply mapM_Forall2 in HM.
  induction HM as [|a t l ts Ht _ IH]; [split; constructor|].
  inversion HF as [|? ? Ha HF']; subst. cbn [forallb] in HW. apply andb_prop in HW. destruct HW as [W1 W2].
  destruct (IH HF' W2) as [I1 I2]. destruct (Ha W1 t Ht) as [M1 M2].
  split; constructor; assumption.
Qed.

Lemma Forall2_exists_mem {A} (proj : A -> value) l ts a :
  Forall2 (fun a t => mem (proj a) t = true) l ts -> In a l -> existsb (mem (proj a)) ts = true.
Proof.
  intros H. induction H as [|a0 t l ts Ht _ IH]; intros Hin; [destruct Hin|].
  cbn [existsb]. destruct Hin as [->|Hin]; [rewrite Ht; reflexivity|].
  rewrite (IH Hin). apply orb_true_r.
Qed.

Lemma shrink_top_sound ts T v :
  Forall wf_ty ts -> shrink_top k ts = Some T -> existsb (mem v) ts = true -> mem v T = true.
Proof. unfold shrink_top. apply shrink_sound; assumption. Qed.
Lemma shrink_top_wf ts T : Forall wf_ty ts -> shrink_top k ts = Some T -> wf_ty T.
Proof. unfold shrink_top. apply shrink_wf. Qed.

Lemma opt_bind_Some {A B} (o : option A) (f : A -> option B) y :
  opt_bind o f = Some y -> exists x, o = Some x /\ f x = Some y.
Proof. destruct o; cbn; intros H; [eauto|discriminate]. Qed.
Lemma option_map_Some {A B} (f : A -> B) (o : option A) y :
  option_map f o = Some y -> exists x, o = Some x /\ y = f x.
Proof. destruct o; cbn; intros H; [injection H as <-; eauto|discriminate]. Qed.

(* shared by list / set *)
Lemma seq_case es T0 (con : ty -> ty) :
  Forall gt_ok es -> forallb wf_valueb es = true ->
  opt_bind (mapM (get_type k) es) (fun ts => option_map con (shrink_top k ts)) = Some T0 ->
  exists T, T0 = con T /\ wf_ty T /\ forallb (fun e => mem e T) es = true.
Proof.
  intros HF HW H. apply opt_bind_Some in H. destruct H as [ts [HM H]].
  apply option_map_Some in H. destruct H as [T [HS ->]].
  destruct (mapM_gt_ok (fun e => e) es ts HF HW HM) as [Wts F2].
  exists T. split; [reflexivity|]. split; [eapply shrink_top_wf; eauto|].
  apply forallb_forall. intros e He. eapply shrink_top_sound; eauto.
  apply (Forall2_exists_mem (fun e => e) es ts e F2 He).
Qed.

(* shared by the non-TypedDict dict case and defaultdict *)
Lemma dict_case kvs T0 (con : ty -> ty -> ty) :
  Forall (fun kv => gt_ok (fst kv) /\ gt_ok (snd kv)) kvs ->
  forallb (fun kv => wf_valueb (fst kv) && wf_valueb (snd kv)) kvs = true ->
  opt_bind (mapM (fun kv => get_type k (fst kv)) kvs) (fun ks =>
  opt_bind (mapM (fun kv => get_type k (snd kv)) kvs) (fun vs =>
  opt_bind (shrink_top k ks) (fun kt => option_map (con kt) (shrink_top k vs)))) = Some T0 ->
  exists kt vt, T0 = con kt vt /\ wf_ty kt /\ wf_ty vt /\
    forallb (fun kv => mem (fst kv) kt && mem (snd kv) vt) kvs = true.
Proof.
  intros HF HW H.
  apply opt_bind_Some in H. destruct H as [ks [HK H]].
  apply opt_bind_Some in H. destruct H as [vs [HV H]].
  apply opt_bind_Some in H. destruct H as [kt [HSK H]].
  apply option_map_Some in H. destruct H as [vt [HSV ->]].
  assert (HF1 : Forall (fun kv => gt_ok (fst kv)) kvs) by (rewrite Forall_forall in *; intros x Hx; apply HF; exact Hx).
  assert (HF2 : Forall (fun kv => gt_ok (snd kv)) kvs) by (rewrite Forall_forall in *; intros x Hx; apply HF; exact Hx).
  assert (HW1 : forallb (fun kv => wf_valueb (fst kv)) kvs = true).
  { rewrite forallb_forall in *. intros x Hx. specialize (HW x Hx). apply andb_prop in HW. tauto. }
  assert (HW2 : forallb (fun kv => wf_valueb (snd kv)) kvs = true).
  { rewrite forallb_forall in *. intros x Hx. specialize (HW x Hx). apply andb_prop in HW. tauto. }
  destruct (mapM_gt_ok fst kvs ks HF1 HW1 HK) as [Wks F2k].
  destruct (mapM_gt_ok snd kvs vs HF2 HW2 HV) as [Wvs F2v].
  exists kt, vt. split; [reflexivity|]. split; [exact (shrink_top_wf ks kt Wks HSK)|].
  split; [exact (shrink_top_wf vs vt Wvs HSV)|].
  apply forallb_forall. intros kv Hkv. apply andb_true_intro; split.
  - apply (shrink_top_sound ks kt _ Wks HSK). apply (Forall2_exists_mem fst kvs ks kv F2k Hkv).
  - apply (shrink_top_sound vs vt _ Wvs HSV). apply (Forall2_exists_mem snd kvs vs kv F2v Hkv).
Qed.

Lemma get_type_ok v : gt_ok v.
Proof.
  induction v as [c p|s|c| | |es IH|es IH|es IH|kvs IH|kvs IH] using value_ind'; intros WV t G;
    cbn [get_type] in G.
  - injection G as <-. split; [cbn; apply sub_refl|exact I].
  - injection G as <-. split; [cbn; apply sub_refl|exact I].
  - injection G as <-. split; [cbn; apply sub_refl|exact I].
  - injection G as <-. split; [reflexivity|exact I].
  - injection G as <-. split; [reflexivity|exact I].
  - (* list *) cbn [wf_valueb] in WV. destruct (seq_case es t TList IH WV G) as [T [-> [WT M]]].
    split; [exact M|exact WT].
  - (* set *) cbn [wf_valueb] in WV. destruct (seq_case es t TSet IH WV G) as [T [-> [WT M]]].
    split; [exact M|exact WT].
  - (* tuple *) cbn [wf_valueb] in WV. apply option_map_Some in G. destruct G as [ts [HM ->]].
    destruct (mapM_gt_ok (fun e => e) es ts IH WV HM) as [Wts F2].
    split; [|apply wf_TTuple; exact Wts]. rewrite member_TTuple.
    clear -F2. induction F2 as [|e t es ts H _ IH']; [reflexivity|]. rewrite H, IH'. reflexivity.
  - (* dict *) cbn [wf_valueb] in WV. apply andb_prop in WV. destruct WV as [ND WV].
    destruct kvs as [|kv0 kvs0]; [injection G as <-; split; [reflexivity|cbn; tauto]|].
    set (kvs := kv0 :: kvs0) in *.
    destruct (forallb is_strkey kvs && Nat.leb (List.length kvs) k) eqn:C.
    + (* TypedDict *)
      apply andb_prop in C. destruct C as [SK _].
      apply option_map_Some in G. destruct G as [r [HM ->]].
      pose proof (mapM_Forall2 _ _ _ HM) as F2.
      assert (KR : map fst r = map strkey kvs).
      { clear -F2. induction F2 as [|kv y l r Hy _ IH']; [reflexivity|]. cbn [map]. rewrite IH'. f_equal.
        destruct (get_type k (snd kv)); [|discriminate Hy]. injection Hy as <-. reflexivity. }
      assert (NDr : NoDup (map fst r)).
      { rewrite KR, <- strkeys_all by exact SK. apply nodup_strb_NoDup. exact ND. }
      assert (Each : Forall2 (fun kv y => fst y = strkey kv /\ mem (snd kv) (snd y) = true /\ wf_ty (snd y)) kvs r).
      { clear -F2 IH WV. revert IH WV. induction F2 as [|kv y l r Hy _ IH']; intros IH WV; [constructor|].
        inversion IH as [|? ? [_ Hv] IHl]; subst. cbn [forallb] in WV. apply andb_prop in WV. destruct WV as [W1 W2].
        apply andb_prop in W1. destruct W1 as [_ W1].
        constructor; [|apply IH'; assumption].
        destruct (get_type k (snd kv)) as [tv|] eqn:E; [|discriminate Hy]. injection Hy as <-.
        destruct (Hv W1 tv E) as [M1 M2]. cbn [fst snd]. auto. }
      split.
      * rewrite member_TTypedDict. apply andb_true_intro; split.
        -- apply forallb_forall. intros kv Hkv.
           rewrite forallb_forall in SK. pose proof (SK kv Hkv) as Skv. unfold is_strkey in Skv.
           destruct (fst kv) as [| s | | | | | | | |] eqn:Ek; try discriminate Skv.
           assert (X : exists y, In y r /\ fst y = s /\ mem (snd kv) (snd y) = true).
           { clear -Each Hkv Ek. induction Each as [|kv' y l r [H1 [H2 _]] _ IH']; [destruct Hkv|].
             destruct Hkv as [->|Hkv].
             - exists y. split; [left; reflexivity|]. unfold strkey in H1. rewrite Ek in H1. auto.
             - destruct (IH' Hkv) as [y' [Hy' Z]]. exists y'. split; [right; exact Hy'|exact Z]. }
           destruct X as [y [Hy [Ey My]]]. unfold field_ty.
           rewrite (lookup_f_NoDup s (snd y) r NDr); [exact My|]. rewrite <- Ey. destruct y; exact Hy.
        -- apply forallb_forall. intros y Hy.
           assert (X : exists kv, In kv kvs /\ strkey kv = fst y).
           { assert (Hk : In (fst y) (map fst r)) by (apply in_map; exact Hy).
             rewrite KR in Hk. apply in_map_iff in Hk. destruct Hk as [kv [E Hkv]]. eauto. }
           destruct X as [kv [Hkv E]]. unfold has_key. apply existsb_exists. exists kv. split; [exact Hkv|].
           rewrite forallb_forall in SK. pose proof (SK kv Hkv) as Skv. unfold is_strkey in Skv. unfold strkey in E.
           destruct (fst kv); try discriminate Skv. rewrite E. apply String.eqb_refl.
      * apply wf_TTypedDict. split; [rewrite app_nil_r; exact NDr|]. split; [|constructor].
        clear -Each. induction Each as [|kv y l r [_ [_ H3]] _ IH']; constructor; assumption.
    + destruct (dict_case kvs t TDict IH WV G) as [kt [vt [-> [W1 [W2 M]]]]].
      split; [exact M|cbn; tauto].
  - (* defaultdict *) cbn [wf_valueb] in WV.
    destruct (dict_case kvs t TDefaultDict IH WV G) as [kt [vt [-> [W1 [W2 M]]]]].
    split; [exact M|cbn; tauto].
Qed.

(* C04, soundness half: every observed value is a member of the single inferred type *)
Theorem infer_sound_gen vs t v :
  forallb wf_valueb vs = true -> infer k vs = Some t -> In v vs -> mem v t = true.
Proof.
  unfold infer. intros WV H Hin. apply opt_bind_Some in H. destruct H as [ts [HM HS]].
  assert (HF : Forall gt_ok vs) by (rewrite Forall_forall; intros x _; apply get_type_ok).
  destruct (mapM_gt_ok (fun e => e) vs ts HF WV HM) as [Wts F2].
  eapply shrink_top_sound; eauto. apply (Forall2_exists_mem (fun e => e) vs ts v F2 Hin).
Qed.

Theorem infer_wf vs t : forallb wf_valueb vs = true -> infer k vs = Some t -> wf_ty t.
Proof.
  unfold infer. intros WV H. apply opt_bind_Some in H. destruct H as [ts [HM HS]].
  assert (HF : Forall gt_ok vs) by (rewrite Forall_forall; intros x _; apply get_type_ok).
  destruct (mapM_gt_ok (fun e => e) vs ts HF WV HM) as [Wts F2].
  eapply shrink_top_wf; eauto.
Qed.

End GT.

Lemma subclass_refl h c : subclass h c c = true.
Proof. unfold subclass. rewrite N.eqb_refl. reflexivity. Qed.

(* tight reading (Any admits nothing): the strongest form *)
Lemma infer_sound_hier (h : hierarchy) (k : nat) (vs : list value) (t : ty) (v : value) :
  forallb wf_valueb vs = true -> infer k vs = Some t -> In v vs -> member false (subclass h) v t = true.
Proof. apply infer_sound_gen. apply subclass_refl. Qed.

(* annotation reading (Any admits everything): a corollary *)
Lemma infer_sound_hier_anno (h : hierarchy) (k : nat) (vs : list value) (t : ty) (v : value) :
  forallb wf_valueb vs = true -> infer k vs = Some t -> In v vs -> member true (subclass h) v t = true.
Proof. intros W I Hv. apply member_any_mono. eapply infer_sound_hier; eauto. Qed.

Lemma infer_wf_closed (k : nat) (vs : list value) (t : ty) :
  forallb wf_valueb vs = true -> infer k vs = Some t -> wf_ty t.
Proof. apply (infer_wf (fun c a => N.eqb c a)). intros c. apply N.eqb_refl. Qed.
