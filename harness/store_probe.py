"""Journal of what the REAL SQLiteStore.add / encoding.serialize_traces of the tree under test do, for
harness/extract_store.py (run as `python -m harness.store_probe` with PYTHONPATH=<tree>:/verif; prints one JSON line).

add() is run on a journaling connection proxy (records __enter__, executemany(sql, rows), __exit__(exc) and any other
use of the connection) with a journaling generator of traces (records each trace handed out and exhaustion)."""
import datetime
import json
import logging
import sqlite3
import sys

T_SENT = "T_SENTINEL_tbl"


def main():
    from monkeytype import encoding as enc
    from monkeytype.db import sqlite as sq
    from monkeytype.tracing import CallTrace

    records = []

    class H(logging.Handler):
        def emit(self, rec):
            records.append(bool(rec.exc_info))
    lg = logging.getLogger("monkeytype.encoding")
    lg.addHandler(H())
    lg.propagate = False

    funcs = {}

    def func(i):
        if i not in funcs:
            def f(a):
                pass
            f.__module__, f.__qualname__ = f"Mod{i}", f"Qual{i}"
            funcs[i] = f
        return funcs[i]

    def good(i):
        return CallTrace(func(i), {"a": int}, str, float)

    class Evil:
        def __getattr__(self, name):
            if name == "__qualname__":
                raise KeyboardInterrupt("probe")
            raise AttributeError(name)
    bads = {"bad": lambda: CallTrace(func(900), {"a": 3}, int),
            "unhashable": lambda: CallTrace(func(901), {"a": [int]}, int),
            "evil": lambda: CallTrace(func(902), {"a": Evil()}, int)}

    def expected(t):
        try:
            r = enc.CallTraceRow.from_trace(t)
        except Exception:
            return None
        return {"module": r.module, "qualname": r.qualname, "arg_types": r.arg_types, "return_type": r.return_type,
                "yield_type": r.yield_type}

    J = []

    def handing_out(traces):
        for i, t in enumerate(traces):
            J.append(["yield", i])
            yield t
        J.append(["exhausted"])

    def val(v):
        if isinstance(v, datetime.datetime):
            return "<now>"
        if v is None or isinstance(v, str):
            return v
        return "?" + repr(v)

    class Proxy:
        def __init__(self, fail=False):
            self.fail = fail

        def __enter__(self):
            J.append(["enter"])
            return self

        def __exit__(self, et, ev, tb):
            J.append(["exit", None if et is None else et.__name__])
            return False

        def executemany(self, sql, values):
            rows = [[val(v) for v in row] for row in values]
            J.append(["executemany", sql, len(rows), rows if len(rows) <= 8 else [rows[0], rows[-1]]])
            if self.fail:
                raise sqlite3.OperationalError("probe failure")

        def __getattr__(self, name):
            J.append(["other", name])
            raise AttributeError(name)

    def run(traces, fail=False, store=None, as_generator=True):
        J.clear()
        store = store or sq.SQLiteStore(Proxy(fail), T_SENT)
        exp = [expected(t) for t in traces if not isinstance(t.arg_types.get("a"), Evil)]
        try:
            ret = store.add(handing_out(traces) if as_generator else list(traces))
            raised = None
        except BaseException as e:     # noqa
            ret, raised = None, type(e).__name__
        return {"journal": [list(x) for x in J], "raised": raised, "returned_none": ret is None, "expected": exp}, store

    out = {}
    out["three"], st = run([good(0), good(1), good(2)])
    out["three_again"], _ = run([good(0), good(1), good(2)], store=st)
    out["three_list"], _ = run([good(0), good(1), good(2)], as_generator=False)
    out["empty"], _ = run([])
    out["many"], _ = run([good(i % 50) for i in range(1201)])
    out["mixed"], _ = run([good(0), bads["bad"](), good(1), bads["unhashable"](), good(2), good(2)])
    out["fails"], _ = run([good(0), good(1)], fail=True)
    out["evil"], _ = run([good(0), bads["evil"](), good(1)])
    # serialize_traces on its own: lazy, skips and logs, keeps order and duplicates
    J.clear()
    del records[:]
    it = enc.serialize_traces(handing_out([good(0), bads["bad"](), good(1), good(1)]))
    steps = []
    try:
        while True:
            r = next(it)
            steps.append([len([x for x in J if x[0] == "yield"]), r.module])
    except StopIteration:
        pass
    out["serialize"] = {"steps": steps, "logged_with_traceback": list(records), "is_iterator": iter(it) is it}
    print(json.dumps(out))


if __name__ == "__main__":
    sys.exit(main())
