"""Fail-closed `ast` extractor for the control-flow skeleton of monkeytype/tracing.py (CallTracer.handle_call,
handle_return, __call__, trace_calls) and monkeytype/db/base.py (CallTraceStoreLogger).  Writes
coq/Gen/TracerConstants.v; Model/Tracer.v and the C02/C03/C18 theorems are stated over these constants, so a
source change reaches the proofs.  Any shape that is not recognised aborts the extraction (nothing written)."""
import ast
import os

from harness import common
from harness.extract_constants import ExtractError, _parse, _find_class, _find_func, _find_assign, _cs


def _src(node):
    return ast.unparse(node)


def _opcode_table(tree):
    """X_OPCODE = opcode.opmap["NAME"] | opcode.opmap.get("NAME")  ->  {X_OPCODE: NAME}"""
    ops = {}
    for node in tree.body:
        if isinstance(node, ast.Assign) and len(node.targets) == 1 and isinstance(node.targets[0], ast.Name) \
                and node.targets[0].id.endswith("_OPCODE"):
            v = node.value
            nm = None
            if isinstance(v, ast.Subscript) and isinstance(v.slice, ast.Constant) and _src(v.value) == "opcode.opmap":
                nm = v.slice.value
            elif isinstance(v, ast.Call) and _src(v.func) == "opcode.opmap.get" and len(v.args) == 1 \
                    and isinstance(v.args[0], ast.Constant):
                nm = v.args[0].value
            if not isinstance(nm, str):
                raise ExtractError(f"opcode constant {node.targets[0].id}: unexpected shape")
            ops[node.targets[0].id] = nm
    return ops


def _ops_of_test(test, ops):
    """`last_opcode == X`  or  `last_opcode in (X, Y)`  ->  [names]"""
    if not (isinstance(test, ast.Compare) and isinstance(test.left, ast.Name) and test.left.id == "last_opcode"
            and len(test.ops) == 1):
        raise ExtractError("opcode test: " + _src(test))
    rhs = test.comparators[0]
    if isinstance(test.ops[0], ast.Eq) and isinstance(rhs, ast.Name):
        names = [rhs.id]
    elif isinstance(test.ops[0], ast.In) and isinstance(rhs, (ast.Tuple, ast.List, ast.Set)) \
            and all(isinstance(e, ast.Name) for e in rhs.elts):
        names = [e.id for e in rhs.elts]
    else:
        raise ExtractError("opcode test: " + _src(test))
    out = []
    for n in names:
        if n not in ops:
            raise ExtractError("unknown opcode constant " + n)
        out.append(ops[n])
    return out


def _strip_doc(body):
    return [s for s in body if not (isinstance(s, ast.Expr) and isinstance(s.value, ast.Constant))]


def handle_return(cls, ops):
    fn = _find_func(None, "handle_return", cls)
    body = _strip_doc(fn.body)
    # typ = get_type(arg, ...); last_opcode = frame.f_code.co_code[frame.f_lasti]; trace = self.traces.get(frame); if ...
    if len(body) != 4:
        raise ExtractError("handle_return: expected 4 statements")
    if _src(body[0]) != "typ = get_type(arg, max_typed_dict_size=self.max_typed_dict_size)":
        raise ExtractError("handle_return[0]: " + _src(body[0]))
    if _src(body[1]) != "last_opcode = frame.f_code.co_code[frame.f_lasti]":
        raise ExtractError("handle_return[1]: " + _src(body[1]))
    if _src(body[2]) != "trace = self.traces.get(frame)":
        raise ExtractError("handle_return[2]: " + _src(body[2]))
    top = body[3]
    if not (isinstance(top, ast.If) and _src(top.test) == "trace is None" and len(top.body) == 1
            and isinstance(top.body[0], ast.Return) and top.body[0].value is None and len(top.orelse) == 1
            and isinstance(top.orelse[0], ast.If)):
        raise ExtractError("handle_return: `if trace is None: return / elif` skeleton")
    y = top.orelse[0]
    yield_ops = _ops_of_test(y.test, ops)
    ybody = y.body
    if len(ybody) == 1 and _src(ybody[0]) == "trace.add_yield_type(typ)":
        guard = False
    elif len(ybody) == 1 and isinstance(ybody[0], ast.If) and not ybody[0].orelse \
            and _src(ybody[0].test) in ("not frame.f_code.co_flags & inspect.CO_COROUTINE",
                                        "not (frame.f_code.co_flags & inspect.CO_COROUTINE)") \
            and len(ybody[0].body) == 1 and _src(ybody[0].body[0]) == "trace.add_yield_type(typ)":
        guard = True
    else:
        raise ExtractError("handle_return: yield branch: " + _src(y)[:200])
    els = y.orelse
    if len(els) != 3:
        raise ExtractError("handle_return: else branch must be `if <return op>: ...; del ...; log`")
    r = els[0]
    if not (isinstance(r, ast.If) and not r.orelse and len(r.body) == 1 and _src(r.body[0]) == "trace.return_type = typ"):
        raise ExtractError("handle_return: return-type assignment: " + _src(r)[:200])
    return_ops = _ops_of_test(r.test, ops)
    if _src(els[1]) != "del self.traces[frame]" or _src(els[2]) != "self.logger.log(trace)":
        raise ExtractError("handle_return: expected `del self.traces[frame]; self.logger.log(trace)`")
    return yield_ops, guard, return_ops


def handle_call(cls):
    """The order of the guards of handle_call, as tags."""
    fn = _find_func(None, "handle_call", cls)
    tags = []
    for st in _strip_doc(fn.body):
        s = _src(st)
        if isinstance(st, ast.If) and s.startswith("if self.sample_rate and random.randrange(self.sample_rate) != 0:") \
                and len(st.body) == 1 and isinstance(st.body[0], ast.Return) and not st.orelse:
            tags.append("sample")
        elif s == "func = self._get_func(frame)":
            tags.append("lookup")
        elif isinstance(st, ast.If) and _src(st.test) == "func is None" and isinstance(st.body[0], ast.Return) and not st.orelse:
            tags.append("unresolved_return")
        elif s == "code = frame.f_code":
            pass
        elif isinstance(st, ast.If) and _src(st.test) == "frame in self.traces" and isinstance(st.body[-1], ast.Return) \
                and not st.orelse:
            tags.append("resumed_return")
        elif s == "arg_names = code.co_varnames[:code.co_argcount + code.co_kwonlyargcount]":
            tags.append("argnames")
        elif s == "arg_types = {}":
            pass
        elif isinstance(st, ast.For) and _src(st.target) == "name" and _src(st.iter) == "arg_names":
            inner = st.body
            if not (len(inner) == 1 and isinstance(inner[0], ast.If) and _src(inner[0].test) == "name in frame.f_locals"
                    and len(inner[0].body) == 1 and not inner[0].orelse
                    and _src(inner[0].body[0]).replace(" ", "") ==
                    "arg_types[name]=get_type(frame.f_locals[name],max_typed_dict_size=self.max_typed_dict_size)"):
                raise ExtractError("handle_call: binding loop: " + _src(st)[:300])
            tags.append("bind")
        elif s == "self.traces[frame] = CallTrace(func, arg_types)":
            tags.append("store")
        else:
            raise ExtractError("handle_call: unrecognised statement: " + s[:200])
    return tags


def dunder_call(cls):
    fn = _find_func(None, "__call__", cls)
    body = _strip_doc(fn.body)
    if len(body) != 4 or _src(body[0]) != "code = frame.f_code" or _src(body[3]) != "return self":
        raise ExtractError("__call__: skeleton")
    gate = body[1]
    if not (isinstance(gate, ast.If) and isinstance(gate.test, ast.BoolOp) and isinstance(gate.test.op, ast.Or)
            and len(gate.body) == 1 and _src(gate.body[0]) == "return self" and not gate.orelse):
        raise ExtractError("__call__: gate")
    gates = [_src(v) for v in gate.test.values]
    known = {"event not in SUPPORTED_EVENTS": "unsupported_event", "code.co_name == 'trace_types'": "trace_types",
             "self.should_trace and (not self.should_trace(code))": "filter_rejects"}
    tags = []
    for g in gates:
        if g not in known:
            raise ExtractError("__call__: unknown gate " + g)
        tags.append(known[g])
    tr = body[2]
    if not (isinstance(tr, ast.Try) and len(tr.handlers) == 1 and not tr.finalbody and not tr.orelse):
        raise ExtractError("__call__: try/except")
    h = tr.handlers[0]
    if not (isinstance(h.type, ast.Name) and h.name is None):
        raise ExtractError("__call__: handler type")
    for n in ast.walk(h):
        if isinstance(n, ast.Raise):
            raise ExtractError("__call__: handler re-raises")
    disp = tr.body
    if not (len(disp) == 1 and isinstance(disp[0], ast.If) and _src(disp[0].test) == "event == EVENT_CALL"
            and _src(disp[0].body[0]) == "self.handle_call(frame)"
            and isinstance(disp[0].orelse[0], ast.If) and _src(disp[0].orelse[0].test) == "event == EVENT_RETURN"
            and _src(disp[0].orelse[0].body[0]) == "self.handle_return(frame, arg)"):
        raise ExtractError("__call__: dispatch")
    return tags, h.type.id


def trace_calls(tree):
    fn = _find_func(tree, "trace_calls")
    body = _strip_doc(fn.body)
    if len(body) != 3 or _src(body[0]) != "old_trace = sys.getprofile()" \
            or not _src(body[1]).startswith("sys.setprofile(CallTracer(logger, max_typed_dict_size, code_filter, sample_rate))"):
        raise ExtractError("trace_calls: prologue")
    tr = body[2]
    if not (isinstance(tr, ast.Try) and not tr.handlers and not tr.orelse and len(tr.body) == 1
            and isinstance(tr.body[0], ast.Expr) and isinstance(tr.body[0].value, ast.Yield)):
        raise ExtractError("trace_calls: try/finally around the yield")
    tags = []
    for st in tr.finalbody:
        s = _src(st)
        if s == "sys.setprofile(old_trace)":
            tags.append("restore")
        elif s == "logger.flush()":
            tags.append("flush")
        elif isinstance(st, ast.Try) and len(st.body) == 1 and _src(st.body[0]) == "logger.flush()" \
                and len(st.handlers) == 1 and isinstance(st.handlers[0].type, ast.Name) and not st.finalbody \
                and not st.orelse and not any(isinstance(n, ast.Raise) for n in ast.walk(st.handlers[0])):
            tags.append("flush_contained:" + st.handlers[0].type.id)
        else:
            raise ExtractError("trace_calls: finally: " + s)
    return tags


def store_logger(tree):
    cls = _find_class(tree, "CallTraceStoreLogger")
    log = _strip_doc(_find_func(None, "log", cls).body)
    if not (len(log) == 1 and isinstance(log[0], ast.If) and not log[0].orelse
            and _src(log[0].test) in ("not trace.func.__module__ == '__main__'", "trace.func.__module__ != '__main__'")
            and len(log[0].body) == 1 and _src(log[0].body[0]) == "self.traces.append(trace)"):
        raise ExtractError("CallTraceStoreLogger.log")
    fl = [_src(s) for s in _strip_doc(_find_func(None, "flush", cls).body)]
    if fl != ["self.store.add(self.traces)", "self.traces = []"]:
        raise ExtractError("CallTraceStoreLogger.flush: " + repr(fl))
    return "__main__"


def add_yield(tree):
    cls = _find_class(tree, "CallTrace")
    fn = _strip_doc(_find_func(None, "add_yield_type", cls).body)
    if not (len(fn) == 1 and isinstance(fn[0], ast.If) and _src(fn[0].test) == "self.yield_type is None"
            and _src(fn[0].body[0]) == "self.yield_type = typ"
            and _src(fn[0].orelse[0]) == "self.yield_type = cast(type, Union[self.yield_type, typ])"):
        raise ExtractError("CallTrace.add_yield_type")
    return True


def render():
    tr = _parse("monkeytype/tracing.py")
    base = _parse("monkeytype/db/base.py")
    ops = _opcode_table(tr)
    cls = _find_class(tr, "CallTracer")
    yops, guard, rops = handle_return(cls, ops)
    hc = handle_call(cls)
    gates, caught = dunder_call(cls)
    fin = trace_calls(tr)
    main = store_logger(base)
    add_yield(tr)

    def sl(xs):
        return "[" + "; ".join(_cs(x) for x in xs) + "]"
    L = ["(* GENERATED by harness/extract_tracer.py from /repo's current monkeytype/tracing.py. Do not edit. *)",
         "From Coq Require Import List String.", "Import ListNotations.", "Open Scope string_scope.", "",
         f"Definition tr_yield_ops : list string := {sl(yops)}.",
         f"Definition tr_yield_skips_coroutines : bool := {'true' if guard else 'false'}.",
         f"Definition tr_return_ops : list string := {sl(rops)}.",
         f"Definition tr_handle_call_steps : list string := {sl(hc)}.",
         f"Definition tr_call_gates : list string := {sl(gates)}.",
         f"Definition tr_call_catches : string := {_cs(caught)}.",
         f"Definition tr_exit_finally : list string := {sl(fin)}.",
         f"Definition store_logger_drops_module : string := {_cs(main)}.",
         ""]
    return "\n".join(L)


def regenerate():
    path = os.path.join(common.COQ, "Gen", "TracerConstants.v")
    try:
        text = render()
    except (ExtractError, SyntaxError, OSError, AttributeError, KeyError, IndexError, TypeError) as e:
        # keep the previously generated file: the proof status is reported as broken by the caller, but the
        # correspondence harness can still be built (against the last understood model) to search for a failing input
        return False, f"{type(e).__name__}: {e}"
    old = open(path).read() if os.path.exists(path) else None
    if old != text:
        os.makedirs(os.path.dirname(path), exist_ok=True)
        with open(path, "w") as f:
            f.write(text)
    return True, "ok"


if __name__ == "__main__":
    print(regenerate())
    print(open(os.path.join(common.COQ, "Gen", "TracerConstants.v")).read())
