(* Proofs/RewriteMono.v — C07: the shipped type rewriters never narrow.
   For a well-formed class table (Model/Hier.v) every rewriter maps a type to one admitting at
   least the same values: all rewriters except RemoveEmptyContainers under the annotation reading
   of Any (A), all except RewriteLargeUnion under the tight reading (C), and every rewriter and
   every chain "RemoveEmpty before LargeUnion" from the tight to the annotation reading (B, CH). *)
From MT Require Import Types Rewrite Hier Constants TypesFacts UnionFacts RewriteHier.
From Coq Require Import Lia.
Open Scope list_scope.

(* ---------- Python == : the other direction of py_eqb_member_imp ---------- *)
Section PyEqRev.
Variable anyb : bool.
Variable sub : cls -> cls -> bool.
Notation mem := (member anyb sub).

Lemma py_eqb_member_rev a : forall b v,
  wf_ty a -> wf_ty b -> py_eqb a b = true -> mem v b = true -> mem v a = true.
Proof.
  induction a as [ | c | x IH | | x IH | x IH | x IH | k v0 IHk IHv | k v0 IHk IHv | xs IH | x IH
                 | a1 a2 a3 IH1 IH2 IH3 | xs IH | r o IHr IHo | s ] using ty_ind';
    intros b v Wa Wb E M; destruct b; cbn [py_eqb] in E; try discriminate E; try exact M.
  - (* TCls *) apply N.eqb_eq in E. subst. exact M.
  - (* TType *) cbn [member] in *. destruct v; try discriminate M.
    destruct x, b; cbn [py_eqb] in E; try discriminate E; try discriminate M; try exact M.
    apply N.eqb_eq in E. subst. exact M.
  - (* TList *) cbn [member] in *. destruct v; try discriminate M.
    revert M. apply forallb_imp. intros e _. apply IH; assumption.
  - (* TSet *) cbn [member] in *. destruct v; try discriminate M.
    revert M. apply forallb_imp. intros e _. apply IH; assumption.
  - (* TDict *) cbn [member wf_ty] in *. destruct Wa as [Wa1 Wa2], Wb as [Wb1 Wb2].
    apply andb_prop in E. destruct E as [E1 E2].
    destruct v; try discriminate M; revert M; apply forallb_imp; intros kv _ H;
      apply andb_prop in H; destruct H as [H1 H2]; apply andb_true_intro; split;
      [apply (IHk _ _ Wa1 Wb1 E1 H1)|apply (IHv _ _ Wa2 Wb2 E2 H2)
      |apply (IHk _ _ Wa1 Wb1 E1 H1)|apply (IHv _ _ Wa2 Wb2 E2 H2)].
  - (* TDefaultDict *) cbn [member wf_ty] in *. destruct Wa as [Wa1 Wa2], Wb as [Wb1 Wb2].
    apply andb_prop in E. destruct E as [E1 E2].
    destruct v; try discriminate M; revert M; apply forallb_imp; intros kv _ H;
      apply andb_prop in H; destruct H as [H1 H2]; apply andb_true_intro; split;
      [apply (IHk _ _ Wa1 Wb1 E1 H1)|apply (IHv _ _ Wa2 Wb2 E2 H2)].
  - (* TTuple *) change (py_eqb (TTuple xs) (TTuple ts) = true) in E. rewrite py_eqb_TTuple in E.
    apply wf_TTuple in Wa. apply wf_TTuple in Wb.
    destruct v; try discriminate M. rewrite member_TTuple in *.
    revert ts es Wb E M. induction xs as [|x xs IHxs]; intros [|y ys] es Wb E M; cbn [forallb2] in E; try discriminate E.
    + exact M.
    + destruct es as [|e es]; [discriminate M|].
      apply andb_prop in E. destruct E as [E1 E2]. apply andb_prop in M. destruct M as [M1 M2].
      inversion IH as [|? ? IHx IHxs']; subst. inversion Wa; subst. inversion Wb; subst.
      apply andb_true_intro; split.
      * match goal with Hx : wf_ty x, Hy : wf_ty y |- _ => apply (IHx _ _ Hx Hy E1 M1) end.
      * apply (IHxs ltac:(assumption) ltac:(assumption) ys es); assumption.
  - (* TTupleVar *) cbn [member] in *. destruct v; try discriminate M.
    revert M. apply forallb_imp. intros e _. apply IH; assumption.
  - (* TUnion *) change (py_eqb (TUnion xs) (TUnion ts) = true) in E. rewrite py_eqb_TUnion in E.
    apply wf_TUnion in Wa. apply wf_TUnion in Wb.
    rewrite member_TUnion in *. apply existsb_exists in M. destruct M as [y [Hy My]].
    apply andb_prop in E. destruct E as [_ E2]. rewrite forallb_forall in E2. specialize (E2 y Hy).
    apply andb_prop in E2. destruct E2 as [_ E2]. apply existsb_exists in E2. destruct E2 as [x [Hx Exy]].
    apply existsb_exists. exists x. split; [exact Hx|].
    rewrite Forall_forall in IH, Wa, Wb. apply (IH x Hx y); auto.
  - (* TTypedDict *)
    change (py_eqb (TTypedDict r o) (TTypedDict req opt) = true) in E. rewrite py_eqb_TTypedDict in E.
    apply wf_TTypedDict in Wa. apply wf_TTypedDict in Wb.
    destruct Wa as [NDa [Wr Wo]], Wb as [NDb [Wr' Wo']].
    apply andb_prop in E. destruct E as [E Eo]. apply andb_prop in E. destruct E as [E Elo].
    apply andb_prop in E. destruct E as [Elr Er]. apply Nat.eqb_eq in Elr, Elo.
    assert (Hir : incl (map fst req) (map fst r)).
    { apply NoDup_length_incl.
      - apply NoDup_app_l in NDa. exact NDa.
      - rewrite !map_length. lia.
      - apply fsubP_keys. exact Er. }
    assert (Hio : incl (map fst opt) (map fst o)).
    { apply NoDup_length_incl.
      - apply NoDup_app_r in NDa. exact NDa.
      - rewrite !map_length. lia.
      - apply fsubP_keys. exact Eo. }
    rewrite member_TTypedDict in *. destruct v; try discriminate M.
    apply andb_prop in M. destruct M as [MA MB]. apply andb_true_intro; split.
    + revert MA. apply forallb_imp. intros [kk vv] _. cbn [fst snd]. destruct kk; try (intros; discriminate).
      unfold field_ty. intros H.
      destruct (lookup_f s req) as [ft'|] eqn:Lr'.
      * (* key required in b: required in a, with a py-equal type *)
        assert (Hk : In s (map fst r)) by (apply Hir; eapply lookup_f_Some_key; exact Lr').
        destruct (lookup_f s r) as [ft|] eqn:Lr; [|apply lookup_f_None in Lr; contradiction].
        unfold fsubP in Er. rewrite forallb_forall in Er.
        pose proof (lookup_f_In _ _ _ Lr) as Hin. specialize (Er _ Hin). cbn [fst snd] in Er.
        rewrite Lr' in Er.
        rewrite Forall_forall in IHr, Wr, Wr'. apply (IHr _ Hin ft'); cbn [snd]; auto.
        { apply (Wr _ Hin). } { apply (Wr' (s, ft')). apply lookup_f_In. exact Lr'. }
      * destruct (lookup_f s opt) as [ft'|] eqn:Lo'; [|discriminate H].
        assert (Hk : In s (map fst o)) by (apply Hio; eapply lookup_f_Some_key; exact Lo').
        assert (Lr : lookup_f s r = None).
        { apply lookup_f_None. intros Hc. exact (NoDup_app_disj _ _ s NDa Hc Hk). }
        rewrite Lr.
        destruct (lookup_f s o) as [ft|] eqn:Lo; [|apply lookup_f_None in Lo; contradiction].
        unfold fsubP in Eo. rewrite forallb_forall in Eo.
        pose proof (lookup_f_In _ _ _ Lo) as Hin. specialize (Eo _ Hin). cbn [fst snd] in Eo.
        rewrite Lo' in Eo.
        rewrite Forall_forall in IHo, Wo, Wo'. apply (IHo _ Hin ft'); cbn [snd]; auto.
        { apply (Wo _ Hin). } { apply (Wo' (s, ft')). apply lookup_f_In. exact Lo'. }
    + (* every required field of a is required in b *)
      pose proof (fsubP_keys _ _ Er) as Hincl.
      rewrite forallb_forall in MB |- *. intros f Hf.
      assert (Hk : In (fst f) (map fst req)) by (apply Hincl; apply in_map; exact Hf).
      apply in_map_iff in Hk. destruct Hk as [f' [Ef Hf']]. rewrite <- Ef. apply MB. exact Hf'.
Qed.
End PyEqRev.

(* ---------- small list facts ---------- *)
Lemma flat_map_filter {A B} (f : A -> B) (p : A -> bool) l :
  flat_map (fun e => if p e then [f e] else []) l = map f (filter p l).
Proof.
  induction l as [|x r IH]; [reflexivity|]. cbn [flat_map filter].
  destruct (p x); cbn [map app]; rewrite IH; reflexivity.
Qed.

Lemma last_In {A} (l : list A) d : l <> [] -> In (last l d) l.
Proof.
  induction l as [|x [|y r] IH]; intros H; [congruence|left; reflexivity|].
  right. apply IH. discriminate.
Qed.

Lemma is_tany_eq t : is_tany t = true -> t = TAny.
Proof. destruct t; try discriminate. reflexivity. Qed.

Lemma kls_eqb_eq a b : kls_eqb a b = true -> a = b.
Proof.
  destruct a, b; cbn [kls_eqb]; try discriminate; intros H.
  - apply N.eqb_eq in H. subst. reflexivity.
  - apply Nat.eqb_eq in H. subst. reflexivity.
Qed.

Lemma common_prefix_In a : forall b x, In x (common_prefix a b) -> In x a /\ In x b.
Proof.
  induction a as [|y a IH]; intros [|z b] x H; cbn [common_prefix] in H; try destruct H.
  destruct (kls_eqb y z) eqn:E; [|destruct H]. apply kls_eqb_eq in E. subst z.
  destruct H as [->|H]; [split; left; reflexivity|].
  apply IH in H. destruct H. split; right; assumption.
Qed.

Lemma fold_common_prefix_In cs : forall c0 x,
  In x (fold_left common_prefix cs c0) -> In x c0 /\ forall c, In c cs -> In x c.
Proof.
  induction cs as [|c cs IH]; intros c0 x H; cbn [fold_left] in H.
  - split; [exact H|intros c []].
  - apply IH in H. destruct H as [H1 H2]. apply common_prefix_In in H1. destruct H1 as [H1 H1'].
    split; [exact H1|]. intros c' [<-|Hc']; [exact H1'|apply H2; exact Hc'].
Qed.

(* ---------- RemoveEmptyContainers: what an "empty" container type admits under the tight reading ---------- *)
Section Tight.
Variable sub : cls -> cls -> bool.
Notation mem := (member false sub).

Lemma all_any_admit_nothing v ts : forallb is_tany ts = true -> existsb (mem v) ts = false.
Proof.
  induction ts as [|t r IH]; [reflexivity|]. cbn [forallb existsb]. intros H.
  apply andb_prop in H. destruct H as [H1 H2]. apply is_tany_eq in H1. subst t.
  cbn [member orb]. apply IH. exact H2.
Qed.

Lemma forallb_false_nil {A} (l : list A) : forallb (fun _ => false) l = true -> l = [].
Proof. destruct l; [reflexivity|discriminate]. Qed.

Lemma forallb_false_nil2 {A} (f : A -> bool) (l : list A) : forallb (fun x => false && f x) l = true -> l = [].
Proof. destruct l; [reflexivity|discriminate]. Qed.

(* an empty container type (all arguments Any) admits only values that every type of the same
   kind admits *)
Lemma empty_same_kind e e' v :
  is_empty e = true -> kind_of e' = kind_of e -> mem v e = true -> mem v e' = true.
Proof.
  intros He Hk M.
  destruct e; cbn [is_empty] in He; try discriminate He;
    destruct e'; cbn [kind_of] in Hk; try discriminate Hk.
  - (* Type[Any] *) apply is_tany_eq in He. subst. cbn [member] in M. destruct v; discriminate M.
  - (* List[Any] *) apply is_tany_eq in He. subst. cbn [member] in M |- *. destruct v; try discriminate M.
    apply forallb_false_nil in M. subst. reflexivity.
  - (* Set[Any] *) apply is_tany_eq in He. subst. cbn [member] in M |- *. destruct v; try discriminate M.
    apply forallb_false_nil in M. subst. reflexivity.
  - (* Iterator[Any] *) cbn [member] in M |- *. exact M.
  - (* Dict[Any, Any] *) apply andb_prop in He. destruct He as [H1 H2].
    apply is_tany_eq in H1, H2. subst. cbn [member] in M |- *.
    destruct v; try discriminate M; apply forallb_false_nil2 in M; subst; reflexivity.
  - (* DefaultDict[Any, Any] *) apply andb_prop in He. destruct He as [H1 H2].
    apply is_tany_eq in H1, H2. subst. cbn [member] in M |- *.
    destruct v; try discriminate M; apply forallb_false_nil2 in M; subst; reflexivity.
  - (* Tuple[Any, ...Any] (non-empty) admits nothing *)
    exfalso. destruct ts as [|t1 r]; [discriminate He|]. cbn [List.length Nat.eqb negb andb forallb] in He.
    apply andb_prop in He. destruct He as [H1 _]. apply is_tany_eq in H1. subst.
    destruct v; try discriminate M. rewrite member_TTuple in M. destruct es; discriminate M.
  - exfalso. destruct ts as [|t1 r]; [discriminate He|]. cbn [List.length Nat.eqb negb andb forallb] in He.
    apply andb_prop in He. destruct He as [H1 _]. apply is_tany_eq in H1. subst.
    destruct v; try discriminate M. rewrite member_TTuple in M. destruct es; discriminate M.
  - (* Generator[Any, Any, Any] *) cbn [member] in M |- *. exact M.
  - (* Union[Any, ...] admits nothing *)
    exfalso. apply andb_prop in He. destruct He as [_ He]. rewrite member_TUnion in M.
    rewrite (all_any_admit_nothing v _ He) in M. discriminate M.
Qed.
End Tight.

Section Mono.
Variable h : hierarchy.
Variable bt : bases_table.
Hypothesis Hwf : wf_hier h = true.
Hypothesis Hbt : bt_ok h bt = true.
Notation sub := (subclass h).
Notation rw := (rw h bt).

Definition keep (ts : list ty) (e : ty) : bool := negb (is_empty e && has_nonempty_sibling e ts).

Lemma rw_rme_union ts :
  rw RRemoveEmpty (TUnion ts) =
  match filter (keep ts) ts with
  | [] => TUnion ts
  | _ => union_mk (map (rw RRemoveEmpty) (filter (keep ts) ts))
  end.
Proof. cbn [Rewrite.rw]. rewrite flat_map_filter. reflexivity. Qed.

Lemma rw_gen_cases a b c :
  rw RGenerator (TGenerator a b c) = TIterator a \/ rw RGenerator (TGenerator a b c) = TGenerator a b c.
Proof.
  cbn [Rewrite.rw].
  repeat (match goal with |- context [match ?x with _ => _ end] => destruct x end); auto.
Qed.

(* ---------- (W) rewriting preserves well-formedness ---------- *)
Lemma dict_key_wf t : wf_ty t -> wf_ty (dict_key t).
Proof. destruct t; cbn [dict_key wf_ty]; try exact (fun _ => I). intros [H _]. exact H. Qed.
Lemma dict_val_wf t : wf_ty t -> wf_ty (dict_val t).
Proof. destruct t; cbn [dict_val wf_ty]; try exact (fun _ => I). intros [_ H]. exact H. Qed.

Lemma rcd_union_wf ts : Forall wf_ty ts -> wf_ty (rcd_union ts).
Proof.
  intros W. unfold rcd_union. destruct ts as [|t0 rest]; [exact I|].
  destruct (forallb is_tdict (t0 :: rest) && _); [|apply wf_TUnion; exact W].
  cbn [wf_ty]. split.
  - apply dict_key_wf. inversion W; assumption.
  - apply union_mk_wf. rewrite Forall_forall in *. intros x Hx. apply in_map_iff in Hx.
    destruct Hx as [e [<- He]]. apply dict_val_wf. apply W. exact He.
Qed.

Definition homog (v : ty) (t : ty) : Prop :=
  exists es, t = TTuple es /\ forallb (fun e => isb e v) es = true.

Lemma to_tuple_scan_spec ts : forall vt r, to_tuple_scan vt ts = Some r ->
  (forall v', vt = Some v' -> r = Some v') /\
  (forall v, r = Some v -> Forall (homog v) ts) /\
  (Forall wf_ty ts -> (forall v', vt = Some v' -> wf_ty v') -> forall v, r = Some v -> wf_ty v).
Proof.
  induction ts as [|t ts IH]; intros vt r H; cbn [to_tuple_scan] in H.
  - injection H as <-. repeat split; auto.
  - destruct t; try discriminate H. destruct ts0 as [|a es].
    + destruct (IH _ _ H) as [I1 [I2 I3]]. split; [exact I1|]. split.
      * intros v Hv. constructor; [exists []; split; reflexivity|apply I2; exact Hv].
      * intros W Wv v Hv. inversion W; subst. eapply I3; eauto.
    + set (v0 := match vt with Some v => v | None => a end) in *.
      destruct (forallb (fun e => isb e v0) (a :: es)) eqn:F; [|discriminate H].
      destruct (IH _ _ H) as [I1 [I2 I3]]. pose proof (I1 _ eq_refl) as Hr. split; [|split].
      * intros v' ->. exact Hr.
      * intros v Hv. constructor; [|apply I2; exact Hv].
        rewrite Hr in Hv. injection Hv as <-. exists (a :: es). split; [reflexivity|exact F].
      * intros W Wv v Hv. inversion W as [|? ? Wt Wts]; subst. apply (I3 Wts); [|exact Hv].
        intros v' E. injection E as <-. unfold v0. destruct vt as [v'|]; [apply Wv; reflexivity|].
        apply wf_TTuple in Wt. inversion Wt; assumption.
Qed.

Lemma rlu_union_wf n ts : Forall wf_ty ts -> wf_ty (rlu_union h n ts).
Proof.
  intros W. unfold rlu_union. destruct (Nat.leb _ _); [apply wf_TUnion; exact W|].
  destruct (rlu_to_tuple ts) as [t|] eqn:RT.
  - unfold rlu_to_tuple in RT. destruct (to_tuple_scan None ts) as [[v0|]|] eqn:S; try discriminate RT.
    injection RT as <-. cbn [wf_ty].
    destruct (to_tuple_scan_spec _ _ _ S) as [_ [_ I3]]. apply (I3 W); [discriminate|reflexivity].
  - repeat (match goal with |- context [match ?x with _ => _ end] => destruct x end); exact I.
Qed.

Lemma msb_union_wf ts : Forall wf_ty ts -> wf_ty (msb_union bt ts).
Proof.
  intros W. apply wf_TUnion in W. unfold msb_union.
  repeat (match goal with |- context [match ?x with _ => _ end] => destruct x end); exact W || exact I.
Qed.

Lemma Forall_map_wf (f : ty -> ty) ts :
  Forall (fun t => wf_ty t -> wf_ty (f t)) ts -> Forall wf_ty ts -> Forall wf_ty (map f ts).
Proof.
  intros IH W. rewrite Forall_forall in *. intros x Hx. apply in_map_iff in Hx.
  destruct Hx as [e [<- He]]. apply IH; [exact He|apply W; exact He].
Qed.

Lemma fields_map_wf (f : ty -> ty) (fs : list (string * ty)) :
  Forall (fun fd => wf_ty (snd fd) -> wf_ty (f (snd fd))) fs -> Forall (fun fd => wf_ty (snd fd)) fs ->
  Forall (fun fd => wf_ty (snd fd)) (map (fun fd => (fst fd, f (snd fd))) fs).
Proof.
  intros IH W. rewrite Forall_forall in *. intros x Hx. apply in_map_iff in Hx.
  destruct Hx as [e [<- He]]. cbn [snd]. apply IH; [exact He|apply W; exact He].
Qed.

Lemma fields_map_fst (f : ty -> ty) (fs : list (string * ty)) :
  map fst (map (fun fd => (fst fd, f (snd fd))) fs) = map fst fs.
Proof. rewrite map_map. apply map_ext. reflexivity. Qed.

Theorem rw_wf r t : wf_ty t -> wf_ty (rw r t).
Proof.
  induction t as [ | c | x IH | | x IH | x IH | x IH | k v0 IHk IHv | k v0 IHk IHv | xs IH | x IH
                 | a1 a2 a3 IH1 IH2 IH3 | xs IH | rq op IHr IHo | s ] using ty_ind'; intros W;
    try (destruct r; exact W).
  - destruct r; cbn [Rewrite.rw wf_ty] in *; auto.
  - destruct r; cbn [Rewrite.rw wf_ty] in *; auto.
  - destruct r; cbn [Rewrite.rw wf_ty] in *; try exact W; destruct W; split; auto.
  - destruct r; try exact W; cbn [Rewrite.rw]; apply wf_TTuple; apply wf_TTuple in W;
      apply Forall_map_wf; assumption.
  - destruct r; cbn [Rewrite.rw wf_ty] in *; auto.
  - destruct r; try exact W.
    4: { destruct (rw_gen_cases a1 a2 a3) as [E|E]; rewrite E; [|exact W]. cbn [wf_ty] in *. tauto. }
    all: cbn [Rewrite.rw wf_ty] in *; destruct W as [? [? ?]]; repeat split; auto.
  - pose proof W as W'. apply wf_TUnion in W'. destruct r; try exact W.
    + rewrite rw_rme_union. destruct (filter (keep xs) xs) eqn:K; [exact W|]. rewrite <- K.
      apply union_mk_wf. rewrite Forall_forall in *. intros x Hx. apply in_map_iff in Hx.
      destruct Hx as [e [<- He]]. apply filter_In in He. destruct He as [He _]. apply IH; auto.
    + cbn [Rewrite.rw]. apply rcd_union_wf. exact W'.
    + cbn [Rewrite.rw]. apply rlu_union_wf. exact W'.
    + cbn [Rewrite.rw]. apply union_mk_wf. apply Forall_map_wf; assumption.
    + cbn [Rewrite.rw]. apply msb_union_wf. exact W'.
  - destruct r; try exact W; cbn [Rewrite.rw]; apply wf_TTypedDict; apply wf_TTypedDict in W;
      destruct W as [ND [Wr Wo]]; rewrite !fields_map_fst; (split; [exact ND|]);
      split; apply fields_map_wf; assumption.
Qed.

(* ---------- reading-independent rewriters ---------- *)
Section AnyReading.
Variable b : bool.
Notation mem := (member b sub).

(* RewriteConfigDict: Union[Dict[k, v1], ..., Dict[k', vn]] -> Dict[k, Union[v1, ..., vn]] *)
Lemma rcd_union_mono ts v :
  Forall wf_ty ts -> mem v (TUnion ts) = true -> mem v (rcd_union ts) = true.
Proof.
  intros W M. unfold rcd_union. destruct ts as [|t0 rest]; [exact M|].
  destruct (forallb is_tdict (t0 :: rest) && forallb (fun e => py_eqb (dict_key t0) (dict_key e)) rest) eqn:C;
    [|exact M].
  apply andb_prop in C. destruct C as [C1 C2].
  rewrite member_TUnion in M. apply existsb_exists in M. destruct M as [e [He Me]].
  rewrite forallb_forall in C1. pose proof (C1 _ He) as De.
  destruct e as [ | ? | ? | | ? | ? | ? | ek ev | ? ? | ? | ? | ? ? ? | ? | ? ? | ? ]; try discriminate De. clear De.
  assert (Wt0 : wf_ty t0) by (inversion W; assumption).
  assert (We : wf_ty (TDict ek ev)) by (rewrite Forall_forall in W; apply W; exact He).
  assert (Kimp : forall x, mem x ek = true -> mem x (dict_key t0) = true).
  { destruct He as [->|He]; [intros x Hx; exact Hx|].
    rewrite forallb_forall in C2. specialize (C2 _ He). change (dict_key (TDict ek ev)) with ek in C2.
    intros x Hx. destruct We as [We _].
    exact (py_eqb_member_rev b sub _ _ x (dict_key_wf _ Wt0) We C2 Hx). }
  assert (Vimp : forall x, mem x ev = true -> mem x (union_mk (map dict_val (t0 :: rest))) = true).
  { intros x Hx. apply union_mk_complete.
    - rewrite Forall_forall in *. intros y Hy. apply in_map_iff in Hy. destruct Hy as [e [<- He']].
      apply dict_val_wf. apply W. exact He'.
    - apply existsb_exists. exists ev. split; [|exact Hx].
      apply in_map_iff. exists (TDict ek ev). split; [reflexivity|exact He]. }
  cbn [member] in Me |- *.
  destruct v; try discriminate Me; revert Me; apply forallb_imp; intros kv _ H;
    apply andb_prop in H; destruct H; apply andb_true_intro; split; auto.
Qed.

(* RewriteMostSpecificCommonBase *)
Lemma chains_In ts : forall fuel i t,
  In t ts -> exists j, In (chain_of bt fuel j t) (chains bt fuel i ts).
Proof.
  induction ts as [|t0 r IH]; intros fuel i t H; [destruct H|]. cbn [chains]. destruct H as [<-|H].
  - exists i. left. reflexivity.
  - destruct (IH fuel (S i) t H) as [j Hj]. exists j. right. exact Hj.
Qed.

Lemma chain_of_anc fuel i t c v :
  is_tcls t || is_td t = true -> In (KCls c) (chain_of bt fuel i t) -> mem v t = true ->
  sub (class_of v) c = true.
Proof.
  intros K Hin M. destruct t; try discriminate K; cbn [chain_of] in Hin.
  - apply in_map_iff in Hin. destruct Hin as [x [E Hx]]. injection E as ->.
    cbn [member] in M. eapply subclass_trans; [exact Hwf|exact M|].
    eapply compute_bases_nil_anc; eauto.
  - apply in_app_or in Hin. destruct Hin as [Hin|[E|[]]]; [|discriminate E].
    apply in_map_iff in Hin. destruct Hin as [x [E Hx]]. injection E as ->.
    rewrite member_TTypedDict in M. destruct v; try discriminate M. cbn [class_of].
    eapply compute_bases_nil_anc; eauto.
Qed.

Lemma msb_union_mono ts v : mem v (TUnion ts) = true -> mem v (msb_union bt ts) = true.
Proof.
  intros M. unfold msb_union. destruct (forallb (fun t => is_tcls t || is_td t) ts) eqn:F; [|exact M].
  cbv zeta.
  destruct (chains bt (S (List.length bt)) 0 ts) as [|c0 cs] eqn:Ech; [exact M|].
  destruct (last (fold_left common_prefix cs c0) (KTd 0)) as [c|] eqn:L; [|exact M].
  destruct (Nat.eqb (List.length (fold_left common_prefix cs c0)) 0) eqn:Len; [exact M|].
  rewrite member_TUnion in M. apply existsb_exists in M. destruct M as [t [Ht Mt]].
  destruct (chains_In ts (S (List.length bt)) 0 t Ht) as [j Hj]. rewrite Ech in Hj.
  assert (HP : In (KCls c) (fold_left common_prefix cs c0)).
  { rewrite <- L. apply last_In. intros E. rewrite E in Len. discriminate Len. }
  apply fold_common_prefix_In in HP. destruct HP as [H0 Hcs].
  assert (Hc : In (KCls c) (chain_of bt (S (List.length bt)) j t)).
  { destruct Hj as [<-|Hj]; [exact H0|apply Hcs; exact Hj]. }
  rewrite forallb_forall in F.
  change (sub (class_of v) c = true). eapply chain_of_anc; eauto.
Qed.

(* a Tuple whose element types all equal (==, hence admit no more than) v0 is inside Tuple[v0, ...] *)
Lemma tuple_homog v0 : wf_ty v0 -> forall es vals,
  Forall wf_ty es -> forallb (fun e => isb e v0) es = true ->
  mem (VTuple vals) (TTuple es) = true -> forallb (fun x => mem x v0) vals = true.
Proof.
  intros Wv. induction es as [|e es IH]; intros [|x vals] W F M; rewrite member_TTuple in M;
    try discriminate M; [reflexivity|].
  cbn [forallb] in F |- *. apply andb_prop in F. destruct F as [F1 F2].
  apply andb_prop in M. destruct M as [M1 M2]. inversion W as [|? ? We Wes]; subst.
  unfold isb in F1. apply andb_prop in F1. destruct F1 as [_ F1].
  apply andb_true_intro; split.
  - exact (py_eqb_member_imp b sub e v0 x We Wv F1 M1).
  - apply IH; assumption.
Qed.

(* generic traversal helpers *)
Lemma tuple_map_mono (f : ty -> ty) ts :
  Forall (fun t => wf_ty t -> forall v, mem v t = true -> mem v (f t) = true) ts -> Forall wf_ty ts ->
  forall es, mem (VTuple es) (TTuple ts) = true -> mem (VTuple es) (TTuple (map f ts)) = true.
Proof.
  induction ts as [|t ts IHts]; intros IH W [|e es] M; rewrite member_TTuple in *; try discriminate M;
    [exact M|].
  cbn [map]. apply andb_prop in M. destruct M as [M1 M2].
  inversion IH as [|? ? IHt IHr]; subst. inversion W as [|? ? Wt Wr]; subst.
  apply andb_true_intro; split; [apply IHt; assumption|]. apply (IHts IHr Wr es). exact M2.
Qed.

Lemma lookup_f_map (f : ty -> ty) s fs :
  lookup_f s (map (fun fd => (fst fd, f (snd fd))) fs) = option_map f (lookup_f s fs).
Proof.
  induction fs as [|x r IH]; [reflexivity|]. cbn [map lookup_f fst snd].
  destruct (String.eqb s (fst x)); [reflexivity|exact IH].
Qed.

Lemma td_map_mono (f : ty -> ty) rq op v :
  wf_ty (TTypedDict rq op) ->
  Forall (fun fd => wf_ty (snd fd) -> forall v, mem v (snd fd) = true -> mem v (f (snd fd)) = true) rq ->
  Forall (fun fd => wf_ty (snd fd) -> forall v, mem v (snd fd) = true -> mem v (f (snd fd)) = true) op ->
  mem v (TTypedDict rq op) = true ->
  mem v (TTypedDict (map (fun fd => (fst fd, f (snd fd))) rq) (map (fun fd => (fst fd, f (snd fd))) op)) = true.
Proof.
  intros W IHr IHo M. apply wf_TTypedDict in W. destruct W as [_ [Wr Wo]].
  rewrite member_TTypedDict in *. destruct v; try discriminate M.
  apply andb_prop in M. destruct M as [MA MB]. apply andb_true_intro; split.
  - revert MA. apply forallb_imp. intros [kk vv] _. cbn [fst snd]. destruct kk; try (intros; discriminate).
    unfold field_ty. rewrite !lookup_f_map. intros H.
    rewrite Forall_forall in IHr, IHo, Wr, Wo.
    destruct (lookup_f s rq) as [ft|] eqn:Lr; cbn [option_map].
    + pose proof (lookup_f_In _ _ _ Lr) as Hin. apply (IHr _ Hin); [apply (Wr _ Hin)|exact H].
    + destruct (lookup_f s op) as [ft|] eqn:Lo; cbn [option_map]; [|discriminate H].
      pose proof (lookup_f_In _ _ _ Lo) as Hin. apply (IHo _ Hin); [apply (Wo _ Hin)|exact H].
  - rewrite forallb_forall in *. intros f' Hf'. apply in_map_iff in Hf'. destruct Hf' as [f0 [<- H0]].
    cbn [fst]. apply MB. exact H0.
Qed.

Lemma map_union_mono (f : ty -> ty) ts v :
  Forall wf_ty (map f ts) ->
  Forall (fun e => wf_ty e -> forall v, mem v e = true -> mem v (f e) = true) ts -> Forall wf_ty ts ->
  mem v (TUnion ts) = true -> mem v (union_mk (map f ts)) = true.
Proof.
  intros Wm IH W M. apply union_mk_complete; [exact Wm|].
  rewrite member_TUnion in M. apply existsb_exists in M. destruct M as [e [He Me]].
  apply existsb_exists. exists (f e). split; [apply in_map; exact He|].
  rewrite Forall_forall in IH, W. apply IH; auto.
Qed.

End AnyReading.

(* ---------- RewriteLargeUnion, annotation reading ---------- *)
Lemma rlu_union_mono n ts v :
  Forall wf_ty ts -> member true sub v (TUnion ts) = true -> member true sub v (rlu_union h n ts) = true.
Proof.
  intros W M. unfold rlu_union. destruct (Nat.leb _ _); [exact M|].
  rewrite member_TUnion in M. apply existsb_exists in M. destruct M as [e [He Me]].
  destruct (rlu_to_tuple ts) as [t|] eqn:RT.
  - unfold rlu_to_tuple in RT. destruct (to_tuple_scan None ts) as [[v0|]|] eqn:S; try discriminate RT.
    injection RT as <-. destruct (to_tuple_scan_spec _ _ _ S) as [_ [I2 I3]].
    specialize (I2 _ eq_refl). rewrite Forall_forall in I2. destruct (I2 _ He) as [es [-> F]].
    destruct v; try (cbn [member] in Me; discriminate Me).
    change (forallb (fun x => member true sub x v0) es0 = true).
    apply (tuple_homog true v0) with (es := es); [| |exact F|exact Me].
    + apply (I3 W); [discriminate|reflexivity].
    + rewrite Forall_forall in W. apply wf_TTuple. apply W. exact He.
  - destruct ts as [|t0 r]; [reflexivity|]. destruct t0; try reflexivity.
    destruct (forallb is_tcls _) eqn:Fc; [|reflexivity].
    destruct (find _ _) as [a|] eqn:Fd; [|reflexivity].
    apply find_some in Fd. destruct Fd as [_ Fd]. apply andb_prop in Fd. destruct Fd as [_ Fd].
    rewrite forallb_forall in Fc, Fd. pose proof (Fc _ He) as Ce. destruct e; try discriminate Ce.
    specialize (Fd _ He). cbn [cls_of] in Fd. cbn [member] in Me |- *.
    eapply subclass_trans; eauto.
Qed.

(* ---------- RemoveEmptyContainers, tight reading ---------- *)
Lemma rme_union_mono ts v :
  Forall wf_ty ts ->
  Forall (fun e => wf_ty e -> forall v, member false sub v e = true -> member false sub v (rw RRemoveEmpty e) = true) ts ->
  member false sub v (TUnion ts) = true -> member false sub v (rw RRemoveEmpty (TUnion ts)) = true.
Proof.
  intros W IH M. rewrite rw_rme_union. destruct (filter (keep ts) ts) eqn:K; [exact M|]. rewrite <- K. clear K.
  rewrite member_TUnion in M. apply existsb_exists in M. destruct M as [e [He Me]].
  rewrite Forall_forall in W, IH.
  apply union_mk_complete.
  { rewrite Forall_forall. intros x Hx. apply in_map_iff in Hx. destruct Hx as [e' [<- He']].
    apply filter_In in He'. destruct He' as [He' _]. apply rw_wf. apply W. exact He'. }
  assert (Hkept : forall e', In e' ts -> keep ts e' = true -> member false sub v e' = true ->
            existsb (member false sub v) (map (rw RRemoveEmpty) (filter (keep ts) ts)) = true).
  { intros e' H1 H2 H3. apply existsb_exists. exists (rw RRemoveEmpty e'). split.
    - apply in_map. apply filter_In. split; assumption.
    - apply IH; auto. }
  destruct (keep ts e) eqn:Ke; [apply (Hkept e); assumption|].
  unfold keep in Ke. apply negb_false_iff in Ke. apply andb_prop in Ke. destruct Ke as [Em Sib].
  unfold has_nonempty_sibling in Sib. apply existsb_exists in Sib. destruct Sib as [e' [He' Ce']].
  apply andb_prop in Ce'. destruct Ce' as [Kd Ne]. apply Nat.eqb_eq in Kd. apply negb_true_iff in Ne.
  apply (Hkept e' He').
  - unfold keep. rewrite Ne. reflexivity.
  - eapply empty_same_kind; eauto.
Qed.

(* ---------- (A) and (C) in one induction ---------- *)
Theorem rw_mono b r :
  (b = true -> r <> RRemoveEmpty) -> (b = false -> forall n, r <> RLargeUnion n) ->
  forall t, wf_ty t -> forall v, member b sub v t = true -> member b sub v (rw r t) = true.
Proof.
  intros Hr1 Hr2.
  induction t as [ | c | x IH | | x IH | x IH | x IH | k v0 IHk IHv | k v0 IHk IHv | xs IH | x IH
                 | a1 a2 a3 IH1 IH2 IH3 | xs IH | rq op IHr IHo | s ] using ty_ind'; intros W v M;
    try (destruct r; exact M).
  - (* TList *) destruct r; try exact M; cbn [Rewrite.rw member wf_ty] in *;
      (destruct v; try discriminate M; revert M; apply forallb_imp; intros e _; apply IH; exact W).
  - (* TSet *) destruct r; try exact M; cbn [Rewrite.rw member wf_ty] in *;
      (destruct v; try discriminate M; revert M; apply forallb_imp; intros e _; apply IH; exact W).
  - (* TDict *) destruct r; try exact M; cbn [Rewrite.rw member wf_ty] in *; destruct W as [W1 W2];
      (destruct v; try discriminate M; revert M; apply forallb_imp; intros kv _ H;
       apply andb_prop in H; destruct H; apply andb_true_intro; split; [apply IHk|apply IHv|apply IHk|apply IHv]; assumption).
  - (* TTuple *) destruct r; try exact M; cbn [Rewrite.rw];
      (destruct v; try (cbn [member] in M; discriminate M));
      apply wf_TTuple in W; apply tuple_map_mono; assumption.
  - (* TTupleVar *) destruct r; try exact M; cbn [Rewrite.rw member wf_ty] in *;
      (destruct v; try discriminate M; revert M; apply forallb_imp; intros e _; apply IH; exact W).
  - (* TGenerator *) destruct r; try exact M.
    destruct (rw_gen_cases a1 a2 a3) as [E|E]; rewrite E; exact M.
  - (* TUnion *) pose proof W as W'. apply wf_TUnion in W'. destruct r; try exact M.
    + destruct b; [exfalso; exact (Hr1 eq_refl eq_refl)|]. apply rme_union_mono; assumption.
    + cbn [Rewrite.rw]. apply rcd_union_mono; assumption.
    + destruct b; [|exfalso; exact (Hr2 eq_refl n eq_refl)]. cbn [Rewrite.rw]. apply rlu_union_mono; assumption.
    + cbn [Rewrite.rw]. apply map_union_mono; try assumption.
      rewrite Forall_forall in *. intros y Hy. apply in_map_iff in Hy. destruct Hy as [e [<- He]].
      apply rw_wf. apply W'. exact He.
    + cbn [Rewrite.rw]. apply msb_union_mono; assumption.
  - (* TTypedDict *) destruct r; try exact M; cbn [Rewrite.rw]; apply td_map_mono; assumption.
Qed.

(* (A) annotation reading: every rewriter but RemoveEmptyContainers *)
Corollary rw_mono_annot r t v :
  r <> RRemoveEmpty -> wf_ty t ->
  member true sub v t = true -> member true sub v (rw r t) = true.
Proof. intros Hr W M. apply rw_mono; auto. intros E; discriminate E. Qed.

(* (C) tight reading: every rewriter but RewriteLargeUnion *)
Corollary rw_mono_tight r t v :
  (forall n, r <> RLargeUnion n) -> wf_ty t ->
  member false sub v t = true -> member false sub v (rw r t) = true.
Proof. intros Hr W M. apply rw_mono; auto. intros E; discriminate E. Qed.

(* (B) every rewriter: what the inferred (tight) type admitted, the rewritten annotation admits *)
Corollary rw_mono_tight_annot r t v :
  wf_ty t -> member false sub v t = true -> member true sub v (rw r t) = true.
Proof.
  intros W M. destruct (is_large_union r) eqn:L.
  - apply rw_mono_annot; [intros E; subst r; discriminate L|exact W|].
    apply member_any_mono. exact M.
  - apply member_any_mono. apply rw_mono_tight; [|exact W|exact M].
    intros n E. subst r. discriminate L.
Qed.

(* ---------- (CH) chains ---------- *)
Notation rw_chain := (rw_chain h bt).

Lemma rw_chain_app rs1 rs2 t : rw_chain (rs1 ++ rs2) t = rw_chain rs2 (rw_chain rs1 t).
Proof. unfold Rewrite.rw_chain. apply fold_left_app. Qed.

Lemma rw_chain_wf rs : forall t, wf_ty t -> wf_ty (rw_chain rs t).
Proof.
  induction rs as [|r rs IH]; intros t W; [exact W|].
  change (wf_ty (rw_chain rs (rw r t))). apply IH. apply rw_wf. exact W.
Qed.

Lemma rw_chain_mono_tight rs : (forall n, ~ In (RLargeUnion n) rs) ->
  forall t v, wf_ty t -> member false sub v t = true -> member false sub v (rw_chain rs t) = true.
Proof.
  induction rs as [|r rs IH]; intros Hn t v W M; [exact M|].
  change (member false sub v (rw_chain rs (rw r t)) = true). apply IH.
  - intros n Hin. apply (Hn n). right. exact Hin.
  - apply rw_wf. exact W.
  - apply rw_mono_tight; [|exact W|exact M]. intros n E. apply (Hn n). left. exact E.
Qed.

Lemma rw_chain_mono_annot rs : ~ In RRemoveEmpty rs ->
  forall t v, wf_ty t -> member true sub v t = true -> member true sub v (rw_chain rs t) = true.
Proof.
  induction rs as [|r rs IH]; intros Hn t v W M; [exact M|].
  change (member true sub v (rw_chain rs (rw r t)) = true). apply IH.
  - intros Hin. apply Hn. right. exact Hin.
  - apply rw_wf. exact W.
  - apply rw_mono_annot; [|exact W|exact M]. intros E. apply Hn. left. exact E.
Qed.

Theorem rw_chain_mono rs1 rs2 t v :
  (forall n, ~ In (RLargeUnion n) rs1) -> ~ In RRemoveEmpty rs2 -> wf_ty t ->
  member false sub v t = true -> member true sub v (rw_chain (rs1 ++ rs2) t) = true.
Proof.
  intros H1 H2 W M. rewrite rw_chain_app. apply rw_chain_mono_annot; [exact H2|apply rw_chain_wf; exact W|].
  apply member_any_mono. apply rw_chain_mono_tight; assumption.
Qed.

Lemma chain_ok_split rs : chain_ok rs = true ->
  exists rs1 rs2, rs = rs1 ++ rs2 /\ (forall n, ~ In (RLargeUnion n) rs1) /\ ~ In RRemoveEmpty rs2.
Proof.
  induction rs as [|r rs IH]; cbn [chain_ok]; intros H.
  - exists [], []. repeat split; intros; intros [].
  - destruct (is_large_union r) eqn:L.
    + exists [], (r :: rs). split; [reflexivity|]. split; [intros n []|].
      intros [E|Hin]; [subst r; discriminate L|].
      rewrite forallb_forall in H. specialize (H _ Hin). discriminate H.
    + destruct (IH H) as [rs1 [rs2 [-> [H1 H2]]]]. exists (r :: rs1), rs2. split; [reflexivity|].
      split; [|exact H2]. intros n [E|Hin]; [subst r; discriminate L|]. apply (H1 n). exact Hin.
Qed.

Theorem rw_chain_ok_mono rs t v :
  chain_ok rs = true -> wf_ty t ->
  member false sub v t = true -> member true sub v (rw_chain rs t) = true.
Proof.
  intros H W M. destruct (chain_ok_split rs H) as [rs1 [rs2 [-> [H1 H2]]]].
  apply rw_chain_mono; assumption.
Qed.

(* the chain monkeytype/typing.py declares as DEFAULT_REWRITER (Gen/Constants.v is regenerated from the
   source on every run): RemoveEmptyContainers, RewriteConfigDict | RewriteLargeUnion, RewriteGenerator *)
Lemma default_chain_split rs : default_chain = Some rs ->
  rs = [RRemoveEmpty; RConfigDict] ++ [RLargeUnion large_union_default_max; RGenerator].
Proof. intros E. vm_compute in E. injection E as <-. reflexivity. Qed.

Theorem default_chain_mono rs t v :
  default_chain = Some rs -> wf_ty t ->
  member false sub v t = true -> member true sub v (rw_chain rs t) = true.
Proof.
  intros E W M. rewrite (default_chain_split rs E). apply rw_chain_mono; try assumption.
  - intros n [H|[H|[]]]; discriminate H.
  - intros [H|[H|[]]]; discriminate H.
Qed.

End Mono.

Print Assumptions py_eqb_member_rev.
Print Assumptions empty_same_kind.
Print Assumptions rw_wf.
Print Assumptions rw_mono.
Print Assumptions rw_mono_annot.
Print Assumptions rw_mono_tight.
Print Assumptions rw_mono_tight_annot.
Print Assumptions rw_chain_mono.
Print Assumptions rw_chain_ok_mono.
Print Assumptions default_chain_mono.

(* ---------- non-vacuity: a class table with multiple inheritance ---------- *)
Local Open Scope N_scope.
(* 16 A;  17 B(A);  18 M (a mixin);  19 C(B, M);  20 D(A) *)
Definition ex_h : hierarchy :=
  [ (0, [0]); (2, [2; 0]); (3, [3; 0]); (4, [4; 0]); (7, [7; 0]);
    (16, [16; 0]); (17, [17; 16; 0]); (18, [18; 0]); (19, [19; 17; 16; 18; 0]); (20, [20; 16; 0]) ].
Definition ex_bt : bases_table :=
  [ (2, [0]); (3, [0]); (4, [0]); (7, [0]);
    (16, [0]); (17, [16]); (18, [0]); (19, [17; 18]); (20, [16]) ].

(* Union[List[Any], List[Union[C, B, D]]]  and the list [C(), D()] *)
Definition ex_t : ty := TUnion [TList TAny; TList (TUnion [TCls 19; TCls 17; TCls 20])].
Definition ex_v : value := VList [VAtom 19 0; VAtom 20 1].

Example ex_hyps : wf_hier ex_h = true /\ bt_ok ex_h ex_bt = true /\ wf_ty ex_t.
Proof. split; [vm_compute; reflexivity|]. split; [vm_compute; reflexivity|]. cbn. tauto. Qed.

(* RemoveEmptyContainers really drops List[Any]; RewriteLargeUnion(2) really collapses Union[C, B, D]
   to the base class A; the value is admitted before (tight reading) and after (both readings) *)
Example ex_rw_mono_nonvacuous :
  member false (subclass ex_h) ex_v ex_t = true
  /\ rw ex_h ex_bt RRemoveEmpty ex_t = TList (TUnion [TCls 19; TCls 17; TCls 20])
  /\ rw_chain ex_h ex_bt [RRemoveEmpty; RLargeUnion 2%nat] ex_t = TList (TCls 16)
  /\ member false (subclass ex_h) ex_v (rw ex_h ex_bt RRemoveEmpty ex_t) = true
  /\ member true (subclass ex_h) ex_v (rw_chain ex_h ex_bt [RRemoveEmpty; RLargeUnion 2%nat] ex_t) = true
  /\ chain_ok [RRemoveEmpty; RLargeUnion 2%nat] = true.
Proof. vm_compute. repeat split. Qed.

(* RewriteMostSpecificCommonBase and RewriteConfigDict fire on this table too *)
Example ex_common_base :
  rw ex_h ex_bt RCommonBase (TUnion [TCls 17; TCls 20]) = TCls 16
  /\ rw ex_h ex_bt RConfigDict (TUnion [TDict (TCls 3) (TCls 2); TDict (TCls 3) (TCls 17)])
     = TDict (TCls 3) (TUnion [TCls 2; TCls 17]).
Proof. vm_compute. split; reflexivity. Qed.

(* the two excluded cases are really excluded (tests, by computation): RemoveEmptyContainers narrows
   under the annotation reading, RewriteLargeUnion -> Any admits nothing under the tight reading *)
Example ex_remove_empty_narrows_annot :
  member true (subclass ex_h) (VList [VStr "x"]) (TUnion [TList TAny; TList (TCls 2)]) = true
  /\ member true (subclass ex_h) (VList [VStr "x"])
       (rw ex_h ex_bt RRemoveEmpty (TUnion [TList TAny; TList (TCls 2)])) = false.
Proof. vm_compute. split; reflexivity. Qed.

Example ex_large_union_any_tight :
  member false (subclass ex_h) (VAtom 2 0) (TUnion [TCls 2; TCls 3; TList (TCls 2)]) = true
  /\ rw ex_h ex_bt (RLargeUnion 2%nat) (TUnion [TCls 2; TCls 3; TList (TCls 2)]) = TAny
  /\ member false (subclass ex_h) (VAtom 2 0)
       (rw ex_h ex_bt (RLargeUnion 2%nat) (TUnion [TCls 2; TCls 3; TList (TCls 2)])) = false.
Proof. vm_compute. repeat split. Qed.

(* wf_hier is not superfluous: on a table whose MROs are not closed (20's MRO omits its base's base 16)
   RewriteLargeUnion's common base loses a value *)
Definition ex_bad_h : hierarchy :=
  [ (16, [16; 0]); (17, [17; 16; 0]); (20, [20; 17; 0]); (21, [21; 16; 0]); (22, [22; 16; 0]) ].
Example ex_wf_hier_needed :
  wf_hier ex_bad_h = false
  /\ member true (subclass ex_bad_h) (VAtom 20 0) (TUnion [TCls 17; TCls 21; TCls 22]) = true
  /\ rw ex_bad_h [] (RLargeUnion 2%nat) (TUnion [TCls 17; TCls 21; TCls 22]) = TCls 16
  /\ member true (subclass ex_bad_h) (VAtom 20 0)
       (rw ex_bad_h [] (RLargeUnion 2%nat) (TUnion [TCls 17; TCls 21; TCls 22])) = false.
Proof. vm_compute. repeat split. Qed.
