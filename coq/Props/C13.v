(* C13 — existing source annotations are kept, omitted or overridden exactly as requested.
   Every theorem is about ALL signatures (parameter lists of any length), all traced-type tables,
   all function kinds; the strategy values, the receiver kinds and the CLI flag table come from
   Gen/Constants.v, regenerated from /repo on every run. *)
From MT Require Import Types Infer TypesFacts Constants SigUpdate SigUpdateFacts SigUpdateSpec SigUpdateCases SigUpdateTie.
Local Open Scope list_scope.
Local Open Scope string_scope.

(* ---- default mode: annotated positions keep their annotation, unannotated traced ones get the traced type ---- *)
Theorem replicate_spec :
  forall s kind sg tr i p,
    is_strat "REPLICATE" s = true -> nth_error (sparams sg) i = Some p -> is_receiver kind i = false ->
    exists o, out_param s kind sg tr i = Some o
              /\ panno o = match panno p with
                           | Some a => Some a
                           | None => option_map ATy (lookup_f (pname p) (targs tr)) end.
Proof. exact replicate_args. Qed.
Print Assumptions replicate_spec.

Theorem replicate_spec_return :
  forall s kind sg tr,
    is_strat "REPLICATE" s = true ->
    sret (update_sig s kind sg tr) = match sret sg with
                                     | Some a => Some a
                                     | None => option_map ATy (traced_return (tret tr) (tyield tr)) end.
Proof. exact replicate_return. Qed.
Print Assumptions replicate_spec_return.

(* ---- omit: annotated positions carry nothing, unannotated ones get the traced type ---- *)
Theorem omit_spec :
  forall s kind sg tr i p,
    is_strat "OMIT" s = true -> nth_error (sparams sg) i = Some p -> is_receiver kind i = false ->
    exists o, out_param s kind sg tr i = Some o
              /\ panno o = match panno p with
                           | Some _ => None
                           | None => option_map ATy (lookup_f (pname p) (targs tr)) end.
Proof. exact omit_args. Qed.
Print Assumptions omit_spec.

Theorem omit_spec_return :
  forall s kind sg tr,
    is_strat "OMIT" s = true ->
    sret (update_sig s kind sg tr) = match sret sg with
                                     | Some _ => None
                                     | None => option_map ATy (traced_return (tret tr) (tyield tr)) end.
Proof. exact omit_return. Qed.
Print Assumptions omit_spec_return.

(* ---- ignore: every traced position gets the traced type whatever the source says ---- *)
Theorem ignore_spec :
  forall s kind sg tr i p t,
    is_strat "IGNORE" s = true -> nth_error (sparams sg) i = Some p -> is_receiver kind i = false ->
    lookup_f (pname p) (targs tr) = Some t ->
    exists o, out_param s kind sg tr i = Some o /\ panno o = Some (ATy t).
Proof. exact ignore_args. Qed.
Print Assumptions ignore_spec.

Theorem ignore_spec_return :
  forall s kind sg tr t,
    is_strat "IGNORE" s = true -> traced_return (tret tr) (tyield tr) = Some t ->
    sret (update_sig s kind sg tr) = Some (ATy t).
Proof. exact ignore_return. Qed.
Print Assumptions ignore_spec_return.

(* where the statement is silent, today's code: an UNTRACED annotated parameter loses its annotation
   under IGNORE, an untraced annotated return keeps it (recorded, not required by the property) *)
Theorem ignore_untraced_param_dropped :
  forall s kind sg tr i p,
    is_strat "IGNORE" s = true -> nth_error (sparams sg) i = Some p -> is_receiver kind i = false ->
    lookup_f (pname p) (targs tr) = None ->
    exists o, out_param s kind sg tr i = Some o /\ panno o = None.
Proof. exact ignore_untraced_arg. Qed.
Print Assumptions ignore_untraced_param_dropped.

Theorem ignore_untraced_return_kept :
  forall s kind sg tr,
    is_strat "IGNORE" s = true -> traced_return (tret tr) (tyield tr) = None ->
    sret (update_sig s kind sg tr) = sret sg.
Proof. exact ignore_untraced_return. Qed.
Print Assumptions ignore_untraced_return_kept.

(* ---- no mode (not even an undeclared strategy value) invents an annotation ---- *)
Theorem no_invention :
  forall s kind sg tr i p,
    nth_error (sparams sg) i = Some p -> panno p = None -> lookup_f (pname p) (targs tr) = None ->
    exists o, out_param s kind sg tr i = Some o /\ panno o = None.
Proof. exact no_invention_args. Qed.
Print Assumptions no_invention.

Theorem no_invention_return :
  forall s kind sg tr,
    sret sg = None -> tret tr = None -> tyield tr = None -> sret (update_sig s kind sg tr) = None.
Proof. exact SigUpdateFacts.no_invention_return. Qed.
Print Assumptions no_invention_return.

(* every annotation in the stub is that position's source annotation or that position's traced type *)
Theorem annotation_provenance :
  forall s kind sg tr i p o a,
    nth_error (sparams sg) i = Some p -> out_param s kind sg tr i = Some o -> panno o = Some a ->
    panno p = Some a \/ exists t, lookup_f (pname p) (targs tr) = Some t /\ a = ATy t.
Proof. exact provenance_args. Qed.
Print Assumptions annotation_provenance.

(* ---- the receiver (position 0 of a kind in _KIND_WITH_SELF) never gets a traced type ---- *)
Theorem receiver_untouched :
  forall s kind sg tr p,
    has_self kind = true -> nth_error (sparams sg) 0 = Some p ->
    exists o, out_param s kind sg tr 0 = Some o
              /\ panno o = if is_strat "OMIT" s then None else panno p.
Proof. exact SigUpdateFacts.receiver_untouched. Qed.
Print Assumptions receiver_untouched.

Theorem receiver_is_position_zero_of_self_kinds :
  (forall kind i, is_receiver kind (S i) = false)
  /\ (forall kind i, has_self kind = false -> is_receiver kind i = false)
  /\ map (fun e => (fst e, has_self (fst e))) function_kinds =
     [("MODULE", false); ("CLASS", true); ("INSTANCE", true); ("STATIC", false);
      ("PROPERTY", true); ("DJANGO_CACHED_PROPERTY", true)].
Proof. exact (conj only_position_zero (conj no_self_no_receiver has_self_table)). Qed.
Print Assumptions receiver_is_position_zero_of_self_kinds.

(* ---- names, kinds, defaults, order and arity are those of the source ---- *)
Theorem names_kinds_defaults_preserved :
  forall s kind sg tr, map erase (sparams (update_sig s kind sg tr)) = map erase (sparams sg).
Proof. exact SigUpdateFacts.names_kinds_defaults_preserved. Qed.
Print Assumptions names_kinds_defaults_preserved.

(* ---- a generator's traced return: Iterator[y] / Generator[y, None, r], as documented ---- *)
Theorem generator_return_shape :
  forall rt yt,
    match yt, rt with
    | Some y, None => traced_return rt yt = Some (TIterator y)
    | Some y, Some r => (r = TCls cNone -> traced_return rt yt = Some (TIterator y))
                        /\ (r <> TCls cNone -> traced_return rt yt = Some (TGenerator y (TCls cNone) r))
    | None, Some r => traced_return rt yt = Some r
    | None, None => traced_return rt yt = None
    end.
Proof. exact traced_return_shape. Qed.
Print Assumptions generator_return_shape.

Theorem return_decided_by_traces :
  forall s kind sg tr,
    sret sg = None \/ is_strat "IGNORE" s = true ->
    sret (update_sig s kind sg tr) =
    match traced_return (tret tr) (tyield tr) with Some t => Some (ATy t) | None => sret sg end.
Proof. exact return_from_traces. Qed.
Print Assumptions return_decided_by_traces.

(* ---- a None default shows the annotation as Optional[...]: exactly the old values plus None;
        an annotation that already is an Optional is left alone; other defaults change nothing ---- *)
Theorem optional_default_none :
  forall p t,
    panno p = Some (ATy t) -> pdef p = DNone -> wf_ty t ->
    exists t', shown_param p = Some (ATy t')
               /\ (is_optional (ATy t) = true -> t' = t)
               /\ forall anyb sub v,
                    member anyb sub v t' = member anyb sub v t || member anyb sub v (TCls cNone).
Proof. exact SigUpdateFacts.optional_default_none. Qed.
Print Assumptions optional_default_none.

Theorem optional_default_none_string_newtype :
  forall p, pdef p = DNone ->
    (forall s, panno p = Some (AStr s) -> shown_param p = Some (ATy (TUnion [TFwd s; TCls cNone])))
    /\ (forall n, panno p = Some (ANewType n) -> shown_param p = Some (AOptNew n))
    /\ (forall n, panno p = Some (AOptNew n) -> shown_param p = Some (AOptNew n)).
Proof. exact optional_default_none_opaque. Qed.
Print Assumptions optional_default_none_string_newtype.

Theorem other_defaults_show_annotation_unchanged :
  forall p, pdef p <> DNone -> shown_param p = panno p.
Proof. exact shown_not_none_default. Qed.
Print Assumptions other_defaults_show_annotation_unchanged.

(* ---- the three strategies are distinct values; the flags select them ---- *)
Theorem strategies_are_distinct :
  (exists s, is_strat "REPLICATE" s = true) /\ (exists s, is_strat "OMIT" s = true)
  /\ (exists s, is_strat "IGNORE" s = true)
  /\ forall s, (is_strat "REPLICATE" s && is_strat "OMIT" s = false)
               /\ (is_strat "REPLICATE" s && is_strat "IGNORE" s = false)
               /\ (is_strat "OMIT" s && is_strat "IGNORE" s = false).
Proof. exact strategies_distinct. Qed.
Print Assumptions strategies_are_distinct.

Theorem cli_flags_select_strategy :
  (exists s, cli_strategy "group" [] = CliStrategy s /\ is_strat "REPLICATE" s = true)
  /\ (exists s, cli_strategy "group" ["--ignore-existing-annotations"] = CliStrategy s
                /\ is_strat "IGNORE" s = true)
  /\ (exists s, cli_strategy "group" ["--omit-existing-annotations"] = CliStrategy s
                /\ is_strat "OMIT" s = true)
  /\ cli_strategy "group" ["--ignore-existing-annotations"; "--omit-existing-annotations"] = CliUsageError
  /\ cli_strategy "group" ["--omit-existing-annotations"; "--ignore-existing-annotations"] = CliUsageError
  /\ (exists s, cli_strategy "apply_parser" [] = CliStrategy s /\ is_strat "REPLICATE" s = true)
  /\ (exists s, cli_strategy "apply_parser" ["--ignore-existing-annotations"] = CliStrategy s
                /\ is_strat "IGNORE" s = true)
  /\ cli_strategy "apply_parser" ["--omit-existing-annotations"] = CliUsageError.
Proof. exact cli_flags_spec. Qed.
Print Assumptions cli_flags_select_strategy.

(* ---- the predicate the correspondence check evaluates on /repo's output holds of the model ---- *)
Theorem model_meets_checked_predicate :
  forall s kind sg tr,
    known_strat s = true -> wf_sig sg -> wf_traced tr ->
    spec_sig s kind sg tr (update_sig s kind sg tr) = true.
Proof. exact update_meets_spec. Qed.
Print Assumptions model_meets_checked_predicate.

(* the same predicate as the check writes it (documented member names and receiver kinds, no table lookup) *)
Theorem checked_predicate_holds_of_model :
  forall name s kind sg tr,
    In name ["REPLICATE"; "OMIT"; "IGNORE"] -> is_strat name s = true -> In kind (map fst function_kinds) ->
    wf_sig sg -> wf_traced tr ->
    spec_sig_with (allowed_m (mode_of_name name)) (doc_self kind) sg tr (update_sig s kind sg tr) = true.
Proof. exact SigUpdateTie.checked_predicate_holds_of_model. Qed.
Print Assumptions checked_predicate_holds_of_model.

Theorem documented_flags_are_implemented :
  forall parser flags, In parser ["group"; "apply_parser"] ->
    In flags [[]; ["--ignore-existing-annotations"]; ["--omit-existing-annotations"];
              ["--ignore-existing-annotations"; "--omit-existing-annotations"];
              ["--omit-existing-annotations"; "--ignore-existing-annotations"]] ->
    match doc_flags parser flags with
    | Some name => exists s, cli_strategy parser flags = CliStrategy s /\ is_strat name s = true
    | None => cli_strategy parser flags = CliUsageError
    end.
Proof. exact doc_flags_agree. Qed.
Print Assumptions documented_flags_are_implemented.

(* ---- "traced" means: some trace mentions the position (shrink_traced_types) ---- *)
Theorem traced_positions :
  forall k trs tr, collect k trs = Some tr ->
    (forall n, isSome (lookup_f n (targs tr)) = arg_traced n trs)
    /\ isSome (tret tr) = ret_traced trs /\ isSome (tyield tr) = yield_traced trs.
Proof. exact collect_presence. Qed.
Print Assumptions traced_positions.

(* =================================== non-vacuity =================================== *)
(*  class C:  def m(self, a: int, b='x', *c: 'Foo', d: UserId = None, e: Optional[str] = None, **f) -> List[int]  *)
Definition ex_sig : sig :=
  Sig [Param "self" PK None DNo;
       Param "a" PK (Some (ATy (TCls cInt))) DNo;
       Param "b" PK None DOther;
       Param "c" VP (Some (AStr "Foo")) DNo;
       Param "d" KO (Some (ANewType "UserId")) DNone;
       Param "e" KO (Some (ATy (TUnion [TCls cStr; TCls cNone]))) DNone;
       Param "f" VK None DNo]
      (Some (ATy (TList (TCls cInt)))).
(* two traces; `f` and the return are never traced by the first, the generator yields str *)
Definition ex_traces : list trace :=
  [Trace [("self", TCls 16%N); ("a", TCls cStr); ("b", TCls cStr); ("d", TCls cNone)] None (Some (TCls cStr));
   Trace [("self", TCls 16%N); ("a", TCls cInt); ("b", TCls cStr); ("c", TTuple [TCls cInt])] (Some (TCls cNone)) None].
Definition ex_traced : traced :=
  Traced [("self", TCls 16%N); ("a", TUnion [TCls cStr; TCls cInt]); ("b", TCls cStr); ("d", TCls cNone);
          ("c", TTuple [TCls cInt])]
         (Some (TCls cNone)) (Some (TCls cStr)).

Example ex_collect : collect 0 ex_traces = Some ex_traced.
Proof. vm_compute. reflexivity. Qed.

Example ex_strategies :
  is_strat "REPLICATE" 0 = true /\ is_strat "IGNORE" 1 = true /\ is_strat "OMIT" 2 = true
  /\ known_strat 3 = false /\ has_self "INSTANCE" = true /\ has_self "STATIC" = false
  /\ is_receiver "INSTANCE" 0 = true /\ is_receiver "INSTANCE" 1 = false /\ is_receiver "MODULE" 0 = false.
Proof. vm_compute. repeat split; reflexivity. Qed.

Example ex_replicate :
  map panno (sparams (update_sig 0 "INSTANCE" ex_sig ex_traced)) =
    [None; Some (ATy (TCls cInt)); Some (ATy (TCls cStr)); Some (AStr "Foo"); Some (ANewType "UserId");
     Some (ATy (TUnion [TCls cStr; TCls cNone])); None]
  /\ sret (update_sig 0 "INSTANCE" ex_sig ex_traced) = Some (ATy (TList (TCls cInt)))
  /\ (* the same function as a staticmethod: position 0 is an ordinary parameter *)
     option_map panno (out_param 0 "STATIC" ex_sig ex_traced 0) = Some (Some (ATy (TCls 16%N))).
Proof. vm_compute. repeat split; reflexivity. Qed.

Example ex_omit :
  map panno (sparams (update_sig 2 "INSTANCE" ex_sig ex_traced)) =
    [None; None; Some (ATy (TCls cStr)); None; None; None; None]
  /\ sret (update_sig 2 "INSTANCE" ex_sig ex_traced) = None.
Proof. vm_compute. repeat split; reflexivity. Qed.

Example ex_ignore :
  map panno (sparams (update_sig 1 "INSTANCE" ex_sig ex_traced)) =
    [None; Some (ATy (TUnion [TCls cStr; TCls cInt])); Some (ATy (TCls cStr)); Some (ATy (TTuple [TCls cInt]));
     Some (ATy (TCls cNone)); None; None]
  /\ sret (update_sig 1 "INSTANCE" ex_sig ex_traced) = Some (ATy (TIterator (TCls cStr)))
  /\ (* untraced annotated return is kept, untraced annotated parameter `e` was dropped above *)
     sret (update_sig 1 "INSTANCE" ex_sig (Traced [] None None)) = Some (ATy (TList (TCls cInt))).
Proof. vm_compute. repeat split; reflexivity. Qed.

Example ex_receiver_annotated :
  let sg := Sig [Param "cls" PK (Some (AStr "Type[C]")) DNo; Param "x" PK None DNo] None in
  let tr := Traced [("cls", TType (TCls 16%N)); ("x", TCls cInt)] None None in
  map panno (sparams (update_sig 0 "CLASS" sg tr)) = [Some (AStr "Type[C]"); Some (ATy (TCls cInt))]
  /\ map panno (sparams (update_sig 1 "CLASS" sg tr)) = [Some (AStr "Type[C]"); Some (ATy (TCls cInt))]
  /\ map panno (sparams (update_sig 2 "CLASS" sg tr)) = [None; Some (ATy (TCls cInt))].
Proof. vm_compute. repeat split; reflexivity. Qed.

Example ex_generator_shapes :
  traced_return None (Some (TCls cInt)) = Some (TIterator (TCls cInt))
  /\ traced_return (Some (TCls cNone)) (Some (TCls cInt)) = Some (TIterator (TCls cInt))
  /\ traced_return (Some (TCls cStr)) (Some (TCls cInt)) = Some (TGenerator (TCls cInt) (TCls cNone) (TCls cStr))
  /\ traced_return (Some (TUnion [TCls cStr; TCls cNone])) (Some (TCls cInt))
     = Some (TGenerator (TCls cInt) (TCls cNone) (TUnion [TCls cStr; TCls cNone]))
  /\ traced_return (Some (TCls cStr)) None = Some (TCls cStr)
  /\ traced_return None None = None.
Proof. vm_compute. repeat split; reflexivity. Qed.

Example ex_optional_wrapping :
  map shown_param (sparams (update_sig 0 "INSTANCE" ex_sig ex_traced)) =
    [None; Some (ATy (TCls cInt)); Some (ATy (TCls cStr)); Some (AStr "Foo"); Some (AOptNew "UserId");
     Some (ATy (TUnion [TCls cStr; TCls cNone])); None]
  /\ shown_param (Param "x" PK (Some (ATy (TCls cInt))) DNone) = Some (ATy (TUnion [TCls cInt; TCls cNone]))
  /\ shown_param (Param "x" PK (Some (ATy (TUnion [TCls cInt; TCls cStr]))) DNone)
     = Some (ATy (TUnion [TCls cInt; TCls cStr; TCls cNone]))
  /\ shown_param (Param "x" PK (Some (ATy (TCls cNone))) DNone) = Some (ATy (TCls cNone))
  /\ shown_param (Param "x" PK (Some (AStr "Foo")) DNone) = Some (ATy (TUnion [TFwd "Foo"; TCls cNone]))
  /\ shown_param (Param "x" PK (Some (ATy (TCls cInt))) DOther) = Some (ATy (TCls cInt)).
Proof. vm_compute. repeat split; reflexivity. Qed.

Example ex_wf_and_predicate :
  wf_sig ex_sig /\ wf_traced ex_traced
  /\ spec_sig 0 "INSTANCE" ex_sig ex_traced (update_sig 0 "INSTANCE" ex_sig ex_traced) = true
  /\ (* the predicate is not trivially true: giving the receiver its traced type is rejected,
        and so is dropping a kept annotation *)
     spec_sig 0 "INSTANCE" ex_sig ex_traced (update_sig 0 "STATIC" ex_sig ex_traced) = false
  /\ spec_sig 0 "INSTANCE" ex_sig ex_traced (update_sig 2 "INSTANCE" ex_sig ex_traced) = false
  /\ spec_sig 1 "INSTANCE" ex_sig ex_traced (update_sig 0 "INSTANCE" ex_sig ex_traced) = false.
Proof.
  split; [|split].
  - split; [|exact I]. repeat constructor.
  - split; [|split; exact I]. repeat constructor.
  - vm_compute. repeat split; reflexivity.
Qed.
