#!/usr/bin/env python3
"""Regenerates MANIFEST.json.  A property is claimed iff harness/props/<id>.py defines a literal
`CLAIM = {text, note, technique, ref}`; everything else is listed under not_applicable with the reason
in NOT_CLAIMED below."""
import ast, json, os
HERE = os.path.dirname(os.path.dirname(os.path.abspath(__file__)))
props = [json.loads(l) for l in open(os.path.join(HERE, "properties.jsonl"))]

NOT_CLAIMED = {}   # id -> reason (filled in when a property is deliberately not claimed)
DEFAULT_REASON = "check under construction (DESIGN.md section 8); not yet claimed"


def claim_of(pid):
    p = os.path.join(HERE, "harness", "props", pid + ".py")
    if not os.path.exists(p):
        return None
    for n in ast.parse(open(p).read()).body:
        if isinstance(n, ast.Assign) and getattr(n.targets[0], "id", None) == "CLAIM":
            return ast.literal_eval(n.value)
    return None


CLAIMED = {p["id"]: claim_of(p["id"]) for p in props}
READY = set(open(os.path.join(HERE, "tools", "claimed.txt")).read().split())   # integrated and passing on the unchanged tree
CLAIMED = {k: v for k, v in CLAIMED.items() if v and k not in NOT_CLAIMED and k in READY}
checks = []
for p in props:
    i = p["id"]
    if i in CLAIMED:
        c = CLAIMED[i]
        checks.append({
            "property_id": i,
            "quick_cmd": f"./check {i} --tier quick",
            "thorough_cmd": f"./check {i} --tier thorough",
            "evidence_file": f"/verif/evidence/{i}.json",
            "replay_cmd_template": f"./check {i} --replay {{path}}",
            "engine": "coq-model-proofs",
            "level_claimed": {"category": "proof", "text": c["text"], "design_ref": "DESIGN.md section " + c["ref"]},
            "level_note": c["note"],
            "technique": c["technique"],
        })
hooks_path = os.path.join(HERE, "tools", "hooks.json")
hooks = json.load(open(hooks_path)) if os.path.exists(hooks_path) else {
    "guard": "MONKEYTYPE_VERIF",
    "enable": "no source hooks are needed: the harness wraps tracer/logger/store objects from outside; MONKEYTYPE_VERIF is not read by /repo",
    "baseline_off_cmd": "cd /repo && /venv/bin/python -m pytest -ra -q -p no:cacheprovider --timeout=900 --continue-on-collection-errors",
    "source_commits": [], "add_only": True}
m = {
 "version": 1,
 "setup_cmd": "./setup.sh",
 "hooks": hooks,
 "engines": [
   {"name": "coq-model-proofs", "path": "coq/", "serves_properties": sorted(CLAIMED),
    "kind_free_text": "Gallina models + theorems (Coq 8.16.1, stdlib only), correspondence verdicts by vm_compute; driven by harness/driver.py"},
 ],
 "checks": checks,
 "notes": "See DESIGN.md. ./check <id> [--tier quick|thorough] [--replay FILE]; known findings in known_findings.json.",
 "not_applicable": [{"property_id": p["id"], "reason": NOT_CLAIMED.get(p["id"], DEFAULT_REASON)}
                    for p in props if p["id"] not in CLAIMED],
}
json.dump(m, open(os.path.join(HERE, "MANIFEST.json"), "w"), indent=1)
print("claimed:", sorted(CLAIMED))
