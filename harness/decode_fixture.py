"""C10 fixture: a small package written under ctx.work, the mutations that make stored rows stale, and the
row pool (created by harness.decode_mkrows in a subprocess against the UNMUTATED package, with the real
CallTraceRow.from_trace).  A `world` is a set of mutation names applied to the package on disk."""
import os
import shutil

# ---- module-level blocks of fxpkg/mod.py: name -> (original, mutated) --------------------------------
MOD_BLOCKS = [
    ("f_ok", "def f_ok(a, b):\n    return a\n", None),
    ("f_ok2", "def f_ok2(x, y=0):\n    return [x]\n", None),
    ("f_gen", "def f_gen(n):\n    for i in range(n):\n        yield i\n", None),
    ("f_wrapped", "@deco\ndef f_wrapped(a):\n    return a\n", None),
    ("f_removed", "def f_removed(a):\n    return a\n", ""),
    ("f_nonfunc", "def f_nonfunc(a):\n    return a\n", "f_nonfunc = 3\n"),
    ("f_none", "def f_none(a):\n    return a\n", "f_none = None\n"),
    ("f_partial", "def f_partial(a):\n    return a\n", "f_partial = functools.partial(f_ok, 1)\n"),
    ("f_builtin", "def f_builtin(a):\n    return a\n", "f_builtin = len\n"),
    ("f_class", "def f_class(a):\n    return a\n", "class f_class:\n    def __init__(self, a):\n        self.a = a\n"),
    ("f_argcls", "def f_argcls(a, b):\n    return b\n", None),
    ("f_retcls", "def f_retcls(a):\n    return a\n", None),
    ("f_yieldcls", "def f_yieldcls(a):\n    yield a\n", None),
    ("f_nontype", "def f_nontype(a):\n    return a\n", None),
    ("f_nested", "def f_nested(a):\n    return a\n", None),
    ("f_params", "def f_params(a, b):\n    return a\n", "def f_params(a, c):\n    return a\n"),
    ("f_outer", "def f_outer():\n    def inner(x):\n        return x\n    return inner\n", None),
    ("KGone", "class KGone:\n    def meth(self, x):\n        return x\n", ""),
]
K_BLOCKS = [
    ("K.meth", "    def meth(self, x):\n        return x\n", None),
    ("K.cm", "    @classmethod\n    def cm(cls, x):\n        return x\n", None),
    ("K.sm", "    @staticmethod\n    def sm(x):\n        return x\n", None),
    ("K.prop", "    @property\n    def prop(self):\n        return 1\n", None),
    ("K.prop_set", "    @property\n    def prop_set(self):\n        return 2\n",
     "    @property\n    def prop_set(self):\n        return 2\n\n    @prop_set.setter\n    def prop_set(self, v):\n        pass\n"),
    ("K.prop_del", "    @property\n    def prop_del(self):\n        return 3\n",
     "    @property\n    def prop_del(self):\n        return 3\n\n    @prop_del.deleter\n    def prop_del(self):\n        pass\n"),
    ("K.prop_nog", "    @property\n    def prop_nog(self):\n        return 4\n", "    prop_nog = property()\n"),
    ("K.m_removed", "    def m_removed(self, x):\n        return x\n", ""),
]
KINDS_BLOCKS = [
    ("Keep", "class Keep:\n    pass\n", None),
    ("A", "class A:\n    pass\n", ""),
    ("B", "class B:\n    pass\n", ""),
    ("C", "class C:\n    pass\n", ""),
    ("D", "class D:\n    pass\n", "D = 5\n"),
    ("E", "class E:\n    pass\n", "def E():\n    pass\n"),
    ("Outer.Inner", "class Outer:\n    class Inner:\n        pass\n", "class Outer:\n    pass\n"),
]
MOD_HEADER = ("import functools\n\n\n"
              "def deco(fn):\n    @functools.wraps(fn)\n    def wrapper(*a, **k):\n        return fn(*a, **k)\n    return wrapper\n")

# whole-file mutations
FILE_MUTS = {
    "mod:gone": lambda files: [files.pop(k) for k in list(files) if k == "fxpkg/gone.py"],
    "mod:sub": lambda files: [files.pop(k) for k in list(files) if k.startswith("fxpkg/sub/")],
    "top": lambda files: files.__setitem__("fxpkg/__init__.py", ""),
    "mod:fxtop": lambda files: [files.pop(k) for k in list(files) if k == "fxtop.py"],
    "broken": lambda files: files.__setitem__("fxpkg/broken.py", "def broken_f(x):\n    return x +\n"),
}

BLOCK_MUTS = [n for n, _, m in MOD_BLOCKS + K_BLOCKS + KINDS_BLOCKS if m is not None]
ALL_MUTS = BLOCK_MUTS + ["mod:gone", "mod:sub", "top", "mod:fxtop"]          # "broken" is outside the property
TARGET = "fxpkg.mod"


def _blocks(blocks, muts, sep):
    out = []
    for name, orig, mut in blocks:
        text = mut if (name in muts and mut is not None) else orig
        if text:
            out.append(text)
    return sep.join(out)


def files_for(muts):
    muts = set(muts)
    files = {
        "fxpkg/__init__.py": "def top(a):\n    return a\n",
        "fxpkg/kinds.py": _blocks(KINDS_BLOCKS, muts, "\n\n"),
        "fxpkg/gone.py": "class G:\n    pass\n\n\ndef g(x):\n    return x\n",
        "fxpkg/sub/__init__.py": "",
        "fxpkg/sub/leaf.py": "class L:\n    pass\n\n\ndef leaf_f(x):\n    return x\n",
        "fxpkg/broken.py": "def broken_f(x):\n    return x\n",
        "fxtop.py": "class T:\n    pass\n\n\ndef tf(x):\n    return x\n\n\ndef tf2(x, y):\n    return y\n",
        "fxpkg/mod.py": MOD_HEADER + "\n\n" + _blocks(MOD_BLOCKS, muts, "\n\n") + "\n\nclass K:\n"
                        + _blocks(K_BLOCKS, muts, "\n"),
    }
    for name, fn in FILE_MUTS.items():
        if name in muts:
            fn(files)
    return files


def write_tree(root, muts):
    """(Re)create <root>/fxpkg for the given set of mutations: the package is really changed on disk."""
    shutil.rmtree(os.path.join(root, "fxpkg"), ignore_errors=True)
    if os.path.exists(os.path.join(root, "fxtop.py")):
        os.remove(os.path.join(root, "fxtop.py"))
    for rel, text in files_for(muts).items():
        p = os.path.join(root, rel)
        os.makedirs(os.path.dirname(p) or root, exist_ok=True)
        with open(p, "w") as f:
            f.write(text)


# ---- which mutation makes which pool row stale, and the MonkeyTypeError class expected then ---------
# tag -> (mutation that makes it stale, expected class, stale kind of the property)
STALE_BY = {
    "removed": ("f_removed", "NameLookupError", "function removed"),
    "nonfunc": ("f_nonfunc", "InvalidTypeError", "function replaced by a non-function"),
    "none": ("f_none", "InvalidTypeError", "function replaced by a non-function"),
    "partial": ("f_partial", "InvalidTypeError", "function replaced by a non-function"),
    "cls": ("f_class", "InvalidTypeError", "function replaced by a class"),
    "prop_set": ("K.prop_set", "InvalidTypeError", "function replaced by a settable property"),
    "prop_del": ("K.prop_del", "InvalidTypeError", "function replaced by a settable property"),
    "prop_nog": ("K.prop_nog", "InvalidTypeError", "function replaced by a property without getter"),
    "m_removed": ("K.m_removed", "NameLookupError", "function removed"),
    "kgone": ("KGone", "NameLookupError", "function removed"),
    "argcls": ("A", "NameLookupError", "argument class removed"),
    "argcls_nested": ("A", "NameLookupError", "argument class removed"),
    "argcls_opt": ("A", "NameLookupError", "argument class removed"),
    "argcls_two": ("A", "NameLookupError", "argument class removed"),
    "td_stale": ("A", "NameLookupError", "argument class removed"),
    "retcls": ("B", "NameLookupError", "return class removed"),
    "retcls_nested": ("B", "NameLookupError", "return class removed"),
    "yieldcls": ("C", "NameLookupError", "yield class removed"),
    "nontype": ("D", "InvalidTypeError", "class name now bound to a non-type"),
    "nontype_ret": ("D", "InvalidTypeError", "class name now bound to a non-type"),
    "nontype_fn": ("E", "InvalidTypeError", "class name now bound to a non-type"),
    "inner_cls": ("Outer.Inner", "NameLookupError", "argument class removed"),
    "gonemod_cls": ("mod:gone", "NameLookupError", "argument class removed"),
    "subcls": ("mod:sub", "NameLookupError", "return class removed"),
    "gone_g": ("mod:gone", "NameLookupError", "module removed"),
    "gone_g2": ("mod:gone", "NameLookupError", "module removed"),
    "top_tf": ("mod:fxtop", "NameLookupError", "module removed"),
    "top_tf2": ("mod:fxtop", "NameLookupError", "module removed"),
    "topcls": ("mod:fxtop", "NameLookupError", "argument class removed"),
    "leaf_f2": ("mod:sub", "NameLookupError", "submodule removed"),
    "leaf_f": ("mod:sub", "NameLookupError", "submodule removed"),
    "top": ("top", "NameLookupError", "function removed"),
}
ALWAYS_STALE = {"local": ("NameLookupError", "function defined in a local scope")}
# decodes, but one traced parameter name no longer exists
PARAMS_TAG = ("params", "f_params", "parameter names that no longer exist")
VALID_TAGS = ["ok_a", "ok_b", "ok2", "gen", "wrapped", "meth", "cm", "sm", "prop", "td"]


def expected(tag, muts):
    """'ok' | MonkeyTypeError class name | None (outside the property)"""
    if tag in ALWAYS_STALE:
        return ALWAYS_STALE[tag][0]
    if tag == "broken_f":
        return None if "broken" in muts else "ok"
    if tag in STALE_BY:
        mut, cls, _ = STALE_BY[tag]
        if mut in muts:
            return cls
        # argcls_two names A and D; D alone gives InvalidTypeError
        if tag == "argcls_two" and "D" in muts:
            return "InvalidTypeError"
    return "ok"


def kind_of(tag, muts):
    if tag in ALWAYS_STALE:
        return ALWAYS_STALE[tag][1]
    if tag in STALE_BY and expected(tag, muts) != "ok":
        if tag == "argcls_two" and "A" not in muts:
            return "class name now bound to a non-type"
        return STALE_BY[tag][2]
    if tag == "params" and "f_params" in muts:
        return PARAMS_TAG[2]
    return "valid"


def copy_tree(src_root, dst_root):
    """copy the (possibly mutated) fixture from one root to another"""
    shutil.copytree(os.path.join(src_root, "fxpkg"), os.path.join(dst_root, "fxpkg"))
    if os.path.exists(os.path.join(src_root, "fxtop.py")):
        shutil.copy(os.path.join(src_root, "fxtop.py"), os.path.join(dst_root, "fxtop.py"))


def source_file(root, module):
    """the file `apply <module>` rewrites, or None when the module is not there"""
    base = os.path.join(root, *module.split("."))
    for p in (base + ".py", os.path.join(base, "__init__.py")):
        if os.path.isfile(p):
            return p
    return None
