"""Enumerator / sampler of typing objects over the property grammar, plus inhabitants."""
import collections
import itertools
import random
from typing import (Any, Callable, DefaultDict, Dict, Generator, Iterator, List, Optional, Set, Tuple,
                    Type, Union)

from harness import fxclasses as fx

NoneType = type(None)
ATOMS = [int, str, bool, NoneType, float]
USER = [fx.A, fx.B, fx.C, fx.D, fx.E, fx.F, fx.X, fx.Y, fx.XY1, fx.YX1]


def make_td(req=None, opt=None):
    from monkeytype.typing import make_typed_dict
    return make_typed_dict(required_fields=dict(req or {}), optional_fields=dict(opt or {}))


def depth1(pool):
    """Generic types one level above `pool`."""
    out = [List[Any], Set[Any], Dict[Any, Any], DefaultDict[Any, Any], Tuple[()], Callable, Iterator[Any]]
    for a in pool:
        out += [List[a], Set[a], Tuple[a], Tuple[a, a], Type[a] if isinstance(a, type) else List[a],
                Dict[str, a], DefaultDict[str, a], Generator[a, None, None], Generator[a, None, int],
                Dict[a, int] if a in (int, str) else Dict[int, a]]
    for a, b in itertools.combinations(pool[:4], 2):
        out += [Tuple[a, b], Dict[a, b]]
    seen, res = set(), []
    for t in out:
        if id(t) not in seen:
            seen.add(id(t))
            res.append(t)
    return res


def unions(pool, sizes, rnd, per_size):
    out = []
    for n in sizes:
        if n > len(pool):
            continue
        combos = list(itertools.combinations(range(len(pool)), n)) if len(pool) <= 12 and n <= 3 else None
        if combos is not None and len(combos) <= per_size:
            picks = combos
        else:
            picks = [tuple(rnd.sample(range(len(pool)), n)) for _ in range(per_size)]
        for idx in picks:
            members = [pool[i] for i in idx]
            rnd.shuffle(members)
            try:
                out.append(Union[tuple(members)])
            except TypeError:
                pass
    return out


def type_stream(rnd: random.Random, n_random: int):
    """Yields typing objects: a fixed systematic block followed by n_random sampled ones."""
    atoms = ATOMS + USER
    d1 = depth1(ATOMS[:3] + [fx.B, fx.C])
    tds = [make_td({"a": int}), make_td({"a": int, "b": str}), make_td({"a": int}, {"b": str}),
           make_td(None, {"c": NoneType}), make_td({"a": List[int]}), make_td({"a": make_td({"x": int})})]
    # systematic block
    out = []
    out += atoms + d1 + tds
    out += unions(ATOMS, [2, 3], rnd, 40)
    out += unions(USER, [2, 3], rnd, 150)
    out += unions(USER + [NoneType], [4, 6, 7, 8], rnd, 25)
    out += unions(d1, [2], rnd, 500)
    out += unions(d1 + ATOMS, [3, 4, 6, 7], rnd, 120)
    out += unions(tds + [int, NoneType, Dict[str, int]], [2, 3], rnd, 30)
    # classes with the SAME qualified name in two different modules (a vendored copy, two apps of one project): whatever a
    # rewriter remembers about the first family must not be applied to the second (the rewriter objects live for the whole run)
    def _family(mod):
        node = type("Node", (), {"__module__": mod})
        return node, type("Leaf", (node,), {"__module__": mod}), type("Twig", (node,), {"__module__": mod})
    sN, sL, sT = _family("shop")
    bN, bL, bT = _family("blog")
    out += [Union[sL, sT], Union[bL, bT], Union[sL, bT], Union[bL, sT, sN], Union[bN, bL], Union[sL, sT, int]]
    # plain dicts next to defaultdicts: a DefaultDict is not a Dict for the dict rewriters (and vice versa)
    out += [Union[Dict[int, str], DefaultDict[int, int]], Union[DefaultDict[str, int], Dict[str, str]], Union[Dict[Any, Any], DefaultDict[str, int]],
            Union[DefaultDict[str, int], Dict[Any, Any]], Union[Dict[str, int], DefaultDict[str, int], DefaultDict[str, str]],
            Union[DefaultDict[Any, Any], Dict[str, int]]]
    # an EMPTY container's type next to a TypedDict (a generator that yielded {} and a str-keyed dict): the TypedDict is not
    # a Dict sibling, nothing may be dropped
    for td in tds[:4]:
        out += [Union[Dict[Any, Any], td], Union[td, Dict[Any, Any]], Union[Dict[Any, Any], td, int], List[Union[td, Dict[Any, Any]]],
                Union[List[Any], td], Union[Set[Any], td, Dict[Any, Any]]]
    # homogeneous tuple unions for RewriteLargeUnion._rewrite_to_tuple
    for a in (int, fx.B):
        tups = [Tuple[()]] + [Tuple[tuple([a] * i)] for i in range(1, 8)]
        for n in (3, 6, 7):
            for _ in range(6):
                ms = rnd.sample(tups, n)
                out.append(Union[tuple(ms)])
        out.append(Union[tuple(tups[1:7] + [Tuple[a, str]])])
    # unions of tuples that are EACH homogeneous but over different element types (must not become Tuple[T, ...])
    mixed = [Tuple[()]] + [Tuple[tuple([a] * i)] for a in (int, str, fx.B, fx.C) for i in (1, 2, 3)]
    for n in (3, 4, 6, 7):
        for _ in range(8):
            out.append(Union[tuple(rnd.sample(mixed, n))])
    out.append(Union[Tuple[()], Tuple[int], Tuple[str]])
    out.append(Union[Tuple[int], Tuple[str, str], Tuple[int, int, int]])
    # user classes named like typing forms (Union, Generator, TypedDict, ...): plain classes to every rewriter
    for c in fx.NAMED_LIKE_TYPING:
        out += [c, List[c], Optional[c], Union[c, int], Dict[str, c], Tuple[c, int], Generator[c, None, None],
                Union[c, fx.A, fx.B, fx.C, fx.E, fx.X, fx.Y], make_td({"f": c})]
    # a class object that is falsy, wherever a rewriter keeps "the first one seen" in a variable
    F0 = fx.Falsy
    out += [F0, List[F0], Optional[F0], Dict[F0, int], Union[Dict[F0, int], Dict[str, str]], Union[Dict[F0, int], Dict[F0, str]],
            Union[Dict[str, str], Dict[F0, int]], Union[List[F0], List[Any]], Union[Set[F0], Set[Any], int],
            Union[Tuple[F0], Tuple[int], Tuple[int, int], Tuple[int, int, int], Tuple[()], Tuple[int, int, int, int],
                  Tuple[int, int, int, int, int]],
            Union[Tuple[F0], Tuple[F0, F0], Tuple[F0, F0, F0], Tuple[()], Tuple[F0, F0, F0, F0], Tuple[F0, F0, F0, F0, F0],
                  Tuple[F0, F0, F0, F0, F0, F0]],
            Union[F0, fx.A, fx.B, fx.C, fx.E, fx.X, fx.Y], Generator[F0, None, None], Generator[int, None, F0]]
    # generators: None in the yield position, with one or both of send / return None
    for g in (Generator[NoneType, None, None], Generator[NoneType, int, None], Generator[NoneType, None, int],
              Generator[NoneType, NoneType, str], Generator[int, NoneType, None], Generator[int, int, None]):
        out += [g, Optional[g], List[g]]
    # classes with a common user-defined base next to members that are not plain classes (no common base exists then)
    for extra in ([List[int]], [Dict[str, int]], [Type[fx.A]], [Callable], [List[int], NoneType], [Tuple[int, str]]):
        for cls in ([fx.A, fx.B, fx.C, fx.D], [fx.B, fx.C, fx.D], [fx.E, fx.F], [fx.X, fx.Y, fx.XY1, fx.YX1]):
            ms = list(cls) + list(extra)
            rnd.shuffle(ms)
            out.append(Union[tuple(ms)])
            out.append(Union[tuple(ms + [int, str])])
    # dict unions with a None member (Optional config dicts)
    for vs in ([int, str], [int, str, float]):
        out.append(Union[tuple([Dict[str, v] for v in vs] + [NoneType])])
        out.append(Union[tuple([NoneType] + [Dict[str, v] for v in vs])])
        out.append(Optional[Union[tuple(Dict[int, v] for v in vs)]])
    # dict unions with an empty dict's type in every position; empty containers after a member that nests a union
    for vs in ([Dict[str, int], Dict[Any, Any]], [Dict[Any, Any], Dict[str, int]], [Dict[str, int], Dict[str, str], Dict[Any, Any]],
               [Dict[int, str], Dict[Any, Any], Dict[int, int]]):
        out.append(Union[tuple(vs)])
    out += [Dict[int, Union[List[Union[Set[int], str]], Set[Any]]], Union[List[Union[Set[int], str]], Set[Any]],
            Union[Tuple[Union[List[int], str], int], List[Any]], Union[Dict[str, Union[Dict[str, int], int]], Dict[Any, Any], int],
            Union[List[Union[List[int], Set[int]]], Set[Any], Dict[Any, Any]]]
    # containers whose element union is over the limit next to the same container with few element types
    big = Union[int, str, float, bytes, NoneType, fx.A, Tuple[int, int]]
    out += [Union[Set[big], Set[int]], Union[Set[int], Set[big]], Union[List[big], Set[big], Set[str]], Dict[str, Union[Set[big], Set[int]]],
            Union[Tuple[big, int], Tuple[int, int]]]
    # dict unions for RewriteConfigDict
    for vs in ([int, str], [int, str, NoneType], [List[int], int], [int, Dict[str, int]]):
        out.append(Union[tuple(Dict[str, v] for v in vs)])
        out.append(Union[tuple([Dict[str, vs[0]]] + [Dict[int, v] for v in vs[1:]])])
    # dict unions whose key types are EQUAL BUT NOT IDENTICAL objects (a parametrised key built twice with typing's
    # subscription cache emptied in between, as happens when many other generics are decoded between two rows)
    import typing as _typing
    for mk in (lambda: Type[int], lambda: Tuple[int, str], lambda: Type[fx.A], lambda: Tuple[str, ...]):
        k1 = mk()
        for cleanup in _typing._cleanups:
            cleanup()
        k2 = mk()
        for cleanup in _typing._cleanups:
            cleanup()
        k3 = mk()
        if k1 is not k2 and k1 == k2:
            out.append(Union[Dict[k1, int], Dict[k2, str]])
            out.append(Union[Dict[k1, int], Dict[k2, str], Dict[k3, NoneType]])
    # depth 2 and 3
    u2 = [t for t in out if getattr(t, "__origin__", None) is Union]
    for _ in range(n_random):
        c = rnd.random()
        base = rnd.choice(u2) if rnd.random() < 0.7 else rnd.choice(d1 + atoms + tds)
        if c < 0.15:
            t = List[base]
        elif c < 0.25:
            t = Set[base]
        elif c < 0.4:
            t = Dict[str, base]
        elif c < 0.5:
            t = Tuple[base, rnd.choice(atoms)]
        elif c < 0.58:
            t = Generator[base, None, rnd.choice([None, int, base])]
        elif c < 0.66:
            t = DefaultDict[str, base]
        elif c < 0.74:
            t = make_td({"f": base}, {"g": rnd.choice(atoms)} if rnd.random() < 0.5 else None)
        elif c < 0.8:
            t = Iterator[base]
        else:
            k = rnd.choice([2, 3, 4, 6, 7])
            ms = [rnd.choice(d1 + atoms + tds + u2[:50]) for _ in range(k)]
            ms = [List[m] if rnd.random() < 0.3 else m for m in ms]
            try:
                t = Union[tuple(ms)]
            except TypeError:
                continue
        out.append(t)
        if rnd.random() < 0.3:
            u2.append(t) if getattr(t, "__origin__", None) is Union else None
            out.append(List[t] if rnd.random() < 0.5 else Optional[Tuple[t, int]])
    return out


def _inst(c):
    if c is int:
        return [1]
    if c is str:
        return ["s"]
    if c is bool:
        return [True]
    if c is NoneType:
        return [None]
    if c is float:
        return [1.5]
    if c is bytes:
        return [b"x"]
    try:
        return [c()]
    except Exception:
        return []


def inhabitants(t, depth=3, limit=4):
    """Some values admitted by t under the tight reading (Any admits nothing). Best effort:
    membership is re-evaluated in Coq, so a wrong guess only weakens the witness set."""
    from mypy_extensions import _TypedDictMeta
    if t is Any or depth < 0:
        return []
    if isinstance(t, _TypedDictMeta):
        ann = t.__annotations__
        if set(ann) == {"required_fields", "optional_fields"}:
            req = ann["required_fields"].__annotations__
            opt = ann["optional_fields"].__annotations__
            base = {}
            for k, ft in req.items():
                vs = inhabitants(ft, depth - 1, 1)
                if not vs:
                    return []
                base[k] = vs[0]
            out = [dict(base)]
            full = dict(base)
            for k, ft in opt.items():
                vs = inhabitants(ft, depth - 1, 1)
                if vs:
                    full[k] = vs[0]
            if full != base:
                out.append(full)
            return out
        return []
    if t is Callable:
        return [fx.some_function]
    origin = getattr(t, "__origin__", None)
    args = getattr(t, "__args__", None)
    if origin is None or isinstance(t, type):
        if isinstance(t, type):
            out = _inst(t)
            for s in (fx.D, fx.XY1, fx.F):
                if s is not t and isinstance(t, type) and issubclass(s, t):
                    out += _inst(s)
            return out[:limit]
        return []
    if origin is Union:
        out = []
        for a in args:
            out += inhabitants(a, depth - 1, 2)
        return out[:max(limit, len(args))]
    if origin in (list, set):
        inner = inhabitants(args[0], depth - 1, 2)
        if origin is list:
            return [[]] + [[x] for x in inner[:2]] + ([list(inner)] if len(inner) > 1 else [])
        out = [set()]
        for x in inner[:2]:
            try:
                out.append({x})
            except TypeError:
                pass
        return out
    if origin in (dict, collections.defaultdict):
        ks = inhabitants(args[0], depth - 1, 2)
        vs = inhabitants(args[1], depth - 1, 2)
        mk = (lambda d: d) if origin is dict else (lambda d: collections.defaultdict(int, d))
        out = [mk({})]
        for k in ks[:1]:
            for v in vs[:2]:
                try:
                    out.append(mk({k: v}))
                except TypeError:
                    pass
        return out
    if origin is tuple:
        if args == () or args == ((),):
            return [()]
        if len(args) == 2 and args[1] is Ellipsis:
            inner = inhabitants(args[0], depth - 1, 2)
            return [()] + [(x,) for x in inner[:1]] + ([tuple(inner)] if len(inner) > 1 else [])
        cols = [inhabitants(a, depth - 1, 2) for a in args]
        if any(not c for c in cols):
            return []
        return [tuple(c[0] for c in cols), tuple(c[-1] for c in cols)]
    if origin is type:
        a = args[0]
        if isinstance(a, type):
            return [a] + [s for s in (fx.D, fx.XY1) if s is not a and issubclass(s, a)][:1]
        return []
    if origin in (collections.abc.Iterator, collections.abc.Generator):
        return [fx.some_generator()]
    return []
