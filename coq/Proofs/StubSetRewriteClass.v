(* Proofs/StubSetRewriteClass.v — C14: when is the merged type outside kf_td_under_union?  A sufficient condition on
   the INPUT types: they are outside the class themselves and carry no TypedDict below DefaultDict / Type / Iterator
   (the positions RewriteAnonymousTypedDictToDict, which shrink_types applies before building a Union, does not
   reach).  Then the side condition of StubSetRewrite.merge_rewrite_perm holds, and the pipeline theorem can be
   stated with premises on the traced types only. *)
From MT Require Import Types StubSet Infer Rewrite RewriteTrigger Hier TypesFacts UnionFacts InferFacts InferSound
  GetTypeSound TdBounded StubSetEquiv StubSetMerge MergePermBase MergePermEquiv RewriteTriggerInfer
  StubSetRewriteBase StubSetRewriteHier StubSetRewriteUnion StubSetRewrite.
From Coq Require Import Lia Sorting.Permutation.
Open Scope list_scope.

(* every TypedDict in t sits where td2dict reaches it *)
Fixpoint td_reach (t : ty) : bool :=
  match t with
  | TAny | TCls _ | TCallable | TFwd _ => true
  | TType x | TIterator x => negb (has_td x)
  | TDefaultDict k v => negb (has_td k) && negb (has_td v)
  | TList x | TSet x | TTupleVar x => td_reach x
  | TDict k v => td_reach k && td_reach v
  | TTuple ts | TUnion ts => forallb td_reach ts
  | TGenerator a b c => td_reach a && td_reach b && td_reach c
  | TTypedDict r o => forallb (fun f => td_reach (snd f)) r && forallb (fun f => td_reach (snd f)) o
  end.

(* the input condition: reachable TypedDicts only, and outside the class *)
Definition c14_inputb (t : ty) : bool := td_reach t && negb (kf_td_under_union t).

Lemma tdfree_reach t : has_td t = false -> td_reach t = true.
Proof.
  induction t as [ | c | x IH | | x IH | x IH | x IH | k v0 IHk IHv | k v0 IHk IHv | xs IH | x IH
                 | a1 a2 a3 IH1 IH2 IH3 | xs IH | r o IHr IHo | s ] using ty_ind';
    cbn [has_td td_reach]; intros H; auto; try discriminate H.
  - rewrite H. reflexivity.
  - rewrite H. reflexivity.
  - apply orb_false_elim in H. destruct H. rewrite IHk, IHv by assumption. reflexivity.
  - apply orb_false_elim in H. destruct H as [-> ->]. reflexivity.
  - apply forallb_forall. intros x Hx. rewrite Forall_forall in IH. apply (IH x Hx). eapply existsb_false_In; eassumption.
  - apply orb_false_elim in H. destruct H as [H H3]. apply orb_false_elim in H. destruct H.
    rewrite IH1, IH2, IH3 by assumption. reflexivity.
  - apply forallb_forall. intros x Hx. rewrite Forall_forall in IH. apply (IH x Hx). eapply existsb_false_In; eassumption.
Qed.

Lemma tdfree_input t : has_td t = false -> c14_inputb t = true.
Proof. intros H. unfold c14_inputb. rewrite (tdfree_reach t H), (tdfree_not_tdu t H). reflexivity. Qed.

Lemma td2dict_tdfree t : td_reach t = true -> has_td (td2dict t) = false.
Proof.
  induction t as [ | c | x IH | | x IH | x IH | x IH | k v0 IHk IHv | k v0 IHk IHv | xs IH | x IH
                 | a1 a2 a3 IH1 IH2 IH3 | xs IH | r o IHr IHo | s ] using ty_ind';
    cbn [td_reach td2dict has_td]; intros H; auto.
  - apply negb_true_iff in H. exact H.
  - apply negb_true_iff in H. exact H.
  - apply andb_prop in H. destruct H. rewrite IHk, IHv by assumption. reflexivity.
  - apply andb_prop in H. destruct H as [H1 H2]. apply negb_true_iff in H1, H2. rewrite H1, H2. reflexivity.
  - apply existsb_false_iff. intros y Hy. apply in_map_iff in Hy. destruct Hy as [x [<- Hx]].
    rewrite Forall_forall in IH. rewrite forallb_forall in H. auto.
  - apply andb_prop in H. destruct H as [H H3]. apply andb_prop in H. destruct H.
    rewrite IH1, IH2, IH3 by assumption. reflexivity.
  - apply union_mk_tdfree. intros y Hy. apply in_map_iff in Hy. destruct Hy as [x [<- Hx]].
    rewrite Forall_forall in IH. rewrite forallb_forall in H. auto.
  - apply andb_prop in H. destruct H as [Hr Ho]. rewrite forallb_forall in Hr, Ho. rewrite Forall_forall in IHr, IHo.
    assert (U : has_td (union_mk (map (fun f => td2dict (snd f)) r ++ map (fun f => td2dict (snd f)) o)) = false).
    { apply union_mk_tdfree. intros y Hy. apply in_app_or in Hy.
      destruct Hy as [Hy|Hy]; apply in_map_iff in Hy; destruct Hy as [f [<- Hf]]; auto. }
    destruct r; destruct o; cbn [has_td]; try reflexivity; rewrite U; reflexivity.
Qed.

Lemma input_fields x f : c14_inputb x = true -> In f (td_req x) \/ In f (td_opt x) -> c14_inputb (snd f) = true.
Proof.
  unfold c14_inputb. destruct x; cbn [td_req td_opt]; intros H [Hf|Hf]; try destruct Hf;
    apply andb_prop in H; destruct H as [HR HT]; cbn [td_reach] in HR; apply andb_prop in HR; destruct HR as [Hr Ho];
    apply negb_true_iff in HT; cbn [kf_td_under_union] in HT; apply orb_false_elim in HT; destruct HT as [Tr To];
    rewrite forallb_forall in Hr, Ho.
  - rewrite (Hr f Hf), (existsb_false_In _ _ Tr f Hf). reflexivity.
  - rewrite (Ho f Hf), (existsb_false_In _ _ To f Hf). reflexivity.
Qed.

Lemma entries_input ts (W : Forall wf_ty ts) e :
  forallb c14_inputb ts = true -> In e (required_of ts) \/ In e (optional_of ts) -> forallb c14_inputb (snd e) = true.
Proof.
  intros B He. apply forallb_forall. intros ft Hft.
  destruct (merge_origin ts W e ft He Hft) as [x [f [Hx [Hf <-]]]].
  rewrite forallb_forall in B. apply (input_fields x f (B x Hx) Hf).
Qed.

Lemma input_td R O : (forall y, In y R -> c14_inputb (snd y) = true) -> (forall y, In y O -> c14_inputb (snd y) = true) ->
  c14_inputb (TTypedDict R O) = true.
Proof.
  intros HR HO. unfold c14_inputb in *. cbn [td_reach kf_td_under_union].
  assert (A : forall L : list (string * ty), (forall y, In y L -> td_reach (snd y) && negb (kf_td_under_union (snd y)) = true) ->
                        forallb (fun f => td_reach (snd f)) L = true /\ existsb (fun f => kf_td_under_union (snd f)) L = false).
  { intros L H. split.
    - apply forallb_forall. intros y Hy. specialize (H y Hy). apply andb_prop in H. tauto.
    - apply existsb_false_iff. intros y Hy. specialize (H y Hy). apply andb_prop in H. destruct H as [_ H].
      apply negb_true_iff in H. exact H. }
  destruct (A R HR) as [-> ->]. destruct (A O HO) as [-> ->]. reflexivity.
Qed.

Section ShrinkClass.
Variable k : nat.

Lemma shrink_input fuel : forall ts t,
  Forall wf_ty ts -> forallb c14_inputb ts = true -> shrink k fuel ts = Some t -> c14_inputb t = true.
Proof.
  induction fuel as [|fuel IH]; intros ts t W B S; [cbn in S; discriminate S|].
  cbn [shrink] in S. destruct ts as [|t0 rest]; [injection S as <-; reflexivity|].
  destruct (forallb is_td (t0 :: rest)) eqn:ATD.
  - set (ts := t0 :: rest) in *.
    rewrite (merge_maps_pair ts) in S. cbn iota beta in S.
    set (required := required_of ts) in *. set (optional := optional_of ts) in *.
    destruct (Nat.ltb k (List.length required + List.length optional)) eqn:LT.
    + destruct (shrink k fuel (flat_map snd required ++ flat_map snd optional)) as [T|] eqn:ST;
        [|cbn [option_map] in S; discriminate S]. cbn [option_map] in S.
      injection S as <-.
      assert (X : c14_inputb T = true).
      { apply (IH _ _ (all_entries_wf ts W)) in ST; [exact ST|].
        rewrite forallb_app. apply andb_true_intro; split; apply forallb_forall; intros y Hy;
          apply in_flat_map in Hy; destruct Hy as [e [He Hy]].
        * pose proof (entries_input ts W e B (or_introl He)) as X. rewrite forallb_forall in X. auto.
        * pose proof (entries_input ts W e B (or_intror He)) as X. rewrite forallb_forall in X. auto. }
      unfold c14_inputb in *. cbn [td_reach kf_td_under_union andb orb]. exact X.
    + destruct (negb (keys_disjoint required optional)) eqn:DJ; [discriminate S|].
      destruct (mapM (fun e => option_map (pair (fst e)) (shrink k fuel (snd e))) required) as [R|] eqn:MR; [|discriminate S].
      destruct (mapM (fun e => option_map (pair (fst e)) (shrink k fuel (snd e))) optional) as [O|] eqn:MO; [|discriminate S].
      injection S as <-. apply input_td.
      * intros y Hy. destruct (mapM_pair_bwd _ _ _ _ MR Hy) as [e [He [_ ST]]].
        apply (IH _ _ (entries_wf' ts W e (or_introl He)) (entries_input ts W e B (or_introl He)) ST).
      * intros y Hy. destruct (mapM_pair_bwd _ _ _ _ MO Hy) as [e [He [_ ST]]].
        apply (IH _ _ (entries_wf' ts W e (or_intror He)) (entries_input ts W e B (or_intror He)) ST).
  - destruct (forallb (fun t => py_eqb t t0) rest).
    + injection S as <-. cbn [forallb] in B. apply andb_prop in B. tauto.
    + destruct (forallb is_tlist (t0 :: rest)) eqn:AL.
      * destruct (shrink k fuel (filter (fun a => negb (is_tany a)) (map list_arg (t0 :: rest)))) as [T|] eqn:ST;
          [|cbn [option_map] in S; discriminate S]. cbn [option_map] in S.
        injection S as <-.
        assert (X : c14_inputb T = true).
        { apply (fun X Y => IH _ _ X Y ST).
          -- rewrite forallb_forall in AL. rewrite Forall_forall in *. intros y Hy.
             apply filter_In in Hy. destruct Hy as [Hy _].
             apply in_map_iff in Hy. destruct Hy as [z [<- Hz]].
             pose proof (W z Hz) as Wz. pose proof (AL z Hz) as Lz. destruct z; try discriminate Lz. exact Wz.
          -- rewrite forallb_forall in *. intros y Hy. apply filter_In in Hy. destruct Hy as [Hy _].
             apply in_map_iff in Hy. destruct Hy as [z [<- Hz]].
             pose proof (B z Hz) as Bz. pose proof (AL z Hz) as Lz. destruct z; try discriminate Lz. exact Bz. }
        exact X.
      * injection S as <-. change (td2dict t0 :: map td2dict rest) with (map td2dict (t0 :: rest)).
        apply tdfree_input. apply union_mk_tdfree. intros y Hy.
        apply in_map_iff in Hy. destruct Hy as [z [<- Hz]]. apply td2dict_tdfree.
        rewrite forallb_forall in B. specialize (B z Hz). unfold c14_inputb in B. apply andb_prop in B. tauto.
Qed.

Theorem merge_outside_class ts t :
  Forall wf_ty ts -> forallb c14_inputb ts = true -> shrink_top k ts = Some t -> kf_td_under_union t = false.
Proof.
  intros W B S. unfold shrink_top in S. pose proof (shrink_input _ ts t W B S) as X.
  unfold c14_inputb in X. apply andb_prop in X. destruct X as [_ X]. apply negb_true_iff in X. exact X.
Qed.
End ShrinkClass.

(* the pipeline statement with premises on the class table and the traced types only *)
Theorem merge_rewrite_perm_inputs h bt k rs ts ts' :
  rw_mro_consistentb h = true -> mro_selfb h = true ->
  Forall wf_ty ts -> forallb normal ts = true -> forallb c14_inputb ts = true -> Permutation ts ts' ->
  opt_equivb (option_map (rw_chain h bt rs) (shrink_top k ts)) (option_map (rw_chain h bt rs) (shrink_top k ts')) = true.
Proof.
  intros Hc Hs W N B P. apply merge_rewrite_perm_opt; try assumption.
  intros t S. apply (merge_outside_class k ts t W B S).
Qed.

Print Assumptions merge_outside_class.
Print Assumptions merge_rewrite_perm_inputs.

(* non-vacuity: TypedDict inputs (merged field by field) satisfy the input condition; a TypedDict below DefaultDict
   does not, and its merge is in the class *)
Example ex_input_condition :
  let i := TCls cInt in let s := TCls cStr in
  let a := TTypedDict [("a"%string, i)] [] in
  let b := TTypedDict [("a"%string, s); ("b"%string, TList a)] [] in
  forallb c14_inputb [a; b; TList a; TDict s b] = true
  /\ shrink_top 3 [a; b] = Some (TTypedDict [("a"%string, TUnion [i; s])] [("b"%string, TList a)])
  /\ option_map kf_td_under_union (shrink_top 3 [a; TList b; i]) = Some false
  /\ c14_inputb (TDefaultDict s a) = false
  /\ option_map kf_td_under_union (shrink_top 3 [TDefaultDict s a; i]) = Some true.
Proof. vm_compute. repeat split; reflexivity. Qed.
