"""C06 — the TypedDict size limit is honoured end to end; zero disables TypedDicts."""
import random
import re

from harness import common, infer_cases
from harness.valgen import ValGen, KEYS

COQ_TARGETS = ["Check/InferCases.vo"]
TRUSTED_BASE = ["typing's Union normalisation / == / hash as modelled (Model/Types.v)",
                "store round trip and stub class generation are exercised on the real code and checked by the "
                "Coq predicate td_boundedb; their models arrive with C08/C11"]
ASSUMPTIONS = ["dict keys of a reified value are pairwise distinct (Python dict invariant)"]
PARTIAL = ["td_survives_store / td_classes_bounded are checked on the implementation's output per case, not yet proved "
           "about a model of the codec / stub generator"]

HEADER = infer_cases.HEADER


def extra_values(rnd, n):
    """dicts of 0..12 keys (string / non-string / mixed) nested in every container kind"""
    import collections
    g = ValGen(rnd, max_depth=2)
    out = []
    for _ in range(n):
        nk = rnd.randrange(0, 13)
        mode = rnd.random()
        d = {}
        for i in range(nk):
            if mode < 0.6:
                key = KEYS[i % len(KEYS)]
            elif mode < 0.8:
                key = i if rnd.random() < 0.5 else (i, "t")
            else:
                key = KEYS[i % len(KEYS)] if rnd.random() < 0.7 else i
            d[key] = g.value(1)
        wrap = rnd.choice(["none", "list", "tuple", "dict", "ddict", "set_of_tuple", "listlist"])
        v = {"none": d, "list": [d, dict(d)], "tuple": (d, 1), "dict": {"outer": d},
             "ddict": collections.defaultdict(int, {"o": d}), "set_of_tuple": [{(1, 2)}, d], "listlist": [[d], [d, {}]]}[wrap]
        vs = [v]
        while rnd.random() < 0.5 and len(vs) < 4:
            vs.append(g.mutate(v))
        out.append((rnd.choice([0, 1, 2, 3, 10]), vs))
    return out


def stub_counts(impl):
    """fields per generated TypedDict: a required-only / optional-only TypedDict is one class; one with both is a base
    class immediately followed by its `...NonTotal(<base>, total=False)` subclass, counted together.  Classes are
    paired by position and by the base named in the header, never merged by name (two different TypedDicts can be
    given the same generated name: C11's finding kf_hint_collision)."""
    from monkeytype.stubs import ReplaceTypedDictsWithStubs
    _, stubs = ReplaceTypedDictsWithStubs.rewrite_and_get_stubs(impl, "foo")
    entries = []          # [name, fields, has_nontotal_partner]
    counts_bad = 0
    for s in stubs:
        m = re.match(r"^(\w+)\((\w+)(, total=False)?\)$", s.name)
        if not m:
            counts_bad += 1           # unparseable header: fail closed
            continue
        name, base, nontotal = m.group(1), m.group(2), bool(m.group(3))
        n = len(list(s.attribute_stubs))
        if base == "TypedDict":
            entries.append([name, n, nontotal])      # an optional-only TypedDict takes no partner
        elif nontotal:
            # the `...NonTotal(<base>, total=False)` half of a TypedDict with required and optional keys: counted with
            # the most recent still unpartnered class of that name (nested class stubs may sit in between)
            for e in reversed(entries):
                if e[0] == base and not e[2]:
                    e[1] += n
                    e[2] = True
                    break
            else:
                counts_bad += 1
        else:
            counts_bad += 1
    counts = [e[1] for e in entries] + [10 ** 6] * counts_bad
    return counts


def run(ctx):
    from monkeytype.encoding import type_from_json, type_to_json
    rnd = random.Random(ctx.seed + 6)
    n = 1500 if ctx.tier == "quick" else 20000
    extra = extra_values(rnd, n)
    ct, cases = infer_cases.generate(ctx.seed + 6, n // 2, with_small_scope=(ctx.tier == "thorough"), extra_cases=extra)
    terms = []
    dist = {"has_td": 0, "decode_error": 0, "stub_classes": 0}
    for c in cases:
        impl = None
        dec_term = c["impl"]
        counts = []
        if c["error"] is None:
            impl = infer_cases.impl_infer(c["vs"], c["k"])
            try:
                dec = type_from_json(type_to_json(impl))
                dec_term = common.reify_type(dec, ct)
            except Exception as e:
                dist["decode_error"] += 1
                dec_term = 'TFwd "?decode-raised"%string'
                c["error"] = f"round trip raised {type(e).__name__}: {e}"
            try:
                counts = stub_counts(impl)
            except Exception as e:
                counts = [10 ** 6]
                c["error"] = f"stub generation raised {type(e).__name__}: {e}"
        if "TTypedDict" in c["impl"]:
            dist["has_td"] += 1
        dist["stub_classes"] += len(counts)
        c["decoded"] = dec_term
        c["counts"] = counts
        terms.append(f"C6Case ({c['term']}) ({dec_term}) {common.coq_list(str(min(x, 100000)) for x in counts)}")
    header = HEADER % ct.hierarchy()
    outs = common.run_coq_shards(ctx.work, "c06", header, terms, "c6case", "bad verdict_c06 0 cases")
    bad = common.parse_bad(outs)
    failures, mismatches = [], []
    for i, code in bad:
        c = cases[i]
        rec = {"k": c["k"], "values": c["vs_repr"], "impl": c["impl"], "decoded": c["decoded"], "stub_counts": c["counts"],
               "error": c["error"], "term": terms[i]}
        if code == 2:
            rec["what"] = f"TypedDict size limit k={c['k']} not honoured for values={c['vs_repr'][:200]} (type / decoded type / stub classes)"
            failures.append(rec)
        else:
            mismatches.append(rec)
    distinct = len({common.digest(t) for t, c in zip(terms, cases) if "VDict" in c["term"]})
    d = infer_cases.distribution(cases)
    d.update(dist)
    return {
        "evaluations": len(cases), "distinct_nontrivial": distinct,
        "rule": "dicts of 0..12 keys (string/non-string/mixed) nested in every container kind, near-duplicates merged, "
                "k in {0,1,2,3,10}, plus the C04 random stream; each case goes through get_type+shrink_types, the JSON "
                "round trip and ReplaceTypedDictsWithStubs; non-trivial = contains a dict; distinct by hash of the reified case",
        "samples": [{"k": c["k"], "values": c["vs_repr"], "impl_type": c["impl"], "stub_counts": c["counts"]} for c in cases[:3]],
        "distribution": d, "failures": failures, "mismatches": mismatches, "relation": "corrb (infer k vs) impl",
    }


def replay(ctx, payload):
    print(payload)
    return 0

CLAIM = {'note': 'Trusted: Coq kernel + vm_compute; harness reifiers; typing semantics as modelled. Stub-class and '
         'store clauses are per-case Coq evaluations of implementation output.',
 'ref': '4/C06',
 'technique': 'Coq proof by induction on fuel/values + vm_compute differential correspondence',
 'text': 'Coq theorems k0_no_typeddict, td_bounded_infer, td_bounded_merge, td_from_str_dicts_only about the '
         'inference model for every k, every value collection and every merge; store round trip and stub '
         "classes checked per case by the Coq predicate td_boundedb on the implementation's output."}
