(* Check/EncodeCases.v — verdicts for the codec correspondence (C08).
   verdict: 0 ok; 1 model <> implementation while the property predicate holds on the implementation's
   output; 2 the property predicate is false on the implementation's own output; 3 malformed case
   (a premise of the theorems is violated by the harness's own input: never the code's fault).
   verdict_tagged = verdict + 10 * (finding class of a verdict-2 case: 1 kf_tuplevar_encode, 2 kf_td_site). *)
From MT Require Export Encode Common.
Open Scope string_scope.
Open Scope list_scope.

(* ---------- the live environment, as finite tables emitted by the harness ---------- *)
Definition name_tbl := list (N * (string * string)).
Fixpoint tbl_name (t : name_tbl) (c : N) : string * string :=
  match t with
  | [] => ("?no-such-module", "?no-such-name")
  | (c', n) :: r => if N.eqb c c' then n else tbl_name r c
  end.

Definition env_tbl := list (string * string * lookup).
Fixpoint tbl_env (t : env_tbl) (m q : string) : lookup :=
  match t with
  | [] => LUnknown
  | (m', q', l) :: r => if String.eqb m m' && String.eqb q q' then l else tbl_env r m q
  end.

Definition hid_tbl := list (string * cls).
Fixpoint tbl_hidden (t : hid_tbl) (q : string) : option cls :=
  match t with
  | [] => None
  | (q', c) :: r => if String.eqb q q' then Some c else tbl_hidden r q
  end.

Record world := World { w_cn : name_tbl; w_fn : name_tbl; w_env : env_tbl; w_hid : hid_tbl }.

(* TypedDict classes built by the decoder live in this module (encoding.py:96 calls TypedDict) *)
Definition site_decoded : string := "monkeytype.encoding".

Inductive ecase :=
| ECType (site : string) (t : ty)
         (ij : result json)        (* type_to_json(t) by /repo, parsed *)
         (id : result ty)          (* type_from_json(that text) by /repo, reified *)
         (rj : result json)        (* type_to_json(decoded) by /repo *)
         (pj : result json)        (* type_to_json of a same-site copy of t with every TypedDict's fields
                                      reversed; OutOfModel when t has no TypedDict *)
         (ptext_same : bool)       (* the raw JSON TEXT of that copy == the raw text of t's encoding (true when no copy) *)
         (wj : result ty)          (* the decoded copy as its CONSUMERS read it: passed once through the generic
                                      TypeRewriter, which takes every anonymous TypedDict apart with
                                      typing.field_annotations and rebuilds it (what the rewriters, shrink_types and
                                      the stub generator do with decoded types); OutOfModel when t has no TypedDict *)
| ECDecode (j : json) (id : result ty)            (* decoder edge stream *)
| ECTrace (expect_importable : bool) (tr : trace)
          (ir : result row)        (* CallTraceRow.from_trace(tr) by /repo *)
          (ib : result dtrace)     (* .to_trace() of that row by /repo *)
          (text_same : bool)       (* CallTraceRow.from_trace of a copy of tr — argument dict built in reverse insertion
                                      order, every TypedDict below an argument / return / yield type with its fields
                                      reversed, same construction site — stores exactly the same arg_types,
                                      return_type and yield_type STRINGS (the store de-duplicates rows by text) *)
          (store_same : bool)      (* SQLiteStore.add([tr]) on a fresh database followed by filter(module, qualname) gives
                                      back exactly one row with the same five TEXT fields, which decodes to the same
                                      trace as the in-memory row (true when from_trace raised) *)
| ECAfter (c : ecase).             (* c is to be judged in the SECOND world: the import environment after the fixture
                                      module has been reloaded (rows written before the reload are decoded after it) *)

(* ---------- comparisons ---------- *)
Definition is_opaque_name (s : string) : bool :=
  match s with String "?"%char _ => true | _ => false end.

Fixpoint opaque_ty (t : ty) : bool :=
  match t with
  | TAny | TCls _ | TCallable => false
  | TFwd s => is_opaque_name s
  | TTupleVar x | TType x | TList x | TSet x | TIterator x => opaque_ty x
  | TDict k v | TDefaultDict k v => opaque_ty k || opaque_ty v
  | TTuple ts | TUnion ts => existsb opaque_ty ts
  | TGenerator a b c => opaque_ty a || opaque_ty b || opaque_ty c
  | TTypedDict r o => existsb (fun f => opaque_ty (snd f)) r || existsb (fun f => opaque_ty (snd f)) o
  end.

Definition well_formed (t : ty) : bool := negb (opaque_ty t) && union_nfb t && wf_tyb t.

Definition jeq (a b : json) : bool := json_eqb (jsort a) (jsort b).

(* model vs implementation: ORDERED comparison.  The model's JSON is key-sorted (jsort); the implementation's
   is parsed in the order of the stored text, so a text that is not key-sorted disagrees with the model. *)
Definition res_json_eqb (a b : result json) : bool :=
  match a, b with
  | Ok x, Ok y => json_eqb x y
  | Raises e, Raises e' => exn_eqb e e'
  | _, _ => false
  end.

Definition res_ty_corrb (a b : result ty) : bool :=
  match a, b with
  | Ok x, Ok y => corrb x y
  | Raises e, Raises e' => exn_eqb e e'
  | _, _ => false
  end.

Definition opt_json_eqb (a b : option json) : bool :=
  match a, b with
  | None, None => true
  | Some x, Some y => json_eqb x y
  | _, _ => false
  end.

Definition row_eqb (a b : row) : bool :=
  String.eqb (r_module a) (r_module b) && String.eqb (r_qualname a) (r_qualname b)
  && json_eqb (r_args a) (r_args b) && opt_json_eqb (r_ret a) (r_ret b) && opt_json_eqb (r_yield a) (r_yield b).

Definition res_row_eqb (a b : result row) : bool :=
  match a, b with
  | Ok x, Ok y => row_eqb x y
  | Raises e, Raises e' => exn_eqb e e'
  | _, _ => false
  end.

Definition dtrace_corrb (a b : dtrace) : bool :=
  pyobj_eqb (dt_func a) (dt_func b) && args_corrb (dt_args a) (dt_args b)
  && opt_corrb (dt_ret a) (dt_ret b) && opt_corrb (dt_yield a) (dt_yield b).

Definition res_dtrace_corrb (a b : result dtrace) : bool :=
  match a, b with
  | Ok x, Ok y => dtrace_corrb x y
  | Raises e, Raises e' => exn_eqb e e'
  | _, _ => false
  end.

Definition is_ok {A} (r : result A) : bool := match r with Ok _ => true | _ => false end.

Section Verdict.
Variable w : world.
Let cn := tbl_name (w_cn w).
Let fn := tbl_name (w_fn w).
Let ev := tbl_env (w_env w).
Let hd := tbl_hidden (w_hid w).

Definition all_importable (t : ty) : bool := forallb (importableb cn ev hd) (classes t).

(* some class below t cannot be found at all under its own name (a class defined inside a function, a deleted name,
   a module that does not exist): a row mentioning it — at any depth — must FAIL to decode; it must never decode
   to some other type (e.g. with Any in that place) *)
Definition unresolvable (t : ty) : bool :=
  existsb (fun c => match resolve ev hd (fst (cn c)) (snd (cn c)) with
                    | LNoModule | LNoAttr => true
                    | _ => false end) (classes t).

(* ----- types ----- *)
(* "decodes back to a structurally identical type" on the implementation's own output *)
Definition type_prop_ok (t : ty) (ij : result json) (id : result ty) : bool :=
  match ij, id with
  | Ok _, Ok t' => negb (opaque_ty t') && corrb t t'
  | _, _ => false
  end.

(* "encoding is a function of the structure only": the decoded copy and the field-permuted copy
   encode to the same JSON as the original *)
Definition type_struct_ok (same_order : bool) (ij rj pj : result json) : bool :=
  match ij with
  | Ok a => match rj with Ok b => negb same_order || jeq a b | _ => false end
            && match pj with Ok c => jeq a c | OutOfModel => true | Raises _ => false end
  | _ => false
  end.

(* the decoded copy lists union members in the same order as the original.  (typing's parametrisation cache
   is keyed by ==, which ignores union member order, so Dict[str, Union[float, int]] may come back as a
   previously built Dict[str, Union[int, float]]: structurally identical in the sense of corrb, but with
   another — legitimate — JSON, because member order is part of the JSON.  The re-encoding of such a copy
   is still checked against the model's encoding of that copy below.) *)
Definition same_order (t : ty) (id : result ty) : bool :=
  match id with Ok t' => ty_eqb (canon t) (canon t') | _ => true end.

Definition perm_ok (ij pj : result json) : bool :=
  match ij, pj with
  | Ok a, Ok c => jeq a c
  | _, OutOfModel => true
  | _, _ => false
  end.

(* the decoded type is structurally identical to the original also for the code that reads it *)
Definition consumers_ok (t : ty) (wj : result ty) : bool :=
  match wj with
  | Ok t'' => negb (opaque_ty t'') && corrb t t''
  | OutOfModel => true
  | Raises _ => false
  end.

Definition verdict_type (site : string) (t : ty) (ij : result json) (id : result ty) (rj pj : result json)
           (ptext_same : bool) (wj : result ty) : nat :=
  if negb (well_formed t) then 3 else
  let in_scope := negb (has_fwd t) && all_importable t in
  if in_scope && negb (type_prop_ok t ij id) then 2
  else if negb (has_fwd t) && unresolvable t && is_ok ij && is_ok id then 2
  else if in_scope && negb (type_struct_ok (same_order t id) ij rj pj) then 2
  else if in_scope && negb ptext_same then 2
  else if in_scope && negb (consumers_ok t wj) then 2
  else
    if negb (res_json_eqb (type_to_json cn site t) ij) then 1 else
    if negb (match pj with OutOfModel => true | _ => res_json_eqb (type_to_json cn site t) pj end) then 1 else
    match ij with
    | Ok j =>
        if negb (res_ty_corrb (type_from_json ev hd j) id) then 1 else
        match id with
        | Ok t' => if res_json_eqb (type_to_json cn site_decoded t') rj then 0 else 1
        | _ => 0
        end
    | _ => 0
    end.

Definition kf_type (t : ty) (ij : result json) (id : result ty) (pj : result json) : nat :=
  if has_tuplevar t then 1                                   (* kf_tuplevar_encode *)
  else if has_td t && type_prop_ok t ij id && perm_ok ij pj then 2   (* kf_td_site: only the (same-order) decoded copy differs *)
  else 0.

(* ----- decoder edge stream ----- *)
Definition verdict_decode (j : json) (id : result ty) : nat :=
  match type_from_json ev hd j with
  | OutOfModel => 3
  | m => if res_ty_corrb m id then 0 else 1
  end.

(* ----- traces ----- *)
Definition trace_types (tr : trace) : list ty :=
  map snd (tr_args tr) ++ match tr_ret tr with Some t => [t] | None => [] end
  ++ match tr_yield tr with Some t => [t] | None => [] end.

Definition trace_prop_ok (tr : trace) (ir : result row) (ib : result dtrace) : bool :=
  match ir, ib with
  | Ok r, Ok d =>
      String.eqb (r_module r) (fst (fn (tr_func tr))) && String.eqb (r_qualname r) (snd (fn (tr_func tr)))
      && pyobj_eqb (dt_func d) (OFunc (tr_func tr))
      && args_corrb (tr_args tr) (dt_args d)
      && opt_corrb (tr_ret tr) (dt_ret d) && opt_corrb (tr_yield tr) (dt_yield d)
  | _, _ => false
  end.

Definition verdict_trace (expect : bool) (tr : trace) (ir : result row) (ib : result dtrace)
           (text_same store_same : bool) : nat :=
  if negb (forallb well_formed (trace_types tr) && nodup_strb (map fst (tr_args tr))) then 3 else
  let in_scope := expect && forallb (fun t => encodable t && all_importable t) (trace_types tr) in
  if in_scope && negb (trace_prop_ok tr ir ib) then 2
  else if existsb unresolvable (trace_types tr) && is_ok ir && is_ok ib then 2
  (* rows are a function of the structure: same stored text whatever the insertion orders were.  This clause
     needs no importable function, only serialisable types *)
  else if forallb (fun t => encodable t && all_importable t) (trace_types tr) && negb text_same then 2
  (* ... and the row survives the real store: written, read back, decoded *)
  else if forallb (fun t => encodable t && all_importable t) (trace_types tr) && negb store_same then 2
  else
    (* the by-construction label of the fixture and the model's notion of an importable function agree *)
    if negb (Bool.eqb expect (importable_funcb cn fn ev (tr_func tr))) then 1 else
    let mr := from_trace cn fn (* traced types are fresh: *) "monkeytype.typing" tr in
    if negb (res_row_eqb mr ir) then 1 else
    match ir with
    | Ok r => if res_dtrace_corrb (to_trace cn fn ev hd r) ib then 0 else 1
    | _ => 0
    end.

Definition verdict (c : ecase) : nat :=
  match c with
  | ECType site t ij id rj pj ps wj => verdict_type site t ij id rj pj ps wj
  | ECDecode j id => verdict_decode j id
  | ECTrace e tr ir ib ts ss => verdict_trace e tr ir ib ts ss
  | ECAfter _ => 3
  end.

Definition kf_class (c : ecase) : nat :=
  match c with
  | ECType _ t ij id _ pj ps wj => if ps && consumers_ok t wj then kf_type t ij id pj else (if has_tuplevar t then 1 else 0)
  | ECDecode _ _ => 0
  | ECAfter _ => 0
  | ECTrace _ tr _ _ _ _ => if existsb has_tuplevar (trace_types tr) then 1 else 0
  end.

Definition verdict_tagged (c : ecase) : nat :=
  let v := verdict c in
  if Nat.eqb v 2 then 2 + 10 * kf_class c else v.
End Verdict.

(* two worlds: before and after the reload of the fixture module *)
Definition verdict_tagged2 (w1 w2 : world) (c : ecase) : nat :=
  match c with
  | ECAfter c' => verdict_tagged w2 c'
  | _ => verdict_tagged w1 c
  end.
