(* Proofs/Pipeline.v — C01: composition of the stage theorems.
     per-call get_type  ->  store round trip (corrb copy)  ->  merge of all decoded types (shrink_types)
     ->  rewriter chain
   The annotation type emitted for a traced position admits every value observed there. *)
From MT Require Import Types Infer Rewrite Hier TypesFacts InferFacts GetTypeSound RewriteMono
                       Encode EncodeRoundtrip PipelineCorr.

(* ---------- get_type -> store -> merge, tight reading, any reflexive subclass test ---------- *)
Section Merge.
Variable sub : cls -> cls -> bool.
Hypothesis sub_refl : forall c, sub c c = true.
Variable k : nat.

(* what one traced value contributes: its inferred type, or any corrb-copy of it, admits it (tightly) *)
Lemma observed_admitted x t t' :
  wf_valueb x = true -> get_type k x = Some t -> corrb t t' = true ->
  member false sub x t' = true /\ wf_ty t'.
Proof.
  intros W G C. destruct (get_type_ok sub sub_refl k x W t G) as [M Wt].
  split; [eapply member_corrb_wf; eauto|eapply corrb_wf; eauto].
Qed.

Lemma merge_sound (obs : list value) (stored : list ty) T v :
  forallb wf_valueb obs = true ->
  (forall x, In x obs -> exists t t', get_type k x = Some t /\ In t' stored /\ corrb t t' = true) ->
  Forall wf_ty stored ->
  shrink_top k stored = Some T -> In v obs ->
  member false sub v T = true /\ wf_ty T.
Proof.
  intros WV Hst Wst HS Hv. split; [|eapply shrink_top_wf; eauto].
  apply (shrink_top_sound sub sub_refl k stored T v Wst HS).
  destruct (Hst v Hv) as [t [t' [G [Hin C]]]].
  rewrite forallb_forall in WV.
  destruct (observed_admitted v t t' (WV v Hv) G C) as [M _].
  apply existsb_exists. exists t'. split; assumption.
Qed.
End Merge.

(* the store hypothesis as a checkable boolean (used by the examples and by the harness) *)
Definition coveredb (k : nat) (obs : list value) (stored : list ty) : bool :=
  forallb (fun x => match get_type k x with Some t => existsb (corrb t) stored | None => false end) obs.

Lemma coveredb_spec k obs stored : coveredb k obs stored = true ->
  forall x, In x obs -> exists t t', get_type k x = Some t /\ In t' stored /\ corrb t t' = true.
Proof.
  unfold coveredb. rewrite forallb_forall. intros H x Hx. specialize (H x Hx).
  destruct (get_type k x) as [t|]; [|discriminate]. apply existsb_exists in H. destruct H as [t' [H1 H2]].
  exists t, t'. auto.
Qed.

(* ---------- the whole pipeline over a class table ---------- *)
Theorem pipeline_sound h bt k rs (obs : list value) (stored : list ty) T v :
  wf_hier h = true -> bt_ok h bt = true -> chain_ok rs = true ->
  forallb wf_valueb obs = true ->
  (forall x, In x obs -> exists t t', get_type k x = Some t /\ In t' stored /\ corrb t t' = true) ->
  Forall wf_ty stored ->
  shrink_top k stored = Some T -> In v obs ->
  member true (subclass h) v (rw_chain h bt rs T) = true.
Proof.
  intros Hh Hb Hc WV Hst Wst HS Hv.
  destruct (merge_sound (subclass h) (subclass_refl h) k obs stored T v WV Hst Wst HS Hv) as [M W].
  apply rw_chain_ok_mono; assumption.
Qed.

(* the emitted type is well formed too (so the theorem can be iterated / fed to the renderer) *)
Theorem pipeline_wf h bt k rs (stored : list ty) T :
  Forall wf_ty stored -> shrink_top k stored = Some T -> wf_ty (rw_chain h bt rs T).
Proof. intros W HS. apply rw_chain_wf. eapply shrink_top_wf; eauto. Qed.

(* DEFAULT_REWRITER as read from the source *)
Theorem pipeline_sound_default h bt k rs (obs : list value) (stored : list ty) T v :
  wf_hier h = true -> bt_ok h bt = true -> default_chain = Some rs ->
  forallb wf_valueb obs = true ->
  (forall x, In x obs -> exists t t', get_type k x = Some t /\ In t' stored /\ corrb t t' = true) ->
  Forall wf_ty stored ->
  shrink_top k stored = Some T -> In v obs ->
  member true (subclass h) v (rw_chain h bt rs T) = true.
Proof.
  intros Hh Hb Hc WV Hst Wst HS Hv.
  destruct (merge_sound (subclass h) (subclass_refl h) k obs stored T v WV Hst Wst HS Hv) as [M W].
  apply default_chain_mono; assumption.
Qed.

(* no rewriter (NoOpRewriter / empty chain): no premise on the class tables, and both readings *)
Theorem pipeline_sound_no_rewriter h bt k (obs : list value) (stored : list ty) T v :
  forallb wf_valueb obs = true ->
  (forall x, In x obs -> exists t t', get_type k x = Some t /\ In t' stored /\ corrb t t' = true) ->
  Forall wf_ty stored ->
  shrink_top k stored = Some T -> In v obs ->
  rw_chain h bt [] T = T
  /\ member false (subclass h) v (rw_chain h bt [] T) = true
  /\ member true (subclass h) v (rw_chain h bt [] T) = true.
Proof.
  intros WV Hst Wst HS Hv.
  destruct (merge_sound (subclass h) (subclass_refl h) k obs stored T v WV Hst Wst HS Hv) as [M W].
  split; [reflexivity|]. split; [exact M|apply member_any_mono; exact M].
Qed.

(* ---------- the store hypothesis discharged from C08's round trip ----------
   ts = the per-value inferred types; stored = exactly the decodings of their encodings, in any order and
   multiplicity (the store de-duplicates rows and returns them in its own order).
   The premise that every inferred type is `inferable` over importable classes is C08's; it is explicit here
   and discharged in Proofs/PipelineInferable.v (get_type only produces `inferable` types). *)
Section Store.
Variable cname : cls -> string * string.
Variable site : string.
Variable env : string -> string -> lookup.
Variable hidden : string -> option cls.

Definition decoded_copy (t t' : ty) : Prop :=
  exists j, type_to_json cname site t = Ok j /\ type_from_json env hidden j = Ok t'.

Lemma decoded_copy_corr t t' :
  typing_ok env -> inferable t /\ Forall (importable cname env hidden) (classes t) ->
  decoded_copy t t' -> corrb t t' = true.
Proof.
  intros TOK OKT [j [E D]].
  destruct (type_roundtrip_ok cname site env hidden t TOK OKT) as [j0 [t0 [E0 [D0 C]]]].
  rewrite E in E0. injection E0 as <-. rewrite D in D0. injection D0 as <-. exact C.
Qed.

Theorem pipeline_sound_store h bt k rs (obs : list value) (ts stored : list ty) T v :
  wf_hier h = true -> bt_ok h bt = true -> chain_ok rs = true ->
  typing_ok env ->
  forallb wf_valueb obs = true ->
  mapM (get_type k) obs = Some ts ->
  Forall (fun t => inferable t /\ Forall (importable cname env hidden) (classes t)) ts ->
  (forall t', In t' stored <-> exists t, In t ts /\ decoded_copy t t') ->
  shrink_top k stored = Some T -> In v obs ->
  member true (subclass h) v (rw_chain h bt rs T) = true.
Proof.
  intros Hh Hb Hc TOK WV HM OKs Hst HS Hv.
  pose proof (mapM_Forall2 _ _ _ HM) as F2.
  assert (HF : Forall (gt_ok (subclass h) k) obs)
    by (rewrite Forall_forall; intros x _; apply get_type_ok; apply subclass_refl).
  destruct (mapM_gt_ok (subclass h) k (fun e => e) obs ts HF WV HM) as [Wts _].
  rewrite Forall_forall in OKs, Wts.
  apply (pipeline_sound h bt k rs obs stored T v); try assumption.
  - (* every observed value's type reached the merge as a decoded copy *)
    intros x Hx.
    assert (Hex : exists t, In t ts /\ get_type k x = Some t).
    { clear - F2 Hx. induction F2 as [|a t l l' Ht _ IH]; [destruct Hx|].
      destruct Hx as [<-|Hx]; [exists t; split; [left; reflexivity|exact Ht]|].
      destruct (IH Hx) as [t0 [H1 H2]]. exists t0. split; [right; exact H1|exact H2]. }
    destruct Hex as [t [Ht G]].
    destruct (type_roundtrip_ok cname site env hidden t TOK (OKs t Ht)) as [j [t' [E [D C]]]].
    exists t, t'. split; [exact G|]. split; [|exact C].
    apply Hst. exists t. split; [exact Ht|]. exists j. split; assumption.
  - (* the decoded copies are well formed *)
    rewrite Forall_forall. intros t' Ht'. apply Hst in Ht'. destruct Ht' as [t [Ht DC]].
    apply (corrb_wf t t' (Wts t Ht)). apply decoded_copy_corr; auto.
Qed.
(* the same with the round trip as a function: ds = the decoded copies in trace order, stored = ds in any
   order and multiplicity *)
Definition store_rt (t : ty) : option ty :=
  match type_to_json cname site t with
  | Ok j => match type_from_json env hidden j with Ok t' => Some t' | _ => None end
  | _ => None
  end.

Lemma decoded_copy_iff t t' : decoded_copy t t' <-> store_rt t = Some t'.
Proof.
  unfold decoded_copy, store_rt. split.
  - intros [j [E D]]. rewrite E, D. reflexivity.
  - destruct (type_to_json cname site t) as [j| |]; try discriminate.
    destruct (type_from_json env hidden j) as [d| |] eqn:D; try discriminate.
    intros H. injection H as <-. exists j. split; [reflexivity|exact D].
Qed.

Lemma Forall2_In_iff {A B} (R : A -> B -> Prop) l l' : Forall2 R l l' ->
  forall y, In y l' <-> exists x, In x l /\ In y l' /\ R x y.
Proof.
  intros F y. split; [|intros [x [_ [H _]]]; exact H].
  induction F as [|a b l l' Hab _ IH]; intros Hy; [destruct Hy|].
  destruct Hy as [<-|Hy].
  - exists a. split; [left; reflexivity|]. split; [left; reflexivity|exact Hab].
  - destruct (IH Hy) as [x [H1 [H2 H3]]]. exists x. split; [right; exact H1|]. split; [right; exact H2|exact H3].
Qed.

Theorem pipeline_sound_store_fn h bt k rs (obs : list value) (ts ds stored : list ty) T v :
  wf_hier h = true -> bt_ok h bt = true -> chain_ok rs = true ->
  typing_ok env ->
  forallb wf_valueb obs = true ->
  mapM (get_type k) obs = Some ts ->
  Forall (fun t => inferable t /\ Forall (importable cname env hidden) (classes t)) ts ->
  mapM store_rt ts = Some ds ->
  (forall t', In t' stored <-> In t' ds) ->
  shrink_top k stored = Some T -> In v obs ->
  member true (subclass h) v (rw_chain h bt rs T) = true.
Proof.
  intros Hh Hb Hc TOK WV HM OKs HD Hst HS Hv.
  pose proof (mapM_Forall2 _ _ _ HD) as F2.
  assert (Himg : forall t, In t ts -> exists d, In d ds /\ store_rt t = Some d).
  { clear - F2. induction F2 as [|a b l l' Hab _ IH]; intros t Ht; [destruct Ht|].
    destruct Ht as [<-|Ht]; [exists b; split; [left; reflexivity|exact Hab]|].
    destruct (IH t Ht) as [d [H1 H2]]. exists d. split; [right; exact H1|exact H2]. }
  pose proof (mapM_Forall2 _ _ _ HM) as G2.
  assert (HF : Forall (gt_ok (subclass h) k) obs)
    by (rewrite Forall_forall; intros x _; apply get_type_ok; apply subclass_refl).
  destruct (mapM_gt_ok (subclass h) k (fun e => e) obs ts HF WV HM) as [Wts _].
  rewrite Forall_forall in OKs, Wts.
  apply (pipeline_sound h bt k rs obs stored T v); try assumption.
  - intros x Hx.
    assert (Hex : exists t, In t ts /\ get_type k x = Some t).
    { clear - G2 Hx. induction G2 as [|a t l l' Ht _ IH]; [destruct Hx|].
      destruct Hx as [<-|Hx]; [exists t; split; [left; reflexivity|exact Ht]|].
      destruct (IH Hx) as [t0 [H1 H2]]. exists t0. split; [right; exact H1|exact H2]. }
    destruct Hex as [t [Ht G]]. destruct (Himg t Ht) as [d [Hd E]].
    exists t, d. split; [exact G|]. split; [apply Hst; exact Hd|].
    apply decoded_copy_corr; auto. apply decoded_copy_iff. exact E.
  - rewrite Forall_forall. intros t' Ht'. apply Hst in Ht'.
    apply (Forall2_In_iff _ _ _ F2) in Ht'. destruct Ht' as [t [Ht [_ E]]].
    apply (corrb_wf t t' (Wts t Ht)). apply decoded_copy_corr; auto. apply decoded_copy_iff. exact E.
Qed.
End Store.

Print Assumptions merge_sound.
Print Assumptions pipeline_sound.
Print Assumptions pipeline_wf.
Print Assumptions pipeline_sound_default.
Print Assumptions pipeline_sound_no_rewriter.
Print Assumptions pipeline_sound_store.
Print Assumptions pipeline_sound_store_fn.
