#!/bin/bash
# tools/try_patch_all.sh <patch.diff>  — apply a patch to a scratch worktree of /repo and run EVERY registered quick check
# against it (4 at a time, one tree lock for all); prints one line per check.  Used to see which checks react to a change
# (a harmless refactoring should leave all of them quiet).
patch=$1
wt=/tmp/patchwt_$$
git -C /repo worktree add -q $wt HEAD || exit 2
trap "git -C /repo worktree remove --force $wt >/dev/null 2>&1" EXIT
(cd $wt && (git apply --3way $patch 2>/dev/null || git apply $patch)) || { echo "PATCH DOES NOT APPLY"; exit 3; }
(cd $wt && git reset -q && /venv/bin/python -m pytest -q -p no:cacheprovider 2>&1 | tail -1)
cd /verif
ev=/verif/_work/evidence_keep_$$; rm -rf $ev; mkdir -p $ev; cp /verif/evidence/*.json $ev/ 2>/dev/null
flock /verif/.tree.lock -c "VERIF_TREE_LOCK_HELD=1 VERIF_REPO=$wt tools/run_all.sh quick" 2>&1 | grep -E "rc=" | sed 's/\[C[0-9]*\] tier=quick seed=0 //' | cut -c1-170
cp $ev/*.json /verif/evidence/ 2>/dev/null; rm -rf $ev
PYTHONPATH=/repo:/verif /venv/bin/python -c "from harness import common; common.regenerate_all()" >/dev/null 2>&1
