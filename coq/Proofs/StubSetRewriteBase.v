(* Proofs/StubSetRewriteBase.v — C14, groundwork for "the rewriter chain respects the order-insensitive reading of
   Union[...]": Python's == (py_eqb) as the working relation on types whose unions have only TypedDict-free members
   (outside kf_td_under_union): union member lists as SETS up to ==, Union[...] (union_mk) as a function of that set,
   the number of members of a duplicate-free list, and kf_td_under_union is invariant under equivb. *)
From MT Require Import Types StubSet Infer Rewrite RewriteTrigger TypesFacts UnionFacts StubSetEquiv StubSetMerge
  MergePermBase MergePermEquiv RewriteTriggerFacts.
From Coq Require Import Lia.
Open Scope list_scope.

(* ---------- lists of TypedDict-free types, as sets up to == ---------- *)
Definition tfl (xs : list ty) : Prop := forall x, In x xs -> has_td x = false.
Definition psub (xs ys : list ty) : Prop := forall x, In x xs -> exists y, In y ys /\ py_eqb x y = true.

Lemma tfl_of_union xs : has_td (TUnion xs) = false -> tfl xs.
Proof. cbn [has_td]. intros H x Hx. eapply existsb_false_In; eassumption. Qed.

Lemma tfl_existsb xs : tfl xs -> existsb has_td xs = false.
Proof. intros T. apply existsb_false_iff. exact T. Qed.

Lemma tfl_incl xs ys : tfl ys -> incl xs ys -> tfl xs.
Proof. intros T I x Hx. apply T. apply I. exact Hx. Qed.

Lemma tfl_cons x xs : tfl (x :: xs) -> has_td x = false /\ tfl xs.
Proof. intros T. split; [apply T; left; reflexivity|]. intros y Hy. apply T. right. exact Hy. Qed.

Lemma psub_refl xs : tfl xs -> psub xs xs.
Proof. intros T x Hx. exists x. split; [exact Hx|]. apply py_eqb_refl_tdfree. apply T. exact Hx. Qed.

Lemma psub_incl xs ys : tfl xs -> incl xs ys -> psub xs ys.
Proof. intros T I x Hx. exists x. split; [apply I; exact Hx|]. apply py_eqb_refl_tdfree. apply T. exact Hx. Qed.

Lemma psub_trans xs ys zs : tfl xs -> tfl ys -> tfl zs -> psub xs ys -> psub ys zs -> psub xs zs.
Proof.
  intros Tx Ty Tz P1 P2 x Hx. destruct (P1 x Hx) as [y [Hy E1]]. destruct (P2 y Hy) as [z [Hz E2]].
  exists z. split; [exact Hz|]. apply (py_eqb_trans_tdfree x y z); auto.
Qed.

Lemma psub_nil_r xs : psub xs [] -> xs = [].
Proof. destruct xs as [|x r]; [reflexivity|]. intros P. destruct (P x (or_introl eq_refl)) as [y [[] _]]. Qed.

Lemma py_union_inv xs ys :
  py_eqb (TUnion xs) (TUnion ys) = true -> tfl xs /\ tfl ys /\ psub xs ys /\ psub ys xs.
Proof.
  rewrite py_eqb_TUnion. intros H. apply andb_prop in H. destruct H as [H1 H2]. rewrite forallb_forall in H1, H2.
  assert (Ta : tfl xs).
  { intros x Hx. specialize (H1 x Hx). apply andb_prop in H1. destruct H1 as [H1 _]. apply negb_true_iff in H1. exact H1. }
  assert (Tb : tfl ys).
  { intros y Hy. specialize (H2 y Hy). apply andb_prop in H2. destruct H2 as [H2 _]. apply negb_true_iff in H2. exact H2. }
  split; [exact Ta|]. split; [exact Tb|]. split.
  - intros x Hx. specialize (H1 x Hx). apply andb_prop in H1. destruct H1 as [_ H1].
    apply existsb_exists in H1. exact H1.
  - intros y Hy. specialize (H2 y Hy). apply andb_prop in H2. destruct H2 as [_ H2].
    apply existsb_exists in H2. destruct H2 as [x [Hx E]]. exists x. split; [exact Hx|].
    apply py_eqb_sym_tdfree; auto.
Qed.

Lemma py_union_intro xs ys :
  tfl xs -> tfl ys -> psub xs ys -> psub ys xs -> py_eqb (TUnion xs) (TUnion ys) = true.
Proof.
  intros Ta Tb P1 P2. rewrite py_eqb_TUnion. apply andb_true_intro; split; apply forallb_forall; intros z Hz.
  - rewrite (Ta z Hz). cbn [negb andb]. apply existsb_exists. apply P1. exact Hz.
  - rewrite (Tb z Hz). cbn [negb andb]. apply existsb_exists. destruct (P2 z Hz) as [x [Hx E]].
    exists x. split; [exact Hx|]. apply py_eqb_sym_tdfree; auto.
Qed.

(* ---------- Union[...] flattens one level ... ---------- *)
Lemma tfl_flatten xs : tfl xs -> tfl (flatten xs).
Proof.
  intros T y Hy. apply flatten_In in Hy. destruct Hy as [[Hy _]|[us [Hu Hy]]]; [apply T; exact Hy|].
  specialize (T _ Hu). apply tfl_of_union in T. apply T. exact Hy.
Qed.

Lemma psub_flatten xs ys : psub xs ys -> psub (flatten xs) (flatten ys).
Proof.
  intros P u Hu. unfold flatten in Hu. apply in_flat_map in Hu. destruct Hu as [x [Hx Hu]].
  destruct (P x Hx) as [y [Hy E]].
  assert (G : forall v, In v (match y with TUnion us => us | _ => [y] end) -> py_eqb u v = true ->
                        exists v, In v (flatten ys) /\ py_eqb u v = true).
  { intros v Hv Ev. exists v. split; [|exact Ev]. unfold flatten. apply in_flat_map. exists y. split; assumption. }
  destruct x; cbn [In] in Hu;
    try (destruct Hu as [<-|[]]; destruct y; cbn [py_eqb] in E; try discriminate E;
         apply (G _ (or_introl eq_refl)); exact E).
  destruct y; cbn [py_eqb] in E; try discriminate E.
  apply py_union_inv in E. destruct E as [_ [_ [P1 _]]]. destruct (P1 u Hu) as [v [Hv Ev]]. apply (G v Hv Ev).
Qed.

(* ... and drops later ==-duplicates: the surviving members are the same set *)
Lemma psub_dedup l : tfl l -> psub l (dedup [] l).
Proof.
  intros T x Hx. destruct (dedup_covers l [] x Hx) as [y [[[]|Hy] R]]. exists y. split; [exact Hy|].
  destruct R as [<-|R]; [apply py_eqb_refl_tdfree; apply T; exact Hx|exact R].
Qed.

Lemma tfl_dedup l : tfl l -> tfl (dedup [] l).
Proof. intros T. eapply tfl_incl; [exact T|apply dedup_incl]. Qed.

Lemma dedup_psub l : tfl l -> psub (dedup [] l) l.
Proof. intros T. apply psub_incl; [apply tfl_dedup; exact T|apply dedup_incl]. Qed.

Lemma nodup_two a b r : nodupb [] (a :: b :: r) = true -> has_td b = false -> py_eqb b a = false.
Proof.
  cbn [nodupb existsb]. intros H T. rewrite T in H. destruct (py_eqb b a); [|reflexivity].
  rewrite andb_false_r in H. cbn in H. discriminate H.
Qed.

Lemma single_of t d' : tfl [t] -> tfl d' -> nodupb [] d' = true -> psub d' [t] -> psub [t] d' ->
  exists t', d' = [t'] /\ py_eqb t t' = true.
Proof.
  intros Tt Td N P1 P2. assert (Ht : has_td t = false) by (apply Tt; left; reflexivity).
  destruct d' as [|a [|b r]].
  - destruct (P2 t (or_introl eq_refl)) as [y [[] _]].
  - exists a. split; [reflexivity|]. destruct (P2 t (or_introl eq_refl)) as [y [[<-|[]] E]]. exact E.
  - exfalso. assert (Ha : has_td a = false) by (apply Td; left; reflexivity).
    assert (Hb : has_td b = false) by (apply Td; right; left; reflexivity).
    destruct (P1 a (or_introl eq_refl)) as [y [[<-|[]] Ea]].
    destruct (P1 b (or_intror (or_introl eq_refl))) as [y [[<-|[]] Eb]].
    pose proof (nodup_two a b r N Hb) as X.
    rewrite (py_eqb_trans_tdfree b t a Hb Ht Ha Eb (py_eqb_sym_tdfree a t Ha Ht Ea)) in X. discriminate X.
Qed.

Definition shape (d : list ty) : ty := match d with [t] => t | _ => TUnion d end.
Lemma union_mk_shape xs : union_mk xs = shape (dedup [] (flatten xs)).
Proof. unfold union_mk, shape. destruct (dedup [] (flatten xs)) as [|t [|t2 r]]; reflexivity. Qed.

Lemma shape_py d d' : tfl d -> tfl d' -> nodupb [] d = true -> nodupb [] d' = true -> psub d d' -> psub d' d ->
  py_eqb (shape d) (shape d') = true.
Proof.
  intros T T' N N' P1 P2. unfold shape.
  destruct d as [|t [|t2 r]].
  - rewrite (psub_nil_r _ P2). reflexivity.
  - destruct (single_of t d' T T' N' P2 P1) as [t' [-> E]]. exact E.
  - destruct d' as [|a [|b r']].
    + apply psub_nil_r in P1. discriminate P1.
    + destruct (single_of a (t :: t2 :: r) T' T N P1 P2) as [x [X _]]. discriminate X.
    + apply py_union_intro; assumption.
Qed.

(* Union[...] of two member lists that are the same set up to == *)
Theorem union_mk_py xs ys :
  tfl xs -> tfl ys -> psub xs ys -> psub ys xs -> py_eqb (union_mk xs) (union_mk ys) = true.
Proof.
  intros Tx Ty P1 P2. rewrite !union_mk_shape.
  pose proof (tfl_flatten _ Tx) as Fx. pose proof (tfl_flatten _ Ty) as Fy.
  apply shape_py; try (apply tfl_dedup; assumption); try apply nodup_dedup.
  - apply (psub_trans _ (flatten xs)); try (apply tfl_dedup; assumption); try assumption; [apply dedup_psub; exact Fx|].
    apply (psub_trans _ (flatten ys)); try (apply tfl_dedup; assumption); try assumption;
      [apply psub_flatten; exact P1|apply psub_dedup; exact Fy].
  - apply (psub_trans _ (flatten ys)); try (apply tfl_dedup; assumption); try assumption; [apply dedup_psub; exact Fy|].
    apply (psub_trans _ (flatten xs)); try (apply tfl_dedup; assumption); try assumption;
      [apply psub_flatten; exact P2|apply psub_dedup; exact Fx].
Qed.

Lemma union_mk_tdfree xs : tfl xs -> has_td (union_mk xs) = false.
Proof.
  intros T. unfold union_mk. pose proof (tfl_dedup _ (tfl_flatten _ T)) as D.
  destruct (dedup [] (flatten xs)) as [|t [|t2 r]].
  - reflexivity.
  - apply D. left. reflexivity.
  - cbn [has_td]. apply tfl_existsb. exact D.
Qed.

(* ---------- a duplicate-free list has as many members as any duplicate-free list with the same set ---------- *)
Inductive NoDupP : list ty -> Prop :=
| NDP_nil : NoDupP []
| NDP_cons x r : (forall y, In y r -> py_eqb y x = false) -> NoDupP r -> NoDupP (x :: r).

Lemma nodupb_NoDupP ts : forall seen, tfl ts -> nodupb seen ts = true ->
  NoDupP ts /\ forall x s, In x ts -> In s seen -> py_eqb x s = false.
Proof.
  induction ts as [|t r IH]; intros seen T N.
  - split; [constructor|]. intros x s [].
  - cbn [nodupb] in N. apply andb_prop in N. destruct N as [N1 N2].
    apply tfl_cons in T. destruct T as [Ht Tr]. rewrite Ht in N1. cbn [negb andb] in N1.
    apply negb_true_iff in N1.
    destruct (IH (t :: seen) Tr N2) as [ND F]. split.
    + constructor; [|exact ND]. intros y Hy. apply (F y t Hy). left. reflexivity.
    + intros x s [<-|Hx] Hs; [eapply existsb_false_In; eassumption|]. apply (F x s Hx). right. exact Hs.
Qed.

Lemma psub_length xs : forall ys, tfl xs -> tfl ys -> NoDupP xs -> psub xs ys -> List.length xs <= List.length ys.
Proof.
  induction xs as [|x r IH]; intros ys Tx Ty ND P; [cbn; lia|].
  inversion ND as [|? ? Hx NDr]; subst. apply tfl_cons in Tx. destruct Tx as [Hxt Tr].
  destruct (P x (or_introl eq_refl)) as [y [Hy E]]. apply in_split in Hy. destruct Hy as [l1 [l2 ->]].
  assert (Hyt : has_td y = false) by (apply Ty; apply in_or_app; right; left; reflexivity).
  assert (T12 : tfl (l1 ++ l2)).
  { intros z Hz. apply Ty. apply in_app_or in Hz. apply in_or_app. destruct Hz; [left|right; right]; assumption. }
  assert (P' : psub r (l1 ++ l2)).
  { intros x' Hx'. destruct (P x' (or_intror Hx')) as [y' [Hy' E']]. exists y'. split; [|exact E'].
    apply in_app_or in Hy'. apply in_or_app. destruct Hy' as [Hy'|[<-|Hy']]; [left; exact Hy'| |right; exact Hy'].
    exfalso. pose proof (Hx x' Hx') as X.
    rewrite (py_eqb_trans_tdfree x' y x (Tr x' Hx') Hyt Hxt E' (py_eqb_sym_tdfree x y Hxt Hyt E)) in X. discriminate X. }
  specialize (IH (l1 ++ l2) Tr T12 NDr P'). rewrite app_length in *. cbn [List.length]. lia.
Qed.

Theorem same_set_length xs ys :
  tfl xs -> tfl ys -> nodupb [] xs = true -> nodupb [] ys = true -> psub xs ys -> psub ys xs ->
  List.length xs = List.length ys.
Proof.
  intros Tx Ty Nx Ny P1 P2.
  destruct (nodupb_NoDupP xs [] Tx Nx) as [Dx _]. destruct (nodupb_NoDupP ys [] Ty Ny) as [Dy _].
  apply Nat.le_antisymm; apply psub_length; assumption.
Qed.

(* ---------- kf_td_under_union is invariant under equivb ---------- *)
Lemma forallb2_tdu (xs : list ty) : forall ys,
  Forall (fun x => forall b, equivb x b = true -> kf_td_under_union x = true -> kf_td_under_union b = true) xs ->
  forallb2 equivb xs ys = true -> existsb kf_td_under_union xs = true -> existsb kf_td_under_union ys = true.
Proof.
  induction xs as [|x xs IHxs]; intros [|y ys] IH E H; cbn [forallb2] in E; try discriminate E; [discriminate H|].
  apply andb_prop in E. destruct E as [E1 E2]. inversion IH as [|? ? IHx IHr]; subst.
  cbn [existsb] in *. apply orb_true_iff in H. apply orb_true_iff. destruct H as [H|H]; [left|right]; eauto.
Qed.

Lemma fsubE_tdu r r' :
  Forall (fun f => forall b, equivb (snd f) b = true -> kf_td_under_union (snd f) = true -> kf_td_under_union b = true) r ->
  fsubE r r' = true -> existsb (fun f => kf_td_under_union (snd f)) r = true ->
  existsb (fun f => kf_td_under_union (snd f)) r' = true.
Proof.
  intros IH E H. unfold fsubE in E. rewrite forallb_forall in E. rewrite Forall_forall in IH.
  apply existsb_exists in H. destruct H as [f [Hf Tf]]. specialize (E f Hf).
  destruct (lookup_f (fst f) r') as [y|] eqn:L; [|discriminate E].
  apply existsb_exists. exists (fst f, y). split; [apply lookup_f_In; exact L|]. cbn [snd]. apply (IH f Hf y E Tf).
Qed.

Lemma equivb_tdu_fwd a : forall b, equivb a b = true -> kf_td_under_union a = true -> kf_td_under_union b = true.
Proof.
  induction a as [ | c | x IH | | x IH | x IH | x IH | k v0 IHk IHv | k v0 IHk IHv | xs IH | x IH
                 | a1 a2 a3 IH1 IH2 IH3 | xs IH | r o IHr IHo | s ] using ty_ind';
    intros b E H;
    destruct b as [ | c' | y | | y | y | y | k' v' | k' v' | ys | y | b1 b2 b3 | ys | r' o' | s' ];
    try (cbn in E; discriminate E); try (cbn in H; discriminate H);
    try (cbn [equivb kf_td_under_union] in *; apply (IH _ E H)).
  - cbn [equivb kf_td_under_union] in *. apply andb_prop in E. destruct E as [E1 E2].
    apply orb_true_iff in H. apply orb_true_iff. destruct H; [left|right]; eauto.
  - cbn [equivb kf_td_under_union] in *. apply andb_prop in E. destruct E as [E1 E2].
    apply orb_true_iff in H. apply orb_true_iff. destruct H; [left|right]; eauto.
  - change (equivb (TTuple xs) (TTuple ys) = true) in E. rewrite equivb_TTuple in E.
    cbn [kf_td_under_union] in *. eapply forallb2_tdu; eassumption.
  - cbn [equivb kf_td_under_union] in *. apply andb_prop in E. destruct E as [E E3]. apply andb_prop in E.
    destruct E as [E1 E2]. apply orb_true_iff in H. apply orb_true_iff.
    destruct H as [H|H]; [left; apply orb_true_iff in H; apply orb_true_iff; destruct H; [left|right]; eauto|right; eauto].
  - change (equivb (TUnion xs) (TUnion ys) = true) in E. rewrite equivb_TUnion in E.
    apply andb_prop in E. destruct E as [E1 _]. rewrite forallb_forall in E1.
    cbn [kf_td_under_union] in *. apply existsb_exists in H. destruct H as [z [Hz Tz]].
    specialize (E1 z Hz). apply existsb_exists in E1. destruct E1 as [y [Hy Ezy]].
    apply existsb_exists. exists y. split; [exact Hy|]. rewrite <- (equivb_has_td z y Ezy). exact Tz.
  - change (equivb (TTypedDict r o) (TTypedDict r' o') = true) in E. rewrite equivb_TTypedDict in E.
    apply andb_prop in E. destruct E as [E Eo]. apply andb_prop in E. destruct E as [E _].
    apply andb_prop in E. destruct E as [_ Er].
    cbn [kf_td_under_union] in *. apply orb_true_iff in H. apply orb_true_iff.
    destruct H as [H|H]; [left; apply (fsubE_tdu r r'); assumption|right; apply (fsubE_tdu o o'); assumption].
Qed.

Theorem equivb_tdu a b : wf_ty a -> wf_ty b -> equivb a b = true -> kf_td_under_union a = kf_td_under_union b.
Proof.
  intros Wa Wb E. pose proof (equivb_sym a b Wa Wb E) as E'.
  destruct (kf_td_under_union a) eqn:A; destruct (kf_td_under_union b) eqn:B; try reflexivity.
  - rewrite (equivb_tdu_fwd a b E A) in B. discriminate B.
  - rewrite (equivb_tdu_fwd b a E' B) in A. discriminate A.
Qed.

(* equivb-equal well-formed types outside the class are Python-== (and conversely) *)
Lemma equivb_py a b : wf_ty a -> wf_ty b -> equivb a b = true -> kf_td_under_union a = false -> py_eqb a b = true.
Proof.
  intros Wa Wb E T. apply (py_eqb_char a b Wa Wb). split; [exact E|]. split; [exact T|].
  rewrite <- (equivb_tdu a b Wa Wb E). exact T.
Qed.

Print Assumptions union_mk_py.
Print Assumptions same_set_length.
Print Assumptions equivb_tdu.
