(* Proofs/InferSound.v — C04: the inferred type admits every observed value (all k, all values). *)
From MT Require Import Types Infer TypesFacts UnionFacts InferFacts.
From Coq Require Import Lia.

Notation keys m := (map fst m) (only parsing).

(* ---------- more map facts ---------- *)
Lemma lookup_m_notin s m : ~ In s (keys m) -> lookup_m s m = [].
Proof.
  induction m as [|e r IH]; cbn [map In lookup_m]; intros H; [reflexivity|].
  destruct (String.eqb_spec s (fst e)) as [E|E]; [exfalso; apply H; left; congruence|].
  apply IH. intros Hc. apply H. right. exact Hc.
Qed.

Lemma NoDup_keys_filter {B} (p : string * B -> bool) m : NoDup (keys m) -> NoDup (keys (filter p m)).
Proof.
  induction m as [|e r IH]; cbn [map filter]; intros ND; [constructor|].
  inversion ND as [|? ? Hn ND']; subst. destruct (p e); cbn [map]; [|apply IH; exact ND'].
  constructor; [|apply IH; exact ND']. intros Hc. apply Hn.
  apply in_map_iff in Hc. destruct Hc as [x [E Hx]]. apply filter_In in Hx. destruct Hx as [Hx _].
  rewrite <- E. apply in_map. exact Hx.
Qed.

Lemma lookup_m_filter p s m : NoDup (keys m) ->
  lookup_m s (filter p m) = [] \/
  (lookup_m s (filter p m) = lookup_m s m /\ In (s, lookup_m s m) (filter p m)).
Proof.
  intros ND. destruct (in_dec string_dec s (keys (filter p m))) as [Hi|Hn].
  - right. pose proof (lookup_m_In _ _ Hi) as He.
    assert (Hm : In (s, lookup_m s (filter p m)) m) by (apply filter_In in He; tauto).
    pose proof (lookup_m_NoDup _ _ _ ND Hm) as E. split; [symmetry; exact E|].
    rewrite E. exact He.
  - left. apply lookup_m_notin. exact Hn.
Qed.

Lemma wf_td_parts t : wf_ty t ->
  NoDup (keys (td_req t)) /\ Forall (fun f => wf_ty (snd f)) (td_req t)
  /\ Forall (fun f => wf_ty (snd f)) (td_opt t).
Proof.
  destruct t; cbn [td_req td_opt]; intros W; try (repeat split; constructor).
  apply wf_TTypedDict in W. destruct W as [ND [Wr Wo]]. repeat split; auto.
  apply NoDup_app_l in ND. exact ND.
Qed.

Lemma vals_of_wf s fs : Forall (fun f => wf_ty (snd f)) fs -> Forall wf_ty (vals_of s fs).
Proof.
  intros H. rewrite Forall_forall in *. intros ft Hft. apply In_vals_of in Hft. apply (H _ Hft).
Qed.

(* what mapM over (key, types) entries produces *)
Section MapMPair.
Variable sh : list ty -> option ty.
Let g := fun e : string * list ty => option_map (pair (fst e)) (sh (snd e)).

Lemma mapM_pair_keys m R : mapM g m = Some R -> map fst R = map fst m.
Proof.
  intros H. apply mapM_Forall2 in H. induction H as [|e y m R Hy _ IH]; [reflexivity|].
  cbn [map]. rewrite IH. f_equal. unfold g in Hy. destruct (sh (snd e)); [|discriminate Hy].
  injection Hy as <-. reflexivity.
Qed.

Lemma mapM_pair_fwd m R e : mapM g m = Some R -> In e m ->
  exists T, sh (snd e) = Some T /\ In (fst e, T) R.
Proof.
  intros H. apply mapM_Forall2 in H. induction H as [|e0 y m R Hy _ IH]; intros Hin; [destruct Hin|].
  destruct Hin as [->|Hin].
  - unfold g in Hy. destruct (sh (snd e)) as [T|]; [|discriminate Hy]. injection Hy as <-.
    exists T. split; [reflexivity|left; reflexivity].
  - destruct (IH Hin) as [T [H1 H2]]. exists T. split; [exact H1|right; exact H2].
Qed.

Lemma mapM_pair_bwd m R y : mapM g m = Some R -> In y R ->
  exists e, In e m /\ fst y = fst e /\ sh (snd e) = Some (snd y).
Proof.
  intros H. apply mapM_Forall2 in H. induction H as [|e0 y0 m R Hy _ IH]; intros Hin; [destruct Hin|].
  destruct Hin as [->|Hin].
  - unfold g in Hy. destruct (sh (snd e0)) as [T|] eqn:E; [|discriminate Hy]. injection Hy as <-.
    exists e0. split; [left; reflexivity|]. split; [reflexivity|exact E].
  - destruct (IH Hin) as [e [H1 H2]]. exists e. split; [right; exact H1|exact H2].
Qed.
End MapMPair.

Lemma keys_disjoint_spec (a b : list (string * list ty)) s :
  keys_disjoint a b = true -> In s (keys a) -> In s (keys b) -> False.
Proof.
  unfold keys_disjoint. rewrite forallb_forall. intros H Ha Hb.
  apply in_map_iff in Ha. destruct Ha as [e [<- He]]. specialize (H e He).
  apply negb_true_iff in H. apply in_map_iff in Hb. destruct Hb as [e' [E He']].
  assert (X : existsb (fun e'0 => String.eqb (fst e) (fst e'0)) b = true).
  { apply existsb_exists. exists e'. split; [exact He'|]. rewrite E. apply String.eqb_refl. }
  congruence.
Qed.

(* ---------- the merged maps, characterised ---------- *)
Section Merge.
Variable ts : list ty.
Hypothesis W : Forall wf_ty ts.
Let n := List.length ts.
Let kv := kvmap ts [].
Let old_opt := flat_map td_opt ts.
Let p := fun e : string * list ty => Nat.eqb (List.length (snd e)) n.
Let required := filter p kv.
Let F := filter (fun e => negb (p e)) kv.
Let optional := add_fields old_opt F.

Lemma merge_maps_eq : td_merge_maps ts = (required, optional).
Proof. reflexivity. Qed.

Lemma ND_kv : NoDup (keys kv).
Proof. apply NoDup_kvmap. constructor. Qed.
Lemma ND_required : NoDup (keys required).
Proof. apply NoDup_keys_filter. apply ND_kv. Qed.
Lemma ND_F : NoDup (keys F).
Proof. apply NoDup_keys_filter. apply ND_kv. Qed.
Lemma ND_optional : NoDup (keys optional).
Proof. apply NoDup_add_fields. apply ND_F. Qed.

Lemma kv_lookup s : lookup_m s kv = flat_map (fun t => vals_of s (td_req t)) ts.
Proof. unfold kv. rewrite lookup_m_kvmap. reflexivity. Qed.

Lemma kv_lookup_wf s : Forall wf_ty (lookup_m s kv).
Proof.
  rewrite kv_lookup. rewrite Forall_forall in *. intros ft Hft. apply in_flat_map in Hft.
  destruct Hft as [t [Ht Hft]]. destruct (wf_td_parts t (W t Ht)) as [_ [Wr _]].
  pose proof (vals_of_wf s _ Wr) as X. rewrite Forall_forall in X. apply X. exact Hft.
Qed.

Lemma old_opt_wf : Forall (fun f => wf_ty (snd f)) old_opt.
Proof.
  unfold old_opt. rewrite Forall_forall in *. intros f Hf. apply in_flat_map in Hf.
  destruct Hf as [t [Ht Hf]]. destruct (wf_td_parts t (W t Ht)) as [_ [_ Wo]].
  rewrite Forall_forall in Wo. apply Wo. exact Hf.
Qed.

Lemma required_entry e : In e required -> snd e = lookup_m (fst e) kv /\ List.length (snd e) = n.
Proof.
  intros H. apply filter_In in H. destruct H as [H1 H2]. unfold p in H2. apply Nat.eqb_eq in H2.
  split; [|exact H2]. symmetry. apply lookup_m_NoDup; [apply ND_kv|]. destruct e; exact H1.
Qed.

Lemma optional_entry e : In e optional ->
  snd e = lookup_m (fst e) F ++ vals_of (fst e) old_opt.
Proof.
  intros H. unfold optional in *. rewrite <- lookup_m_add_fields.
  symmetry. apply lookup_m_NoDup; [apply ND_optional|]. destruct e; exact H.
Qed.

Lemma entries_wf e : In e required \/ In e optional -> Forall wf_ty (snd e).
Proof.
  intros [H|H].
  - apply required_entry in H. destruct H as [-> _]. apply kv_lookup_wf.
  - rewrite (optional_entry _ H). apply Forall_app. split.
    + destruct (lookup_m_filter (fun e => negb (p e)) (fst e) kv ND_kv) as [Z|[Z _]]; fold F in Z; rewrite Z.
      * constructor. * apply kv_lookup_wf.
    + apply vals_of_wf. apply old_opt_wf.
Qed.

(* every field type of every input TypedDict is collected under its key *)
Lemma merge_complete x s ft : In x ts -> In (s, ft) (td_req x) \/ In (s, ft) (td_opt x) ->
  exists e, (In e required \/ In e optional) /\ fst e = s /\ In ft (snd e).
Proof.
  intros Hx [H|H].
  - assert (Hft : In ft (lookup_m s kv)).
    { rewrite kv_lookup. apply in_flat_map. exists x. split; [exact Hx|]. apply In_vals_of. exact H. }
    assert (Hk : In s (keys kv)).
    { unfold kv. apply keys_kvmap. left. exists x. split; [exact Hx|]. apply (in_map fst) in H. exact H. }
    pose proof (lookup_m_In _ _ Hk) as He.
    destruct (p (s, lookup_m s kv)) eqn:P.
    + exists (s, lookup_m s kv). split; [left; apply filter_In; split; assumption|]. split; [reflexivity|exact Hft].
    + assert (HF : In (s, lookup_m s kv) F) by (apply filter_In; split; [exact He|rewrite P; reflexivity]).
      assert (Hko : In s (keys optional)).
      { unfold optional. apply keys_add_fields. right. apply (in_map fst) in HF. exact HF. }
      exists (s, lookup_m s optional). split; [right; apply lookup_m_In; exact Hko|]. split; [reflexivity|].
      cbn [snd]. unfold optional. rewrite lookup_m_add_fields. apply in_or_app. left.
      rewrite (lookup_m_NoDup _ _ _ ND_F HF). exact Hft.
  - assert (Ho : In (s, ft) old_opt) by (unfold old_opt; apply in_flat_map; exists x; split; assumption).
    assert (Hko : In s (keys optional)).
    { unfold optional. apply keys_add_fields. left. apply (in_map fst) in Ho. exact Ho. }
    exists (s, lookup_m s optional). split; [right; apply lookup_m_In; exact Hko|]. split; [reflexivity|].
    cbn [snd]. unfold optional. rewrite lookup_m_add_fields. apply in_or_app. right.
    apply In_vals_of. exact Ho.
Qed.

(* a key that ends up required is a required key of every input TypedDict *)
Lemma required_everywhere e x : In e required -> In x ts -> In (fst e) (keys (td_req x)).
Proof.
  intros He Hx. destruct (required_entry _ He) as [E L]. rewrite E, kv_lookup in L.
  apply vals_of_nonempty_key.
  apply (flat_map_length_all (fun t => vals_of (fst e) (td_req t)) ts); [|exact L|exact Hx].
  intros y Hy. apply vals_of_length_le. rewrite Forall_forall in W.
  destruct (wf_td_parts y (W y Hy)) as [ND _]. exact ND.
Qed.

End Merge.

Definition required_of (ts : list ty) := fst (td_merge_maps ts).
Definition optional_of (ts : list ty) := snd (td_merge_maps ts).
Lemma merge_maps_pair ts : td_merge_maps ts = (required_of ts, optional_of ts).
Proof. reflexivity. Qed.
Lemma ND_required' ts : NoDup (keys (required_of ts)).
Proof. exact (ND_required ts). Qed.
Lemma ND_optional' ts : NoDup (keys (optional_of ts)).
Proof. exact (ND_optional ts). Qed.
Lemma entries_wf' ts (W : Forall wf_ty ts) e :
  In e (required_of ts) \/ In e (optional_of ts) -> Forall wf_ty (snd e).
Proof. exact (entries_wf ts W e). Qed.
Lemma merge_complete' ts (W : Forall wf_ty ts) x s ft :
  In x ts -> In (s, ft) (td_req x) \/ In (s, ft) (td_opt x) ->
  exists e, (In e (required_of ts) \/ In e (optional_of ts)) /\ fst e = s /\ In ft (snd e).
Proof. exact (merge_complete ts x s ft). Qed.
Lemma required_everywhere' ts (W : Forall wf_ty ts) e x :
  In e (required_of ts) -> In x ts -> In (fst e) (keys (td_req x)).
Proof. exact (required_everywhere ts W e x). Qed.
Lemma all_entries_wf ts (W : Forall wf_ty ts) :
  Forall wf_ty (flat_map snd (required_of ts) ++ flat_map snd (optional_of ts)).
Proof.
  apply Forall_app. split; rewrite Forall_forall; intros y Hy; apply in_flat_map in Hy;
    destruct Hy as [e' [He' Hy]];
    [pose proof (entries_wf' ts W e' (or_introl He')) as X|pose proof (entries_wf' ts W e' (or_intror He')) as X];
    rewrite Forall_forall in X; apply X; exact Hy.
Qed.

(* ---------- soundness of shrink ---------- *)
Section Sound.
Variable sub : cls -> cls -> bool.
Hypothesis sub_refl : forall c, sub c c = true.
Variable k : nat.
Notation mem := (member false sub).

Lemma field_ty_In s r o ft : field_ty s r o = Some ft -> In (s, ft) r \/ In (s, ft) o.
Proof.
  unfold field_ty. destruct (lookup_f s r) eqn:E.
  - intros H. injection H as <-. left. apply lookup_f_In. exact E.
  - intros H. right. apply lookup_f_In. exact H.
Qed.

Lemma is_td_shape t : is_td t = true -> t = TTypedDict (td_req t) (td_opt t).
Proof. destruct t; cbn; intros H; try discriminate H. reflexivity. Qed.

Lemma shrink_sound fuel : forall ts t v,
  Forall wf_ty ts -> shrink k fuel ts = Some t -> existsb (mem v) ts = true -> mem v t = true.
Proof.
  induction fuel as [|fuel IH]; intros ts t v W S M; [cbn in S; discriminate S|].
  cbn [shrink] in S. destruct ts as [|t0 rest]; [discriminate M|].
  destruct (forallb is_td (t0 :: rest)) eqn:ATD.
  - (* ---- all TypedDicts ---- *)
    set (ts := t0 :: rest) in *.
    rewrite (merge_maps_pair ts) in S. cbn iota beta in S.
    set (required := required_of ts) in *. set (optional := optional_of ts) in *.
    apply existsb_exists in M. destruct M as [x [Hx Mx]].
    rewrite forallb_forall in ATD. pose proof (is_td_shape x (ATD x Hx)) as Ex.
    rewrite Ex, member_TTypedDict in Mx. destruct v; try discriminate Mx.
    apply andb_prop in Mx. destruct Mx as [MA MB].
    destruct (Nat.ltb k (List.length required + List.length optional)).
    + (* oversize: Dict[str, shrink(all value types)] *)
      destruct (shrink k fuel (flat_map snd required ++ flat_map snd optional)) as [T|] eqn:ST; [|cbn [option_map] in S; discriminate S]. cbn [option_map] in S.
      injection S as <-. cbn [member]. revert MA. apply forallb_imp. intros [kk vv] _. cbn [fst snd].
      destruct kk; try (intros; discriminate). intros H.
      destruct (field_ty s (td_req x) (td_opt x)) as [ft|] eqn:FT; [|discriminate H].
      apply andb_true_intro; split; [cbn [member class_of]; apply sub_refl|].
      destruct (merge_complete' ts W x s ft Hx (field_ty_In _ _ _ _ FT)) as [e [He [Es Hft]]].
      apply (IH _ _ _ (all_entries_wf ts W) ST).
      apply existsb_exists. exists ft. split; [|exact H].
      apply in_or_app. destruct He as [He|He]; [left|right]; apply in_flat_map; exists e; auto.
    + destruct (negb (keys_disjoint required optional)) eqn:DJ; [discriminate S|].
      apply negb_false_iff in DJ.
      destruct (mapM (fun e => option_map (pair (fst e)) (shrink k fuel (snd e))) required) as [R|] eqn:MR; [|cbn [option_map] in S; discriminate S]. cbn [option_map] in S.
      destruct (mapM (fun e => option_map (pair (fst e)) (shrink k fuel (snd e))) optional) as [O|] eqn:MO; [|cbn [option_map] in S; discriminate S]. cbn [option_map] in S.
      injection S as <-.
      pose proof (mapM_pair_keys _ _ _ MR) as KR. pose proof (mapM_pair_keys _ _ _ MO) as KO.
      rewrite member_TTypedDict. apply andb_true_intro; split.
      * (* every item admitted *)
        revert MA. apply forallb_imp. intros [kk vv] _. cbn [fst snd].
        destruct kk; try (intros; discriminate). intros H.
        destruct (field_ty s (td_req x) (td_opt x)) as [ft|] eqn:FT; [|discriminate H].
        destruct (merge_complete' ts W x s ft Hx (field_ty_In _ _ _ _ FT)) as [e [He [Es Hft]]].
        assert (Hsound : forall T, shrink k fuel (snd e) = Some T -> mem vv T = true).
        { intros T ST. apply (IH _ _ _ (entries_wf' ts W e He) ST). apply existsb_exists. exists ft. auto. }
        unfold field_ty. destruct He as [He|He].
        -- destruct (mapM_pair_fwd _ _ _ _ MR He) as [T [ST HT]]. rewrite Es in HT.
           rewrite (lookup_f_NoDup s T R); [apply Hsound; exact ST| |exact HT].
           rewrite KR. apply (ND_required' ts).
        -- destruct (mapM_pair_fwd _ _ _ _ MO He) as [T [ST HT]]. rewrite Es in HT.
           assert (LR : lookup_f s R = None).
           { apply lookup_f_None. rewrite KR. intros Hc.
             apply (keys_disjoint_spec required optional s DJ Hc).
             rewrite <- Es. apply in_map. exact He. }
           rewrite LR. rewrite (lookup_f_NoDup s T O); [apply Hsound; exact ST| |exact HT].
           rewrite KO. apply (ND_optional' ts).
      * (* every required field present *)
        rewrite forallb_forall in MB |- *. intros y Hy.
        destruct (mapM_pair_bwd _ _ _ _ MR Hy) as [e [He [Ey _]]].
        pose proof (required_everywhere' ts W e x He Hx) as Hk.
        apply in_map_iff in Hk. destruct Hk as [f0 [Ef0 Hf0]].
        rewrite Ey, <- Ef0. apply MB. exact Hf0.
  - destruct (forallb (fun t => py_eqb t t0) rest) eqn:AEQ.
    + (* ---- all equal to the first ---- *)
      injection S as <-. cbn [existsb] in M. apply orb_prop in M. destruct M as [M|M]; [exact M|].
      apply existsb_exists in M. destruct M as [x [Hx Mx]].
      rewrite forallb_forall in AEQ. rewrite Forall_forall in W.
      apply (py_eqb_member_imp false sub x t0 v); auto.
      * apply W. right. exact Hx. * apply W. left. reflexivity.
    + destruct (forallb is_tlist (t0 :: rest)) eqn:AL.
      * (* ---- all lists ---- *)
        destruct (shrink k fuel (filter (fun a => negb (is_tany a)) (map list_arg (t0 :: rest)))) as [T|] eqn:ST;
          [|cbn [option_map] in S; discriminate S]. cbn [option_map] in S.
        injection S as <-. apply existsb_exists in M. destruct M as [x [Hx Mx]].
        rewrite forallb_forall in AL. pose proof (AL x Hx) as Lx.
        destruct x; try discriminate Lx. cbn [member] in Mx |- *. destruct v; try discriminate Mx.
        revert Mx. apply forallb_imp. intros e _ He.
        apply (IH (filter (fun a => negb (is_tany a)) (map list_arg (t0 :: rest))) T e); [|exact ST|].
        -- rewrite Forall_forall in *. intros y Hy. apply filter_In in Hy. destruct Hy as [Hy _].
           apply in_map_iff in Hy. destruct Hy as [z [<- Hz]].
           pose proof (W z Hz) as Wz. pose proof (AL z Hz) as Lz. destruct z; try discriminate Lz. exact Wz.
        -- apply existsb_exists. exists x. split; [|exact He].
           apply filter_In. split.
           ++ change x with (list_arg (TList x)). apply in_map. exact Hx.
           ++ (* under the tight reading Any admits nothing, so a list with an element is not List[Any] *)
              destruct x; try reflexivity. cbn [member] in He. discriminate He.
      * (* ---- Union of the dict-ified types ---- *)
        injection S as <-. apply existsb_exists in M. destruct M as [x [Hx Mx]].
        change (td2dict t0 :: map td2dict rest) with (map td2dict (t0 :: rest)).
        rewrite Forall_forall in W. apply union_mk_complete.
        -- rewrite Forall_forall. intros y Hy. apply in_map_iff in Hy. destruct Hy as [z [<- Hz]].
           apply td2dict_wf. apply W. exact Hz.
        -- apply existsb_exists. exists (td2dict x). split; [apply in_map; exact Hx|].
           apply td2dict_monotone; auto.
Qed.

(* ---------- shrink preserves well-formedness ---------- *)
Lemma NoDup_app_intro {A} (l1 l2 : list A) :
  NoDup l1 -> NoDup l2 -> (forall x, In x l1 -> In x l2 -> False) -> NoDup (l1 ++ l2).
Proof.
  induction l1 as [|a r IH]; intros N1 N2 D; [exact N2|].
  inversion N1 as [|? ? Hn N1']; subst. cbn [app]. constructor.
  - intros Hc. apply in_app_or in Hc. destruct Hc as [Hc|Hc]; [exact (Hn Hc)|].
    apply (D a); [left; reflexivity|exact Hc].
  - apply IH; auto. intros x H1 H2. apply (D x); [right; exact H1|exact H2].
Qed.

Lemma shrink_wf fuel : forall ts t, Forall wf_ty ts -> shrink k fuel ts = Some t -> wf_ty t.
Proof.
  induction fuel as [|fuel IH]; intros ts t W S; [cbn in S; discriminate S|].
  cbn [shrink] in S. destruct ts as [|t0 rest]; [injection S as <-; exact I|].
  destruct (forallb is_td (t0 :: rest)) eqn:ATD.
  - set (ts := t0 :: rest) in *.
    rewrite (merge_maps_pair ts) in S. cbn iota beta in S.
    set (required := required_of ts) in *. set (optional := optional_of ts) in *.
    destruct (Nat.ltb k (List.length required + List.length optional)).
    + destruct (shrink k fuel (flat_map snd required ++ flat_map snd optional)) as [T|] eqn:ST; [|cbn [option_map] in S; discriminate S]. cbn [option_map] in S.
      injection S as <-. cbn [wf_ty]. split; [exact I|]. apply (IH _ _ (all_entries_wf ts W) ST).
    + destruct (negb (keys_disjoint required optional)) eqn:DJ; [discriminate S|].
      apply negb_false_iff in DJ.
      destruct (mapM (fun e => option_map (pair (fst e)) (shrink k fuel (snd e))) required) as [R|] eqn:MR; [|cbn [option_map] in S; discriminate S]. cbn [option_map] in S.
      destruct (mapM (fun e => option_map (pair (fst e)) (shrink k fuel (snd e))) optional) as [O|] eqn:MO; [|cbn [option_map] in S; discriminate S]. cbn [option_map] in S.
      injection S as <-.
      pose proof (mapM_pair_keys _ _ _ MR) as KR. pose proof (mapM_pair_keys _ _ _ MO) as KO.
      apply wf_TTypedDict. split; [|split].
      * rewrite KR, KO. apply NoDup_app_intro; [apply (ND_required' ts)|apply (ND_optional' ts)|].
        intros s. apply (keys_disjoint_spec required optional s DJ).
      * rewrite Forall_forall. intros y Hy. destruct (mapM_pair_bwd _ _ _ _ MR Hy) as [e [He [_ ST]]].
        apply (IH _ _ (entries_wf' ts W e (or_introl He)) ST).
      * rewrite Forall_forall. intros y Hy. destruct (mapM_pair_bwd _ _ _ _ MO Hy) as [e [He [_ ST]]].
        apply (IH _ _ (entries_wf' ts W e (or_intror He)) ST).
  - destruct (forallb (fun t => py_eqb t t0) rest).
    + injection S as <-. inversion W; assumption.
    + destruct (forallb is_tlist (t0 :: rest)) eqn:AL.
      * destruct (shrink k fuel (filter (fun a => negb (is_tany a)) (map list_arg (t0 :: rest)))) as [T|] eqn:ST;
          [|cbn [option_map] in S; discriminate S]. cbn [option_map] in S.
        injection S as <-. cbn [wf_ty]. apply (fun X => IH _ _ X ST).
        rewrite forallb_forall in AL. rewrite Forall_forall in *. intros y Hy.
        apply filter_In in Hy. destruct Hy as [Hy _].
        apply in_map_iff in Hy. destruct Hy as [z [<- Hz]].
        pose proof (W z Hz) as Wz. pose proof (AL z Hz) as Lz. destruct z; try discriminate Lz. exact Wz.
      * injection S as <-. change (td2dict t0 :: map td2dict rest) with (map td2dict (t0 :: rest)).
        apply union_mk_wf. rewrite Forall_forall in *. intros y Hy.
        apply in_map_iff in Hy. destruct Hy as [z [<- Hz]]. apply td2dict_wf. apply W. exact Hz.
Qed.

End Sound.
