(* Proofs/TracerOrder.v — the GLOBAL statements about the call tracer (C02):
   the log, read oldest first, is exactly the sequence of completion events of the history (each finished call once,
   with its faithful trace, in the order in which the calls finished); the table of in-flight traces holds exactly
   the pending frames (with the partial trace the declarative description prescribes), without duplicates, and is
   empty once every frame has finished; no frame id occurs twice in the log.
   Everything is for EVERY well-formed history and sampling off; nothing here is a computation over samples except
   the Examples at the end. *)
From Coq Require Import Lia.
From MT Require Import Types Tracer TracerFacts.
Arguments gated : simpl never.

(* ================= the declarative sequence of completions (ground truth only) ================= *)

(* does this event finish a traceable call?  Looks at the ground truth `sem`, never at the opcode. *)
Definition completes (e : ev) : option N :=
  match e with
  | EvReturn f c sm _ _ =>
      if is_final sm && negb (gated c) && (match c_func c with Some _ => true | None => false end)
      then Some f else None
  | _ => None
  end.

(* what the event `e`, arriving after the events `pre`, contributes: if it finishes frame f, the trace(s) the
   declarative description prescribes for the events of f up to and including e *)
Definition emit (pre : list ev) (e : ev) : list (N * trace) :=
  match completes e with
  | Some f => map (pair f) (expected_frame (proj f (pre ++ [e])))
  | None => []
  end.

Fixpoint completions_from (pre H : list ev) : list (N * trace) :=
  match H with
  | [] => []
  | e :: r => emit pre e ++ completions_from (pre ++ [e]) r
  end.
(* oldest completion first *)
Definition completion_events (H : list ev) : list (N * trace) := completions_from [] H.

Lemma completions_from_app H1 : forall pre H2,
  completions_from pre (H1 ++ H2) = completions_from pre H1 ++ completions_from (pre ++ H1) H2.
Proof.
  induction H1 as [|e r IH]; intros pre H2.
  - cbn. rewrite app_nil_r. reflexivity.
  - cbn [app completions_from]. rewrite IH, <- !app_assoc. reflexivity.
Qed.

Lemma completion_events_nil : completion_events [] = [].
Proof. reflexivity. Qed.

(* the two equations that determine completion_events *)
Lemma completion_events_snoc H e : completion_events (H ++ [e]) = completion_events H ++ emit H e.
Proof. unfold completion_events. rewrite completions_from_app. cbn. rewrite app_nil_r. reflexivity. Qed.

Lemma completion_events_app H1 H2 :
  completion_events (H1 ++ H2) = completion_events H1 ++ completions_from H1 H2.
Proof. unfold completion_events. rewrite completions_from_app. reflexivity. Qed.

(* membership, spelled out with prefixes *)
Lemma completion_events_In H f t :
  In (f, t) (completion_events H) <->
  exists H1 e H2, H = H1 ++ e :: H2 /\ completes e = Some f /\ In t (expected_frame (proj f (H1 ++ [e]))).
Proof.
  induction H as [|e H IH] using rev_ind.
  - split; [intros []|]. intros (H1 & e & H2 & E & _). destruct H1; discriminate.
  - rewrite completion_events_snoc, in_app_iff, IH. split.
    + intros [(H1 & e' & H2 & E & C & I)|I].
      * exists H1, e', (H2 ++ [e]). subst H. rewrite <- app_assoc. repeat split; assumption.
      * unfold emit in I. destruct (completes e) as [g|] eqn:C; [|destruct I].
        apply in_map_iff in I. destruct I as (t' & Ep & I). injection Ep as -> ->.
        exists H, e, []. repeat split; assumption.
    + intros (H1 & e' & H2 & E & C & I).
      destruct H2 as [|x H2 _] using rev_ind.
      * apply app_inj_tail in E. destruct E as [-> ->]. right. unfold emit. rewrite C.
        apply in_map. exact I.
      * left. exists H1, e', H2. rewrite app_comm_cons, app_assoc in E. apply app_inj_tail in E.
        destruct E as [-> _]. repeat split; assumption.
Qed.

(* the same sequence, indexed: the i-th event contributes what it completes, judged on the prefix of length i+1 *)
Definition completion_at (H : list ev) (i : nat) : list (N * trace) :=
  match nth_error H i with Some e => emit (firstn i H) e | None => [] end.

Lemma completion_at_unfold H i e f :
  nth_error H i = Some e -> completes e = Some f ->
  completion_at H i = map (pair f) (expected_frame (proj f (firstn (S i) H))).
Proof.
  intros Hn C. unfold completion_at, emit. rewrite Hn, C. do 3 f_equal.
  revert i Hn. induction H as [|x H IH]; intros [|i] Hn; try discriminate Hn.
  - injection Hn as ->. reflexivity.
  - cbn [firstn app]. f_equal. apply IH. exact Hn.
Qed.

Lemma completion_at_none H i e : nth_error H i = Some e -> completes e = None -> completion_at H i = [].
Proof. intros Hn C. unfold completion_at, emit. rewrite Hn, C. reflexivity. Qed.

Lemma completes_iff f c sm op a :
  completes (EvReturn f c sm op a) = Some f <->
  is_final sm = true /\ gated c = false /\ exists fn, c_func c = Some fn.
Proof.
  cbn [completes]. split.
  - intros C. destruct (is_final sm); [|discriminate C]. destruct (gated c); [discriminate C|].
    destruct (c_func c) as [fn|]; [|discriminate C]. repeat split. exists fn. reflexivity.
  - intros (A & B & fn & D). rewrite A, B, D. reflexivity.
Qed.

Lemma completes_frame e f : completes e = Some f -> f = ev_frame e.
Proof.
  destruct e as [g c args d|g c sm op a|g c]; try discriminate. cbn.
  destruct (is_final sm && negb (gated c) && match c_func c with Some _ => true | None => false end); congruence.
Qed.

Theorem completion_events_indexed H :
  completion_events H = flat_map (completion_at H) (seq 0 (List.length H)).
Proof.
  induction H as [|e H IH] using rev_ind; [reflexivity|].
  rewrite completion_events_snoc, app_length. cbn [List.length]. rewrite Nat.add_1_r, seq_S, flat_map_app. cbn [plus flat_map].
  rewrite app_nil_r. f_equal.
  - rewrite IH, !flat_map_concat_map. f_equal. apply map_ext_in. intros i Hi. apply in_seq in Hi.
    unfold completion_at. rewrite nth_error_app1 by lia. rewrite firstn_app.
    replace (i - List.length H) with 0 by lia. cbn [firstn]. rewrite app_nil_r. reflexivity.
  - unfold completion_at. rewrite nth_error_app2 by lia. rewrite Nat.sub_diag. cbn [nth_error].
    rewrite firstn_app, firstn_all, Nat.sub_diag. cbn [firstn]. rewrite app_nil_r. reflexivity.
Qed.

(* ================= prefixes of well-formed sequences are well formed ================= *)
Lemma proj_app f H1 H2 : proj f (H1 ++ H2) = proj f H1 ++ proj f H2.
Proof. unfold proj. apply filter_app. Qed.

Lemma proj_snoc_same H e : proj (ev_frame e) (H ++ [e]) = proj (ev_frame e) H ++ [e].
Proof. rewrite proj_app. f_equal. unfold proj. cbn [filter]. rewrite N.eqb_refl. reflexivity. Qed.

Lemma proj_snoc_other H e f : N.eqb (ev_frame e) f = false -> proj f (H ++ [e]) = proj f H.
Proof. intros E. rewrite proj_app. unfold proj at 2. cbn [filter]. rewrite E. apply app_nil_r. Qed.

Lemma wf_from_app c es es' : forall b, wf_frame_from c b (es ++ es') = true -> wf_frame_from c b es = true.
Proof.
  induction es as [|e r IH]; intros b W; [reflexivity|].
  rewrite <- app_comm_cons in W.
  destruct e as [g c' args d|g c' sm op a|g c']; cbn [wf_frame_from] in W |- *.
  - apply andb_prop in W. destruct W as [W Wr]. rewrite W. cbn [andb]. apply (IH _ Wr).
  - apply andb_prop in W. destruct W as [W Wr]. rewrite W. cbn [andb].
    destruct (is_final sm); [|apply (IH _ Wr)].
    rewrite forallb_app in Wr. apply andb_prop in Wr. apply Wr.
  - apply andb_prop in W. destruct W as [W Wr]. rewrite W. cbn [andb]. apply (IH _ Wr).
Qed.

Lemma wf_frame_app es es' : wf_frame (es ++ es') = true -> wf_frame es = true.
Proof.
  destruct es as [|e r]; [reflexivity|]. rewrite <- app_comm_cons. unfold wf_frame. rewrite app_comm_cons.
  apply wf_from_app.
Qed.

Lemma wf_history_iff H :
  wf_history H = true <-> (forall f, wf_frame (proj f H) = true) /\ forallb ev_consistent H = true.
Proof.
  split.
  - intros W. split; [intros f; apply (wf_history_frame H f W)|].
    unfold wf_history in W. apply andb_prop in W. apply W.
  - intros [A B]. unfold wf_history. rewrite B, andb_true_r. apply forallb_forall. intros f _. apply A.
Qed.

(* prefix closure *)
Lemma wf_history_app_l H1 H2 : wf_history (H1 ++ H2) = true -> wf_history H1 = true.
Proof.
  rewrite !wf_history_iff. intros [A B]. split.
  - intros f. specialize (A f). rewrite proj_app in A. apply wf_frame_app in A. exact A.
  - rewrite forallb_app in B. apply andb_prop in B. apply B.
Qed.

Lemma wf_history_firstn n H : wf_history H = true -> wf_history (firstn n H) = true.
Proof. intros W. rewrite <- (firstn_skipn n H) in W. apply wf_history_app_l in W. exact W. Qed.

(* ================= one frame whose last event is a return ================= *)
Lemma final_of_app es es' :
  final_of (es ++ es') = match final_of es with Some x => Some x | None => final_of es' end.
Proof.
  induction es as [|e r IH]; [reflexivity|]. destruct e as [g c args d|g c sm op a|g c]; cbn [app final_of]; try exact IH.
  destruct (is_final sm); [reflexivity|exact IH].
Qed.

Lemma wf_from_snoc_return c es g c' sm op a : forall b,
  wf_frame_from c b (es ++ [EvReturn g c' sm op a]) = true -> c' = c /\ final_of es = None.
Proof.
  induction es as [|e r IH]; intros b W.
  - cbn in W. apply andb_prop in W. destruct W as [W _]. apply andb_prop in W. destruct W as [_ E].
    apply code_eqb_eq in E. split; [exact E|reflexivity].
  - rewrite <- app_comm_cons in W.
    destruct e as [g2 c2 args d|g2 c2 sm2 op2 a2|g2 c2]; cbn [wf_frame_from final_of] in W |- *.
    + apply andb_prop in W. destruct W as [_ Wr]. apply (IH _ Wr).
    + apply andb_prop in W. destruct W as [_ Wr]. destruct (is_final sm2); [|apply (IH _ Wr)].
      rewrite forallb_app in Wr. apply andb_prop in Wr. destruct Wr as [_ Wr]. cbn in Wr. discriminate Wr.
    + apply andb_prop in W. destruct W as [_ Wr]. apply (IH _ Wr).
Qed.

Lemma wf_from_snoc_return_started c es g c' sm op a :
  wf_frame_from c true (es ++ [EvReturn g c' sm op a]) = true ->
  exists args, first_call (es ++ [EvReturn g c' sm op a]) = Some (c, args).
Proof.
  induction es as [|e r IH]; intros W.
  - cbn in W. discriminate W.
  - rewrite <- app_comm_cons in W |- *.
    destruct e as [g2 c2 args d|g2 c2 sm2 op2 a2|g2 c2]; cbn [wf_frame_from first_call] in W |- *.
    + apply andb_prop in W. destruct W as [W _]. apply andb_prop in W. destruct W as [_ E].
      apply code_eqb_eq in E. subst c2. exists args. reflexivity.
    + cbn in W. discriminate W.
    + apply andb_prop in W. destruct W as [_ Wr]. apply (IH Wr).
Qed.

(* a well-formed frame sequence ending in a return: the call had started with the same code object and had not
   finished before *)
Lemma frame_snoc_return es g c sm op a :
  wf_frame (es ++ [EvReturn g c sm op a]) = true ->
  final_of es = None /\ exists args, first_call (es ++ [EvReturn g c sm op a]) = Some (c, args).
Proof.
  intros W. destruct es as [|e r].
  - cbn in W. discriminate W.
  - unfold wf_frame in W. rewrite <- app_comm_cons in W. rewrite app_comm_cons in W.
    destruct (wf_from_snoc_return _ _ _ _ _ _ _ _ W) as [Ec Fn].
    destruct (wf_from_snoc_return_started _ _ _ _ _ _ _ W) as [args Fc].
    split; [exact Fn|]. exists args. rewrite Fc, Ec. reflexivity.
Qed.

Lemma expected_frame_unfinished es : final_of es = None -> expected_frame es = [].
Proof.
  intros F. unfold expected_frame. rewrite F. destruct (first_call es) as [[c args]|]; [|reflexivity].
  destruct (gated c); [reflexivity|]. destruct (c_func c); reflexivity.
Qed.

(* a completion event always contributes exactly one trace, and nothing was expected for that frame before it *)
Lemma emit_completing_frame es e f :
  completes e = Some f -> wf_frame (es ++ [e]) = true ->
  expected_frame es = [] /\ exists t, expected_frame (es ++ [e]) = [t].
Proof.
  intros C W. destruct e as [g c args d|g c sm op a|g c]; try discriminate C. cbn [completes] in C.
  destruct (is_final sm) eqn:Fi; [|discriminate C]. destruct (gated c) eqn:G; [discriminate C|].
  destruct (c_func c) as [fn|] eqn:Fu; [|discriminate C].
  destruct (frame_snoc_return _ _ _ _ _ _ W) as [Fn [args Fc]].
  split; [apply expected_frame_unfinished; exact Fn|].
  unfold expected_frame. rewrite Fc, G, Fu, final_of_app, Fn. cbn [final_of]. rewrite Fi. eexists. reflexivity.
Qed.

(* conversely: a return after which something is expected for the frame, while nothing was before, completes it *)
Lemma expected_snoc_return_completes es g c sm op a :
  wf_frame (es ++ [EvReturn g c sm op a]) = true -> is_final sm = true ->
  expected_frame (es ++ [EvReturn g c sm op a]) <> [] -> completes (EvReturn g c sm op a) = Some g.
Proof.
  intros W Fi Ne. destruct (frame_snoc_return _ _ _ _ _ _ W) as [_ [args Fc]].
  unfold expected_frame in Ne. rewrite Fc in Ne. cbn [completes]. rewrite Fi.
  destruct (gated c); [exfalso; apply Ne; reflexivity|]. destruct (c_func c); [reflexivity|exfalso; apply Ne; reflexivity].
Qed.

(* ================= the log is the sequence of completions ================= *)
Lemma nonfinal_is_yield_op c sm op : consistent c sm op = true -> is_final sm = false -> is_op tr_yield_ops op = true.
Proof.
  intros Hc Fi. rewrite is_yield_op_iff. destruct sm; try discriminate Fi; cbn in Hc; apply andb_prop in Hc; apply Hc.
Qed.

Lemma log_step_is_emit rate H e :
  sampling rate = false -> wf_history (H ++ [e]) = true ->
  logged (run rate (H ++ [e])) = rev (emit H e) ++ logged (run rate H).
Proof.
  intros Hs W. pose proof (wf_history_app_l _ _ W) as W0.
  pose proof (tracer_log_faithful_frame rate _ (ev_frame e) Hs W) as A.
  pose proof (tracer_log_faithful_frame rate _ (ev_frame e) Hs W0) as B.
  destruct (wf_history_frame _ (ev_frame e) W) as [Wf _].
  assert (ev_consistent e = true) as Ce.
  { apply wf_history_iff in W. destruct W as [_ C]. rewrite forallb_app in C. apply andb_prop in C.
    destruct C as [_ C]. cbn in C. rewrite andb_true_r in C. exact C. }
  rewrite proj_snoc_same in A, Wf.
  assert (run rate (H ++ [e]) = step rate (run rate H) e) as R by (unfold run; rewrite fold_left_app; reflexivity).
  rewrite R in *. clear R.
  destruct (step_log rate (run rate H) e) as [E|(f & c & sm & op & a & t & -> & Y & L & E)].
  - (* nothing logged: then e is not a completion event *)
    rewrite E. unfold emit. destruct (completes e) as [f|] eqn:C; [|reflexivity]. exfalso.
    destruct (emit_completing_frame _ _ _ C Wf) as [E0 [t E1]].
    unfold logged_for in A, B. rewrite E, B, E0 in A. rewrite E1 in A. discriminate A.
  - (* one entry logged: e is a completion event and the entry is the expected one *)
    cbn [ev_frame] in *. rewrite E.
    unfold logged_for in A. rewrite E in A. cbn [filter fst map snd] in A. rewrite N.eqb_refl in A.
    cbn [map snd] in A. fold (logged_for f (run rate H)) in A. rewrite B in A.
    assert (is_final sm = true) as Fi.
    { destruct (is_final sm) eqn:Fi; [reflexivity|]. cbn [ev_consistent] in Ce.
      rewrite (nonfinal_is_yield_op _ _ _ Ce Fi) in Y. discriminate Y. }
    assert (completes (EvReturn f c sm op a) = Some f) as C.
    { apply (expected_snoc_return_completes _ _ _ _ _ _ Wf Fi). rewrite <- A. discriminate. }
    pose proof (proj_snoc_same H (EvReturn f c sm op a)) as PS. cbn [ev_frame] in PS.
    unfold emit. rewrite C, PS, <- A.
    destruct (emit_completing_frame _ _ _ C Wf) as [E0 _]. rewrite E0. reflexivity.
Qed.

(* THE ORDER THEOREM: read oldest first, the log is exactly the sequence of completion events — every finished
   (traceable) call once, with the trace the declarative description prescribes, in the order in which
   the calls finished *)
Theorem log_is_completion_sequence rate H :
  sampling rate = false -> wf_history H = true ->
  rev (logged (run rate H)) = completion_events H.
Proof.
  intros Hs. induction H as [|e H IH] using rev_ind; intros W; [reflexivity|].
  rewrite (log_step_is_emit rate H e Hs W), completion_events_snoc, rev_app_distr, rev_involutive.
  rewrite (IH (wf_history_app_l _ _ W)). reflexivity.
Qed.

(* for every prefix: the statement is about every moment of the run, not only its end *)
Corollary log_is_completion_sequence_prefix rate H n :
  sampling rate = false -> wf_history H = true ->
  rev (logged (run rate (firstn n H))) = completion_events (firstn n H).
Proof. intros Hs W. apply log_is_completion_sequence; [exact Hs|apply wf_history_firstn; exact W]. Qed.

(* what a completion event logs: exactly one entry, at the head of the log *)
Corollary completion_logs_one rate H e f :
  sampling rate = false -> wf_history (H ++ [e]) = true -> completes e = Some f ->
  exists t, expected_frame (proj f (H ++ [e])) = [t]
            /\ logged (run rate (H ++ [e])) = (f, t) :: logged (run rate H).
Proof.
  intros Hs W C. rewrite (log_step_is_emit rate H e Hs W). unfold emit. rewrite C.
  assert (f = ev_frame e) as -> by (destruct e; try discriminate C; cbn in C |- *;
    match type of C with (if ?b then _ else _) = _ => destruct b end; congruence).
  destruct (wf_history_frame _ (ev_frame e) W) as [Wf _]. rewrite proj_snoc_same in Wf |- *.
  destruct (emit_completing_frame _ _ _ C Wf) as [_ [t E1]]. exists t. rewrite E1. split; reflexivity.
Qed.

Corollary noncompletion_logs_nothing rate H e :
  sampling rate = false -> wf_history (H ++ [e]) = true -> completes e = None ->
  logged (run rate (H ++ [e])) = logged (run rate H).
Proof. intros Hs W C. rewrite (log_step_is_emit rate H e Hs W). unfold emit. rewrite C. reflexivity. Qed.

(* the number of log entries is the number of completion events *)
Definition is_completion (e : ev) : bool := match completes e with Some _ => true | None => false end.

Corollary log_length_counts_completions rate H :
  sampling rate = false -> wf_history H = true ->
  List.length (logged (run rate H)) = List.length (filter is_completion H).
Proof.
  intros Hs. induction H as [|e H IH] using rev_ind; intros W; [reflexivity|].
  pose proof (wf_history_app_l _ _ W) as W0. rewrite filter_app, app_length, <- (IH W0). cbn [filter].
  unfold is_completion. destruct (completes e) as [f|] eqn:C.
  - destruct (completion_logs_one rate H e f Hs W C) as [t [_ E]]. rewrite E. cbn. lia.
  - rewrite (noncompletion_logs_nothing rate H e Hs W C). cbn. lia.
Qed.

(* the trace recorded at completion is the trace of the frame in the WHOLE history (later events of that frame,
   necessarily unsupported ones, change nothing): the completion sequence enumerates exactly the frames for which
   something is expected *)
Theorem completion_events_iff_expected rate H f t :
  sampling rate = false -> wf_history H = true ->
  (In (f, t) (completion_events H) <-> expected_frame (proj f H) = [t]).
Proof.
  intros Hs W. rewrite <- (log_is_completion_sequence rate H Hs W), <- in_rev.
  pose proof (tracer_log_faithful_frame rate H f Hs W) as A.
  pose proof (expected_frame_le1 (proj f H)) as L1. rewrite <- A in *. unfold logged_for in *.
  split.
  - intros I. assert (In t (map snd (filter (fun p => N.eqb (fst p) f) (logged (run rate H))))) as I2.
    { apply in_map_iff. exists (f, t). split; [reflexivity|]. apply filter_In. split; [exact I|]. apply N.eqb_refl. }
    destruct (map snd (filter (fun p => N.eqb (fst p) f) (logged (run rate H)))) as [|x [|y r]]; cbn in *.
    + destruct I2.
    + destruct I2 as [->|[]]. reflexivity.
    + lia.
  - intros E. assert (In t (map snd (filter (fun p => N.eqb (fst p) f) (logged (run rate H))))) as I2
      by (rewrite E; left; reflexivity).
    apply in_map_iff in I2. destruct I2 as ([g t'] & Et & I). cbn in Et. subst t'.
    apply filter_In in I. destruct I as [I Eg]. cbn in Eg. apply N.eqb_eq in Eg. subst g. exact I.
Qed.

(* ================= the table of in-flight traces ================= *)
Lemma in_keys_remove {A} f g (l : list (N * A)) : In g (map fst (remove f l)) <-> g <> f /\ In g (map fst l).
Proof.
  induction l as [|[h x] l IH]; cbn; [tauto|]. destruct (N.eqb f h) eqn:E.
  - apply N.eqb_eq in E. subst h. rewrite IH. split; [tauto|]. intros [Nq [->|I]]; [contradiction|tauto].
  - apply N.eqb_neq in E. cbn. rewrite IH. split.
    + intros [->|[Nq I]]; [split; [congruence|tauto]|tauto].
    + tauto.
Qed.

Lemma nodup_keys_remove {A} f (l : list (N * A)) : NoDup (map fst l) -> NoDup (map fst (remove f l)).
Proof.
  induction l as [|[h x] l IH]; cbn; intros Nd; [constructor|]. inversion Nd as [|? ? Hn Hr]. subst.
  destruct (N.eqb f h); [apply IH; exact Hr|]. cbn. constructor; [|apply IH; exact Hr].
  intros I. apply in_keys_remove in I. tauto.
Qed.

Lemma in_keys_lookup {A} f (l : list (N * A)) : In f (map fst l) <-> lookup f l <> None.
Proof.
  induction l as [|[h x] l IH]; cbn; [tauto|]. destruct (N.eqb f h) eqn:E.
  - apply N.eqb_eq in E. subst h. split; [discriminate|tauto].
  - apply N.eqb_neq in E. rewrite <- IH. split; [intros [->|I]; [congruence|exact I]|tauto].
Qed.

Lemma step_live_nodup rate s e : NoDup (map fst (live s)) -> NoDup (map fst (live (step rate s e))).
Proof.
  intros Nd. destruct e as [f c args d|f c sm op a|f c]; cbn [step]; [| |exact Nd].
  - destruct (gated c); [exact Nd|]. unfold handle_call. destruct (skipped_by_sampling rate d); [exact Nd|].
    destruct (c_func c); [|exact Nd]. destruct (lookup f (live s)) eqn:L; [exact Nd|]. cbn. constructor; [|exact Nd].
    intros I. apply in_keys_lookup in I. contradiction.
  - destruct (gated c); [exact Nd|]. unfold handle_return. destruct (lookup f (live s)); [|exact Nd].
    destruct (is_op tr_yield_ops op).
    + destruct (tr_yield_skips_coroutines && c_coroutine c); [exact Nd|]. cbn. constructor.
      * intros I. apply in_keys_remove in I. tauto.
      * apply nodup_keys_remove. exact Nd.
    + cbn. apply nodup_keys_remove. exact Nd.
Qed.

(* no frame is held twice — for EVERY history and sampling rate *)
Theorem live_keys_nodup rate H : NoDup (map fst (live (run rate H))).
Proof.
  unfold run. assert (NoDup (map fst (live init))) as Nd by constructor. revert Nd. generalize init.
  induction H as [|e H IH]; intros s Nd; [exact Nd|]. cbn [fold_left]. apply IH. apply step_live_nodup. exact Nd.
Qed.

(* GLOBAL NO RESIDUE: the table holds frame f exactly while the call of f is in flight *)
Theorem live_keys_are_pending rate H f :
  sampling rate = false -> wf_history H = true ->
  (In f (map fst (live (run rate H))) <-> pending_frame (proj f H) = true).
Proof.
  intros Hs W. rewrite in_keys_lookup, <- (tracer_no_residue_frame rate H f Hs W).
  destruct (lookup f (live (run rate H))); split; congruence.
Qed.

Lemma pending_frame_nil : pending_frame [] = false.
Proof. reflexivity. Qed.

Lemma in_frames_of f H : In f (frames_of H) <-> existsb (N.eqb f) (frames_of H) = true.
Proof.
  rewrite existsb_exists. split.
  - intros I. exists f. split; [exact I|apply N.eqb_refl].
  - intros [g [I E]]. apply N.eqb_eq in E. subst g. exact I.
Qed.

(* once every frame of the history has finished, the tracer keeps no per-call state at all *)
Theorem live_empty_when_all_finished rate H :
  sampling rate = false -> wf_history H = true ->
  (forall f, In f (frames_of H) -> pending_frame (proj f H) = false) ->
  live (run rate H) = [].
Proof.
  intros Hs W Fin. destruct (live (run rate H)) as [|[f t] l] eqn:E; [reflexivity|]. exfalso.
  assert (pending_frame (proj f H) = true) as P.
  { apply (live_keys_are_pending rate H f Hs W). rewrite E. left. reflexivity. }
  destruct (existsb (N.eqb f) (frames_of H)) eqn:X.
  - apply in_frames_of in X. rewrite (Fin f X) in P. discriminate P.
  - rewrite (proj_nil_not_in f H X) in P. discriminate P.
Qed.

(* and conversely the table is non-empty while some call is in flight *)
Theorem live_nonempty_while_pending rate H f :
  sampling rate = false -> wf_history H = true -> pending_frame (proj f H) = true -> live (run rate H) <> [].
Proof.
  intros Hs W P E. apply (live_keys_are_pending rate H f Hs W) in P. rewrite E in P. destruct P.
Qed.

(* ---- the CONTENT of the table: the partial trace the declarative description prescribes ---- *)
Definition partial_frame (es : list ev) : option trace :=
  match first_call es with
  | Some (c, args) =>
      if gated c then None else
      match c_func c, final_of es with
      | Some fn, None => Some (Trace fn args None (yields_of None es))
      | _, _ => None
      end
  | None => None
  end.

Lemma partial_frame_pending es :
  (match partial_frame es with Some _ => true | None => false end) = pending_frame es.
Proof.
  unfold partial_frame, pending_frame. destruct (first_call es) as [[c args]|]; [|reflexivity].
  destruct (gated c); [reflexivity|]. destruct (c_func c); [|reflexivity]. destruct (final_of es); reflexivity.
Qed.

Lemma frame_partial_from rate c es :
  sampling rate = false -> wf_frame_from c true es = true -> forallb ev_consistent es = true ->
  fst (pf_run rate None es) = partial_frame es.
Proof.
  intros Hs. induction es as [|e r IH]; intros W C; [reflexivity|].
  cbn [forallb] in C. apply andb_prop in C. destruct C as [Ce Cr].
  destruct e as [g c' args d|g c' sm op a|g c']; cbn [wf_frame_from] in W.
  - apply andb_prop in W. destruct W as [W Wr]. apply andb_prop in W. destruct W as [_ Ec].
    apply code_eqb_eq in Ec. subst c'.
    unfold partial_frame. cbn [first_call pf_run pf_step].
    destruct (gated c) eqn:G.
    { rewrite (pf_run_untraceable rate c false r); [reflexivity| |exact Wr]. unfold untraceable. rewrite G. reflexivity. }
    unfold skipped_by_sampling. rewrite Hs. cbn [andb].
    destruct (c_func c) as [fn|] eqn:F.
    2:{ rewrite (pf_run_untraceable rate c false r); [reflexivity| |exact Wr]. unfold untraceable. rewrite F. apply orb_true_r. }
    rewrite (pf_run_started rate c fn r false (Trace fn args None None) G F Wr Cr).
    cbn [t_func t_args t_ret t_yield final_of yields_of].
    destruct (final_of r) as [[sm a]|]; reflexivity.
  - cbn in W. discriminate W.
  - apply andb_prop in W. destruct W as [_ Wr]. cbn [pf_run pf_step]. unfold partial_frame in *.
    cbn [first_call final_of yields_of]. rewrite <- (IH Wr Cr). destruct (pf_run rate None r) as [st out]. reflexivity.
Qed.

(* the entry of frame f is exactly the partial trace: function and argument types of the first call event, no return
   type yet, the union of the yields so far; absent unless the call is in flight *)
Theorem live_entry_is_partial_trace rate H f :
  sampling rate = false -> wf_history H = true ->
  lookup f (live (run rate H)) = partial_frame (proj f H).
Proof.
  intros Hs W. destruct (wf_history_frame H f W) as [Wf Cf]. destruct (run_proj rate H f) as [A _]. rewrite A.
  destruct (proj f H) as [|e r] eqn:E; [reflexivity|]. apply (frame_partial_from rate (ev_code e)); assumption.
Qed.

(* ================= no frame id occurs twice in the log ================= *)
Lemma nodup_keys_of_filter_le1 {A} (l : list (N * A)) :
  (forall f, List.length (filter (fun p => N.eqb (fst p) f) l) <= 1) -> NoDup (map fst l).
Proof.
  induction l as [|[g x] l IH]; intros L; [constructor|]. cbn [map fst]. constructor.
  - intros I. specialize (L g). cbn [filter fst] in L. rewrite N.eqb_refl in L. cbn [List.length] in L.
    apply in_map_iff in I. destruct I as ([g' y] & Eg & I). cbn in Eg. subst g'.
    assert (In (g, y) (filter (fun p => N.eqb (fst p) g) l)) as I2 by (apply filter_In; split; [exact I|apply N.eqb_refl]).
    destruct (filter (fun p => N.eqb (fst p) g) l); [destruct I2|cbn in L; lia].
  - apply IH. intros f. specialize (L f). cbn [filter fst] in L. destruct (N.eqb g f); cbn [List.length] in L; lia.
Qed.

Theorem logged_frames_nodup rate H :
  sampling rate = false -> wf_history H = true -> NoDup (map fst (logged (run rate H))).
Proof.
  intros Hs W. apply nodup_keys_of_filter_le1. intros f.
  pose proof (expected_frame_le1 (proj f H)) as L. rewrite <- (tracer_log_faithful_frame rate H f Hs W) in L.
  unfold logged_for in L. rewrite map_length in L. exact L.
Qed.

Corollary completion_frames_nodup H : wf_history H = true -> NoDup (map fst (completion_events H)).
Proof.
  intros W. rewrite <- (log_is_completion_sequence None H eq_refl W), map_rev.
  apply NoDup_rev. apply logged_frames_nodup; [reflexivity|exact W].
Qed.

(* ================= non-vacuity ================= *)
(* three interleaved frames: started in the order 20, 21, 22; finished in the order 21 (raised), 22 (returned),
   20 (a generator, returned after two yields).  The history is well formed, its completion sequence is the three
   calls in order of COMPLETION, the log read oldest-first is that sequence, nothing is left in the table; and
   halfway through (after 7 events) the table holds exactly the two calls still in flight, with partial traces. *)
Definition ex_order_history : list ev :=
  let g := Code 1 false true (Some 7%N) KGen in
  let p := Code 2 false true (Some 8%N) KPlain in
  let q := Code 3 false true (Some 9%N) KPlain in
  [EvCall 20 g [("a"%string, TCls cInt)] 0; EvReturn 20 g SYield op_yield (TCls cInt);
   EvCall 21 p [("x"%string, TCls cStr)] 0;
   EvCall 22 q [] 0; EvOther 22 q;
   EvCall 20 g [] 0;
   EvReturn 21 p SRaise "RERAISE"%string (TCls cNone);
   EvReturn 20 g SYield op_yield (TCls cStr);
   EvReturn 22 q SReturn op_retv (TCls cStr);
   EvOther 21 p;
   EvCall 20 g [] 0; EvReturn 20 g SReturn op_retc (TCls cNone)].

Example ex_order_nonvacuous :
  let H := ex_order_history in
  let t21 := Trace 8 [("x"%string, TCls cStr)] None None in
  let t22 := Trace 9 [] (Some (TCls cStr)) None in
  let t20 := Trace 7 [("a"%string, TCls cInt)] (Some (TCls cNone)) (Some (TUnion [TCls cInt; TCls cStr])) in
  wf_history H = true
  /\ frames_of H = [22%N; 21%N; 20%N]
  /\ completion_events H = [(21%N, t21); (22%N, t22); (20%N, t20)]
  /\ rev (logged (run None H)) = completion_events H
  /\ live (run None H) = []
  /\ (forall f, In f (frames_of H) -> pending_frame (proj f H) = false)
  /\ completion_events (firstn 7 H) = [(21%N, t21)]
  /\ map fst (live (run None (firstn 7 H))) = [22%N; 20%N]
  /\ lookup 20 (live (run None (firstn 7 H))) = Some (Trace 7 [("a"%string, TCls cInt)] None (Some (TCls cInt)))
  /\ pending_frame (proj 20 (firstn 7 H)) = true /\ pending_frame (proj 21 (firstn 7 H)) = false.
Proof.
  vm_compute. repeat split; try reflexivity.
  intros f [<-|[<-|[<-|[]]]]; reflexivity.
Qed.
