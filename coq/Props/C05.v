(* C05 — inferred types are tight: every alternative is witnessed by an observed value.
   The executable reading of the property's prose is Model/Tight.v (tightb / memt); the full statement C05_full is
   PROVED for every limit k and every finite collection of well-formed values (Proofs/TightMerge*.v: induction on the
   merge's fuel with one case per path of shrink_types, nested induction on values for get_type).  The same predicate
   tightb is evaluated by vm_compute on the implementation's own output for every generated case. *)
From MT Require Import Types Infer Tight TightFacts TightMergeShrink.

Definition C05_full : Prop :=
  forall k vs t, vs <> [] -> forallb wf_valueb vs = true -> infer k vs = Some t -> tightb t vs = true.

(* the full property: at every nesting position every union alternative is inhabited by an observed value, class
   names are exact runtime classes, Any only where nothing was seen, TypedDict keys required iff present everywhere *)
Theorem infer_tight : C05_full.
Proof. exact infer_tight_full. Qed.
Print Assumptions infer_tight.

(* per value: the type of a single value is tight for it, and the value is an exact member of it *)
Theorem get_type_tight :
  forall k v t, wf_valueb v = true -> get_type k v = Some t -> tightb t [v] = true /\ memt v t = true.
Proof. exact TightMergeShrink.get_type_tight. Qed.
Print Assumptions get_type_tight.

(* every observed value is an EXACT member (exact classes, Dict does not admit defaultdict, Any admits nothing) *)
Theorem infer_exact_member :
  forall k vs t v, forallb wf_valueb vs = true -> infer k vs = Some t -> In v vs -> memt v t = true.
Proof. exact infer_memt. Qed.
Print Assumptions infer_exact_member.

(* merging (what stub generation does with the types of many traces) keeps tightness: if every input type is
   witnessed by observed values and every observed value is covered, the merged type is tight for all of them *)
Theorem merge_tight :
  forall k ts t V, Forall TypesFacts.wf_ty ts -> forallb wf_valueb V = true ->
  (forall x, In x ts -> exists ws, ws <> [] /\ incl ws V /\ tightb x ws = true) ->
  (forall v, In v V -> exists x ws, In x ts /\ In v ws /\ incl ws V /\ tightb x ws = true) ->
  shrink_top k ts = Some t -> tightb t V = true.
Proof. exact shrink_top_tight_closed. Qed.
Print Assumptions merge_tight.

(* leaves: class names are the exact runtime classes; class objects, callables, generators *)
Theorem get_type_tight_leaf :
  forall k v t, is_leaf v = true -> get_type k v = Some t -> tightb t [v] = true.
Proof. exact TightFacts.get_type_tight_leaf. Qed.
Print Assumptions get_type_tight_leaf.

(* `Any` is tight for the empty collection only: wherever tightb accepts an Any, nothing was seen there *)
Theorem any_only_where_nothing_seen : forall vs, tightb TAny vs = true <-> vs = [].
Proof. exact tight_any_iff. Qed.
Print Assumptions any_only_where_nothing_seen.

Example ex_c05_nonvacuous :
  let vs := [VList [VDict [(VStr "a", VAtom cInt 1)]; VDict [(VStr "a", VAtom cInt 2); (VStr "b", VStr "x")]];
             VList []] in
  forallb wf_valueb vs = true /\ exists t, infer 3 vs = Some t /\ tightb t vs = true /\ has_td t = true.
Proof. vm_compute. split; [reflexivity|]. eexists. repeat split. Qed.
