(* Proofs/RewriteTriggerFacts.v — C07, last clause: a rewriter leaves a type unchanged unless its documented
   trigger is present.  For every rewriter r and every type t whose unions are in typing's normal form,
   fires r t = false -> rw r t = t (plain equality), and fires r t = true -> trigger r t = true. *)
From MT Require Import Types Rewrite RewriteTrigger Hier TypesFacts UnionFacts RewriteMono.
From Coq Require Import Lia.
Open Scope list_scope.

(* ---------- union_mk is the identity on normal member lists ---------- *)
Lemma flatten_no_union ts : forallb (fun t => negb (is_tunion t)) ts = true -> flatten ts = ts.
Proof.
  unfold flatten. induction ts as [|t r IH]; cbn [flat_map forallb]; intros H; [reflexivity|].
  apply andb_prop in H. destruct H as [H1 H2]. rewrite (IH H2).
  destruct t; try reflexivity. discriminate H1.
Qed.

Lemma dedup_nodup ts : forall seen, nodupb seen ts = true -> dedup seen ts = ts.
Proof.
  induction ts as [|t r IH]; intros seen H; cbn [dedup nodupb] in *; [reflexivity|].
  apply andb_prop in H. destruct H as [H1 H2].
  destruct (negb (has_td t) && existsb (py_eqb t) seen); [discriminate H1|].
  rewrite (IH _ H2). reflexivity.
Qed.

Lemma nodup_dedup ts : forall seen, nodupb seen (dedup seen ts) = true.
Proof.
  induction ts as [|t r IH]; intros seen; cbn [dedup nodupb]; [reflexivity|].
  destruct (negb (has_td t) && existsb (py_eqb t) seen) eqn:E; [apply IH|].
  cbn [nodupb]. rewrite E, IH. reflexivity.
Qed.

Theorem union_mk_normal_id ts : normal_members ts = true -> union_mk ts = TUnion ts.
Proof.
  unfold normal_members. intros H. apply andb_prop in H. destruct H as [H H3].
  apply andb_prop in H. destruct H as [H1 H2]. apply Nat.leb_le in H1.
  unfold union_mk. rewrite (flatten_no_union _ H2), (dedup_nodup _ _ H3).
  destruct ts as [|a [|b l]]; cbn [List.length] in H1; try lia. reflexivity.
Qed.

(* ... and conversely: the normal member lists are exactly the non-empty fixed points of union_mk,
   so `normal` asks nothing beyond "every Union is what Union[...] would build from its own members" *)
Lemma depth_In l : forall y : ty, In y l -> depth y <= depth_list l.
Proof.
  induction l as [|z l IH]; intros y Hy; [destruct Hy|]. cbn [depth_list fold_right].
  destruct Hy as [<-|Hy]; [lia|]. specialize (IH y Hy). unfold depth_list in IH. lia.
Qed.

Lemma depth_TUnion us : depth (TUnion us) = S (depth_list us).
Proof. reflexivity. Qed.

Lemma flatten_In l y : In y (flatten l) ->
  (In y l /\ is_tunion y = false) \/ exists us, In (TUnion us) l /\ In y us.
Proof.
  unfold flatten. intros Hy. apply in_flat_map in Hy. destruct Hy as [z [Hz Hy]].
  destruct z; cbn [In] in Hy; try (destruct Hy as [<-|[]]; left; split; [exact Hz|reflexivity]).
  right. exists ts. split; assumption.
Qed.

(* a list that union_mk's flatten+dedup maps to itself has no Union member *)
Lemma dedup_flatten_fix_no_union ts :
  dedup [] (flatten ts) = ts -> forallb (fun t => negb (is_tunion t)) ts = true.
Proof.
  intros E.
  assert (K : forall n y, depth_list ts - depth y < n -> In y ts -> is_tunion y = true -> False).
  { induction n as [|n IHn]; intros y Hn Hy Uy; [lia|].
    assert (Hy' : In y (flatten ts)) by (apply (dedup_incl [] (flatten ts)); rewrite E; exact Hy).
    destruct (flatten_In _ _ Hy') as [[_ C]|[us [Hus Hyus]]]; [congruence|].
    apply (IHn (TUnion us)); [|exact Hus|reflexivity].
    pose proof (depth_In _ _ Hus) as Q1. pose proof (depth_In _ _ Hyus) as Q2.
    rewrite depth_TUnion in *. lia. }
  apply forallb_forall. intros x Hx. destruct (is_tunion x) eqn:U; [|reflexivity].
  exfalso. apply (K (S (depth_list ts - depth x)) x); auto.
Qed.

Theorem union_mk_id_normal ts : ts <> [] -> union_mk ts = TUnion ts -> normal_members ts = true.
Proof.
  unfold union_mk. intros NE H.
  assert (E : dedup [] (flatten ts) = ts).
  { destruct (dedup [] (flatten ts)) as [|a [|b l]] eqn:D.
    - injection H as <-. reflexivity.
    - (* a singleton collapses to its member a = TUnion ts, which would occur strictly inside itself *)
      subst a. exfalso.
      assert (D' : In (TUnion ts) (flatten ts)) by (apply (dedup_incl [] (flatten ts)); rewrite D; left; reflexivity).
      destruct (flatten_In _ _ D') as [[Q _]|[us [Hus Q]]].
      + apply depth_In in Q. rewrite depth_TUnion in Q. lia.
      + apply depth_In in Q. apply depth_In in Hus. rewrite !depth_TUnion in *. lia.
    - injection H as <-. reflexivity. }
  pose proof (dedup_flatten_fix_no_union ts E) as NU.
  unfold normal_members. rewrite NU. rewrite (flatten_no_union _ NU) in E, H. rewrite E in H.
  pose proof (nodup_dedup ts []) as ND. rewrite E in ND. rewrite ND.
  destruct ts as [|a [|b l]]; [exfalso; apply NE; reflexivity| |reflexivity].
  (* one member: union_mk [a] = a, and a = TUnion [a] is impossible *)
  exfalso.
  assert (Q : depth a <= depth_list [a]) by (apply depth_In; left; reflexivity).
  rewrite H in Q at 1. rewrite depth_TUnion in Q. lia.
Qed.

Corollary normal_members_iff ts : normal_members ts = true <-> ts <> [] /\ union_mk ts = TUnion ts.
Proof.
  split.
  - intros H. split; [|apply union_mk_normal_id; exact H].
    unfold normal_members in H. destruct ts; [cbn in H; discriminate H|discriminate].
  - intros [NE H]. apply union_mk_id_normal; assumption.
Qed.

(* ---------- small helpers ---------- *)
Lemma map_id_In {A} (f : A -> A) l : (forall x, In x l -> f x = x) -> map f l = l.
Proof.
  induction l as [|a l IH]; intros H; cbn [map]; [reflexivity|].
  rewrite (H a (or_introl eq_refl)), IH; [reflexivity|]. intros x Hx. apply H. right. exact Hx.
Qed.

Lemma fields_map_id (f : ty -> ty) (fs : list (string * ty)) :
  (forall x, In x fs -> f (snd x) = snd x) -> map (fun fd => (fst fd, f (snd fd))) fs = fs.
Proof.
  intros H. apply map_id_In. intros [s t] Hx. pose proof (H _ Hx) as E. cbn [fst snd] in *. rewrite E. reflexivity.
Qed.

Lemma existsb_false_In {A} (p : A -> bool) l : existsb p l = false -> forall x, In x l -> p x = false.
Proof.
  intros H x Hx. destruct (p x) eqn:E; [|reflexivity].
  rewrite <- H. symmetry. apply existsb_exists. exists x. split; assumption.
Qed.

Lemma forallb_true_In {A} (p : A -> bool) l : forallb p l = true -> forall x, In x l -> p x = true.
Proof. intros H. apply forallb_forall. exact H. Qed.

(* ---------- the sharper predicate implies the checked one ---------- *)
Lemma fires_union_any here into t : fires_union here into t = true -> any_union here t = true.
Proof.
  induction t as [ | c | x IH | | x IH | x IH | x IH | k v0 IHk IHv | k v0 IHk IHv | xs IH | x IH
                 | a1 a2 a3 IH1 IH2 IH3 | xs IH | rq op IHr IHo | s ] using ty_ind';
    cbn [fires_union any_union]; intros H; auto.
  - apply orb_prop in H. destruct H as [H|H]; [rewrite (IHk H)|rewrite (IHv H), orb_true_r]; reflexivity.
  - apply existsb_exists in H. destruct H as [x [Hx H]]. apply existsb_exists. exists x. split; [exact Hx|].
    rewrite Forall_forall in IH. apply IH; assumption.
  - apply orb_prop in H. destruct H as [H|H]; [apply orb_prop in H; destruct H as [H|H]|].
    + rewrite (IH1 H). reflexivity.
    + rewrite (IH2 H), orb_true_r. reflexivity.
    + rewrite (IH3 H), orb_true_r. reflexivity.
  - apply orb_prop in H. destruct H as [H|H]; [rewrite H; reflexivity|].
    apply andb_prop in H. destruct H as [_ H]. apply orb_true_iff. right.
    apply existsb_exists in H. destruct H as [x [Hx H]]. apply existsb_exists. exists x. split; [exact Hx|].
    rewrite Forall_forall in IH. apply IH; assumption.
  - rewrite Forall_forall in IHr, IHo. apply orb_true_iff. apply orb_prop in H. destruct H as [H|H]; [left|right];
      apply existsb_exists in H; destruct H as [x [Hx H]]; apply existsb_exists; exists x; (split; [exact Hx|]); auto.
Qed.

Theorem fires_trigger r t : fires r t = true -> trigger r t = true.
Proof. destruct r; cbn [fires trigger]; try apply fires_union_any; auto. Qed.

(* ---------- the local (one union) facts, with no hypothesis on the members ---------- *)
Section Local.
Variable h : hierarchy.
Variable bt : bases_table.

(* RewriteConfigDict: merged only when all members are dicts with one key type; then the result is a Dict *)
Lemma rcd_union_local ts :
  (here_rcd ts = false -> rcd_union ts = TUnion ts) /\
  (here_rcd ts = true -> exists k v, rcd_union ts = TDict k v).
Proof.
  unfold rcd_union, here_rcd. destruct ts as [|t0 rest]; [split; [reflexivity|discriminate]|].
  destruct (forallb is_tdict (t0 :: rest) && _); split; try discriminate; try reflexivity.
  intros _. eexists. eexists. reflexivity.
Qed.

(* RewriteLargeUnion: collapsed only when there are more members than the maximum; then the result is no Union *)
Lemma rlu_union_local n ts :
  (here_rlu n ts = false -> rlu_union h n ts = TUnion ts) /\
  (here_rlu n ts = true -> is_tunion (rlu_union h n ts) = false).
Proof.
  unfold rlu_union, here_rlu. destruct (Nat.leb (List.length ts) n) eqn:E; split; intros H.
  - reflexivity.
  - apply Nat.leb_le in E. apply Nat.ltb_lt in H. lia.
  - apply Nat.leb_gt in E. apply Nat.ltb_ge in H. lia.
  - unfold rlu_to_tuple. destruct (to_tuple_scan None ts) as [[v|]|]; [reflexivity| |];
    repeat (match goal with |- context [match ?x with _ => _ end] => destruct x end); reflexivity.
Qed.

(* RewriteMostSpecificCommonBase: replaced only when all members are classes; then the result is a class *)
Lemma msb_union_local ts :
  (here_msb ts = false -> msb_union bt ts = TUnion ts) /\
  (msb_union bt ts <> TUnion ts -> here_msb ts = true /\ exists c, msb_union bt ts = TCls c).
Proof.
  unfold msb_union, here_msb. destruct (forallb (fun t => is_tcls t || is_td t) ts); split; intros H;
    try reflexivity; try discriminate; try (exfalso; apply H; reflexivity).
  split; [reflexivity|]. revert H.
  repeat (match goal with |- context [match ?x with _ => _ end] => destruct x end); intros H;
    try (exfalso; apply H; reflexivity). eexists. reflexivity.
Qed.

(* RemoveEmptyContainers: without an empty member next to a non-empty one of its kind, every member is kept *)
Lemma rme_keep_all ts : here_rme ts = false -> filter (keep ts) ts = ts.
Proof.
  unfold here_rme. intros H. pose proof (existsb_false_In _ _ H) as K. clear H.
  assert (G : forall l, (forall x, In x l -> keep ts x = true) -> filter (keep ts) l = l).
  { induction l as [|a l IH]; intros Q; cbn [filter]; [reflexivity|].
    rewrite (Q a (or_introl eq_refl)), IH; [reflexivity|]. intros x Hx. apply Q. right. exact Hx. }
  apply G. intros x Hx. unfold keep. rewrite (K x Hx). reflexivity.
Qed.

(* ---------- main theorem ---------- *)
Notation rw := (rw h bt).

Ltac split_hyps :=
  repeat match goal with
         | H : _ && _ = true |- _ => apply andb_prop in H; destruct H
         | H : _ || _ = false |- _ => apply orb_false_elim in H; destruct H
         end.

Theorem rw_fires_id r t : normal t = true -> fires r t = false -> rw r t = t.
Proof.
  induction t as [ | c | x IH | | x IH | x IH | x IH | k v0 IHk IHv | k v0 IHk IHv | xs IH | x IH
                 | a1 a2 a3 IH1 IH2 IH3 | xs IH | rq op IHr IHo | s ] using ty_ind'; intros N F;
    try (destruct r; reflexivity).
  - destruct r; cbn [Rewrite.rw fires fires_union any_gen_none normal] in *; try reflexivity; rewrite IH; auto.
  - destruct r; cbn [Rewrite.rw fires fires_union any_gen_none normal] in *; try reflexivity; rewrite IH; auto.
  - destruct r; cbn [Rewrite.rw fires fires_union any_gen_none normal] in *; try reflexivity;
      split_hyps; rewrite IHk, IHv; auto.
  - rewrite Forall_forall in IH.
    assert (G : forall p, (fires r (TTuple xs) = false -> existsb p xs = false) ->
                (forall x, In x xs -> p x = false -> fires r x = false) -> r <> RNoOp -> rw r (TTuple xs) = TTuple xs).
    { intros p P1 P2 NR. pose proof (existsb_false_In _ _ (P1 F)) as Q.
      assert (E : map (rw r) xs = xs).
      { apply map_id_In. intros x Hx. apply IH; [exact Hx| |apply P2; auto].
        cbn [normal] in N. apply (forallb_true_In _ _ N x Hx). }
      destruct r; try (exfalso; apply NR; reflexivity); cbn [Rewrite.rw]; rewrite E; reflexivity. }
    destruct r; try reflexivity.
    + apply (G (fires_union here_rme true)); auto; discriminate.
    + apply (G (fires_union here_rcd false)); auto; discriminate.
    + apply (G (fires_union (here_rlu n) false)); auto; discriminate.
    + apply (G any_gen_none); auto; discriminate.
    + apply (G (fires_union here_msb false)); auto; discriminate.
  - destruct r; cbn [Rewrite.rw fires fires_union any_gen_none normal] in *; try reflexivity; rewrite IH; auto.
  - destruct r; try reflexivity.
    4: { cbn [Rewrite.rw fires any_gen_none] in *.
         repeat (match goal with |- context [match ?x with _ => _ end] => destruct x end);
           try reflexivity; discriminate F. }
    all: cbn [Rewrite.rw fires fires_union normal] in *; split_hyps; rewrite IH1, IH2, IH3; auto.
  - (* Union *)
    rewrite Forall_forall in IH. cbn [normal] in N. apply andb_prop in N. destruct N as [NM NA].
    pose proof (forallb_true_In _ _ NA) as NA'.
    destruct r; try reflexivity.
    + (* RemoveEmptyContainers *)
      cbn [fires fires_union] in F. apply orb_false_elim in F. destruct F as [F1 F2]. cbn [andb] in F2.
      pose proof (existsb_false_In _ _ F2) as F2'.
      rewrite rw_rme_union, (rme_keep_all _ F1).
      rewrite (map_id_In (rw RRemoveEmpty) xs) by (intros x Hx; apply IH; [exact Hx|apply NA'; exact Hx|apply (F2' x Hx)]).
      rewrite (union_mk_normal_id _ NM). destruct xs; reflexivity.
    + cbn [fires fires_union] in F. apply orb_false_elim in F. destruct F as [F1 _].
      cbn [Rewrite.rw]. apply rcd_union_local. exact F1.
    + cbn [fires fires_union] in F. apply orb_false_elim in F. destruct F as [F1 _].
      cbn [Rewrite.rw]. apply rlu_union_local. exact F1.
    + cbn [fires any_gen_none] in F. pose proof (existsb_false_In _ _ F) as F'.
      cbn [Rewrite.rw]. rewrite (map_id_In (rw RGenerator) xs) by (intros x Hx; apply IH; [exact Hx|apply NA'; exact Hx|apply (F' x Hx)]).
      apply union_mk_normal_id. exact NM.
    + cbn [fires fires_union] in F. apply orb_false_elim in F. destruct F as [F1 _].
      cbn [Rewrite.rw]. apply msb_union_local. exact F1.
  - rewrite Forall_forall in IHr, IHo. cbn [normal] in N. apply andb_prop in N. destruct N as [Nr No].
    pose proof (forallb_true_In _ _ Nr) as Nr'. pose proof (forallb_true_In _ _ No) as No'.
    assert (G : forall p, (fires r (TTypedDict rq op) = false ->
                           existsb (fun f => p (snd f)) rq = false /\ existsb (fun f => p (snd f)) op = false) ->
                (forall x, p x = false -> fires r x = false) -> r <> RNoOp ->
                rw r (TTypedDict rq op) = TTypedDict rq op).
    { intros p P1 P2 NR. destruct (P1 F) as [Q1 Q2].
      pose proof (existsb_false_In _ _ Q1) as Q1'. pose proof (existsb_false_In _ _ Q2) as Q2'.
      assert (E1 : map (fun f => (fst f, rw r (snd f))) rq = rq).
      { apply fields_map_id. intros x Hx. apply IHr; [exact Hx|apply (Nr' x Hx)|apply P2; apply (Q1' x Hx)]. }
      assert (E2 : map (fun f => (fst f, rw r (snd f))) op = op).
      { apply fields_map_id. intros x Hx. apply IHo; [exact Hx|apply (No' x Hx)|apply P2; apply (Q2' x Hx)]. }
      destruct r; try (exfalso; apply NR; reflexivity); cbn [Rewrite.rw]; rewrite E1, E2; reflexivity. }
    destruct r; try reflexivity.
    + apply (G (fires_union here_rme true)); [cbn [fires fires_union]; apply orb_false_elim|auto|discriminate].
    + apply (G (fires_union here_rcd false)); [cbn [fires fires_union]; apply orb_false_elim|auto|discriminate].
    + apply (G (fires_union (here_rlu n) false)); [cbn [fires fires_union]; apply orb_false_elim|auto|discriminate].
    + apply (G any_gen_none); [cbn [fires any_gen_none]; apply orb_false_elim|auto|discriminate].
    + apply (G (fires_union here_msb false)); [cbn [fires fires_union]; apply orb_false_elim|auto|discriminate].
Qed.

(* the statement with the predicate the correspondence check evaluates *)
Theorem rw_trigger_id r t : normal t = true -> trigger r t = false -> rw r t = t.
Proof.
  intros N T. apply rw_fires_id; [exact N|].
  destruct (fires r t) eqn:F; [|reflexivity]. rewrite (fires_trigger _ _ F) in T. discriminate T.
Qed.

Corollary rw_changed_trigger r t : normal t = true -> rw r t <> t -> fires r t = true /\ trigger r t = true.
Proof.
  intros N C. destruct (fires r t) eqn:F.
  - split; [reflexivity|apply fires_trigger; exact F].
  - exfalso. apply C. apply rw_fires_id; assumption.
Qed.

End Local.

Print Assumptions union_mk_normal_id.
Print Assumptions normal_members_iff.
Print Assumptions fires_trigger.
Print Assumptions rcd_union_local.
Print Assumptions rlu_union_local.
Print Assumptions msb_union_local.
Print Assumptions rw_fires_id.
Print Assumptions rw_trigger_id.
Print Assumptions rw_changed_trigger.

(* ---------- non-vacuity (tests by computation, on RewriteMono's class table ex_h / ex_bt:
   16 A; 17 B(A); 18 M; 19 C(B, M); 20 D(A)) ---------- *)
Local Open Scope N_scope.
Local Notation rwx := (rw ex_h ex_bt).
Local Notation GenNone a := (TGenerator a (TCls 1) (TCls 1)).

(* RemoveEmptyContainers: List[Any] is dropped next to List[int]; kept next to Set[int] / an empty Dict *)
Example ex_rme_trigger :
  let t1 := TUnion [TList TAny; TList (TCls 2)] in
  let t0 := TUnion [TList TAny; TSet (TCls 2)] in
  normal t1 = true /\ trigger RRemoveEmpty t1 = true /\ rwx RRemoveEmpty t1 = TList (TCls 2)
  /\ normal t0 = true /\ trigger RRemoveEmpty t0 = false /\ rwx RRemoveEmpty t0 = t0.
Proof. vm_compute. repeat split. Qed.

(* RewriteConfigDict: two Dict[str, _] are merged; different key types, or a non-dict member, are not *)
Example ex_rcd_trigger :
  let t1 := TUnion [TDict (TCls 3) (TCls 2); TDict (TCls 3) (TCls 17)] in
  let t0 := TUnion [TDict (TCls 3) (TCls 2); TDict (TCls 2) (TCls 17)] in
  let t0' := TUnion [TDict (TCls 3) (TCls 2); TCls 1] in
  normal t1 = true /\ trigger RConfigDict t1 = true /\ rwx RConfigDict t1 = TDict (TCls 3) (TUnion [TCls 2; TCls 17])
  /\ normal t0 = true /\ trigger RConfigDict t0 = false /\ rwx RConfigDict t0 = t0
  /\ normal t0' = true /\ trigger RConfigDict t0' = false /\ rwx RConfigDict t0' = t0'.
Proof. vm_compute. repeat split. Qed.

(* RewriteLargeUnion: three members collapse under a maximum of 2, not under a maximum of 3 *)
Example ex_rlu_trigger :
  let t := TUnion [TCls 19; TCls 17; TCls 20] in
  normal t = true /\ trigger (RLargeUnion 2%nat) t = true /\ rwx (RLargeUnion 2%nat) t = TCls 16
  /\ trigger (RLargeUnion 3%nat) t = false /\ rwx (RLargeUnion 3%nat) t = t.
Proof. vm_compute. repeat split. Qed.

(* RewriteGenerator: Generator[int, None, None] becomes Iterator[int] (also inside a Union);
   Generator[int, str, None] is left alone *)
Example ex_gen_trigger :
  let t1 := TUnion [GenNone (TCls 2); TCls 1] in
  let t0 := TUnion [TGenerator (TCls 2) (TCls 3) (TCls 1); TCls 1] in
  normal t1 = true /\ trigger RGenerator t1 = true /\ rwx RGenerator t1 = TUnion [TIterator (TCls 2); TCls 1]
  /\ normal t0 = true /\ trigger RGenerator t0 = false /\ rwx RGenerator t0 = t0.
Proof. vm_compute. repeat split. Qed.

(* RewriteMostSpecificCommonBase: B | D becomes A; a union with a non-class member is left alone *)
Example ex_msb_trigger :
  let t1 := TUnion [TCls 17; TCls 20] in
  let t0 := TUnion [TCls 17; TList (TCls 20)] in
  normal t1 = true /\ trigger RCommonBase t1 = true /\ rwx RCommonBase t1 = TCls 16
  /\ normal t0 = true /\ trigger RCommonBase t0 = false /\ rwx RCommonBase t0 = t0.
Proof. vm_compute. repeat split. Qed.

(* ... its trigger is necessary, not sufficient: int | str have no common base below object *)
Example ex_msb_trigger_not_sufficient :
  let t := TUnion [TCls 2; TCls 3] in
  normal t = true /\ fires RCommonBase t = true /\ rwx RCommonBase t = t.
Proof. vm_compute. repeat split. Qed.

(* the normal-form hypothesis is not superfluous: on a one-member "Union" (which typing never builds) the generic
   traversal's re-normalisation changes the type although no trigger is present *)
Example ex_normal_needed :
  let t := TUnion [TCls 2] in
  normal t = false /\ trigger RGenerator t = false /\ rwx RGenerator t = TCls 2
  /\ trigger RRemoveEmpty t = false /\ rwx RRemoveEmpty t = TCls 2.
Proof. vm_compute. repeat split. Qed.

(* `trigger` (what the check evaluates) over-approximates `fires`: the three rewriters that override rewrite_Union
   do not descend into Union members, so a trigger below a Union member is present but not acted on *)
Example ex_trigger_coarser_than_fires :
  let t := TUnion [TList (TUnion [TCls 19; TCls 17; TCls 20]); TCls 1] in
  normal t = true /\ trigger (RLargeUnion 2%nat) t = true /\ fires (RLargeUnion 2%nat) t = false
  /\ rwx (RLargeUnion 2%nat) t = t.
Proof. vm_compute. repeat split. Qed.
