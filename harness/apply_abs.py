"""C15: abstraction function  Python `ast`  ->  Gallina `list stmt` of coq/Model/Apply.v  (trusted harness code).

Everything the model treats as opaque becomes `ast.unparse` text.  Annotations become token lists in which
(dotted) names stay visible.  Fails closed: a node kind this file does not know is emitted as `Other "<unparse>"`,
which no model output invents."""
import ast
import io
import tokenize

from harness.common import coq_str, coq_list, coq_opt, coq_bool


def _s(x):
    return coq_str(x)


def _attr_chain(e):
    parts = []
    while isinstance(e, ast.Attribute):
        parts.append(e.attr)
        e = e.value
    if isinstance(e, ast.Name):
        parts.append(e.id)
        return list(reversed(parts))
    return None


def anno_tokens(e):
    """expression -> list of ('N', [names]) | ('T', text)"""
    if isinstance(e, ast.Name):
        return [("N", [e.id])]
    if isinstance(e, ast.Attribute):
        ch = _attr_chain(e)
        if ch is not None:
            return [("N", ch)]
        return [("T", ast.unparse(e))]
    if isinstance(e, ast.Subscript):
        sl = e.slice
        if isinstance(sl, ast.Tuple) and sl.elts:
            inner = _comma(sl.elts)
        else:
            inner = anno_tokens(sl)
        return anno_tokens(e.value) + [("T", "[")] + inner + [("T", "]")]
    if isinstance(e, ast.Tuple):
        if not e.elts:
            return [("T", "()")]
        return _comma(e.elts)
    if isinstance(e, ast.List):
        return [("T", "[")] + _comma(e.elts) + [("T", "]")]
    if isinstance(e, ast.BinOp) and isinstance(e.op, ast.BitOr):
        return anno_tokens(e.left) + [("T", "|")] + anno_tokens(e.right)
    return [("T", ast.unparse(e))]


def _comma(elts):
    out = []
    for i, x in enumerate(elts):
        if i:
            out.append(("T", ","))
        out += anno_tokens(x)
    return out


def coq_anno(toks):
    return coq_list((f"AName {coq_list(_s(n) for n in v)}" if k == "N" else f"ATok {_s(v)}") for k, v in toks)


def coq_oanno(e):
    return coq_opt(coq_anno(anno_tokens(e))) if e is not None else "None"


def params_of(a: ast.arguments):
    """-> list of (name, kind, annotation expr|None, default expr|None)"""
    out = []
    pos = list(a.posonlyargs) + list(a.args)
    defaults = [None] * (len(pos) - len(a.defaults)) + list(a.defaults)
    for i, p in enumerate(pos):
        kind = "PosOnly" if i < len(a.posonlyargs) else "PosOrKw"
        out.append((p.arg, kind, p.annotation, defaults[i]))
    if a.vararg:
        out.append((a.vararg.arg, "VarPos", a.vararg.annotation, None))
    for p, d in zip(a.kwonlyargs, a.kw_defaults):
        out.append((p.arg, "KwOnly", p.annotation, d))
    if a.kwarg:
        out.append((a.kwarg.arg, "VarKw", a.kwarg.annotation, None))
    return out


def coq_param(p):
    name, kind, an, d = p
    dflt = coq_opt(_s(ast.unparse(d))) if d is not None else "None"
    return f"mkParam {_s(name)} {kind} {coq_oanno(an)} {dflt}"


def coq_item(mod, obj, alias):
    return (f"mkItem {_s(mod)} {coq_opt(_s(obj)) if obj is not None else 'None'} "
            f"{coq_opt(_s(alias)) if alias is not None else 'None'}")


def stmts(body):
    out = []
    for st in body:
        out += stmt(st)
    return out


def _block(head, body):
    return f"Block {_s(head)} {coq_list(stmts(body))}"


def stmt(st):
    """one ast statement -> list of Gallina stmt terms (imports are split per imported name)"""
    if isinstance(st, (ast.FunctionDef, ast.AsyncFunctionDef)):
        h = (f"mkDef {_s(st.name)} {coq_bool(isinstance(st, ast.AsyncFunctionDef))} "
             f"{coq_list(_s(ast.unparse(d)) for d in st.decorator_list)} "
             f"{coq_list(coq_param(p) for p in params_of(st.args))} {coq_oanno(st.returns)}")
        return [f"Def ({h}) {coq_list(stmts(st.body))}"]
    if isinstance(st, ast.ClassDef):
        bases = _comma(st.bases)
        for kw in st.keywords:
            if bases:
                bases.append(("T", ","))
            bases.append(("T", ast.unparse(kw)))
        return [f"Class {_s(st.name)} {coq_list(_s(ast.unparse(d)) for d in st.decorator_list)} "
                f"{coq_anno(bases)} {coq_list(stmts(st.body))}"]
    if isinstance(st, ast.Import):
        return [f"Import ({coq_item(al.name, None, al.asname)})" for al in st.names]
    if isinstance(st, ast.ImportFrom):
        mod = "." * (st.level or 0) + (st.module or "")
        return [f"Import ({coq_item(mod, al.name, al.asname)})" for al in st.names]
    if isinstance(st, ast.Expr) and isinstance(st.value, ast.Constant) and isinstance(st.value.value, (str, bytes)):
        return [f"StrExpr {_s(ast.unparse(st))}"]
    if isinstance(st, ast.Assign):
        names = [t.id for t in st.targets if isinstance(t, ast.Name)]
        return [f"Assign {coq_list(_s(n) for n in names)} {_s(ast.unparse(st))}"]
    if isinstance(st, ast.AnnAssign):
        v = coq_opt(_s(ast.unparse(st.value))) if st.value is not None else "None"
        return [f"AnnAssign {_s(ast.unparse(st.target))} {coq_anno(anno_tokens(st.annotation))} {v}"]
    if isinstance(st, ast.If):
        out = [_block("if " + ast.unparse(st.test), st.body)]
        if st.orelse:
            out.append(_block("else", st.orelse))
        return out
    if isinstance(st, (ast.For, ast.AsyncFor)):
        out = [_block(f"for {ast.unparse(st.target)} in {ast.unparse(st.iter)}", st.body)]
        if st.orelse:
            out.append(_block("else", st.orelse))
        return out
    if isinstance(st, ast.While):
        out = [_block("while " + ast.unparse(st.test), st.body)]
        if st.orelse:
            out.append(_block("else", st.orelse))
        return out
    if isinstance(st, (ast.With, ast.AsyncWith)):
        return [_block("with " + ", ".join(ast.unparse(i) for i in st.items), st.body)]
    if isinstance(st, ast.Try):
        out = [_block("try", st.body)]
        for h in st.handlers:
            out.append(_block("except " + (ast.unparse(h.type) if h.type else "") + (f" as {h.name}" if h.name else ""),
                              h.body))
        if st.orelse:
            out.append(_block("else", st.orelse))
        if st.finalbody:
            out.append(_block("finally", st.finalbody))
        return out
    return [f"Other {_s(ast.unparse(st))}"]


def module_term(text: str) -> str:
    """source text -> Gallina `list stmt` (raises SyntaxError if the text is not Python)"""
    return coq_list(stmts(ast.parse(text).body))


def comments(text: str):
    try:
        return [t.string for t in tokenize.generate_tokens(io.StringIO(text).readline) if t.type == tokenize.COMMENT]
    except (tokenize.TokenError, IndentationError, SyntaxError):
        return None
