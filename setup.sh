#!/bin/bash
# Build the framework from files on disk only (offline). Full .vo build, never -vos/-vok.
set -e
cd "$(dirname "$0")"
export PYTHONPATH="${VERIF_REPO:-/repo}:$(pwd)" PYTHONHASHSEED=0 PYTHONDONTWRITEBYTECODE=1
/venv/bin/python -c "from harness import common; import sys; ok,m=common.regenerate_all(); print(m); sys.exit(0 if ok else 1)"
/venv/bin/python -c "from harness import common; common.write_coqproject()"
cd coq
coq_makefile -f _CoqProject -o Makefile
timeout 3000 make -j16
