(* Proofs/StubSetRewriteEx.v — C14: non-vacuity examples for Proofs/StubSetRewrite.v, and the refutations that
   show which premises the rewriter-chain statement needs:
     - the literal Props/C14.C14_full (premise mro_consistentb alone) is FALSE: (a) a class table in which the MRO of
       a class omits the class itself; (b) non-normal input types (Union[int, int, str] as a stored object);
       neither can occur in Python, both are excluded by premises (mro_selfb, forallb normal);
     - plain equivb is not preserved by the rewriters on types with TypedDict-bearing union members (equivb ignores
       the multiplicity of identity-hashed members), which is why the invariant is stated outside kf_td_under_union. *)
From MT Require Import Types StubSet Infer Rewrite RewriteTrigger Hier TypesFacts MergePermBase MergePermEquiv
  StubSetRewriteBase StubSetRewriteHier StubSetRewriteUnion StubSetRewrite.
From Coq Require Import Sorting.Permutation.
Open Scope list_scope.
Open Scope N_scope.

(* a class table with multiple inheritance: 16 = X(A,B), 17 = Y(A,B), 18 = Z(X), 19 = W(B), 30 = A, 31 = B *)
Definition hx : hierarchy :=
  [(16, [16; 30; 31; 0]); (17, [17; 30; 31; 0]); (18, [18; 16; 30; 31; 0]); (19, [19; 31; 0]); (30, [30; 0]); (31, [31; 0])].
Definition btx : bases_table := [(16, [30; 31]); (17, [30; 31]); (18, [16]); (19, [31]); (30, [0]); (31, [0])].

Example ex_hx_premises : rw_mro_consistentb hx = true /\ mro_selfb hx = true.
Proof. vm_compute. split; reflexivity. Qed.

Definition ti := TCls cInt.
Definition ts_ := TCls cStr.
Definition tn := TCls cNone.

(* RewriteConfigDict + the generic Union rebuild: the two annotations differ as terms and are equal up to union order *)
Example ex_chain_rcd :
  let chain := [RRemoveEmpty; RConfigDict; RLargeUnion 6; RGenerator] in
  let ts  := [TDict ts_ (TUnion [TCls 16; TCls 19]); TDict ts_ (TList TAny); TDict ts_ (TList (TCls 17));
              TDict ts_ (TTuple [ti; ti]); TDict ts_ (TCls 18)] in
  let ts' := [TDict ts_ (TCls 18); TDict ts_ (TTuple [ti; ti]); TDict ts_ (TList (TCls 17)); TDict ts_ (TList TAny);
              TDict ts_ (TUnion [TCls 19; TCls 16])] in
  forallb normal ts = true
  /\ option_map kf_td_under_union (shrink_top 3 ts) = Some false
  /\ option_map (rw_chain hx btx chain) (shrink_top 3 ts)
     = Some (TDict ts_ (TUnion [TCls 16; TCls 19; TList TAny; TList (TCls 17); TTuple [ti; ti]; TCls 18]))
  /\ option_map (rw_chain hx btx chain) (shrink_top 3 ts')
     = Some (TDict ts_ (TUnion [TCls 18; TTuple [ti; ti]; TList (TCls 17); TList TAny; TCls 19; TCls 16]))
  /\ opt_equivb (option_map (rw_chain hx btx chain) (shrink_top 3 ts))
                (option_map (rw_chain hx btx chain) (shrink_top 3 ts')) = true.
Proof. vm_compute. repeat split; reflexivity. Qed.

(* RemoveEmptyContainers + RewriteLargeUnion, class case with multiple inheritance: whichever member comes first,
   the first common non-object ancestor is B (31) *)
Example ex_chain_rlu_class :
  let chain := [RRemoveEmpty; RConfigDict; RLargeUnion 3; RGenerator] in
  let ts  := [TList (TCls 16); TList (TCls 17); TList TAny; TList (TCls 19); TList (TCls 18)] in
  let ts' := [TList (TCls 19); TList TAny; TList (TCls 18); TList (TCls 17); TList (TCls 16)] in
  shrink_top 3 ts = Some (TList (TUnion [TCls 16; TCls 17; TCls 19; TCls 18]))
  /\ shrink_top 3 ts' = Some (TList (TUnion [TCls 19; TCls 18; TCls 17; TCls 16]))
  /\ option_map (rw_chain hx btx chain) (shrink_top 3 ts) = Some (TList (TCls 31))
  /\ option_map (rw_chain hx btx chain) (shrink_top 3 ts') = Some (TList (TCls 31)).
Proof. vm_compute. repeat split; reflexivity. Qed.

(* RewriteLargeUnion, tuple case, and RewriteMostSpecificCommonBase *)
Example ex_chain_rlu_tuple_msb :
  let chain := [RRemoveEmpty; RConfigDict; RLargeUnion 3; RGenerator] in
  let ts  := [TTuple [ti; ti]; TTuple [ti]; TTuple []; TTuple [ti; ti; ti]] in
  let ts' := [TTuple []; TTuple [ti; ti; ti]; TTuple [ti]; TTuple [ti; ti]] in
  option_map (rw_chain hx btx chain) (shrink_top 3 ts) = Some (TTupleVar ti)
  /\ option_map (rw_chain hx btx chain) (shrink_top 3 ts') = Some (TTupleVar ti)
  /\ option_map (rw_chain hx btx [RCommonBase]) (shrink_top 3 [TCls 16; TCls 18]) = Some (TCls 16)
  /\ option_map (rw_chain hx btx [RCommonBase]) (shrink_top 3 [TCls 18; TCls 16]) = Some (TCls 16).
Proof. vm_compute. repeat split; reflexivity. Qed.

(* the per-rewriter theorem applied: hypotheses satisfiable by a non-trivial pair *)
Example ex_rw_equiv_invariant :
  let a := TList (TUnion [TCls 16; TCls 17; TCls 19; TCls 18]) in
  let b := TList (TUnion [TCls 19; TCls 18; TCls 17; TCls 16]) in
  normal a = true /\ normal b = true /\ kf_td_under_union a = false /\ equivb a b = true /\ a <> b
  /\ equivb (rw hx btx (RLargeUnion 3) a) (rw hx btx (RLargeUnion 3) b) = true
  /\ rw hx btx (RLargeUnion 3) a = TList (TCls 31).
Proof. vm_compute. repeat split; try reflexivity. discriminate. Qed.

(* ================= which premises are needed ================= *)
(* the statement of Props/C14.C14_rw_stmt, for the consistency test of this development *)
Definition C14_rw_stmt' (H : hierarchy -> bool) : Prop :=
  forall k h bt rs ts ts' t t', H h = true -> Forall wf_ty ts -> Permutation ts ts' ->
    shrink_top k ts = Some t -> shrink_top k ts' = Some t' ->
    equivb (rw_chain h bt rs t) (rw_chain h bt rs t') = true.

(* (a) class 16's MRO omits 16: consistent (and wf_hier), yet the answer depends on the first member *)
Definition h_noself : hierarchy := [(16, [30; 0]); (17, [17; 16; 30; 0]); (30, [30; 0])].

Example ex_mro_self_needed :
  rw_mro_consistentb h_noself = true /\ wf_hier h_noself = true /\ mro_selfb h_noself = false
  /\ rw h_noself [] (RLargeUnion 1) (TUnion [TCls 16; TCls 17]) = TCls 30
  /\ rw h_noself [] (RLargeUnion 1) (TUnion [TCls 17; TCls 16]) = TCls 16.
Proof. vm_compute. repeat split; reflexivity. Qed.

Theorem C14_rw_stmt_consistent_only_refuted : ~ C14_rw_stmt' rw_mro_consistentb.
Proof.
  intros H.
  specialize (H 3%nat h_noself [] [RLargeUnion 1] [TCls 16; TCls 17] [TCls 17; TCls 16]
                (TUnion [TCls 16; TCls 17]) (TUnion [TCls 17; TCls 16]) eq_refl).
  assert (E : false = true); [|discriminate E].
  apply H.
  - repeat constructor.
  - apply perm_swap.
  - vm_compute. reflexivity.
  - vm_compute. reflexivity.
Qed.

(* (b) non-normal inputs: Union[int, int, str] == Union[str, int], the merge returns the FIRST of the two *)
Example ex_normal_inputs_needed :
  let a := TUnion [ti; ti; ts_] in let b := TUnion [ts_; ti] in
  normal a = false /\ shrink_top 3 [a; b] = Some a /\ shrink_top 3 [b; a] = Some b
  /\ rw_chain hx btx [RLargeUnion 2] a = TAny /\ rw_chain hx btx [RLargeUnion 2] b = b.
Proof. vm_compute. repeat split; reflexivity. Qed.

Theorem C14_rw_stmt_nonnormal_refuted : ~ C14_rw_stmt' (fun h => rw_mro_consistentb h && mro_selfb h).
Proof.
  intros H.
  specialize (H 3%nat hx btx [RLargeUnion 2] [TUnion [ti; ti; ts_]; TUnion [ts_; ti]] [TUnion [ts_; ti]; TUnion [ti; ti; ts_]]
                (TUnion [ti; ti; ts_]) (TUnion [ts_; ti]) eq_refl).
  assert (E : false = true); [|discriminate E].
  apply H.
  - repeat constructor.
  - apply perm_swap.
  - vm_compute. reflexivity.
  - vm_compute. reflexivity.
Qed.

(* (c) inside kf_td_under_union, equivb alone is not an invariant of the rewriters: two well-formed, normal,
   equivb-equal types (one lists an identity-hashed member twice, with its fields in two orders) are rewritten to
   types that are not equivb-equal.  (Two such types are never the merges of two permutations of the same inputs:
   a permutation keeps multiplicities.) *)
Example ex_equivb_alone_not_invariant :
  let tda  := TDefaultDict ts_ (TTypedDict [("a"%string, ti); ("b"%string, ts_)] []) in
  let tda' := TDefaultDict ts_ (TTypedDict [("b"%string, ts_); ("a"%string, ti)] []) in
  let a := TUnion [tda; tda'; TDefaultDict TAny TAny] in
  let b := TUnion [tda; TDefaultDict TAny TAny] in
  equivb a b = true /\ normal a = true /\ normal b = true
  /\ kf_td_under_union a = true
  /\ rw [] [] RRemoveEmpty a = TUnion [tda; tda'] /\ rw [] [] RRemoveEmpty b = tda
  /\ equivb (rw [] [] RRemoveEmpty a) (rw [] [] RRemoveEmpty b) = false
  /\ rw [] [] (RLargeUnion 2) a = TAny /\ rw [] [] (RLargeUnion 2) b = b.
Proof. vm_compute. repeat split; reflexivity. Qed.

Print Assumptions C14_rw_stmt_consistent_only_refuted.
Print Assumptions C14_rw_stmt_nonnormal_refuted.

(* ================= inside kf_td_under_union: TESTED, not proved ================= *)
(* Every permutation of 15 input lists whose merge has TypedDict-bearing union members (TypedDicts below
   DefaultDict/Type/Iterator, which RewriteAnonymousTypedDictToDict does not reach), through 10 rewriter chains, for
   max_typed_dict_size 1 and 3: the rewritten merge is always equivb-equal to that of the reference order.
   This is a finite test by computation (evidence that the restriction to the outside of the class is a limit of the
   proof, not of the code), not a theorem about all inputs. *)
Fixpoint inserts {A} (x : A) (l : list A) : list (list A) :=
  match l with [] => [[x]] | y :: r => (x :: y :: r) :: map (cons y) (inserts x r) end.
Fixpoint perms {A} (l : list A) : list (list A) :=
  match l with [] => [[]] | x :: r => flat_map (inserts x) (perms r) end.

Definition tda  := TTypedDict [("a"%string, ti); ("b"%string, ts_)] [].
Definition tda' := TTypedDict [("b"%string, ts_); ("a"%string, ti)] [].
Definition tdb  := TTypedDict [("a"%string, TUnion [ti; ts_])] [("c"%string, TList TAny)].
Definition DD (t : ty) : ty := TDefaultDict ts_ t.

Definition test_chains : list (list rewriter) :=
  [[RRemoveEmpty]; [RConfigDict]; [RLargeUnion 2]; [RLargeUnion 3]; [RGenerator]; [RCommonBase];
   [RRemoveEmpty; RConfigDict; RLargeUnion 3; RGenerator];
   [RRemoveEmpty; RConfigDict; RLargeUnion 2; RGenerator; RCommonBase];
   [RGenerator; RRemoveEmpty; RLargeUnion 2]; [RConfigDict; RRemoveEmpty; RCommonBase; RLargeUnion 1]].

Definition test_inputs : list (list ty) :=
  [ [DD tda; DD tda'; TList TAny; ti];
    [DD tda; DD tda; TList TAny; TList ti];
    [DD tda; DD tdb; ti];
    [DD tda; DD tda; TCls 16];
    [TDict ts_ (DD tda); TDict ts_ (DD tdb); TDict ts_ (TList TAny); TDict ts_ (TList ti)];
    [TDict (DD tda) ti; TDict (DD tda) ts_];
    [TTuple [DD tda; DD tda]; TTuple [DD tda']; TTuple []];
    [TTuple [DD tda; ti]; TTuple [DD tda'; ti]; TList (DD tda); TList TAny];
    [TGenerator (DD tda) tn tn; TGenerator (DD tda') tn tn; TList TAny; TList (TList (DD tda))];
    [TUnion [DD tda; ti]; TUnion [ti; DD tda']; ts_; TList (TUnion [DD tda; TList TAny; TList ti])];
    [TList (TUnion [DD tda; DD tdb; ti; ts_]); TList (TUnion [ts_; ti; DD tdb; DD tda]); TSet TAny; TSet (DD tda)];
    [TIterator tda; TIterator tda'; TIterator tda; tn];
    [TType tda; TCls 16; TCls 18; DD tda] ].

Definition perm_failures (k : nat) (rs : list rewriter) (ts : list ty) : nat :=
  let r0 := option_map (rw_chain hx btx rs) (shrink_top k ts) in
  List.length (filter (fun p => negb (opt_equivb r0 (option_map (rw_chain hx btx rs) (shrink_top k p)))) (perms ts)).

Example ex_in_class_perms_tested :
  forallb (fun ts => match shrink_top 3 ts with Some t => kf_td_under_union t | None => false end) test_inputs = true
  /\ forallb (fun rs => forallb (fun ts => Nat.eqb (perm_failures 1 rs ts + perm_failures 3 rs ts) 0) test_inputs)
             test_chains = true.
Proof. vm_compute. split; reflexivity. Qed.
