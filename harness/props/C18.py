"""C18 — sampling thins traces without distorting them."""
import math
import subprocess

from harness import common, tracer_cases

COQ_TARGETS = ["Check/TracerCases.vo"]
TRUSTED_BASE = [
    "random.randrange(N) is uniform on 0..N-1 (assumed; the draw stream is an input of the model, recorded from a seeded "
    "stand-in for random.randrange and attached to the call event that consumed it)",
    "CPython's profile-event discipline (wf_history), validated on every recorded stream",
    "harness/extract_tracer.py, the recorder and the program generator",
]
ASSUMPTIONS = ["'about one call in N': the deterministic theorems (logged iff the first call event drew 0) composed with "
               "uniformity of randrange; the traced fraction over many plain calls is additionally tested against binomial bounds"]
PARTIAL = ["the binomial-bounds check is a statistical test, not a theorem"]

FRACTION_SRC = r'''
import random, sys
from monkeytype.tracing import CallTracer, CallTraceLogger
class L(CallTraceLogger):
    def __init__(s): s.n = 0
    def log(s, t): s.n += 1
def f(a): return a
def run(rate, n, seed):
    random.seed(seed)
    l = L(); tr = CallTracer(l, 0, lambda c: c is f.__code__, rate)
    sys.setprofile(tr)
    try:
        for i in range(n): f(i)
    finally:
        sys.setprofile(None)
    return l.n, len(tr.traces)
# a WIDE program: many functions, each called only a few times (the rate must not depend on how often a function was seen)
ns = {}
exec("\n".join(f"def w{i}(a): return a" for i in range(300)), ns)
wide = [ns[f"w{i}"] for i in range(300)]
codes = {f.__code__ for f in wide}
def run_wide(rate, reps, seed):
    random.seed(seed)
    l = L(); tr = CallTracer(l, 0, lambda c: c in codes, rate)
    sys.setprofile(tr)
    try:
        for _ in range(reps):
            for f in wide: f(1)
    finally:
        sys.setprofile(None)
    return l.n, len(tr.traces)
import json
out = {str(r): run(r, 20000, 7 + (r or 0)) for r in (None, 1, 2, 3, 10, 100)}
out.update({"wide:" + str(r): run_wide(r, 4, 3 + (r or 0)) for r in (None, 2, 4, 10)})
print(json.dumps(out))
'''


NESTED_SRC = r'''
import random, sys, json
from monkeytype.tracing import CallTraceLogger, trace_calls
class L(CallTraceLogger):
    def __init__(s): s.names = []
    def log(s, t): s.names.append(t.func.__name__)
def inner_f(a): return a
def outer_f(a): return a
def run(outer_rate, inner_rate, same_logger, n, seed):
    random.seed(seed)
    lo = L(); li = lo if same_logger else L()
    flt = lambda c: c in (inner_f.__code__, outer_f.__code__)
    with trace_calls(lo, 0, flt, outer_rate):
        for i in range(n): outer_f(i)
        with trace_calls(li, 0, flt, inner_rate):
            for i in range(n): inner_f(i)
        for i in range(n): outer_f(i)
    return {"inner": (lo.names + ([] if same_logger else li.names)).count("inner_f"), "outer": lo.names.count("outer_f")}
out = []
for (o, i) in ((100, None), (None, 10), (10, 1), (None, None), (2, 2), (1, 100)):
    for same in (True, False):
        r = run(o, i, same, 4000, 11)
        r.update({"outer_rate": o, "inner_rate": i, "same_logger": same, "n": 4000})
        out.append(r)
print(json.dumps(out))
'''


CONFIG_SRC = r'''
import random, json
import monkeytype
from monkeytype.config import DefaultConfig
from monkeytype.tracing import CallTraceLogger
class L(CallTraceLogger):
    def __init__(s): s.n = 0
    def log(s, t): s.n += 1
def f(a): return a
class C(DefaultConfig):
    rate = None
    def __init__(s): s.logs = []
    def trace_logger(s):
        l = L(); s.logs.append(l); return l
    def code_filter(s): return lambda c: c is f.__code__
    def sample_rate(s): return s.rate
cfg = C()
out = []
random.seed(5)
for rate in (None, 50, None, 2, 1, 100, None, 3):
    cfg.rate = rate
    with monkeytype.trace(cfg):
        for i in range(4000): f(i)
    out.append({"rate": rate, "n": 4000, "logged": cfg.logs[-1].n})
print(json.dumps(out))
'''


def config_history_test(ctx):
    """`monkeytype.trace(config)` with ONE long-lived configuration object whose sample_rate() answer changes between
    blocks: every block samples at the rate in force when it is opened"""
    import json
    p = subprocess.run([common.PY, "-c", CONFIG_SRC], capture_output=True, text=True, env=common.sub_env(), timeout=300)
    if p.returncode != 0:
        return [], [{"what": "monkeytype.trace(config) over a history of sample rates failed: " + p.stderr[-400:]}]
    rows = json.loads(p.stdout[p.stdout.index("["):])
    bad = []
    for i, r in enumerate(rows):
        pexp = 1.0 if r["rate"] in (None, 1) else 1.0 / r["rate"]
        sd = math.sqrt(r["n"] * pexp * (1 - pexp))
        lo, hi = r["n"] * pexp - 6 * sd - 1e-9, r["n"] * pexp + 6 * sd + 1e-9
        r["bounds"] = [round(lo, 1), round(hi, 1)]
        if not (lo <= r["logged"] <= hi):
            bad.append({"what": f"monkeytype.trace(config), block {i} of one configuration object whose sample_rate() answered "
                                f"{[x['rate'] for x in rows[:i + 1]]} so far: {r['logged']} of {r['n']} calls traced at rate "
                                f"{r['rate']}, expected within [{lo:.0f}, {hi:.0f}]", **r})
    return rows, bad


def nested_test(ctx):
    """a tracing block opened inside another one (same or different logger) samples at ITS OWN rate, the enclosing block at
    its own again afterwards"""
    import json
    p = subprocess.run([common.PY, "-c", NESTED_SRC], capture_output=True, text=True, env=common.sub_env(), timeout=300)
    rows = json.loads(p.stdout[p.stdout.index("["):])
    bad = []

    def bounds(n, rate):
        pexp = 1.0 if rate in (None, 1) else 1.0 / rate
        sd = math.sqrt(n * pexp * (1 - pexp))
        return n * pexp - 6 * sd - 1e-9, n * pexp + 6 * sd + 1e-9
    for r in rows:
        lo, hi = bounds(r["n"], r["inner_rate"])
        lo2, hi2 = bounds(2 * r["n"], r["outer_rate"])
        r["inner_bounds"], r["outer_bounds"] = [round(lo, 1), round(hi, 1)], [round(lo2, 1), round(hi2, 1)]
        if not (lo <= r["inner"] <= hi):
            bad.append({"what": f"nested tracing block with sample_rate={r['inner_rate']} inside a block with rate "
                                f"{r['outer_rate']} ({'same' if r['same_logger'] else 'own'} logger): {r['inner']} of {r['n']} "
                                f"calls traced, expected within [{lo:.0f}, {hi:.0f}]", **r})
        if not (lo2 <= r["outer"] <= hi2):
            bad.append({"what": f"enclosing tracing block with sample_rate={r['outer_rate']} around a nested block with rate "
                                f"{r['inner_rate']}: {r['outer']} of {2 * r['n']} calls traced, expected within [{lo2:.0f}, {hi2:.0f}]", **r})
    return rows, bad


def fraction_test(ctx):
    p = subprocess.run([common.PY, "-c", FRACTION_SRC], capture_output=True, text=True, env=common.sub_env(), timeout=300)
    import json
    out = json.loads(p.stdout[p.stdout.index("{"):])
    res, bad = {}, []
    for rate, (logged, residue) in out.items():
        n = 20000
        if rate.startswith("wide:"):
            n = 1200            # 300 functions x 4 calls
        r = None if rate.split(":")[-1] == "None" else int(rate.split(":")[-1])
        pexp = 1.0 if r in (None, 1) else 1.0 / r
        sd = math.sqrt(n * pexp * (1 - pexp))
        lo, hi = n * pexp - 6 * sd - 1e-9, n * pexp + 6 * sd + 1e-9
        res[rate] = {"calls": n, "logged": logged, "expected": n * pexp, "six_sigma": [round(lo, 1), round(hi, 1)], "residue": residue}
        if not (lo <= logged <= hi) or residue != 0:
            bad.append({"what": f"sample_rate={rate}: {logged} of {n} plain calls ({'300 functions called 4 times each' if rate.startswith('wide:') else 'one function'}) traced (expected {n * pexp:.0f} +- 6 sigma = "
                                f"[{lo:.0f}, {hi:.0f}]), residue {residue}", "rate": rate, "logged": logged})
    return res, bad


def what_of(code, c):
    s = c["stats"]
    if code == 6:
        return (f"generator first skipped by sampling, then sampled at a resumption: trace starts mid-life "
                f"(program {c['prog']}, rate={s['rate']})")
    if code == 5:
        return f"exception thrown into a suspended generator (C02 finding) met under sampling (program {c['prog']})"
    return (f"under sampling rate={s['rate']} the logged traces / residue differ from the per-call decision "
            f"(logged iff first call event drew 0, then exactly the unsampled trace) in program {c['prog']}")


def run(ctx):
    n = 640 if ctx.tier == "quick" else 6000
    cases = tracer_cases.collect(ctx, "c18", n, salt=18)
    bad = tracer_cases.evaluate(ctx, "c18", cases)
    failures, mismatches = tracer_cases.split_results(cases, bad, "C18", what_of)
    frac, fbad = fraction_test(ctx)
    failures += fbad
    nested, nbad = nested_test(ctx)
    failures += nbad
    cfgh, cbad = config_history_test(ctx)
    failures += cbad
    nontrivial = len({common.digest(c["term"]) for c in cases if c["stats"]["rate"] not in (None, 1) and c["stats"]["frames"] >= 5})
    d = tracer_cases.summarise(cases)
    return {
        "evaluations": len(cases) + len(frac) + len(nested) + len(cfgh), "distinct_nontrivial": nontrivial,
        "rule": "C02's generated programs (generators rebinding their parameters between yields, interleaved, closed, thrown "
                "into) replayed with sample rates {None,1,2,3,10,100} and a seeded stand-in for random.randrange whose "
                "draws are handed to the model; non-trivial = real sampling (rate > 1) and >= 5 frames; plus the traced "
                "fraction over 20000 plain calls per rate against 6-sigma binomial bounds, and nested tracing blocks "
                "(same / own logger) with different rates, each checked against its own rate; monkeytype.trace(config) "
                "over a history of rates answered by one configuration object",
        "samples": [{"program": c["prog"], "stats": c["stats"]} for c in cases[:3]],
        "distribution": d, "extra": {"traced_fraction": frac, "nested_blocks": nested, "config_history": cfgh},
        "failures": failures, "mismatches": mismatches,
        "relation": "rev (logged (run rate H)) = real logger.log calls /\\ keys (live (run rate H)) = CallTracer.traces",
    }


def replay(ctx, payload):
    print(payload.get("what"))
    print(payload.get("term", "")[:4000])
    return 0


CLAIM = {
    "text": "Coq theorems about the tracer model with the RNG draw as an input of every call event: rate_unset_traces_all and "
            "rate_one_traces_all (no sampling / rate 1 = the unsampled run, state and log), unsampled_no_trace_no_residue (for "
            "ANY history), sampled_faithful (per call, for every well-formed history outside the known finding class: logged iff "
            "the FIRST call event drew 0, and then exactly the trace the unsampled description prescribes; residue likewise); the "
            "finding class kf_resume_sampled_after_skip is refuted in Refuted/C18.v. Tie: recorded event streams of generated "
            "programs with seeded draws, verdicts evaluated in Coq; binomial test of the traced fraction.",
    "note": "Partial: uniformity of random.randrange is assumed; the fraction check is a statistical test. Trusted: Coq kernel "
            "+ vm_compute, recorder/program generator, extract_tracer.py.",
    "technique": "Coq proof (per-frame projection of the tracer state machine, draws as inputs) + vm_compute differential "
                 "correspondence on recorded event streams",
    "ref": "4/C18",
}
