"""Fail-closed `ast` extractor for the control-flow skeleton of monkeytype/tracing.py (CallTracer.handle_call,
handle_return, __call__, trace_calls) and monkeytype/db/base.py (CallTraceStoreLogger).  Writes
coq/Gen/TracerConstants.v; Model/Tracer.v and the C02/C03/C18 theorems are stated over these constants, so a
source change reaches the proofs.  Any shape that is not recognised aborts the extraction (nothing written).

Every function is first brought into the normal form of harness/ast_canon.py (names of locals, annotations,
early returns vs. nested ifs, De Morgan, module constants, private helpers, single-use temporaries ...: see there
for the rewrites and their side conditions), so that a behaviour-preserving refactoring of tracing.py yields the
same constants; the matchers below are exact matches against that normal form and nothing else is accepted."""
import ast
import os
import re

from harness import ast_canon, common
from harness.extract_constants import ExtractError, _parse, _find_class, _find_func, _find_assign, _cs

# Private helpers that are steps of the skeleton themselves (kept as calls; every other private helper of the module
# is inlined by the canonicaliser before matching).
KEEP_CALLS = {"_get_func"}


def _src(node):
    return ast.unparse(node)


def _opcode_table(tree):
    """X_OPCODE = opcode.opmap["NAME"] | opcode.opmap.get("NAME")  ->  {X_OPCODE: NAME}"""
    ops = {}
    for node in tree.body:
        if isinstance(node, ast.Assign) and len(node.targets) == 1 and isinstance(node.targets[0], ast.Name) \
                and node.targets[0].id.endswith("_OPCODE"):
            v = node.value
            nm = None
            if isinstance(v, ast.Subscript) and isinstance(v.slice, ast.Constant) and _src(v.value) == "opcode.opmap":
                nm = v.slice.value
            elif isinstance(v, ast.Call) and _src(v.func) == "opcode.opmap.get" and len(v.args) == 1 \
                    and isinstance(v.args[0], ast.Constant):
                nm = v.args[0].value
            if not isinstance(nm, str):
                raise ExtractError(f"opcode constant {node.targets[0].id}: unexpected shape")
            ops[node.targets[0].id] = nm
    return ops


class Canon:
    """The functions of one module in the normal form of harness/ast_canon.py (computed on demand)."""

    def __init__(self, tree, universe):
        self.tree = tree
        self.mod = ast_canon.ModuleInfo(tree, universe)

    def func(self, name, cls=None):
        fn = _find_func(self.tree if cls is None else None, name, cls)
        try:
            return ast_canon.canonical_function(self.mod, fn, cls, KEEP_CALLS)      # -> (FunctionDef, Ctx)
        except Exception as e:      # the canonicaliser is total on valid Python; anything else fails closed
            raise ExtractError(f"canonicaliser failed on {name}: {type(e).__name__}: {e}")


class Env:
    """Strict template matching modulo the names of locals.  A template is Python source in which identifiers
    `L_<x>` stand for locals of the normal form (`_v<k>`); a placeholder is bound by the first template that lists
    it in `bind`, to a local no other placeholder is bound to, and has to be that same local ever after."""

    def __init__(self):
        self.b = {}

    def m(self, node, template, bind=()):
        want = ast.unparse(ast.parse(template, mode="eval" if isinstance(node, ast.expr) else "exec"))
        rx, new = "", []
        for k, part in enumerate(re.split(r"\bL_(\w+)\b", want)):
            if k % 2 == 0:
                rx += re.escape(part)
            elif part in self.b:
                rx += re.escape(self.b[part])
            elif part in new:
                rx += f"(?P=L_{part})"
            elif part in bind:
                rx += f"(?P<L_{part}>_v\\d+)"
                new.append(part)
            else:
                return False
        mo = re.fullmatch(rx, ast.unparse(node))
        if mo is None:
            return False
        got = [mo.group("L_" + n) for n in new]
        if len(set(got)) != len(got) or set(got) & set(self.b.values()):
            return False
        self.b.update(zip(new, got))
        return True


def _ops_of_test(test, ops, env):
    """`L_op == X`  or  `L_op in (X, Y)`  ->  [names]"""
    if not (isinstance(test, ast.Compare) and env.m(test.left, "L_op") and len(test.ops) == 1):
        raise ExtractError("opcode test: " + _src(test))
    rhs = test.comparators[0]
    if isinstance(test.ops[0], ast.Eq) and isinstance(rhs, ast.Name):
        names = [rhs.id]
    elif isinstance(test.ops[0], ast.In) and isinstance(rhs, (ast.Tuple, ast.List, ast.Set)) \
            and all(isinstance(e, ast.Name) for e in rhs.elts):
        names = [e.id for e in rhs.elts]
    else:
        raise ExtractError("opcode test: " + _src(test))
    out = []
    for n in names:
        if n not in ops:
            raise ExtractError("unknown opcode constant " + n)
        out.append(ops[n])
    return out


def handle_return(canon, cls, ops):
    fn, _cx = canon.func("handle_return", cls)
    body, env = fn.body, Env()
    # Normal form of
    #   typ = get_type(arg, ...); last_opcode = frame.f_code.co_code[frame.f_lasti]; trace = self.traces.get(frame)
    #   if trace is None: return / elif <yield op>: ... / else: ...
    # is   L_typ = ...; L_op = ...; L_trace = ...; if L_trace is not None: (if <yield op>: ... else: ...)
    if len(body) != 4:
        raise ExtractError("handle_return: expected 4 statements")
    if not env.m(body[0], "L_typ = get_type(arg, max_typed_dict_size=self.max_typed_dict_size)", bind=["typ"]):
        raise ExtractError("handle_return[0]: " + _src(body[0]))
    if not env.m(body[1], "L_op = frame.f_code.co_code[frame.f_lasti]", bind=["op"]):
        raise ExtractError("handle_return[1]: " + _src(body[1]))
    if not env.m(body[2], "L_trace = self.traces.get(frame)", bind=["trace"]):
        raise ExtractError("handle_return[2]: " + _src(body[2]))
    top = body[3]
    if not (isinstance(top, ast.If) and env.m(top.test, "L_trace is not None") and not top.orelse
            and len(top.body) == 1 and isinstance(top.body[0], ast.If)):
        raise ExtractError("handle_return: `if trace is None: return / elif` skeleton")
    y = top.body[0]
    yield_ops = _ops_of_test(y.test, ops, env)
    ybody = y.body
    if len(ybody) == 1 and env.m(ybody[0], "L_trace.add_yield_type(L_typ)"):
        guard = False
    elif len(ybody) == 1 and isinstance(ybody[0], ast.If) and not ybody[0].orelse \
            and env.m(ybody[0].test, "not frame.f_code.co_flags & inspect.CO_COROUTINE") \
            and len(ybody[0].body) == 1 and env.m(ybody[0].body[0], "L_trace.add_yield_type(L_typ)"):
        guard = True
    else:
        raise ExtractError("handle_return: yield branch: " + _src(y)[:200])
    els = y.orelse
    if len(els) != 3:
        raise ExtractError("handle_return: else branch must be `if <return op>: ...; del ...; log`")
    r = els[0]
    if not (isinstance(r, ast.If) and not r.orelse and len(r.body) == 1 and env.m(r.body[0], "L_trace.return_type = L_typ")):
        raise ExtractError("handle_return: return-type assignment: " + _src(r)[:200])
    return_ops = _ops_of_test(r.test, ops, env)
    if not env.m(els[1], "del self.traces[frame]") or not env.m(els[2], "self.logger.log(L_trace)"):
        raise ExtractError("handle_return: expected `del self.traces[frame]; self.logger.log(trace)`")
    return yield_ops, guard, return_ops


_ARGNAMES = "L_code.co_varnames[:L_code.co_argcount + L_code.co_kwonlyargcount]"
_BIND_LOOP = """for L_name in %s:
    if L_name in frame.f_locals:
        L_types[L_name] = get_type(frame.f_locals[L_name], max_typed_dict_size=self.max_typed_dict_size)"""


def handle_call(canon, cls):
    """The order of the guards of handle_call, as tags.  In the normal form a guard `if G: return` followed by the
    rest of the function is `if not G: <rest>` as the last statement of its block."""
    fn, _cx = canon.func("handle_call", cls)
    tags, env = [], Env()
    block = fn.body
    while block is not None:
        nxt = None
        for i, st in enumerate(block):
            last = i == len(block) - 1
            if isinstance(st, ast.If):
                if last and not st.orelse \
                        and env.m(st.test, "not self.sample_rate or not random.randrange(self.sample_rate)"):
                    tags.append("sample")
                    nxt = st.body
                elif last and not st.orelse and env.m(st.test, "L_func is not None"):
                    tags.append("unresolved_return")
                    nxt = st.body
                elif last and not st.orelse and env.m(st.test, "frame not in self.traces"):
                    tags.append("resumed_return")
                    nxt = st.body
                elif last and st.orelse and env.m(st.test, "frame in self.traces"):
                    # `if frame in self.traces: <something>; return`
                    tags.append("resumed_return")
                    nxt = st.orelse
                else:
                    raise ExtractError("handle_call: unrecognised statement: " + _src(st)[:200])
            elif env.m(st, "L_func = self._get_func(frame)", bind=["func"]):
                tags.append("lookup")
            elif env.m(st, "L_code = frame.f_code", bind=["code"]):
                pass
            elif env.m(st, "L_names = " + _ARGNAMES, bind=["names"]):
                tags.append("argnames")
            elif env.m(st, "L_types = {}", bind=["types"]):
                pass
            elif isinstance(st, ast.For):
                if env.m(st, _BIND_LOOP % _ARGNAMES, bind=["name"]):
                    tags.append("argnames")      # the slice is written (or was substituted) in the loop header
                elif not env.m(st, _BIND_LOOP % "L_names", bind=["name"]):
                    raise ExtractError("handle_call: binding loop: " + _src(st)[:300])
                tags.append("bind")
            elif env.m(st, "self.traces[frame] = CallTrace(L_func, L_types)"):
                tags.append("store")
            else:
                raise ExtractError("handle_call: unrecognised statement: " + _src(st)[:200])
        block = nxt
    return tags


def dunder_call(canon, cls):
    fn, cx = canon.func("__call__", cls)
    body, env = fn.body, Env()
    # normal form of `code = frame.f_code; if <gates>: return self; try: ...; return self`:
    #   L_code = frame.f_code; if not <gates>: try: ...; return self
    if len(body) != 3 or not env.m(body[0], "L_code = frame.f_code", bind=["code"]) or _src(body[2]) != "return self":
        raise ExtractError("__call__: skeleton")
    acc = body[1]
    if not (isinstance(acc, ast.If) and not acc.orelse and len(acc.body) == 1):
        raise ExtractError("__call__: gate")
    gate = ast_canon.neg_nf(cx, acc.test)
    if not (isinstance(gate, ast.BoolOp) and isinstance(gate.op, ast.Or)):
        raise ExtractError("__call__: gate")
    known = {"event not in SUPPORTED_EVENTS": "unsupported_event", "L_code.co_name == 'trace_types'": "trace_types",
             "self.should_trace and (not self.should_trace(L_code))": "filter_rejects"}
    tags = []
    for g in gate.values:
        for tmpl, tag in known.items():
            if env.m(g, tmpl):
                tags.append(tag)
                break
        else:
            raise ExtractError("__call__: unknown gate " + _src(g))
    tr = acc.body[0]
    if not (isinstance(tr, ast.Try) and len(tr.handlers) == 1 and not tr.finalbody and not tr.orelse):
        raise ExtractError("__call__: try/except")
    h = tr.handlers[0]
    if not (isinstance(h.type, ast.Name) and h.name is None):
        raise ExtractError("__call__: handler type")
    for n in ast.walk(h):
        if isinstance(n, ast.Raise):
            raise ExtractError("__call__: handler re-raises")
    disp = tr.body
    if not (len(disp) == 1 and isinstance(disp[0], ast.If) and _src(disp[0].test) == "event == EVENT_CALL"
            and _src(disp[0].body[0]) == "self.handle_call(frame)"
            and isinstance(disp[0].orelse[0], ast.If) and _src(disp[0].orelse[0].test) == "event == EVENT_RETURN"
            and _src(disp[0].orelse[0].body[0]) == "self.handle_return(frame, arg)"):
        raise ExtractError("__call__: dispatch")
    return tags, h.type.id


def trace_calls(canon):
    fn, _cx = canon.func("trace_calls")
    body, env = fn.body, Env()
    if len(body) != 3 or not env.m(body[0], "L_old = sys.getprofile()", bind=["old"]) \
            or not env.m(body[1], "sys.setprofile(CallTracer(logger, max_typed_dict_size, code_filter, sample_rate))"):
        raise ExtractError("trace_calls: prologue")
    tr = body[2]
    if not (isinstance(tr, ast.Try) and not tr.handlers and not tr.orelse and len(tr.body) == 1
            and isinstance(tr.body[0], ast.Expr) and isinstance(tr.body[0].value, ast.Yield)):
        raise ExtractError("trace_calls: try/finally around the yield")
    tags = []
    for st in tr.finalbody:
        s = _src(st)
        if env.m(st, "sys.setprofile(L_old)"):
            tags.append("restore")
        elif s == "logger.flush()":
            tags.append("flush")
        elif isinstance(st, ast.Try) and len(st.body) == 1 and _src(st.body[0]) == "logger.flush()" \
                and len(st.handlers) == 1 and isinstance(st.handlers[0].type, ast.Name) and not st.finalbody \
                and not st.orelse and not any(isinstance(n, ast.Raise) for n in ast.walk(st.handlers[0])):
            tags.append("flush_contained:" + st.handlers[0].type.id)
        else:
            raise ExtractError("trace_calls: finally: " + s)
    return tags


def store_logger(canon):
    cls = _find_class(canon.tree, "CallTraceStoreLogger")
    log = canon.func("log", cls)[0].body
    # `not x == '__main__'` and `x != '__main__'` have the same normal form (str operands)
    if not (len(log) == 1 and isinstance(log[0], ast.If) and not log[0].orelse
            and _src(log[0].test) == "trace.func.__module__ != '__main__'"
            and len(log[0].body) == 1 and _src(log[0].body[0]) == "self.traces.append(trace)"):
        raise ExtractError("CallTraceStoreLogger.log")
    fl = [_src(s) for s in canon.func("flush", cls)[0].body]
    if fl != ["self.store.add(self.traces)", "self.traces = []"]:
        raise ExtractError("CallTraceStoreLogger.flush: " + repr(fl))
    return "__main__"


def add_yield(canon):
    cls = _find_class(canon.tree, "CallTrace")
    fn = canon.func("add_yield_type", cls)[0]
    params = [a.arg for a in fn.args.args]
    if len(params) != 2 or params[0] != "self" or fn.args.vararg or fn.args.kwarg or fn.args.kwonlyargs:
        raise ExtractError("CallTrace.add_yield_type: signature")
    t, body = params[1], fn.body
    if not (len(body) == 1 and isinstance(body[0], ast.If) and _src(body[0].test) == "self.yield_type is None"
            and [_src(s) for s in body[0].body] == [f"self.yield_type = {t}"]
            and [_src(s) for s in body[0].orelse] == [f"self.yield_type = cast(type, Union[self.yield_type, {t}])"]):
        raise ExtractError("CallTrace.add_yield_type")
    return True


def render():
    tr = _parse("monkeytype/tracing.py")
    base = _parse("monkeytype/db/base.py")
    ops = _opcode_table(tr)
    cls = _find_class(tr, "CallTracer")
    # every module of the package: the closed world in which a private method is known not to be overridden
    universe = []
    for d, _dirs, files in sorted(os.walk(os.path.join(common.REPO, "monkeytype"))):
        for f in sorted(files):
            if f.endswith(".py"):
                universe.append(_parse(os.path.relpath(os.path.join(d, f), common.REPO)))
    canon = Canon(tr, universe)
    yops, guard, rops = handle_return(canon, cls, ops)
    hc = handle_call(canon, cls)
    gates, caught = dunder_call(canon, cls)
    fin = trace_calls(canon)
    main = store_logger(Canon(base, universe))
    add_yield(canon)

    def sl(xs):
        return "[" + "; ".join(_cs(x) for x in xs) + "]"
    L = ["(* GENERATED by harness/extract_tracer.py from /repo's current monkeytype/tracing.py. Do not edit. *)",
         "From Coq Require Import List String.", "Import ListNotations.", "Open Scope string_scope.", "",
         f"Definition tr_yield_ops : list string := {sl(yops)}.",
         f"Definition tr_yield_skips_coroutines : bool := {'true' if guard else 'false'}.",
         f"Definition tr_return_ops : list string := {sl(rops)}.",
         f"Definition tr_handle_call_steps : list string := {sl(hc)}.",
         f"Definition tr_call_gates : list string := {sl(gates)}.",
         f"Definition tr_call_catches : string := {_cs(caught)}.",
         f"Definition tr_exit_finally : list string := {sl(fin)}.",
         f"Definition store_logger_drops_module : string := {_cs(main)}.",
         ""]
    return "\n".join(L)


def regenerate():
    path = os.path.join(common.COQ, "Gen", "TracerConstants.v")
    try:
        text = render()
    except (ExtractError, SyntaxError, OSError, AttributeError, KeyError, IndexError, TypeError) as e:
        # keep the previously generated file: the proof status is reported as broken by the caller, but the
        # correspondence harness can still be built (against the last understood model) to search for a failing input
        return False, f"{type(e).__name__}: {e}"
    old = open(path).read() if os.path.exists(path) else None
    if old != text:
        os.makedirs(os.path.dirname(path), exist_ok=True)
        with open(path, "w") as f:
            f.write(text)
    return True, "ok"


if __name__ == "__main__":
    print(regenerate())
    print(open(os.path.join(common.COQ, "Gen", "TracerConstants.v")).read())
