(* C16 — --pep_563 confines only annotation-only imports and keeps the module importable.
   Statements about the model (Model/Confine.v) of cli.get_newly_imported_items,
   MoveImportsToTypeCheckingBlockVisitor.transform_module_impl and RemoveImportsTransformer, with the
   patches C16-1..4 (committed; C16-4: for the source only module-level imports count as existing, the remover does
   not descend into compound statements) and the proposed patch C16-5 (an import that an existing module-level
   `if TYPE_CHECKING:` block already holds gets no second block).  `applied` is the output of libcst's apply step (modelled, not verified):
   its assumed relation to the source is the hypothesis `embedsb src applied = true`, re-checked per case. *)
From Coq Require Import List Bool String.
From MT Require Import Confine ConfineSpec ConfineIdem.
Import ListNotations.
Open Scope list_scope.

(* For ALL stubs, sources and applied modules:
   1. the result begins (after a docstring) with `from __future__ import annotations` whenever the apply step put it there;
   2. every import item the stub has and the symbol mapping of the source's module-level imports lacks, other than
      typing / mypy_extensions (needed at run time by generated TypedDict classes), is under `if TYPE_CHECKING:` and in
      no module-level import statement;
   3. outside finding class kf_apply_extra (and given that libcst adds imports at module level only), no import item is
      at run-time level that the source did not have there, except typing / mypy_extensions / __future__;
   4. outside finding class kf_shadow, every statement of the source, with every import name, is still there in order. *)
Theorem confine_spec :
  forall stub src applied out,
    wf_module src = true ->
    embedsb src applied = true ->
    confine stub src applied = Some out ->
       (future_head applied = true -> future_head out = true)
    /\ (forall it, In it (gather stub) -> ~ In it (gather_top src) -> runtime_module (i_mod it) = false ->
          In it (tc_items out) /\ ~ In it (top_items out))
    /\ (kf_apply_extra stub src applied = false -> nested_ok src applied = true ->
          forall it, In it (run_items out) -> allowed_runtime src it = true)
    /\ (kf_shadow stub src = false -> embedsb src out = true).
Proof. exact ConfineSpec.confine_spec. Qed.
Print Assumptions confine_spec.

(* every name an import of the source binds when the module is imported is still bound, and the bases of the
   classes the apply step generated are bound at run-time level *)
Theorem runtime_names_preserved :
  forall stub src applied out,
    wf_module src = true ->
    embedsb src applied = true ->
    confine stub src applied = Some out ->
       (kf_shadow stub src = false -> incl (runtime_bound src) (runtime_bound out))
    /\ (needed_okb src applied = true -> incl (runtime_needed src out) (runtime_bound out)).
Proof. exact ConfineSpec.runtime_names_preserved. Qed.
Print Assumptions runtime_names_preserved.

(* the class kf_shadow is empty whenever every module-level import item of the source is in the symbol mapping of the
   source's module-level imports *)
Theorem kf_shadow_empty_when_no_shadowing :
  forall stub src, (forall it, In it (top_items src) -> In it (gather_top src)) -> kf_shadow stub src = false.
Proof. exact ConfineSpec.kf_shadow_free_when_gathered. Qed.
Print Assumptions kf_shadow_empty_when_no_shadowing.

(* the inserted `if TYPE_CHECKING:` tests a bound name: `from typing import TYPE_CHECKING` (or `from typing import *`)
   is in the leading import block of the result, so the name is bound before every module-level block -
   wherever else (function body, try/except shim) the source may import it *)
Theorem tc_name_bound :
  forall stub src applied out,
    confine stub src applied = Some out -> tc_ready out = true /\ tc_before out = true.
Proof. exact ConfineSpec.tc_name_bound. Qed.
Print Assumptions tc_name_bound.

(* source imports TYPE_CHECKING only inside a function; the model still imports it at the top *)
Example ex_tc_name_nonvacuous :
  let src := [SComp "f" []; SComp "h" [(CLocal, IFrom "typing" [("TYPE_CHECKING"%string, None)])]] in
  let applied := SImp (IFrom "__future__" [("annotations"%string, None)]) :: src in
  let stub := [SImp (IFrom "shapes" [("Circle"%string, None)]); SComp "s" []] in
  confine stub src applied =
    Some [SImp (IFrom "__future__" [("annotations"%string, None)]);
          SImp (IFrom "typing" [("TYPE_CHECKING"%string, None)]);
          SIfTC [IFrom "shapes" [("Circle"%string, None)]];
          SComp "f" []; SComp "h" [(CLocal, IFrom "typing" [("TYPE_CHECKING"%string, None)])]]
  /\ tc_before (SImp (IFrom "__future__" [("annotations"%string, None)])
                :: SIfTC [IFrom "shapes" [("Circle"%string, None)]] :: src) = false.
Proof. vm_compute. split; reflexivity. Qed.

(* ---- non-vacuity: design-phase witness (a), as reified from the real (patched) run:
   source `import shapes` + def; stub `from shapes import Circle` + def *)
Definition ex_stub : module := [SImp (IFrom "shapes" [("Circle"%string, None)]); SComp "s" []].
Definition ex_src : module := [SImp (IImport [("shapes"%string, None)]); SComp "f" []].
Definition ex_applied : module :=
  [SImp (IFrom "__future__" [("annotations"%string, None)]); SImp (IImport [("shapes"%string, None)]); SComp "f" []].

Example ex_confine_spec_nonvacuous :
  wf_module ex_src = true /\ embedsb ex_src ex_applied = true
  /\ kf_shadow ex_stub ex_src = false /\ kf_apply_extra ex_stub ex_src ex_applied = false
  /\ future_head ex_applied = true
  /\ moved_items ex_stub ex_src = [Item "shapes" (Some "Circle"%string) None]
  /\ confine ex_stub ex_src ex_applied =
     Some [SImp (IFrom "__future__" [("annotations"%string, None)]);
           SImp (IImport [("shapes"%string, None)]);
           SImp (IFrom "typing" [("TYPE_CHECKING"%string, None)]);
           SIfTC [IFrom "shapes" [("Circle"%string, None)]];
           SComp "f" []].
Proof. vm_compute. repeat split; reflexivity. Qed.

(* the source binds Circle to other.Circle at run time and imports shapes.Circle only under TYPE_CHECKING; the stub needs
   shapes.Circle.  libcst adds `from shapes import Circle` at module level (which would rebind the name); it is moved. *)
Example ex_tc_only_source_import :
  let src := [SImp (IFrom "other" [("Circle"%string, None)]); SImp (IImport [("typing"%string, None)]);
              SIfTC [IFrom "shapes" [("Circle"%string, None)]]; SComp "f" []] in
  let applied := [SImp (IFrom "__future__" [("annotations"%string, None)]); SImp (IFrom "other" [("Circle"%string, None)]);
                  SImp (IImport [("typing"%string, None)]); SImp (IFrom "shapes" [("Circle"%string, None)]);
                  SIfTC [IFrom "shapes" [("Circle"%string, None)]]; SComp "f" []] in
  wf_module src = true /\ embedsb src applied = true
  /\ kf_shadow ex_stub src = false /\ kf_apply_extra ex_stub src applied = false /\ nested_ok src applied = true
  /\ confine ex_stub src applied =
     Some [SImp (IFrom "__future__" [("annotations"%string, None)]); SImp (IFrom "other" [("Circle"%string, None)]);
           SImp (IImport [("typing"%string, None)]); SImp (IFrom "typing" [("TYPE_CHECKING"%string, None)]);
           SIfTC [IFrom "shapes" [("Circle"%string, None)]]; SComp "f" []].
Proof. vm_compute. repeat split; reflexivity. Qed.

(* re-application is a no-op on the import structure: when every import to be moved is already held by an existing
   module-level `if TYPE_CHECKING:` block (put there by the source or by an earlier application), no block is inserted -
   the module-level copies libcst added are removed and the blocks are what they were *)
Theorem no_second_block :
  forall stub src applied out,
    confine stub src applied = Some out ->
    (forall it, In it (moved_items stub src) -> In it (already_confined applied)) ->
    out = remove (moved_items stub src) (add_tc applied) /\ tc_block_imps out = tc_block_imps applied.
Proof. exact ConfineIdem.no_second_block. Qed.
Print Assumptions no_second_block.

(* second application (overwrite on: libcst re-adds the module-level import) of the stub to the result of the first *)
Example ex_second_application_noop :
  let first := [SImp (IFrom "__future__" [("annotations"%string, None)]);
                SImp (IFrom "typing" [("TYPE_CHECKING"%string, None)]);
                SIfTC [IFrom "shapes" [("Circle"%string, None)]]; SComp "f" []] in
  let applied := [SImp (IFrom "__future__" [("annotations"%string, None)]);
                  SImp (IFrom "typing" [("TYPE_CHECKING"%string, None)]);
                  SImp (IFrom "shapes" [("Circle"%string, None)]);
                  SIfTC [IFrom "shapes" [("Circle"%string, None)]]; SComp "f" []] in
  moved_items ex_stub first = [Item "shapes" (Some "Circle"%string) None]
  /\ already_confined applied = [Item "shapes" (Some "Circle"%string) None]
  /\ confine ex_stub first applied = Some first
  /\ confine ex_stub first first = Some first.
Proof. vm_compute. repeat split; reflexivity. Qed.

(* witness (c): a generated TypedDict class; its base import stays at run-time level *)
Definition ex_td_stub : module :=
  [SImp (IFrom "mypy_extensions" [("TypedDict"%string, None)]); SClass "DTypedDict__RENAME_ME__" ["TypedDict"%string] "c" [];
   SComp "s" []].
Definition ex_td_src : module := [SComp "f" []].
Definition ex_td_applied : module :=
  [SImp (IFrom "__future__" [("annotations"%string, None)]); SImp (IFrom "mypy_extensions" [("TypedDict"%string, None)]);
   SClass "DTypedDict__RENAME_ME__" ["TypedDict"%string] "c" []; SComp "f" []].

Example ex_runtime_names_nonvacuous :
  wf_module ex_td_src = true /\ embedsb ex_td_src ex_td_applied = true
  /\ needed_okb ex_td_src ex_td_applied = true
  /\ runtime_needed ex_td_src ex_td_applied = ["TypedDict"%string]
  /\ confine ex_td_stub ex_td_src ex_td_applied =
     Some [SImp (IFrom "__future__" [("annotations"%string, None)]);
           SImp (IFrom "mypy_extensions" [("TypedDict"%string, None)]);
           SImp (IFrom "typing" [("TYPE_CHECKING"%string, None)]);
           SClass "DTypedDict__RENAME_ME__" ["TypedDict"%string] "c" []; SComp "f" []]
  /\ runtime_bound ex_src = ["shapes"%string].
Proof. vm_compute. repeat split; reflexivity. Qed.
