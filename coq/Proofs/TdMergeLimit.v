(* C06 — the limit in force at MERGE time bounds every TypedDict the merge itself builds, whatever limit the merged
   types were recorded under: merging top-level anonymous TypedDicts under limit k yields either a TypedDict with at
   most k fields or no TypedDict at the top (Dict[str, ...]). *)
From Coq Require Import List Arith Bool Lia String.
From MT Require Import Types Infer.
Import ListNotations.

Lemma mapM_len {A B} (f : A -> option B) l l' : mapM f l = Some l' -> List.length l' = List.length l.
Proof.
  revert l'; induction l as [|x l IH]; intros l' H; cbn [mapM] in H.
  - injection H as <-. reflexivity.
  - destruct (f x) as [y|]; [|discriminate]. destruct (mapM f l) as [ys|] eqn:E; [|discriminate].
    injection H as <-. cbn [List.length]. f_equal. apply IH. reflexivity.
Qed.

Theorem td_merge_top_limit k ts r o :
  forallb is_td ts = true -> shrink_top k ts = Some (TTypedDict r o) ->
  List.length r + List.length o <= k.
Proof.
  unfold shrink_top. intros Htd H.
  cbn [shrink] in H.
  destruct ts as [|t0 rest]; [discriminate|].
  rewrite Htd in H.
  destruct (td_merge_maps (t0 :: rest)) as [required optional] eqn:EM.
  destruct (Nat.ltb k (List.length required + List.length optional)) eqn:EL.
  - match type of H with option_map _ ?x = _ => destruct x end; cbn [option_map] in H; discriminate.
  - destruct (negb (keys_disjoint required optional)); [discriminate|].
    destruct (mapM _ required) as [r'|] eqn:ER; [|discriminate].
    destruct (mapM _ optional) as [o'|] eqn:EO; [|discriminate].
    injection H as <- <-.
    apply mapM_len in ER. apply mapM_len in EO. apply Nat.ltb_ge in EL. lia.
Qed.

Example ex_td_merge_top_limit :
  shrink_top 1 [TTypedDict [("a"%string, TCls cInt); ("b"%string, TCls cInt)] []] = Some (TDict (TCls cStr) (TCls cInt)).
Proof. vm_compute. reflexivity. Qed.

Print Assumptions td_merge_top_limit.
