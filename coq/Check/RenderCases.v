(* Check/RenderCases.v — correspondence verdicts for C11 (rendering / imports / self-containedness).
   A case = one target module: class table, function definitions with their traced types, and what the
   real code produced: ModuleStub.render() text, and for every annotation of the real stub its source
   text and the type Python evaluated it to in the stub's own namespace (reified). *)
From MT Require Export Common Render.

Open Scope string_scope.
Open Scope nat_scope.
Open Scope list_scope.

Record rcase := {
  rc_ct : ctable;
  rc_own : string;
  rc_fds : list fdef;
  rc_raised : bool;                                       (* the real code raised *)
  rc_text : string;                                       (* real ModuleStub.render() *)
  rc_imports_ok : bool;                                   (* every line of the real import block executed *)
  rc_annos : list (string * list (string * (string * option ty)))
      (* function key -> slot (parameter name / "return") -> (annotation source text, evaluated type) *)
}.

(* ---- well-formedness of a case (3 = harness bug) ---- *)
Fixpoint classes_of (t : ty) : list cls :=
  match t with
  | TCls c => [c]
  | TAny | TCallable | TFwd _ => []
  | TType x | TList x | TSet x | TIterator x | TTupleVar x => classes_of x
  | TDict k v | TDefaultDict k v => classes_of k ++ classes_of v
  | TTuple ts | TUnion ts => flat_map classes_of ts
  | TGenerator a b c => classes_of a ++ classes_of b ++ classes_of c
  | TTypedDict r o => flat_map (fun f => classes_of (snd f)) r ++ flat_map (fun f => classes_of (snd f)) o
  end.

Fixpoint td_fields_ok (t : ty) : bool :=
  match t with
  | TAny | TCls _ | TCallable | TFwd _ => true
  | TType x | TList x | TSet x | TIterator x | TTupleVar x => td_fields_ok x
  | TDict k v | TDefaultDict k v => td_fields_ok k && td_fields_ok v
  | TTuple ts | TUnion ts => forallb td_fields_ok ts
  | TGenerator a b c => td_fields_ok a && td_fields_ok b && td_fields_ok c
  | TTypedDict r o =>
      negb (Nat.eqb (List.length r + List.length o) 0)
      && forallb (fun f => is_identifier (fst f) && td_fields_ok (snd f)) r
      && forallb (fun f => is_identifier (fst f) && td_fields_ok (snd f)) o
      && (fix nodup (l : list string) : bool :=
            match l with [] => true | x :: r => negb (mem_s x r) && nodup r end) (map fst r ++ map fst o)
  end.

Definition fd_types (f : fdef) : list ty :=
  map snd (fd_args f) ++ match fd_ret f with Some t => [t] | None => [] end
                      ++ match fd_yield f with Some t => [t] | None => [] end.

Fixpoint nodup_s (l : list string) : bool :=
  match l with [] => true | x :: r => negb (mem_s x r) && nodup_s r end.

(* a subscripted user generic (Registry.Entry[int]) is a pseudo class of the table whose qualname is the alias text:
   its last component is `Name[args]` with builtin argument names *)
Fixpoint before_bracket (s : string) : string :=
  match s with
  | EmptyString => ""
  | String c r => if Ascii.eqb c "[" then "" else String c (before_bracket r)
  end.
Definition is_alias_name (q : string) : bool := containsb "[" q.
Definition qual_component_ok (s : string) : bool := is_identifier (before_bracket s).

Definition wf_case (c : rcase) : bool :=
  let ct := rc_ct c in
  forallb (fun f =>
             forallb (fun t => forallb (fun k => match cfind ct k with Some _ => true | None => false end)
                                       (classes_of t)
                               && td_fields_ok t) (fd_types f)
             && is_identifier (fd_name f) && forallb is_identifier (fd_path f)
             && forallb (fun p => is_identifier (fst p)) (fd_params f)
             && nodup_s (map fst (fd_params f)) && nodup_s (map fst (fd_args f))
             && (negb (fd_self f) || negb (Nat.eqb (List.length (fd_params f)) 0)))
          (rc_fds c)
  && nodup_s (map fd_key (rc_fds c))
  && forallb (fun e : cls * (string * string) =>
                forallb is_identifier (split_dot (fst (snd e))) && forallb qual_component_ok (split_dot (snd (snd e))))
             ct.

(* ---- the property predicate on an annotation table (of the implementation, or of the model) ---- *)
Definition oty_eqb (a b : option ty) : bool :=
  match a, b with Some x, Some y => corrb x y | None, None => true | _, _ => false end.

Definition annos_denote (fds : list fdef) (imports_ok : bool)
           (table : list (string * list (string * (string * option ty)))) : bool :=
  imports_ok &&
  forallb (fun f =>
             match lookup_s (fd_key f) table with
             | None => false
             | Some slots =>
                 forallb (fun e : string * ty =>
                            match lookup_s (fst e) slots with
                            | Some (_, Some t') => corrb (snd e) t'
                            | _ => false
                            end) (fd_expected f)
                 && Nat.eqb (List.length slots) (List.length (fd_expected f))
             end) fds.

(* the model's own annotation table *)
Definition ns_fuel (fs : list fstub) : nat := S (S (List.length (flat_map fs_cstubs fs))).

Definition model_annos (c : rcase) : list (string * list (string * (string * option ty))) :=
  let ct := rc_ct c in
  let fs := map (build_fstub ct) (rc_fds c) in
  let ns := stub_ns ct (rc_own c) fs in
  map (fun f : fstub =>
         (join "." (fs_path f ++ [fs_name f]),
          map (fun st : string * string => (fst st, (snd st, eval_anno ct ns (ns_fuel fs) (snd st))))
              (fs_annos ct strip_mods f))) fs.

Definition model_imports_ok (c : rcase) : bool :=
  imports_all_bind (rc_ct c) (module_imports (rc_own c) (map (build_fstub (rc_ct c)) (rc_fds c))).

Definition table_eqb_gen (cmpv : bool) (a b : list (string * list (string * (string * option ty)))) : bool :=
  (fix go (a b : list (string * list (string * (string * option ty)))) : bool :=
     match a, b with
     | [], [] => true
     | (k, sa) :: ra, (k', sb) :: rb =>
         String.eqb k k'
         && (fix gs (x y : list (string * (string * option ty))) : bool :=
               match x, y with
               | [], [] => true
               | (s, (t, v)) :: rx, (s', (t', v')) :: ry =>
                   String.eqb s s' && String.eqb t t' && (negb cmpv || oty_eqb v v') && gs rx ry
               | _, _ => false end) sa sb
         && go ra rb
     | _, _ => false end) a b.

Definition table_eqb := table_eqb_gen true.

Definition impl_ok (c : rcase) : bool :=
  negb (rc_raised c) && annos_denote (rc_fds c) (rc_imports_ok c) (rc_annos c).

(* ---- finding classes: exact boolean predicates on the INPUT of a case ---- *)
Section Classes.
Variable ct : ctable.
Variable own : string.
Variable fds : list fdef.

Definition the_fstubs : list fstub := map (build_fstub ct) fds.
Definition the_cstubs : list cstub := flat_map fs_cstubs the_fstubs.
Definition all_types : list ty := flat_map fd_types fds.

(* one name bound to two different things by own classes / generated classes / imports *)
Definition nsval_tag (v : nsval) : string :=
  match v with
  | NsCls c => "c" +++ dec (N.to_nat c) | NsTyp n => "t" +++ n | NsNone => "n" | NsEllipsis => "e"
  | NsTDBase => "b" | NsTD _ _ _ => "d" end.
Definition kf_same_root_name : bool :=
  let ns := own_ns ct own
            ++ map (fun n => (n, NsTD "" true [])) (nodup string_dec (map cs_name the_cstubs))
            ++ imports_ns ct (module_imports own the_fstubs) in
  existsb (fun e => existsb (fun e' => String.eqb (fst e) (fst e')
                                       && negb (String.eqb (nsval_tag (snd e)) (nsval_tag (snd e')))) ns) ns.

(* a TypedDict below a generic the rewriters do not descend (Type / Iterator / DefaultDict) *)
Fixpoint td_hidden (t : ty) : bool :=
  match t with
  | TAny | TCls _ | TCallable | TFwd _ => false
  | TType x | TIterator x => has_td x
  | TDefaultDict k v => has_td k || has_td v
  | TList x | TSet x | TTupleVar x => td_hidden x
  | TDict k v => td_hidden k || td_hidden v
  | TTuple ts | TUnion ts => existsb td_hidden ts
  | TGenerator a b c => td_hidden a || td_hidden b || td_hidden c
  | TTypedDict r o => existsb (fun f => td_hidden (snd f)) r || existsb (fun f => td_hidden (snd f)) o
  end.
Definition kf_td_not_descended : bool := existsb td_hidden all_types.

(* a class whose dotted name contains the text the renderer substitutes globally *)
Definition kf_nonetype_in_name : bool :=
  existsb (fun c => containsb "NoneType" (cls_text ct c) && negb (N.eqb c cNone)) (flat_map classes_of all_types).
Definition kf_typing_in_name : bool :=
  existsb (fun c => containsb "typing." (cls_text ct c)) (flat_map classes_of all_types).

(* two generated TypedDict classes with the same name *)
Definition kf_hint_collision : bool := negb (nodup_s (map cs_name the_cstubs)).

(* a generated TypedDict class has a field whose type needs an import (class stubs are rendered without
   prefix stripping and contribute nothing to the import block) *)
Definition kf_td_field_names : bool :=
  existsb (fun s => existsb (fun f => match imps ct (snd f) [] with [] => false | _ => true end) (cs_attrs s))
          the_cstubs.

(* the forward reference of a generated class below a generic the renderer does not descend: it is rendered by
   repr() as ForwardRef('...') (a generator function yielding a TypedDict: Iterator[<forward reference>]) *)
Fixpoint fwd_hidden (t : ty) : bool :=
  let fix has_fwd (t : ty) : bool :=
      match t with
      | TFwd _ => true
      | TAny | TCls _ | TCallable => false
      | TType x | TList x | TSet x | TIterator x | TTupleVar x => has_fwd x
      | TDict k v | TDefaultDict k v => has_fwd k || has_fwd v
      | TTuple ts | TUnion ts => existsb has_fwd ts
      | TGenerator a b c => has_fwd a || has_fwd b || has_fwd c
      | TTypedDict r o => existsb (fun f => has_fwd (snd f)) r || existsb (fun f => has_fwd (snd f)) o
      end in
  match t with
  | TAny | TCls _ | TCallable | TFwd _ => false
  | TType x | TIterator x => has_fwd x
  | TDefaultDict k v => has_fwd k || has_fwd v
  | TList x | TSet x | TTupleVar x => fwd_hidden x
  | TDict k v => fwd_hidden k || fwd_hidden v
  | TTuple ts | TUnion ts => existsb fwd_hidden ts
  | TGenerator a b c => fwd_hidden a || fwd_hidden b || fwd_hidden c
  | TTypedDict r o => existsb (fun f => fwd_hidden (snd f)) r || existsb (fun f => fwd_hidden (snd f)) o
  end.
Definition kf_fwd_not_descended : bool :=
  existsb (fun f => existsb (fun p : param => match snd (fst p) with Some t => fwd_hidden t | None => false end)
                            (fs_params f)
                    || match fs_ret f with Some t => fwd_hidden t | None => false end) the_fstubs.

(* the sequential str.replace of today's code and the repaired stripping disagree on some stub line *)
Definition kf_prefix_overlap : bool :=
  negb (String.eqb (render_module_old ct own fds) (render_module ct own fds)).
End Classes.


(* strip_is_tokenwise, the premise of render_resolves_partial, evaluated per case: outside the classes whose
   rendering is not meant to parse back (TypedDict / forward reference printed by repr(), names containing the
   substituted texts) every stripped annotation text parses to the token-level rendering of its type *)
Definition tokenwise_all (c : rcase) : bool :=
  let ct := rc_ct c in
  forallb (fun f : fstub =>
             forallb (fun p : param => let '(_, a, d) := p in
                        match a with Some t => tokenwise ct (fs_mods f) (shown_anno t d) | None => true end)
                     (fs_params f)
             && match fs_ret f with Some t => tokenwise ct (fs_mods f) t | None => true end)
          (map (build_fstub ct) (rc_fds c)).

Definition text_class (c : rcase) : bool :=
  kf_td_not_descended (rc_fds c) || kf_nonetype_in_name (rc_ct c) (rc_fds c)
  || kf_typing_in_name (rc_ct c) (rc_fds c) || kf_fwd_not_descended (rc_ct c) (rc_fds c).

(* the case mentions a subscripted user generic.  The model renders it (as the pseudo class it is in the table) and
   computes its import, but the model's annotation evaluator has no subscription of user classes: for such cases the
   stub text, every annotation text and the import verdict are still compared, the model's evaluation is not; the
   property predicate on the implementation's own output (impl_ok) is unaffected. *)
Definition has_alias (c : rcase) : bool :=
  existsb (fun k => is_alias_name (cqual (rc_ct c) k)) (flat_map classes_of (flat_map fd_types (rc_fds c))).

(* parameter kinds other than positional-or-keyword are encoded by the harness as 10 * kind + default kind.  The
   text-level model renders positional-or-keyword parameters only (Model/StubRender.v of C12 has the kinds): for such a
   case the model's text and annotation table are not compared; the property predicate on the implementation's own
   stub (it parses, every import binds, every annotation and decorator resolves and denotes the traced type) is. *)
Definition unmodelled_kinds (c : rcase) : bool :=
  existsb (fun f => existsb (fun p : string * nat => 10 <=? snd p) (fd_params f)) (rc_fds c).

Definition model_ok (c : rcase) : bool :=
  if unmodelled_kinds c then Bool.eqb (model_imports_ok c) (rc_imports_ok c) else
  String.eqb (render_module (rc_ct c) (rc_own c) (rc_fds c)) (rc_text c)
  && table_eqb_gen (negb (has_alias c)) (model_annos c) (rc_annos c)
  && Bool.eqb (model_imports_ok c) (rc_imports_ok c)
  && (text_class c || has_alias c || tokenwise_all c).

(* 0 ok; 1 model <> implementation (or the tokenwise premise fails), property holds on the implementation's output;
   2 the stub the implementation produced is not self-contained / does not denote the traced types;
   3 malformed case *)
Definition verdict (c : rcase) : nat :=
  if negb (wf_case c) then 3
  else if negb (impl_ok c) then 2
  else if negb (model_ok c) then 1
  else 0.

(* classification of a failing case: bit 0 same_root_name, 1 td_not_descended, 2 nonetype_in_name,
   3 typing_in_name, 4 hint_collision, 5 td_field_names, 6 fwd_not_descended,
   7 prefix_overlap (old <> repaired stripping),
   8 the MODEL's own output satisfies the property on this case (the failure is not explained by the model),
   9 model and implementation differ on this case;  +1024 so that the result is never 0 *)
Definition bit (b : bool) (n : nat) : nat := if b then n else 0.
Definition classify (c : rcase) : nat :=
  let ct := rc_ct c in let own := rc_own c in let fds := rc_fds c in
  1024
  + bit (kf_same_root_name ct own fds) 1 + bit (kf_td_not_descended fds) 2
  + bit (kf_nonetype_in_name ct fds) 4 + bit (kf_typing_in_name ct fds) 8
  + bit (kf_hint_collision ct fds) 16 + bit (kf_td_field_names ct fds) 32
  + bit (kf_fwd_not_descended ct fds) 64
  + bit (kf_prefix_overlap ct own fds) 128
  + bit (annos_denote fds (model_imports_ok c) (model_annos c)) 256
  + bit (negb (model_ok c)) 512.
