"""Fail-closed extractor for the trace store (C09): reads the shape of monkeytype/db/sqlite.py and
monkeytype/encoding.serialize_traces the Coq model Model/Store.v depends on and writes coq/Gen/StoreConstants.v.

How it reads the source (robust against behaviour-preserving refactorings, strict about everything else):

  * SQL text and parameter lists are obtained by EVALUATING the code, not by matching how the strings are put
    together: `make_query` and `create_call_trace_table` (and the module-level helpers / constants they use) are run
    by a small interpreter (`_Interp`) that understands only straight-line string/list building - assignment, `+=`,
    str.format, f-strings, list append/extend, calls of same-module functions, `with conn:`, `for q in <tuple>`,
    `conn.execute(sql)` - and `if <qualname> is [not] None`.  Anything else raises ExtractError.  make_query is run
    with sentinel arguments for qualname None / not None (all paths, since the only tests allowed are those); the SQL
    may mention the table sentinel only, never the module / qualname / limit sentinels; the parameter list is
    compared with the sentinels.  The schema is obtained by running create_call_trace_table on an in-memory SQLite
    connection (twice: it has to be idempotent) and reading PRAGMA table_info / sqlite_master.
  * Control flow that the model depends on stays syntactic, on a NORMAL FORM of the function: a pre-pass turns
    `x = [E for v in it if c]` / `return [E for ...]` into the equivalent loop and inlines calls of private
    single-`return` module functions, then harness/ast_canon.canonical_module renames locals in binding order, drops
    annotations, inlines straight-line helpers, orders independent assignments ...  The matchers compare the normal
    form with the expected text exactly (SQL expressions are evaluated and replaced by a placeholder first).

What is read (every item fails closed on a shape it does not recognise):
  * table columns (name, declared type TEXT, no constraint / default / trigger / unique index) and the INSERT's value
    tuple (column -> CallTraceRow attribute), the INSERT statement evaluated with self.table = a sentinel;
  * `add`: every trace is serialised *before* the single `executemany` that sits alone inside one
    `with self.conn:` block  ->  store_add_shape = "SerialiseThenOneTransaction";
  * `serialize_traces`: `for trace in traces: try: yield from_trace(trace) except Exception: <log>`
    ->  store_serialise_shape = "SkipOnException";
  * make_query: module predicate, the qualname operator *and* the number of parameters passed for it,
    GROUP BY / SELECT columns, LIMIT ? as the last parameter  (operator classification:
    `qualname LIKE ? || '%'` with 1 parameter -> "LikePrefix";
    `substr(qualname, 1, length(?)) == ?` (or `=`) with the same value passed 2 times -> "ExactPrefix");
  * filter: make_query(self.table, module, qualname_prefix, limit) executed on self.conn, all rows fetched and turned
    into CallTraceRow(*row) positionally;
  * list_modules: SELECT module ... GROUP BY module on self.table, python-side `if row[0]` filter -> drops falsy.
"""
import ast
import copy
import os
import re
import sqlite3
import types

from harness import ast_canon, common

ALL5 = ["module", "qualname", "arg_types", "return_type", "yield_type"]
T_SENT, M_SENT, Q_SENT, L_SENT = "T_SENTINEL_tbl", "M_SENTINEL_mod", "Q_SENTINEL_qual", 918273


class ExtractError(Exception):
    pass


def _parse(rel):
    p = os.path.join(common.REPO, rel)
    return ast.parse(open(p).read(), filename=p)


def _func(tree, name):
    for node in tree.body:
        if isinstance(node, (ast.FunctionDef, ast.AsyncFunctionDef)) and node.name == name:
            return node
    for node in ast.walk(tree):
        if isinstance(node, (ast.FunctionDef, ast.AsyncFunctionDef)) and node.name == name:
            return node
    raise ExtractError(f"function {name} not found")


def _method(tree, cls, name):
    for node in tree.body:
        if isinstance(node, ast.ClassDef) and node.name == cls:
            ms = [s for s in node.body if isinstance(s, ast.FunctionDef) and s.name == name]
            if len(ms) == 1:
                return ms[0]
    raise ExtractError(f"{cls}.{name} not found (or defined more than once)")


def _norm(s):
    return re.sub(r"\s+", " ", s).strip()


def _cs(s):
    return '"' + s.replace('"', '""') + '"'


def _body(fn):
    return [s for s in fn.body if not (isinstance(s, ast.Expr) and isinstance(s.value, ast.Constant))]


def _is_self_conn(e):
    return isinstance(e, ast.Attribute) and e.attr == "conn" and isinstance(e.value, ast.Name) and e.value.id == "self"


# ------------------------------------------------------------------------------------------------------------
# evaluation: a tiny interpreter for straight-line string / list building code
# ------------------------------------------------------------------------------------------------------------
class _Return(Exception):
    def __init__(self, value):
        self.value = value


class _Interp:
    """Runs module-level functions of one module.  Only the constructs listed in the module docstring are understood;
    everything else raises ExtractError, so a function that can be run here IS straight-line string/list building."""

    def __init__(self, tree):
        self.funcs = {}
        counts = {}
        for st in tree.body:
            for t in (st.targets if isinstance(st, ast.Assign) else [st.target] if isinstance(st, ast.AnnAssign) else []):
                if isinstance(t, ast.Name):
                    counts[t.id] = counts.get(t.id, 0) + 1
            if isinstance(st, (ast.FunctionDef, ast.ClassDef)):
                counts[st.name] = counts.get(st.name, 0) + 1
        for st in tree.body:
            if isinstance(st, ast.FunctionDef) and counts[st.name] == 1 and not st.decorator_list:
                self.funcs[st.name] = st
        # module-level constants: names bound exactly once to an expression this interpreter can evaluate
        self.consts = {}
        for st in tree.body:
            tgt, val = None, None
            if isinstance(st, ast.Assign) and len(st.targets) == 1:
                tgt, val = st.targets[0], st.value
            elif isinstance(st, ast.AnnAssign) and st.value is not None:
                tgt, val = st.target, st.value
            if isinstance(tgt, ast.Name) and counts.get(tgt.id) == 1:
                try:
                    self.consts[tgt.id] = self.expr(val, {})
                except ExtractError:
                    pass
        self.executed = []          # SQL handed to <connection>.execute, in order
        self.none_tests = set()     # names tested against None
        self.depth = 0

    # -- expressions
    def expr(self, e, env):
        if isinstance(e, ast.Constant):
            if isinstance(e.value, (str, int)) or e.value is None:
                return e.value
            raise ExtractError("constant of an unexpected type")
        if isinstance(e, ast.Name) and isinstance(e.ctx, ast.Load):
            if e.id in env:
                return env[e.id]
            if e.id in self.consts:
                return self.consts[e.id]
            raise ExtractError(f"cannot evaluate name {e.id}")
        if isinstance(e, ast.Attribute) and isinstance(e.value, ast.Name) and e.value.id == "self" and "self" in env:
            if not hasattr(env["self"], e.attr):
                raise ExtractError(f"cannot evaluate self.{e.attr}")
            return getattr(env["self"], e.attr)
        if isinstance(e, ast.JoinedStr):
            out = []
            for part in e.values:
                if isinstance(part, ast.Constant) and isinstance(part.value, str):
                    out.append(part.value)
                elif isinstance(part, ast.FormattedValue) and part.conversion == -1 and part.format_spec is None:
                    v = self.expr(part.value, env)
                    if not isinstance(v, str):
                        raise ExtractError("f-string interpolates a non-string")
                    out.append(v)
                else:
                    raise ExtractError("f-string with conversion / format spec")
            return "".join(out)
        if isinstance(e, ast.BinOp) and isinstance(e.op, ast.Add):
            a, b = self.expr(e.left, env), self.expr(e.right, env)
            if type(a) is type(b) and isinstance(a, (str, list, tuple)):
                return a + b
            raise ExtractError("`+` on something that is not two strings / lists")
        if isinstance(e, (ast.Tuple, ast.List)) and isinstance(e.ctx, ast.Load):
            vals = [self.expr(x, env) for x in e.elts]
            return tuple(vals) if isinstance(e, ast.Tuple) else vals
        if isinstance(e, ast.Compare) and len(e.ops) == 1:
            a, b = self.expr(e.left, env), self.expr(e.comparators[0], env)
            op = e.ops[0]
            plain = (str, int, type(None))
            if isinstance(op, (ast.In, ast.NotIn)) and isinstance(b, (tuple, list)) and isinstance(a, plain) \
                    and all(isinstance(x, plain) for x in b):
                return (a in b) == isinstance(op, ast.In)
            if isinstance(op, (ast.Is, ast.IsNot)) and b is None:
                return (a is None) == isinstance(op, ast.Is)
            if isinstance(a, int) and isinstance(b, int) and not isinstance(a, bool) and not isinstance(b, bool):
                for k, f in ((ast.Eq, a == b), (ast.NotEq, a != b), (ast.Lt, a < b), (ast.LtE, a <= b),
                             (ast.Gt, a > b), (ast.GtE, a >= b)):
                    if isinstance(op, k):
                        return f
            raise ExtractError("comparison not understood: " + ast.unparse(e)[:80])
        if isinstance(e, ast.Call) and isinstance(e.func, ast.Name) and e.func.id == "len" and "len" not in env \
                and "len" not in self.consts and "len" not in self.funcs and len(e.args) == 1 and not e.keywords:
            v = self.expr(e.args[0], env)
            if isinstance(v, (list, tuple, str)):
                return len(v)
            raise ExtractError("len() of something that is not a list / tuple / string")
        if isinstance(e, ast.Call):
            return self.call(e, env)
        raise ExtractError("expression not understood: " + ast.unparse(e)[:80])

    def call(self, e, env):
        if any(isinstance(a, ast.Starred) for a in e.args) or any(k.arg is None for k in e.keywords):
            raise ExtractError("call with * / **")
        if isinstance(e.func, ast.Name) and e.func.id in self.funcs and e.func.id not in env:
            if e.keywords:
                raise ExtractError("keyword call of a helper")
            return self.run(self.funcs[e.func.id], [self.expr(a, env) for a in e.args])
        if isinstance(e.func, ast.Attribute):
            recv = self.expr(e.func.value, env)
            args = [self.expr(a, env) for a in e.args]
            kw = {k.arg: self.expr(k.value, env) for k in e.keywords}
            if isinstance(recv, str) and e.func.attr == "format":
                if not all(isinstance(v, str) for v in list(args) + list(kw.values())):
                    raise ExtractError("str.format with a non-string argument")
                try:
                    return recv.format(*args, **kw)
                except (KeyError, IndexError, ValueError) as ex:
                    raise ExtractError(f"str.format failed: {ex}")
            if isinstance(recv, list) and e.func.attr == "append" and len(args) == 1 and not kw:
                recv.append(args[0])
                return None
            if isinstance(recv, list) and e.func.attr == "extend" and len(args) == 1 and not kw \
                    and isinstance(args[0], (list, tuple)):
                recv.extend(args[0])
                return None
            if isinstance(recv, sqlite3.Connection) and e.func.attr == "execute" and len(args) == 1 and not kw \
                    and isinstance(args[0], str):
                self.executed.append(args[0])
                try:
                    recv.execute(args[0])
                except sqlite3.Error as ex:
                    raise ExtractError(f"schema statement fails in SQLite: {ex}")
                return None
        raise ExtractError("call not understood: " + ast.unparse(e)[:80])

    # -- statements
    def block(self, stmts, env, top):
        for st in stmts:
            if isinstance(st, ast.Pass) or (isinstance(st, ast.Expr) and isinstance(st.value, ast.Constant)):
                continue
            if isinstance(st, ast.Assign) and len(st.targets) == 1:
                self.assign(st.targets[0], self.expr(st.value, env), env)
            elif isinstance(st, ast.AnnAssign) and st.value is not None and isinstance(st.target, ast.Name):
                env[st.target.id] = self.expr(st.value, env)
            elif isinstance(st, ast.AugAssign) and isinstance(st.op, ast.Add) and isinstance(st.target, ast.Name) \
                    and st.target.id in env:
                a, b = env[st.target.id], self.expr(st.value, env)
                if not (isinstance(a, str) and isinstance(b, str)):
                    raise ExtractError("`+=` on something that is not two strings")
                env[st.target.id] = a + b
            elif isinstance(st, ast.Expr) and isinstance(st.value, ast.Call):
                self.call(st.value, env)
            elif isinstance(st, ast.Assert) and st.msg is None:
                # evaluated, not skipped: on the sentinel runs (which cover every path) it has to hold
                if self.expr(st.test, env) is not True:
                    raise ExtractError("assertion does not hold on the probe run: " + ast.unparse(st.test)[:80])
            elif isinstance(st, ast.Return):
                raise _Return(None if st.value is None else self.expr(st.value, env))
            elif isinstance(st, ast.If):
                t = st.test
                if not (top and isinstance(t, ast.Compare) and isinstance(t.left, ast.Name) and len(t.ops) == 1
                        and isinstance(t.ops[0], (ast.Is, ast.IsNot)) and isinstance(t.comparators[0], ast.Constant)
                        and t.comparators[0].value is None and t.left.id in env):
                    raise ExtractError("conditional other than `<parameter> is [not] None` in SQL-building code")
                self.none_tests.add(t.left.id)
                is_none = env[t.left.id] is None
                self.block(st.body if is_none == isinstance(t.ops[0], ast.Is) else st.orelse, env, top)
            elif isinstance(st, ast.With) and len(st.items) == 1 and st.items[0].optional_vars is None \
                    and isinstance(self.expr(st.items[0].context_expr, env), sqlite3.Connection):
                with self.expr(st.items[0].context_expr, env):
                    self.block(st.body, env, top)
            elif isinstance(st, ast.For) and isinstance(st.target, ast.Name) and not st.orelse:
                seq = self.expr(st.iter, env)
                if not isinstance(seq, (list, tuple)):
                    raise ExtractError("for loop over something that is not a literal sequence")
                for v in seq:
                    env[st.target.id] = v
                    self.block(st.body, env, top)
            else:
                raise ExtractError("statement not understood: " + ast.unparse(st)[:80])

    def assign(self, target, value, env):
        if isinstance(target, ast.Name):
            env[target.id] = value
        elif isinstance(target, ast.Tuple) and all(isinstance(t, ast.Name) for t in target.elts) \
                and isinstance(value, (tuple, list)) and len(value) == len(target.elts):
            for t, v in zip(target.elts, value):
                env[t.id] = v
        else:
            raise ExtractError("assignment target not understood")

    def run(self, fn, args):
        a = fn.args
        if a.vararg or a.kwarg or a.kwonlyargs or a.posonlyargs or len(args) > len(a.args) \
                or len(args) < len(a.args) - len(a.defaults):
            raise ExtractError(f"{fn.name}: parameter list not understood")
        self.depth += 1
        if self.depth > 8:
            raise ExtractError("helper calls nest too deep")
        env = {p.arg: v for p, v in zip(a.args, args)}
        for p, d in zip(a.args[len(args):], a.defaults[len(a.defaults) - (len(a.args) - len(args)):]):
            env[p.arg] = self.expr(d, {})
        try:
            self.block(fn.body, env, self.depth == 1)
            out = None
        except _Return as r:
            out = r.value
        self.depth -= 1
        return out


# ------------------------------------------------------------------------------------------------------------
# normal form for the syntactic part
# ------------------------------------------------------------------------------------------------------------
def _single_return_helpers(tree):
    """private module-level functions whose body is one `return <expr>` over their parameters"""
    out = {}
    names = [s.name for s in tree.body if isinstance(s, (ast.FunctionDef, ast.ClassDef))]
    for st in tree.body:
        if isinstance(st, ast.FunctionDef) and st.name.startswith("_") and names.count(st.name) == 1 \
                and not st.decorator_list:
            body = _body(st)
            a = st.args
            if len(body) == 1 and isinstance(body[0], ast.Return) and body[0].value is not None and not (
                    a.vararg or a.kwarg or a.kwonlyargs or a.posonlyargs or a.defaults):
                params = [p.arg for p in a.args]
                e = body[0].value
                opaque = (ast.Lambda, ast.ListComp, ast.SetComp, ast.DictComp, ast.GeneratorExp, ast.Yield,
                          ast.YieldFrom, ast.Await, ast.NamedExpr)
                if not any(isinstance(n, opaque) for n in ast.walk(e)):
                    out[st.name] = (params, e)
    return out


class _InlineHelpers(ast.NodeTransformer):
    """f(a, b) -> body expression of f with its parameters replaced, when every argument is a plain name or
    `self.<attr>` (loads without effect, so evaluating them where the parameter is used is the same)"""

    def __init__(self, helpers, local_names):
        self.helpers, self.local_names = helpers, local_names

    def visit_Call(self, n):
        self.generic_visit(n)
        if isinstance(n.func, ast.Name) and n.func.id in self.helpers and n.func.id not in self.local_names \
                and not n.keywords:
            params, e = self.helpers[n.func.id]
            ok = len(n.args) == len(params) and all(
                isinstance(a, ast.Name) or (isinstance(a, ast.Attribute) and isinstance(a.value, ast.Name))
                for a in n.args)
            if ok:
                m = dict(zip(params, n.args))

                class Sub(ast.NodeTransformer):
                    def visit_Name(self, x):
                        return copy.deepcopy(m[x.id]) if x.id in m and isinstance(x.ctx, ast.Load) else x
                return Sub().visit(copy.deepcopy(e))
        return n


def _comp_to_loop(fn):
    """`x = [E for v in it if c]` / `return [E for v in it if c]` -> x = []; for v in it: if c: x.append(E).
    Only when the comprehension variable does not occur anywhere else in the function (it would leak otherwise)."""
    all_names = [n.id for n in ast.walk(fn) if isinstance(n, ast.Name)] + [a.arg for a in fn.args.args]
    fresh = [0]

    def usable(comp):
        if not (isinstance(comp, ast.ListComp) and len(comp.generators) == 1 and not comp.generators[0].is_async
                and isinstance(comp.generators[0].target, ast.Name)):
            return False
        v = comp.generators[0].target.id
        inside = sum(1 for n in ast.walk(comp) if isinstance(n, ast.Name) and n.id == v)
        return all_names.count(v) == inside and not any(
            isinstance(n, (ast.ListComp, ast.SetComp, ast.DictComp, ast.GeneratorExp, ast.Lambda))
            for n in ast.walk(comp) if n is not comp)

    def loop(acc, comp):
        g = comp.generators[0]
        inner = [ast.Expr(ast.Call(ast.Attribute(ast.Name(acc, ast.Load()), "append", ast.Load()), [comp.elt], []))]
        for c in reversed(g.ifs):
            inner = [ast.If(c, inner, [])]
        return [ast.Assign([ast.Name(acc, ast.Store())], ast.List([], ast.Load())),
                ast.For(ast.Name(g.target.id, ast.Store()), g.iter, inner, [])]

    def go(stmts):
        out = []
        for st in stmts:
            for f in ("body", "orelse", "finalbody"):
                if isinstance(getattr(st, f, None), list) and not isinstance(st, (ast.FunctionDef, ast.ClassDef)):
                    setattr(st, f, go(getattr(st, f)))
            tgt = None
            if isinstance(st, ast.Assign) and len(st.targets) == 1 and isinstance(st.targets[0], ast.Name):
                tgt = st.targets[0].id
            elif isinstance(st, ast.AnnAssign) and isinstance(st.target, ast.Name) and st.value is not None:
                tgt = st.target.id
            if tgt and usable(st.value) and not any(
                    isinstance(n, ast.Name) and n.id == tgt for n in ast.walk(st.value)):
                out += loop(tgt, st.value)
            elif isinstance(st, ast.Return) and st.value is not None and usable(st.value):
                while f"_acc{fresh[0]}" in all_names:
                    fresh[0] += 1
                acc = f"_acc{fresh[0]}"
                fresh[0] += 1
                out += loop(acc, st.value) + [ast.Return(ast.Name(acc, ast.Load()))]
            else:
                out.append(st)
        return out
    fn.body = go(fn.body)


def normal_form(tree):
    """pre-pass (helper inlining at expression level, comprehension -> loop) + ast_canon's normal form"""
    tree = copy.deepcopy(tree)
    helpers = _single_return_helpers(tree)
    for node in ast.walk(tree):
        if isinstance(node, ast.FunctionDef) and node.name not in helpers:
            local_names = {n.id for n in ast.walk(node) if isinstance(n, ast.Name) and isinstance(n.ctx, ast.Store)}
            local_names |= {a.arg for a in node.args.args}
            node.body = [_InlineHelpers(helpers, local_names).visit(s) for s in node.body]
            _comp_to_loop(node)
    ast.fix_missing_locations(tree)
    return ast_canon.canonical_module(tree)


def _canon_text(fn, sql_slot=None, env=None, interp=None):
    """unparsed normal-form body; the argument of the call named by sql_slot (e.g. 'executemany', 'execute' with one
    argument) is evaluated and replaced by the placeholder SQL -> (text, [evaluated sql])"""
    fn = copy.deepcopy(fn)
    sqls = []
    if sql_slot:
        for n in ast.walk(fn):
            if isinstance(n, ast.Call) and isinstance(n.func, ast.Attribute) and n.func.attr == sql_slot[0] \
                    and len(n.args) == sql_slot[1] and not n.keywords:
                v = interp.expr(n.args[0], env)
                if not isinstance(v, str):
                    raise ExtractError("SQL argument does not evaluate to a string")
                sqls.append(v)
                n.args[0] = ast.Name("SQL", ast.Load())
    return "\n".join(ast.unparse(s) for s in _body(fn)), sqls


# ------------------------------------------------------------------------------------------------------------
# the items
# ------------------------------------------------------------------------------------------------------------
def table_columns(tree):
    """run create_call_trace_table on an in-memory database and read the schema back"""
    it = _Interp(tree)
    fn = it.funcs.get("create_call_trace_table")
    if fn is None or [a.arg for a in fn.args.args] != ["conn", "table"]:
        raise ExtractError("create_call_trace_table(conn, table) not found")
    conn = sqlite3.connect(":memory:")
    try:
        for _ in range(2):                       # make_store runs it on every open: it has to be idempotent
            it.depth = 0
            it.run(fn, [conn, T_SENT])
        if conn.in_transaction:
            raise ExtractError("create_call_trace_table leaves a transaction open")
        if not any(re.match(r"CREATE TABLE IF NOT EXISTS %s \(" % T_SENT, _norm(s)) for s in it.executed):
            raise ExtractError("CREATE TABLE statement not recognised")
        master = conn.execute("SELECT type, name, tbl_name, sql FROM sqlite_master").fetchall()
        info = conn.execute(f"PRAGMA table_info({T_SENT})").fetchall()
        idx = conn.execute(f"PRAGMA index_list({T_SENT})").fetchall()
    finally:
        conn.close()
    tables = [m for m in master if m[0] == "table"]
    if [m[1] for m in tables] != [T_SENT] or any(m[0] not in ("table", "index") or m[2] != T_SENT for m in master):
        raise ExtractError("schema creates something other than one table and its indexes")
    if any(i[2] for i in idx):
        raise ExtractError("table has a UNIQUE index the model does not know")
    if re.search(r"\b(UNIQUE|TRIGGER|PRIMARY|CHECK|REFERENCES|DEFAULT|COLLATE|GENERATED|NOT\s+NULL|WITHOUT|STRICT)\b",
                 tables[0][3], flags=re.I):
        raise ExtractError("table has constraints the model does not know")
    cols = []
    for _cid, name, typ, notnull, dflt, pk in info:
        if typ != "TEXT" or notnull or dflt is not None or pk:
            raise ExtractError(f"column declaration not `<name> TEXT`: {name} {typ}")   # constraints would change semantics
        cols.append(name)
    if not cols:
        raise ExtractError("table has no columns")
    return cols


def add_shape(tree, nf):
    """-> (shape name, [attribute inserted per column]); nf = normal form of the module"""
    fn = _method(nf, "SQLiteStore", "add")
    body = _body(fn)
    if len(body) != 3:
        raise ExtractError("add: expected `values = []; for ...; with self.conn: ...`")
    init, loop, w = body
    if not (isinstance(init, ast.Assign) and isinstance(init.value, ast.List) and not init.value.elts
            and len(init.targets) == 1 and isinstance(init.targets[0], ast.Name)):
        raise ExtractError("add: first statement is not `values = []`")
    vname = init.targets[0].id
    if not (isinstance(loop, ast.For) and isinstance(loop.iter, ast.Call) and isinstance(loop.iter.func, ast.Name)
            and loop.iter.func.id == "serialize_traces" and len(loop.iter.args) == 1 and not loop.iter.keywords
            and isinstance(loop.iter.args[0], ast.Name) and len(fn.args.args) == 2
            and loop.iter.args[0].id == fn.args.args[1].arg
            and not loop.orelse and len(loop.body) == 1 and isinstance(loop.target, ast.Name)):
        raise ExtractError("add: second statement is not `for row in serialize_traces(traces): values.append(...)`")
    rname = loop.target.id
    app = loop.body[0]
    if not (isinstance(app, ast.Expr) and isinstance(app.value, ast.Call) and isinstance(app.value.func, ast.Attribute)
            and app.value.func.attr == "append" and isinstance(app.value.func.value, ast.Name)
            and app.value.func.value.id == vname and len(app.value.args) == 1 and not app.value.keywords
            and isinstance(app.value.args[0], ast.Tuple)):
        raise ExtractError("add: loop body is not values.append((...))")
    attrs = []
    for e in app.value.args[0].elts:
        if isinstance(e, ast.Attribute) and isinstance(e.value, ast.Name) and e.value.id == rname:
            attrs.append(e.attr)
        elif isinstance(e, ast.Call) and ast.unparse(e.func) == "datetime.datetime.now" and not e.args and not e.keywords:
            attrs.append("<now>")
        else:
            raise ExtractError("add: inserted value not recognised: " + ast.unparse(e))
    if not (isinstance(w, ast.With) and len(w.items) == 1 and _is_self_conn(w.items[0].context_expr)
            and w.items[0].optional_vars is None and len(w.body) == 1):
        raise ExtractError("add: third statement is not a single-statement `with self.conn:`")
    ex = w.body[0]
    if not (isinstance(ex, ast.Expr) and isinstance(ex.value, ast.Call) and isinstance(ex.value.func, ast.Attribute)
            and ex.value.func.attr == "executemany" and _is_self_conn(ex.value.func.value) and not ex.value.keywords
            and len(ex.value.args) == 2 and isinstance(ex.value.args[1], ast.Name) and ex.value.args[1].id == vname):
        raise ExtractError("add: the transaction body is not one self.conn.executemany(<sql>, values)")
    # the statement, evaluated for a store on a table with a sentinel name (it must go to THAT table)
    sql = _norm(_Interp(tree).expr(ex.value.args[0], {"self": types.SimpleNamespace(table=T_SENT)}))
    m = re.fullmatch(r"INSERT INTO %s VALUES \(((?:\?, )*\?)\)" % T_SENT, sql)
    if not m:
        raise ExtractError("add: INSERT statement not recognised: " + sql)
    if m.group(1).count("?") != len(attrs):
        raise ExtractError("add: number of placeholders differs from the value tuple")
    return "SerialiseThenOneTransaction", attrs


def serialise_shape(enc_tree):
    fn = _func(enc_tree, "serialize_traces")
    body = _body(fn)
    if not (len(body) == 1 and isinstance(body[0], ast.For) and len(body[0].body) == 1
            and isinstance(body[0].body[0], ast.Try)):
        raise ExtractError("serialize_traces: not `for trace in traces: try: ...`")
    t = body[0].body[0]
    if not (len(t.body) == 1 and isinstance(t.body[0], ast.Expr) and isinstance(t.body[0].value, ast.Yield)
            and ast.unparse(t.body[0].value.value) == f"CallTraceRow.from_trace({body[0].target.id})"
            and len(t.handlers) == 1 and isinstance(t.handlers[0].type, ast.Name)
            and t.handlers[0].type.id == "Exception" and not t.orelse and not t.finalbody):
        raise ExtractError("serialize_traces: try body/handler not recognised")
    for s in t.handlers[0].body:
        if any(isinstance(n, (ast.Raise, ast.Return, ast.Break, ast.Yield)) for n in ast.walk(s)):
            raise ExtractError("serialize_traces: the handler does more than log")
    return "SkipOnException"


# ------------------------------------------------------------------------------------------------------------
# add / serialize_traces by observation: journal of the real code on a journaling connection and trace generator
# ------------------------------------------------------------------------------------------------------------
def probe():
    """journal produced by harness/store_probe.py on the tree under test, or None when the probe cannot run there
    (then the syntactic matchers decide)"""
    import json
    import subprocess
    env = dict(os.environ)
    env["PYTHONPATH"] = common.REPO + os.pathsep + common.VERIF
    env["PYTHONHASHSEED"] = "0"
    env["PYTHONDONTWRITEBYTECODE"] = "1"
    try:
        p = subprocess.run([common.PY, "-m", "harness.store_probe"], capture_output=True, text=True, env=env,
                           timeout=120, cwd=common.VERIF)
        if p.returncode != 0:
            return None
        return json.loads(p.stdout.strip().splitlines()[-1])
    except Exception:
        return None


_ATTRS = ("module", "qualname", "arg_types", "return_type", "yield_type")


def _journal_ok(sc, what, generator=True, exit_exc=None):
    """the journal of one add(): every trace taken and the iterable exhausted, THEN one transaction holding exactly
    one executemany with one row per serialisable trace, in order; nothing else touches the connection"""
    exp = [e for e in sc["expected"] if e is not None]
    n = len(sc["expected"])
    j = sc["journal"]
    head = ([["yield", i] for i in range(n)] + [["exhausted"]]) if generator else []
    if j[:len(head)] != head or len(j) != len(head) + 3:
        raise ExtractError(f"add ({what}): the batch is not consumed completely before the one transaction: "
                           + str([x[0] for x in j])[:200])
    ent, ex, out = j[len(head):]
    if ent != ["enter"] or ex[0] != "executemany" or out != ["exit", exit_exc]:
        raise ExtractError(f"add ({what}): not __enter__ / one executemany / __exit__: " + str([x[0] for x in j])[-120:])
    sql, k, rows = ex[1], ex[2], ex[3]
    if k != len(exp):
        raise ExtractError(f"add ({what}): {k} rows inserted for {len(exp)} serialisable traces")
    m = re.fullmatch(r"INSERT INTO %s VALUES \(((?:\?, )*\?)\)" % T_SENT, _norm(sql))
    if not m:
        raise ExtractError("add: INSERT statement not recognised: " + _norm(sql))
    shown = exp if k <= 8 else [exp[0], exp[-1]]
    if len(rows) != len(shown):
        raise ExtractError(f"add ({what}): rows of the executemany do not match")
    return m.group(1).count("?"), rows, shown


def add_shape_from_probe(pr):
    nq, rows, exp = _journal_ok(pr["three"], "3 traces from a generator")
    attrs = []
    for pos in range(len(rows[0])):
        col = [r[pos] for r in rows]
        if all(v == "<now>" for v in col):
            attrs.append("<now>")
            continue
        names = [a for a in _ATTRS if all(e[a] == v for e, v in zip(exp, col))]
        if len(names) != 1:
            raise ExtractError(f"add: inserted value at position {pos} not recognised: {col[0]!r}")
        attrs.append(names[0])
    if nq != len(attrs):
        raise ExtractError("add: number of placeholders differs from the value tuple")

    def same_rows(sc, what, **kw):
        _, rs, ex = _journal_ok(sc, what, **kw)
        for r, e in zip(rs, ex):
            if r != ["<now>" if a == "<now>" else e[a] for a in attrs]:
                raise ExtractError(f"add ({what}): a row differs from its trace")
    if pr["three"]["raised"] or not pr["three"]["returned_none"]:
        raise ExtractError("add: raises / returns something")
    if pr["three_again"]["journal"] != pr["three"]["journal"]:
        raise ExtractError("add: a second add of the same traces through the same store behaves differently")
    same_rows(pr["three_list"], "3 traces in a list", generator=False)
    same_rows(pr["empty"], "empty batch")
    same_rows(pr["many"], "1201 traces")
    same_rows(pr["mixed"], "unserialisable traces in the middle, an exact duplicate")
    same_rows(pr["fails"], "executemany raising", exit_exc="OperationalError")
    if pr["fails"]["raised"] != "OperationalError":
        raise ExtractError("add: an exception of executemany does not leave add()")
    ev = pr["evil"]
    if ev["raised"] != "KeyboardInterrupt" or any(x[0] in ("enter", "executemany") for x in ev["journal"]):
        raise ExtractError("add: a BaseException during serialisation does not abort before the transaction")
    return "SerialiseThenOneTransaction", attrs


def serialise_shape_from_probe(pr):
    s = pr["serialize"]
    if not (s["is_iterator"] and s["steps"] == [[1, "Mod0"], [3, "Mod1"], [4, "Mod1"]]
            and s["logged_with_traceback"] == [True]):
        raise ExtractError("serialize_traces: not lazy / does not skip-and-log exactly the failing trace: " + str(s)[:200])
    return "SkipOnException"


def evaluated_query(tree, qualname):
    """(whitespace-normalised SQL with the table sentinel written back as {table}, parameter list) of
    make_query(<table>, <module>, qualname, <limit>) for sentinel arguments"""
    it = _Interp(tree)
    fn = it.funcs.get("make_query")
    if fn is None or [a.arg for a in fn.args.args] != ["table", "module", "qualname", "limit"]:
        raise ExtractError("make_query: unexpected parameter list")
    out = it.run(fn, [T_SENT, M_SENT, qualname, L_SENT])
    if it.none_tests - {"qualname"}:
        raise ExtractError("make_query: tests a parameter other than qualname against None")
    if not (isinstance(out, tuple) and len(out) == 2 and isinstance(out[0], str) and isinstance(out[1], list)):
        raise ExtractError("make_query: does not return (sql, values)")
    sql, values = out
    for s in (M_SENT, Q_SENT, str(L_SENT)):
        if s in sql:
            raise ExtractError("make_query: a value is pasted into the SQL text")
    if sql.count(T_SENT) != 1:
        raise ExtractError("make_query: the table name occurs other than once")
    return _norm(sql).replace(T_SENT, "{table}"), values


def query_shape(tree):
    sql0, v0 = evaluated_query(tree, None)
    sql, v1 = evaluated_query(tree, Q_SENT)
    if not re.search(r"WHERE module ==? \?", sql) or not re.search(r"WHERE module ==? \?", sql0):
        raise ExtractError("make_query: module predicate is not `module == ?`")
    if v0 != [M_SENT, L_SENT]:
        raise ExtractError("make_query: without a prefix the parameters are not [module, limit]")
    if not (len(v1) >= 2 and v1[0] == M_SENT and v1[-1] == L_SENT and all(v == Q_SENT for v in v1[1:-1])):
        raise ExtractError("make_query: parameters are not [module, qualname..., limit]")
    n_qual = len(v1) - 2
    # the qualname clause = what the prefix adds to the statement
    a, b = sql0.split(" "), sql.split(" ")
    i = 0
    while i < len(a) and i < len(b) and a[i] == b[i]:
        i += 1
    j = 0
    while j < len(a) - i and j < len(b) - i and a[len(a) - 1 - j] == b[len(b) - 1 - j]:
        j += 1
    if i + j != len(a):
        raise ExtractError("make_query: the prefix changes the statement in more than one place")
    qual_sql = " ".join(b[i:len(b) - j])
    if re.fullmatch(r"AND qualname LIKE \? \|\| '%'", qual_sql) and n_qual == 1:
        op = "LikePrefix"
    elif re.fullmatch(r"AND substr\(qualname, 1, length\(\?\)\) ==? \?", qual_sql) and n_qual == 2:
        op = "ExactPrefix"
    else:
        raise ExtractError(f"make_query: qualname operator not recognised: {qual_sql!r} with {n_qual} parameter(s)")
    if qual_sql.count("?") != n_qual:
        raise ExtractError("make_query: placeholders and parameters of the qualname clause differ")
    m = re.search(r"GROUP BY ([a-z_, ]+?) ORDER BY", sql)
    m2 = re.search(r"SELECT ([a-z_, ]+?) FROM \{table\}", sql)
    if not m or not m2:
        raise ExtractError("make_query: SELECT / GROUP BY not found")
    if not sql.endswith("LIMIT ?") or sql.count("?") != 2 + n_qual or sql0.count("?") != 2:
        raise ExtractError("make_query: LIMIT ? is not the last placeholder")
    if re.search(r"\b(COLLATE|ESCAPE|HAVING|DISTINCT|JOIN|OR|UNION|EXCEPT|INTERSECT|OFFSET)\b", sql):
        raise ExtractError("make_query: clause the model does not know")
    return op, [c.strip() for c in m2.group(1).split(",")], [c.strip() for c in m.group(1).split(",")]


_FILTER_NF = """\
_v0, _v1 = make_query(self.table, module, qualname_prefix, limit)
with self.conn:
    _v2 = self.conn.cursor()
    _v2.execute(_v0, _v1)
    _v3 = []
    for _v4 in _v2.fetchall():
        _v3.append(CallTraceRow(*_v4))
    return _v3"""


def filter_shape(nf):
    fn = _method(nf, "SQLiteStore", "filter")
    if [a.arg for a in fn.args.args] != ["self", "module", "qualname_prefix", "limit"]:
        raise ExtractError("filter: unexpected parameter list")
    text, _ = _canon_text(fn)
    if text != _FILTER_NF:
        raise ExtractError("filter: body not recognised (normal form):\n" + text)
    return "AllRowsPositional"


_LIST_MODULES_NF = """\
with self.conn:
    _v0 = self.conn.cursor()
    _v0.execute(SQL)
    _v1 = []
    for _v2 in _v0.fetchall():
%s
    return _v1"""
_LM_DROPS = "        if _v2[0]:\n            _v1.append(_v2[0])"
_LM_KEEPS = "        _v1.append(_v2[0])"


def list_modules_shape(tree, nf):
    fn = _method(nf, "SQLiteStore", "list_modules")
    text, sqls = _canon_text(fn, ("execute", 1), {"self": types.SimpleNamespace(table=T_SENT)}, _Interp(tree))
    if len(sqls) != 1:
        raise ExtractError("list_modules: expected exactly one execute(<sql>)")
    sql = _norm(sqls[0])
    if not re.fullmatch(r"SELECT module FROM %s GROUP BY module( ORDER BY date\(created_at\) DESC)?" % T_SENT, sql):
        raise ExtractError("list_modules: query not recognised: " + sql)
    if text == _LIST_MODULES_NF % _LM_DROPS:
        return True
    if text == _LIST_MODULES_NF % _LM_KEEPS:
        return False
    raise ExtractError("list_modules: body not recognised (normal form):\n" + text)


def render():
    sq = _parse("monkeytype/db/sqlite.py")
    enc = _parse("monkeytype/encoding.py")
    nf = normal_form(sq)
    cols = table_columns(sq)
    pr = probe()
    if pr is not None:          # observation of the real add() / serialize_traces(); the syntactic path is the fallback
        shape, attrs = add_shape_from_probe(pr)
        ser = serialise_shape_from_probe(pr)
    else:
        shape, attrs = add_shape(sq, nf)
        ser = serialise_shape(enc)
    if len(attrs) != len(cols):
        raise ExtractError("INSERT arity differs from the table's column count")
    op, select, group = query_shape(sq)
    L = []
    w = L.append
    w("(* GENERATED by harness/extract_store.py from monkeytype/db/sqlite.py and encoding.py. Do not edit. *)")
    w("From Coq Require Import List String.")
    w("Import ListNotations.")
    w("Open Scope string_scope.")
    w("")
    w("Definition store_table_columns : list string := [" + "; ".join(_cs(c) for c in cols) + "].")
    w("Definition store_insert_values : list string := [" + "; ".join(_cs(c) for c in attrs) + "].")
    w(f"Definition store_add_shape : string := {_cs(shape)}.")
    w(f"Definition store_serialise_shape : string := {_cs(ser)}.")
    w(f"Definition store_qualname_operator : string := {_cs(op)}.")
    w("Definition store_select_columns : list string := [" + "; ".join(_cs(c) for c in select) + "].")
    w("Definition store_group_columns : list string := [" + "; ".join(_cs(c) for c in group) + "].")
    w(f"Definition store_filter_shape : string := {_cs(filter_shape(nf))}.")
    w(f"Definition store_list_modules_drops_falsy : bool := {'true' if list_modules_shape(sq, nf) else 'false'}.")
    return "\n".join(L) + "\n"


def regenerate():
    """Returns (ok, message).  Writes only when the content changed, so make stays incremental."""
    path = os.path.join(common.COQ, "Gen", "StoreConstants.v")
    try:
        text = render()
    except (ExtractError, SyntaxError, OSError, AttributeError, KeyError, IndexError, RecursionError) as e:
        # keep the previously generated file: the proof status is reported as broken by the caller, but the
        # correspondence harness can still be built (against the last understood model) to search for a failing input
        return False, f"{type(e).__name__}: {e}"
    old = open(path).read() if os.path.exists(path) else None
    if old != text:
        os.makedirs(os.path.dirname(path), exist_ok=True)
        with open(path, "w") as f:
            f.write(text)
    return True, "ok"


if __name__ == "__main__":
    print(regenerate())
    p = os.path.join(common.COQ, "Gen", "StoreConstants.v")
    if os.path.exists(p):
        print(open(p).read())
