(* Proofs/SigUpdateFacts.v — C13: facts about the annotation-update model, for ALL signatures
   (parameter lists of any length), traced-type tables and strategies. *)
From MT Require Import Types Infer TypesFacts UnionFacts Constants SigUpdate.
From Coq Require Import Lia.
Local Open Scope list_scope.

(* ---------- the three strategies are pairwise different values (read from the regenerated table) ---------- *)
Lemma strat_replicate s : is_strat "REPLICATE" s = true ->
  is_strat "OMIT" s = false /\ is_strat "IGNORE" s = false.
Proof.
  unfold is_strat. cbn. intros H. apply Nat.eqb_eq in H. subst s. split; reflexivity.
Qed.
Lemma strat_omit s : is_strat "OMIT" s = true ->
  is_strat "REPLICATE" s = false /\ is_strat "IGNORE" s = false.
Proof.
  unfold is_strat. cbn. intros H. apply Nat.eqb_eq in H. subst s. split; reflexivity.
Qed.
Lemma strat_ignore s : is_strat "IGNORE" s = true ->
  is_strat "REPLICATE" s = false /\ is_strat "OMIT" s = false.
Proof.
  unfold is_strat. cbn. intros H. apply Nat.eqb_eq in H. subst s. split; reflexivity.
Qed.

Lemma strategies_distinct :
  (exists s, is_strat "REPLICATE" s = true) /\ (exists s, is_strat "OMIT" s = true)
  /\ (exists s, is_strat "IGNORE" s = true)
  /\ forall s, (is_strat "REPLICATE" s && is_strat "OMIT" s = false)
               /\ (is_strat "REPLICATE" s && is_strat "IGNORE" s = false)
               /\ (is_strat "OMIT" s && is_strat "IGNORE" s = false).
Proof.
  split; [|split; [|split]].
  - unfold is_strat; cbn. eexists. apply Nat.eqb_refl.
  - unfold is_strat; cbn. eexists. apply Nat.eqb_refl.
  - unfold is_strat; cbn. eexists. apply Nat.eqb_refl.
  - intros s. repeat split.
    + destruct (is_strat "REPLICATE" s) eqn:E; [|reflexivity]. apply strat_replicate in E. cbn. tauto.
    + destruct (is_strat "REPLICATE" s) eqn:E; [|reflexivity]. apply strat_replicate in E. cbn. tauto.
    + destruct (is_strat "OMIT" s) eqn:E; [|reflexivity]. apply strat_omit in E. cbn. tauto.
Qed.

(* ---------- position-wise view of upd_params ---------- *)
Lemma upd_params_nth s hs args : forall ps idx i,
  nth_error (upd_params s hs args idx ps) i =
  option_map (fun p => upd_param s (hs && Nat.eqb (idx + i) 0) (lookup_f (pname p) args) p)
             (nth_error ps i).
Proof.
  induction ps as [|p r IH]; intros idx i.
  - destruct i; reflexivity.
  - destruct i as [|i]; cbn [upd_params nth_error option_map].
    + rewrite Nat.add_0_r. reflexivity.
    + rewrite IH. replace (S idx + i) with (idx + S i) by lia. reflexivity.
Qed.

Lemma upd_params_length s hs args : forall ps idx,
  List.length (upd_params s hs args idx ps) = List.length ps.
Proof. induction ps as [|p r IH]; intros idx; cbn [upd_params List.length]; [reflexivity|]. rewrite IH. reflexivity. Qed.

(* the parameter the stub shows at position i *)
Definition out_param (s : nat) (kind : string) (sg : sig) (tr : traced) (i : nat) : option param :=
  nth_error (sparams (update_sig s kind sg tr)) i.

Definition is_receiver (kind : string) (i : nat) : bool := has_self kind && Nat.eqb i 0.

Lemma out_param_eq s kind sg tr i :
  out_param s kind sg tr i =
  option_map (fun p => upd_param s (is_receiver kind i) (lookup_f (pname p) (targs tr)) p)
             (nth_error (sparams sg) i).
Proof. unfold out_param, update_sig, is_receiver. cbn [sparams]. rewrite upd_params_nth. reflexivity. Qed.

Lemma upd_param_name s b t p : pname (upd_param s b t p) = pname p.
Proof. unfold upd_param. destruct (annotated p && is_strat "OMIT" s), (negb b && (is_strat "IGNORE" s || negb (annotated p))); reflexivity. Qed.
Lemma upd_param_kind s b t p : pk (upd_param s b t p) = pk p.
Proof. unfold upd_param. destruct (annotated p && is_strat "OMIT" s), (negb b && (is_strat "IGNORE" s || negb (annotated p))); reflexivity. Qed.
Lemma upd_param_def s b t p : pdef (upd_param s b t p) = pdef p.
Proof. unfold upd_param. destruct (annotated p && is_strat "OMIT" s), (negb b && (is_strat "IGNORE" s || negb (annotated p))); reflexivity. Qed.

(* the annotation of an updated parameter, by cases — the whole decision table in one place *)
Lemma upd_param_anno s b t p :
  panno (upd_param s b t p) =
  if negb b && (is_strat "IGNORE" s || negb (annotated p)) then option_map ATy t
  else if annotated p && is_strat "OMIT" s then None else panno p.
Proof.
  unfold upd_param.
  destruct (negb b && (is_strat "IGNORE" s || negb (annotated p))); [reflexivity|].
  destruct (annotated p && is_strat "OMIT" s); reflexivity.
Qed.

(* ---------- REPLICATE ---------- *)
Lemma replicate_args s kind sg tr i p :
  is_strat "REPLICATE" s = true -> nth_error (sparams sg) i = Some p -> is_receiver kind i = false ->
  exists o, out_param s kind sg tr i = Some o
            /\ panno o = match panno p with
                         | Some a => Some a
                         | None => option_map ATy (lookup_f (pname p) (targs tr)) end.
Proof.
  intros S H R. rewrite out_param_eq, H, R. cbn [option_map]. eexists. split; [reflexivity|].
  rewrite upd_param_anno. destruct (strat_replicate s S) as [O I]. rewrite O, I. unfold annotated.
  destruct (panno p); reflexivity.
Qed.

Lemma replicate_return s kind sg tr :
  is_strat "REPLICATE" s = true ->
  sret (update_sig s kind sg tr) = match sret sg with
                                   | Some a => Some a
                                   | None => option_map ATy (traced_return (tret tr) (tyield tr)) end.
Proof.
  intros S. destruct (strat_replicate s S) as [O I]. unfold update_sig, upd_return. cbn [sret].
  rewrite O, S. destruct (sret sg); [reflexivity|]. destruct (traced_return _ _); reflexivity.
Qed.

(* ---------- OMIT ---------- *)
Lemma omit_args s kind sg tr i p :
  is_strat "OMIT" s = true -> nth_error (sparams sg) i = Some p -> is_receiver kind i = false ->
  exists o, out_param s kind sg tr i = Some o
            /\ panno o = match panno p with
                         | Some _ => None
                         | None => option_map ATy (lookup_f (pname p) (targs tr)) end.
Proof.
  intros S H R. rewrite out_param_eq, H, R. cbn [option_map]. eexists. split; [reflexivity|].
  rewrite upd_param_anno. destruct (strat_omit s S) as [Rp I]. rewrite S, I. unfold annotated.
  destruct (panno p); reflexivity.
Qed.

Lemma omit_return s kind sg tr :
  is_strat "OMIT" s = true ->
  sret (update_sig s kind sg tr) = match sret sg with
                                   | Some _ => None
                                   | None => option_map ATy (traced_return (tret tr) (tyield tr)) end.
Proof.
  intros S. unfold update_sig, upd_return. cbn [sret]. rewrite S.
  destruct (sret sg); [reflexivity|]. destruct (traced_return _ _); reflexivity.
Qed.

(* ---------- IGNORE ---------- *)
Lemma ignore_args s kind sg tr i p t :
  is_strat "IGNORE" s = true -> nth_error (sparams sg) i = Some p -> is_receiver kind i = false ->
  lookup_f (pname p) (targs tr) = Some t ->
  exists o, out_param s kind sg tr i = Some o /\ panno o = Some (ATy t).
Proof.
  intros S H R L. rewrite out_param_eq, H, R. cbn [option_map]. eexists. split; [reflexivity|].
  rewrite upd_param_anno, S, L. reflexivity.
Qed.

Lemma ignore_return s kind sg tr t :
  is_strat "IGNORE" s = true -> traced_return (tret tr) (tyield tr) = Some t ->
  sret (update_sig s kind sg tr) = Some (ATy t).
Proof.
  intros S T. destruct (strat_ignore s S) as [Rp O]. unfold update_sig, upd_return. cbn [sret].
  rewrite T, O, Rp. destruct (sret sg); reflexivity.
Qed.

(* today's behaviour where the statement is silent: an untraced parameter LOSES its source annotation
   under IGNORE, an untraced return KEEPS it *)
Lemma ignore_untraced_arg s kind sg tr i p :
  is_strat "IGNORE" s = true -> nth_error (sparams sg) i = Some p -> is_receiver kind i = false ->
  lookup_f (pname p) (targs tr) = None ->
  exists o, out_param s kind sg tr i = Some o /\ panno o = None.
Proof.
  intros S H R L. rewrite out_param_eq, H, R. cbn [option_map]. eexists. split; [reflexivity|].
  rewrite upd_param_anno, S, L. reflexivity.
Qed.

Lemma ignore_untraced_return s kind sg tr :
  is_strat "IGNORE" s = true -> traced_return (tret tr) (tyield tr) = None ->
  sret (update_sig s kind sg tr) = sret sg.
Proof.
  intros S T. destruct (strat_ignore s S) as [Rp O]. unfold update_sig, upd_return. cbn [sret].
  rewrite T, O, Rp. destruct (sret sg); reflexivity.
Qed.

(* ---------- nothing is invented: every strategy value (declared or not), args and return ---------- *)
Lemma no_invention_args s kind sg tr i p :
  nth_error (sparams sg) i = Some p -> panno p = None -> lookup_f (pname p) (targs tr) = None ->
  exists o, out_param s kind sg tr i = Some o /\ panno o = None.
Proof.
  intros H A L. rewrite out_param_eq, H. cbn [option_map]. eexists. split; [reflexivity|].
  rewrite upd_param_anno, L, A. unfold annotated. rewrite A. cbn [andb option_map].
  destruct (negb (is_receiver kind i) && (is_strat "IGNORE" s || negb false)); reflexivity.
Qed.

Lemma no_invention_return s kind sg tr :
  sret sg = None -> tret tr = None -> tyield tr = None -> sret (update_sig s kind sg tr) = None.
Proof.
  intros A R Y. unfold update_sig, upd_return. cbn [sret]. rewrite A, R, Y. reflexivity.
Qed.

(* an output annotation is always the source annotation of that position or its traced type *)
Lemma provenance_args s kind sg tr i p o a :
  nth_error (sparams sg) i = Some p -> out_param s kind sg tr i = Some o -> panno o = Some a ->
  panno p = Some a \/ exists t, lookup_f (pname p) (targs tr) = Some t /\ a = ATy t.
Proof.
  intros H O A. rewrite out_param_eq, H in O. cbn [option_map] in O. injection O as <-.
  rewrite upd_param_anno in A.
  destruct (negb (is_receiver kind i) && (is_strat "IGNORE" s || negb (annotated p))).
  - destruct (lookup_f (pname p) (targs tr)) as [t|]; [|discriminate A].
    right. exists t. split; [reflexivity|]. cbn in A. injection A as <-. reflexivity.
  - destruct (annotated p && is_strat "OMIT" s); [discriminate A|]. left. exact A.
Qed.

(* ---------- the receiver ---------- *)
Lemma receiver_untouched s kind sg tr p :
  has_self kind = true -> nth_error (sparams sg) 0 = Some p ->
  exists o, out_param s kind sg tr 0 = Some o
            /\ panno o = if is_strat "OMIT" s then None else panno p.
Proof.
  intros HS H. rewrite out_param_eq, H. unfold is_receiver. rewrite HS. cbn [option_map Nat.eqb andb].
  eexists. split; [reflexivity|]. rewrite upd_param_anno. cbn [negb andb]. unfold annotated.
  destruct (panno p), (is_strat "OMIT" s); reflexivity.
Qed.

Lemma only_position_zero kind i : is_receiver kind (S i) = false.
Proof. unfold is_receiver. cbn. apply andb_false_r. Qed.

Lemma no_self_no_receiver kind i : has_self kind = false -> is_receiver kind i = false.
Proof. unfold is_receiver. intros ->. reflexivity. Qed.

(* which kinds have a receiver — computed from the regenerated _KIND_WITH_SELF and FunctionKind tables *)
Lemma has_self_table :
  map (fun e => (fst e, has_self (fst e))) function_kinds =
  [("MODULE", false); ("CLASS", true); ("INSTANCE", true); ("STATIC", false);
   ("PROPERTY", true); ("DJANGO_CACHED_PROPERTY", true)]%string.
Proof. reflexivity. Qed.

(* ---------- names, kinds, defaults, order, arity ---------- *)
Definition erase (p : param) : string * pkind * dflt := (pname p, pk p, pdef p).

Lemma upd_params_erase s hs args : forall ps idx,
  map erase (upd_params s hs args idx ps) = map erase ps.
Proof.
  induction ps as [|p r IH]; intros idx; cbn [upd_params map]; [reflexivity|].
  rewrite IH. unfold erase at 1. rewrite upd_param_name, upd_param_kind, upd_param_def. reflexivity.
Qed.

Lemma names_kinds_defaults_preserved s kind sg tr :
  map erase (sparams (update_sig s kind sg tr)) = map erase (sparams sg).
Proof. unfold update_sig. cbn [sparams]. apply upd_params_erase. Qed.

(* ---------- generator / return shape ---------- *)
Lemma is_none_ty_spec t : is_none_ty t = true <-> t = TCls cNone.
Proof.
  unfold is_none_ty. split.
  - destruct t; cbn; try discriminate. intros H. apply N.eqb_eq in H. subst. reflexivity.
  - intros ->. reflexivity.
Qed.

Lemma traced_return_shape rt yt :
  match yt, rt with
  | Some y, None => traced_return rt yt = Some (TIterator y)
  | Some y, Some r => (r = TCls cNone -> traced_return rt yt = Some (TIterator y))
                      /\ (r <> TCls cNone -> traced_return rt yt = Some (TGenerator y (TCls cNone) r))
  | None, Some r => traced_return rt yt = Some r
  | None, None => traced_return rt yt = None
  end.
Proof.
  destruct yt as [y|], rt as [r|]; cbn [traced_return]; try reflexivity.
  split; intros H.
  - subst r. reflexivity.
  - destruct (is_none_ty r) eqn:E; [|reflexivity]. apply is_none_ty_spec in E. contradiction.
Qed.

(* when the traces decide the return annotation (no source annotation, or IGNORE) *)
Lemma return_from_traces s kind sg tr :
  sret sg = None \/ is_strat "IGNORE" s = true ->
  sret (update_sig s kind sg tr) =
  match traced_return (tret tr) (tyield tr) with Some t => Some (ATy t) | None => sret sg end.
Proof.
  intros [A|S]; unfold update_sig, upd_return; cbn [sret].
  - rewrite A. reflexivity.
  - destruct (strat_ignore s S) as [Rp O]. rewrite O, Rp. destruct (sret sg); reflexivity.
Qed.

(* ---------- Optional[...] for a None default ---------- *)
Lemma shown_not_none_default p : pdef p <> DNone -> shown_param p = panno p.
Proof.
  unfold shown_param. intros H. destruct (panno p); [|reflexivity].
  destruct (pdef p); cbn [is_dnone]; try contradiction; rewrite andb_false_r; reflexivity.
Qed.

Lemma shown_none_default p a :
  panno p = Some a -> pdef p = DNone ->
  shown_param p = Some (if is_optional a then a else opt_wrap a).
Proof. unfold shown_param. intros -> ->. cbn [is_dnone]. rewrite andb_true_r. destruct (is_optional a); reflexivity. Qed.

Lemma shown_unannotated p : panno p = None <-> shown_param p = None.
Proof. unfold shown_param. destruct (panno p); split; intros H; try reflexivity; discriminate H. Qed.

Section OptMember.
Variable anyb : bool.
Variable sub : cls -> cls -> bool.
Notation mem := (member anyb sub).

(* Optional[t] admits exactly the values of t and None *)
Lemma opt_wrap_admits t v : wf_ty t ->
  mem v (union_mk [t; TCls cNone]) = mem v t || mem v (TCls cNone).
Proof.
  intros W.
  assert (WL : Forall wf_ty [t; TCls cNone]) by (repeat constructor; exact W).
  destruct (mem v (union_mk [t; TCls cNone])) eqn:E.
  - apply union_mk_sound in E. cbn [existsb] in E. rewrite orb_false_r in E. symmetry. exact E.
  - destruct (mem v t || mem v (TCls cNone)) eqn:F; [|reflexivity].
    assert (X : existsb (mem v) [t; TCls cNone] = true) by (cbn [existsb]; rewrite orb_false_r; exact F).
    apply (union_mk_complete anyb sub v _ WL) in X. rewrite X in E. discriminate E.
Qed.

(* an annotation that already is an Optional admits None *)
Lemma optional_admits_none ts v :
  existsb is_none_ty ts = true -> mem v (TCls cNone) = true -> mem v (TUnion ts) = true.
Proof.
  intros H M. rewrite member_TUnion. apply existsb_exists in H. destruct H as [x [Hx Nx]].
  apply is_none_ty_spec in Nx. subst x. apply existsb_exists. exists (TCls cNone). split; assumption.
Qed.
End OptMember.

(* the statement of optional_default_none, for annotations the type vocabulary expresses *)
Lemma optional_default_none p t :
  panno p = Some (ATy t) -> pdef p = DNone -> wf_ty t ->
  exists t', shown_param p = Some (ATy t')
             /\ (is_optional (ATy t) = true -> t' = t)
             /\ forall anyb sub v, member anyb sub v t' = member anyb sub v t || member anyb sub v (TCls cNone).
Proof.
  intros A D W. rewrite (shown_none_default p _ A D).
  destruct (is_optional (ATy t)) eqn:E.
  - exists t. split; [reflexivity|]. split; [reflexivity|]. intros anyb sub v.
    destruct t; cbn [is_optional] in E; try discriminate E.
    destruct (member anyb sub v (TCls cNone)) eqn:M.
    + rewrite (optional_admits_none anyb sub ts v E M). reflexivity.
    + rewrite orb_false_r. reflexivity.
  - cbn [opt_wrap]. eexists. split; [reflexivity|]. split; [discriminate|].
    intros anyb sub v. apply opt_wrap_admits. exact W.
Qed.

(* string and NewType annotations: the wrapper is Optional of the ForwardRef / of the NewType *)
Lemma optional_default_none_opaque p :
  pdef p = DNone ->
  (forall s, panno p = Some (AStr s) -> shown_param p = Some (ATy (TUnion [TFwd s; TCls cNone])))
  /\ (forall n, panno p = Some (ANewType n) -> shown_param p = Some (AOptNew n))
  /\ (forall n, panno p = Some (AOptNew n) -> shown_param p = Some (AOptNew n)).
Proof.
  intros D. repeat split; intros x A; rewrite (shown_none_default p _ A D); reflexivity.
Qed.

(* ---------- the command line ---------- *)
Lemma cli_flags_spec :
  (exists s, cli_strategy "group" [] = CliStrategy s /\ is_strat "REPLICATE" s = true)
  /\ (exists s, cli_strategy "group" ["--ignore-existing-annotations"%string] = CliStrategy s
                /\ is_strat "IGNORE" s = true)
  /\ (exists s, cli_strategy "group" ["--omit-existing-annotations"%string] = CliStrategy s
                /\ is_strat "OMIT" s = true)
  /\ cli_strategy "group" ["--ignore-existing-annotations"; "--omit-existing-annotations"]%string = CliUsageError
  /\ cli_strategy "group" ["--omit-existing-annotations"; "--ignore-existing-annotations"]%string = CliUsageError
  /\ (exists s, cli_strategy "apply_parser" [] = CliStrategy s /\ is_strat "REPLICATE" s = true)
  /\ (exists s, cli_strategy "apply_parser" ["--ignore-existing-annotations"%string] = CliStrategy s
                /\ is_strat "IGNORE" s = true)
  /\ cli_strategy "apply_parser" ["--omit-existing-annotations"%string] = CliUsageError.
Proof.
  repeat split; try reflexivity; try (eexists; split; reflexivity).
Qed.
