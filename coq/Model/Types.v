(* Model/Types.v — shared vocabulary: runtime values, types, membership,
   Python's Union[...] normalisation and == on typing objects.
   Executable definitions only; proofs live in Proofs/. *)
From Coq Require Export List Bool Arith NArith String Ascii.
Export ListNotations.
Open Scope list_scope.

Definition cls := N.
(* 0 object, 1 NoneType, 2 int, 3 str, 4 list, 5 set, 6 tuple, 7 dict, 8 defaultdict,
   9 type, 10 function, 11 generator, 12 float, 13 bool, 14 bytes, 15 complex;
   >= 16: classes numbered by the harness *)
Definition cObject : cls := 0%N.
Definition cNone : cls := 1%N.
Definition cInt : cls := 2%N.
Definition cStr : cls := 3%N.
Definition cList : cls := 4%N.
Definition cSet : cls := 5%N.
Definition cTuple : cls := 6%N.
Definition cDict : cls := 7%N.
Definition cDefaultDict : cls := 8%N.
Definition cType : cls := 9%N.
Definition cFunction : cls := 10%N.
Definition cGenerator : cls := 11%N.

Inductive value :=
| VAtom (c : cls) (payload : N)
| VStr (s : string)
| VClassObj (c : cls)
| VCallable
| VGen
| VList (es : list value)
| VSet (es : list value)
| VTuple (es : list value)
| VDict (kvs : list (value * value))
| VDefaultDict (kvs : list (value * value)).

Inductive ty :=
| TAny
| TCls (c : cls)
| TType (t : ty)
| TCallable
| TList (t : ty)
| TSet (t : ty)
| TIterator (t : ty)
| TDict (k v : ty)
| TDefaultDict (k v : ty)
| TTuple (ts : list ty)
| TTupleVar (t : ty)
| TGenerator (y s r : ty)
| TUnion (ts : list ty)
| TTypedDict (req opt : list (string * ty))
| TFwd (name : string).

Definition class_of (v : value) : cls :=
  match v with
  | VAtom c _ => c
  | VStr _ => cStr
  | VClassObj _ => cType
  | VCallable => cFunction
  | VGen => cGenerator
  | VList _ => cList
  | VSet _ => cSet
  | VTuple _ => cTuple
  | VDict _ => cDict
  | VDefaultDict _ => cDefaultDict
  end.

(* ---- class hierarchy: a finite table  cls -> mro (emitted by the harness) ---- *)
Definition hierarchy := list (cls * list cls).

Fixpoint mro_of (h : hierarchy) (c : cls) : option (list cls) :=
  match h with
  | [] => None
  | (c', m) :: r => if N.eqb c c' then Some m else mro_of r c
  end.

Definition memN (a : cls) (l : list cls) : bool := existsb (N.eqb a) l.

(* subclass h c a : issubclass(c, a) *)
Definition subclass (h : hierarchy) (c a : cls) : bool :=
  N.eqb c a || N.eqb a cObject ||
  match mro_of h c with Some m => memN a m | None => false end.

Definition has_key (k : string) (kvs : list (value * value)) : bool :=
  existsb (fun kv => match fst kv with VStr s => String.eqb s k | _ => false end) kvs.

Fixpoint lookup_str (k : string) (kvs : list (value * value)) : option value :=
  match kvs with
  | [] => None
  | (VStr s, v) :: r => if String.eqb k s then Some v else lookup_str k r
  | _ :: r => lookup_str k r
  end.

Section Member.
(* anyb: how `Any` is read.  true = the annotation reading (Any admits everything);
   false = the tight reading of an INFERRED type, where Any only ever stands for "no element was
   seen" (an empty container's element type) and therefore admits nothing. *)
Variable anyb : bool.
Variable sub : cls -> cls -> bool.

Fixpoint member (v : value) (t : ty) {struct t} : bool :=
  match t with
  | TAny => anyb
  | TCls c => sub (class_of v) c
  | TType t' => match v with
                | VClassObj c => match t' with TAny => anyb | TCls c0 => sub c c0 | _ => false end
                | _ => false end
  | TCallable => match v with VCallable => true | _ => false end
  | TList t' => match v with VList es => forallb (fun e => member e t') es | _ => false end
  | TSet t' => match v with VSet es => forallb (fun e => member e t') es | _ => false end
  | TIterator _ => match v with VGen => true | _ => false end
  | TGenerator _ _ _ => match v with VGen => true | _ => false end
  | TDict k vt => match v with
                 | VDict kvs | VDefaultDict kvs =>
                     forallb (fun kv => member (fst kv) k && member (snd kv) vt) kvs
                 | _ => false end
  | TDefaultDict k vt => match v with
                 | VDefaultDict kvs =>
                     forallb (fun kv => member (fst kv) k && member (snd kv) vt) kvs
                 | _ => false end
  | TTuple ts => match v with
                 | VTuple es => (fix go (ts : list ty) (es : list value) : bool :=
                                   match ts, es with
                                   | [], [] => true
                                   | t1 :: ts', e :: es' => member e t1 && go ts' es'
                                   | _, _ => false end) ts es
                 | _ => false end
  | TTupleVar t' => match v with VTuple es => forallb (fun e => member e t') es | _ => false end
  | TUnion ts => (fix ex (ts : list ty) : bool :=
                    match ts with [] => false | t1 :: r => member v t1 || ex r end) ts
  | TTypedDict req opt =>
      match v with
      | VDict kvs =>
          (* every item has a string key that is a declared field whose type admits the value
             (required fields are looked up first) ... *)
          forallb (fun kv =>
                     match fst kv with
                     | VStr s =>
                         (fix find (fs : list (string * ty)) : bool :=
                            match fs with
                            | f :: r => if String.eqb s (fst f) then member (snd kv) (snd f) else find r
                            | [] =>
                                (fix find2 (fs2 : list (string * ty)) : bool :=
                                   match fs2 with
                                   | f :: r => if String.eqb s (fst f) then member (snd kv) (snd f) else find2 r
                                   | [] => false
                                   end) opt
                            end) req
                     | _ => false
                     end) kvs
          (* ... and every required field is present *)
          && forallb (fun f => has_key (fst f) kvs) req
      | _ => false end
  | TFwd _ => false
  end.
End Member.

(* ---- strict structural equality ---- *)
Fixpoint ty_eqb (a b : ty) {struct a} : bool :=
  let fix leq (xs ys : list ty) : bool :=
      match xs, ys with
      | [], [] => true
      | x :: xs', y :: ys' => ty_eqb x y && leq xs' ys'
      | _, _ => false end in
  let fix feq (xs ys : list (string * ty)) : bool :=
      match xs, ys with
      | [], [] => true
      | x :: xs', y :: ys' => String.eqb (fst x) (fst y) && ty_eqb (snd x) (snd y) && feq xs' ys'
      | _, _ => false end in
  match a, b with
  | TAny, TAny => true
  | TCls c, TCls d => N.eqb c d
  | TType x, TType y => ty_eqb x y
  | TCallable, TCallable => true
  | TList x, TList y => ty_eqb x y
  | TSet x, TSet y => ty_eqb x y
  | TIterator x, TIterator y => ty_eqb x y
  | TTupleVar x, TTupleVar y => ty_eqb x y
  | TDict k v, TDict k' v' => ty_eqb k k' && ty_eqb v v'
  | TDefaultDict k v, TDefaultDict k' v' => ty_eqb k k' && ty_eqb v v'
  | TTuple xs, TTuple ys => leq xs ys
  | TGenerator a1 a2 a3, TGenerator b1 b2 b3 => ty_eqb a1 b1 && ty_eqb a2 b2 && ty_eqb a3 b3
  | TUnion xs, TUnion ys => leq xs ys
  | TTypedDict r o, TTypedDict r' o' => feq r r' && feq o o'
  | TFwd s, TFwd s' => String.eqb s s'
  | _, _ => false
  end.

(* does the type contain an (anonymous) TypedDict anywhere?  Such types hash by identity. *)
Fixpoint has_td (t : ty) : bool :=
  match t with
  | TAny | TCls _ | TCallable | TFwd _ => false
  | TType x | TList x | TSet x | TIterator x | TTupleVar x => has_td x
  | TDict k v | TDefaultDict k v => has_td k || has_td v
  | TTuple ts | TUnion ts => existsb has_td ts
  | TGenerator a b c => has_td a || has_td b || has_td c
  | TTypedDict _ _ => true
  end.

Fixpoint lookup_f (k : string) (fs : list (string * ty)) : option ty :=
  match fs with
  | [] => None
  | f :: r => if String.eqb k (fst f) then Some (snd f) else lookup_f k r
  end.

(* Python == between two distinct type objects *)
Fixpoint py_eqb (a b : ty) {struct a} : bool :=
  let fix leq (xs ys : list ty) : bool :=
      match xs, ys with
      | [], [] => true
      | x :: xs', y :: ys' => py_eqb x y && leq xs' ys'
      | _, _ => false end in
  let fix fsub (xs : list (string * ty)) (ys : list (string * ty)) : bool :=
      match xs with
      | [] => true
      | f :: xs' => match lookup_f (fst f) ys with
                    | Some y => py_eqb (snd f) y | None => false end && fsub xs' ys end in
  match a, b with
  | TAny, TAny => true
  | TCls c, TCls d => N.eqb c d
  | TType x, TType y => py_eqb x y
  | TCallable, TCallable => true
  | TList x, TList y => py_eqb x y
  | TSet x, TSet y => py_eqb x y
  | TIterator x, TIterator y => py_eqb x y
  | TTupleVar x, TTupleVar y => py_eqb x y
  | TDict k v, TDict k' v' => py_eqb k k' && py_eqb v v'
  | TDefaultDict k v, TDefaultDict k' v' => py_eqb k k' && py_eqb v v'
  | TTuple xs, TTuple ys => leq xs ys
  | TGenerator a1 a2 a3, TGenerator b1 b2 b3 => py_eqb a1 b1 && py_eqb a2 b2 && py_eqb a3 b3
  | TUnion xs, TUnion ys =>
      (* set(args) == set(args'): hash sets, whose element test is again Python == (plus equal
         hashes: a Union hashes as the frozenset of its members, so member order is immaterial at
         every depth); identity-hashed (TypedDict-bearing) members are never found *)
      forallb (fun x => negb (has_td x) && existsb (py_eqb x) ys) xs
      && forallb (fun y => negb (has_td y) && existsb (fun x => py_eqb x y) xs) ys
  | TTypedDict r o, TTypedDict r' o' =>
      Nat.eqb (List.length r) (List.length r') && fsub r r'
      && Nat.eqb (List.length o) (List.length o') && fsub o o'
  | TFwd s, TFwd s' => String.eqb s s'
  | _, _ => false
  end.

(* ---- Union[...] : flatten one level, hash-set dedup keeping first occurrences, collapse singleton ---- *)
Definition flatten (ts : list ty) : list ty :=
  flat_map (fun t => match t with TUnion us => us | _ => [t] end) ts.

Fixpoint dedup (seen ts : list ty) : list ty :=
  match ts with
  | [] => []
  | t :: r => if negb (has_td t) && existsb (py_eqb t) seen then dedup seen r
              else t :: dedup (t :: seen) r
  end.

Definition union_mk (ts : list ty) : ty :=
  match dedup [] (flatten ts) with [t] => t | l => TUnion l end.

(* ---- correspondence relation used by the check: union members as multisets (by removal),
        TypedDict fields as finite maps ---- *)
Fixpoint corrb (a b : ty) {struct a} : bool :=
  let fix leq (xs ys : list ty) : bool :=
      match xs, ys with
      | [], [] => true
      | x :: xs', y :: ys' => corrb x y && leq xs' ys'
      | _, _ => false end in
  let fix perm (xs : list ty) (ys : list ty) : bool :=
      match xs with
      | [] => match ys with [] => true | _ => false end
      | x :: xs' =>
          match (fix rm (ys : list ty) : option (list ty) :=
                   match ys with
                   | [] => None
                   | y :: r => if corrb x y then Some r else option_map (cons y) (rm r) end) ys with
          | Some ys' => perm xs' ys'
          | None => false end
      end in
  let fix fsub (xs : list (string * ty)) (ys : list (string * ty)) : bool :=
      match xs with
      | [] => true
      | f :: xs' => match lookup_f (fst f) ys with
                    | Some y => corrb (snd f) y | None => false end && fsub xs' ys end in
  match a, b with
  | TAny, TAny => true
  | TCls c, TCls d => N.eqb c d
  | TType x, TType y => corrb x y
  | TCallable, TCallable => true
  | TList x, TList y => corrb x y
  | TSet x, TSet y => corrb x y
  | TIterator x, TIterator y => corrb x y
  | TTupleVar x, TTupleVar y => corrb x y
  | TDict k v, TDict k' v' => corrb k k' && corrb v v'
  | TDefaultDict k v, TDefaultDict k' v' => corrb k k' && corrb v v'
  | TTuple xs, TTuple ys => leq xs ys
  | TGenerator a1 a2 a3, TGenerator b1 b2 b3 => corrb a1 b1 && corrb a2 b2 && corrb a3 b3
  | TUnion xs, TUnion ys => perm xs ys
  | TTypedDict r o, TTypedDict r' o' =>
      Nat.eqb (List.length r) (List.length r') && fsub r r'
      && Nat.eqb (List.length o) (List.length o') && fsub o o'
  | TFwd s, TFwd s' => String.eqb s s'
  | _, _ => false
  end.

(* ---- nesting depth, used as fuel ---- *)
Fixpoint depth (t : ty) : nat :=
  match t with
  | TAny | TCls _ | TCallable | TFwd _ => 0
  | TType x | TList x | TSet x | TIterator x | TTupleVar x => S (depth x)
  | TDict k v | TDefaultDict k v => S (Nat.max (depth k) (depth v))
  | TTuple ts | TUnion ts => S (fold_right (fun x n => Nat.max (depth x) n) 0 ts)
  | TGenerator a b c => S (Nat.max (depth a) (Nat.max (depth b) (depth c)))
  | TTypedDict r o =>
      S (Nat.max (fold_right (fun f n => Nat.max (depth (snd f)) n) 0 r)
                 (fold_right (fun f n => Nat.max (depth (snd f)) n) 0 o))
  end.

Definition depth_list (ts : list ty) : nat := fold_right (fun x n => Nat.max (depth x) n) 0 ts.

Definition is_td (t : ty) : bool := match t with TTypedDict _ _ => true | _ => false end.
Definition is_tlist (t : ty) : bool := match t with TList _ => true | _ => false end.
Definition is_tdict (t : ty) : bool := match t with TDict _ _ => true | _ => false end.
Definition is_ttuple (t : ty) : bool := match t with TTuple _ => true | _ => false end.
Definition is_tcls (t : ty) : bool := match t with TCls _ => true | _ => false end.
Definition is_tany (t : ty) : bool := match t with TAny => true | _ => false end.
