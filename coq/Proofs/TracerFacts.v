(* Proofs/TracerFacts.v — the call tracer state machine: faithfulness to the reference monitor, the per-frame
   projection, exactly-once / no-residue, and the sampling theorems. *)
From Coq Require Import Lia.
From MT Require Import Types Tracer.
Arguments gated : simpl never.

(* ---------- association lists ---------- *)
Lemma lookup_remove_eq {A} f (l : list (N * A)) : lookup f (remove f l) = None.
Proof. induction l as [|[g x] l IH]; cbn; [reflexivity|]. destruct (N.eqb f g) eqn:E; [exact IH|]. cbn. rewrite E. exact IH. Qed.
Lemma lookup_remove_neq {A} f g (l : list (N * A)) : N.eqb f g = false -> lookup f (remove g l) = lookup f l.
Proof.
  intros Hn. induction l as [|[h x] l IH]; cbn; [reflexivity|].
  destruct (N.eqb g h) eqn:E.
  - apply N.eqb_eq in E. subst h. rewrite Hn. exact IH.
  - cbn. destruct (N.eqb f h); [reflexivity|exact IH].
Qed.
Lemma lookup_update_eq {A} f (x : A) l : lookup f (update f x l) = Some x.
Proof. unfold update. cbn. rewrite N.eqb_refl. reflexivity. Qed.
Lemma lookup_update_neq {A} f g (x : A) l : N.eqb f g = false -> lookup f (update g x l) = lookup f l.
Proof. intros Hn. unfold update. cbn. rewrite Hn. apply lookup_remove_neq. exact Hn. Qed.

(* ---------- the extracted constants are the ones the model was written for ---------- *)
Lemma handle_call_order_modelled :
  tr_handle_call_steps = ["sample"; "lookup"; "unresolved_return"; "resumed_return"; "argnames"; "bind"; "store"]%string.
Proof. reflexivity. Qed.
Lemma call_gates_modelled : tr_call_gates = ["unsupported_event"; "filter_rejects"]%string.
Proof. reflexivity. Qed.
(* with today's gates: a call is gated iff the code filter rejects its code object, whatever its name *)
Lemma gated_iff_rejected c : gated c = negb (c_admit c).
Proof. reflexivity. Qed.

Lemma is_yield_op_iff op : is_op tr_yield_ops op = String.eqb op op_yield.
Proof. unfold is_op, tr_yield_ops, op_yield. cbn. apply orb_false_r. Qed.
Lemma is_return_op_iff op : is_op tr_return_ops op = String.eqb op op_retv || String.eqb op op_retc.
Proof. unfold is_op, tr_return_ops, op_retv, op_retc. cbn. rewrite orb_false_r. reflexivity. Qed.
Lemma yield_guard_on : tr_yield_skips_coroutines = true.
Proof. reflexivity. Qed.

(* ---------- one step of the tracer = one step of the reference monitor, on consistent events ---------- *)
Lemma handle_return_faithful s f c sm op a :
  consistent c sm op = true -> handle_return s f c op a = spec_return s f sm a.
Proof.
  unfold handle_return, spec_return, consistent. intros Hc.
  destruct (lookup f (live s)) as [t|]; [|reflexivity].
  rewrite is_yield_op_iff, is_return_op_iff, yield_guard_on.
  destruct sm.
  - apply andb_prop in Hc. destruct Hc as [H1 H2]. rewrite H1. apply negb_true_iff in H2. rewrite H2. reflexivity.
  - apply andb_prop in Hc. destruct Hc as [H1 H2]. rewrite H1, H2. reflexivity.
  - assert (String.eqb op op_yield = false) as Hy.
    { apply orb_prop in Hc. destruct Hc as [H|H]; apply String.eqb_eq in H; subst op; reflexivity. }
    rewrite Hy, Hc. reflexivity.
  - apply andb_prop in Hc. destruct Hc as [Hc H3]. apply andb_prop in Hc. destruct Hc as [H1 H2].
    apply negb_true_iff in H1, H2, H3. rewrite H1, H2, H3. reflexivity.
Qed.

Lemma step_faithful rate s e :
  sampling rate = false -> ev_consistent e = true -> step rate s e = spec_step s e.
Proof.
  intros Hs Hc. destruct e as [f c args d|f c sm op a|f c]; cbn [step spec_step]; [| |reflexivity].
  - destruct (gated c); [reflexivity|]. unfold handle_call, skipped_by_sampling. rewrite Hs. reflexivity.
  - destruct (gated c); [reflexivity|]. apply handle_return_faithful. exact Hc.
Qed.

Lemma fold_faithful rate H : forall s,
  sampling rate = false -> forallb ev_consistent H = true -> fold_left (step rate) H s = fold_left spec_step H s.
Proof.
  induction H as [|e H IH]; intros s Hs Hc; [reflexivity|].
  cbn in Hc. apply andb_prop in Hc. destruct Hc as [He Hr]. cbn [fold_left].
  rewrite (step_faithful rate s e Hs He). apply IH; assumption.
Qed.

Lemma run_faithful rate H :
  sampling rate = false -> forallb ev_consistent H = true -> run rate H = spec_run H.
Proof. intros. unfold run, spec_run. apply fold_faithful; assumption. Qed.

(* ---------- the log is append-only and grows only at completion events ---------- *)
Lemma step_log rate s e :
  logged (step rate s e) = logged s \/
  exists f c sm op a t, e = EvReturn f c sm op a /\ is_op tr_yield_ops op = false /\ lookup f (live s) = Some t
                        /\ logged (step rate s e) = (f, if is_op tr_return_ops op then with_ret t a else t) :: logged s.
Proof.
  destruct e as [f c args d|f c sm op a|f c]; cbn [step]; [| |left; reflexivity].
  - destruct (gated c); [left; reflexivity|]. unfold handle_call.
    destruct (skipped_by_sampling rate d); [left; reflexivity|].
    destruct (c_func c); [|left; reflexivity]. destruct (lookup f (live s)); left; reflexivity.
  - destruct (gated c); [left; reflexivity|]. unfold handle_return.
    destruct (lookup f (live s)) as [t|] eqn:L; [|left; reflexivity].
    destruct (is_op tr_yield_ops op) eqn:Y.
    + destruct (tr_yield_skips_coroutines && c_coroutine c); left; reflexivity.
    + right. exists f, c, sm, op, a, t. repeat split; try assumption.
Qed.

Lemma log_append_only rate H2 : forall s, exists new, logged (fold_left (step rate) H2 s) = new ++ logged s.
Proof.
  induction H2 as [|e H IH]; intros s; [exists []; reflexivity|].
  cbn [fold_left]. destruct (IH (step rate s e)) as [new Hn]. rewrite Hn.
  destruct (step_log rate s e) as [E|(f & c & sm & op & a & t & _ & _ & _ & E)]; rewrite E.
  - exists new. reflexivity.
  - exists (new ++ [(f, if is_op tr_return_ops op then with_ret t a else t)]). rewrite <- app_assoc. reflexivity.
Qed.

(* ---------- the per-frame projection ---------- *)
Lemma logged_for_cons f g t s lv :
  logged_for f (TState lv ((g, t) :: logged s)) = (if N.eqb g f then [t] else []) ++ logged_for f (TState lv (logged s)).
Proof. unfold logged_for. cbn. destruct (N.eqb g f); reflexivity. Qed.

Lemma logged_for_live_irrelevant f lv1 lv2 lg : logged_for f (TState lv1 lg) = logged_for f (TState lv2 lg).
Proof. reflexivity. Qed.

Lemma proj_step rate s e f :
  lookup f (live (step rate s e)) =
    (if N.eqb (ev_frame e) f then fst (pf_step rate (lookup f (live s)) e) else lookup f (live s))
  /\ logged_for f (step rate s e) =
    (if N.eqb (ev_frame e) f then snd (pf_step rate (lookup f (live s)) e) else []) ++ logged_for f s.
Proof.
  destruct e as [g c args d|g c sm op a|g c]; cbn [step ev_frame pf_step].
  - destruct (gated c); [destruct (N.eqb g f); split; reflexivity|].
    unfold handle_call. destruct (skipped_by_sampling rate d); [destruct (N.eqb g f); split; reflexivity|].
    destruct (c_func c) as [fn|]; [|destruct (N.eqb g f); split; reflexivity].
    destruct (N.eqb g f) eqn:E.
    + apply N.eqb_eq in E. subst g. destruct (lookup f (live s)) eqn:L; cbn.
      * rewrite L. split; reflexivity.
      * rewrite N.eqb_refl. split; reflexivity.
    + destruct (lookup g (live s)); cbn; [split; reflexivity|].
      rewrite N.eqb_sym in E. rewrite E. split; reflexivity.
  - destruct (gated c); [destruct (N.eqb g f); split; reflexivity|].
    unfold handle_return. destruct (N.eqb g f) eqn:E.
    + apply N.eqb_eq in E. subst g. destruct (lookup f (live s)) as [t|] eqn:L; [|rewrite L; split; reflexivity].
      destruct (is_op tr_yield_ops op).
      * destruct (tr_yield_skips_coroutines && c_coroutine c); cbn [live fst snd]; [rewrite L; split; reflexivity|].
        rewrite lookup_update_eq. split; reflexivity.
      * cbn [live fst snd]. rewrite lookup_remove_eq. split; [reflexivity|].
        rewrite logged_for_cons, N.eqb_refl. reflexivity.
    + assert (N.eqb f g = false) as E' by (rewrite N.eqb_sym; exact E).
      destruct (lookup g (live s)) as [t|] eqn:L; [|split; reflexivity].
      destruct (is_op tr_yield_ops op).
      * destruct (tr_yield_skips_coroutines && c_coroutine c); cbn [live fst snd]; [split; reflexivity|].
        rewrite lookup_update_neq by exact E'. split; reflexivity.
      * cbn [live]. rewrite lookup_remove_neq by exact E'. split; [reflexivity|].
        rewrite logged_for_cons, E. reflexivity.
  - destruct (N.eqb g f); split; reflexivity.
Qed.

Lemma pf_run_proj rate H : forall s f,
  lookup f (live (fold_left (step rate) H s)) = fst (pf_run rate (lookup f (live s)) (proj f H))
  /\ logged_for f (fold_left (step rate) H s) = snd (pf_run rate (lookup f (live s)) (proj f H)) ++ logged_for f s.
Proof.
  induction H as [|e H IH]; intros s f; [split; reflexivity|].
  cbn [fold_left]. destruct (IH (step rate s e) f) as [I1 I2]. destruct (proj_step rate s e f) as [P1 P2].
  unfold proj in *. cbn [filter]. destruct (N.eqb (ev_frame e) f) eqn:E.
  - cbn [pf_run]. rewrite I1, I2, P1, P2.
    destruct (pf_step rate (lookup f (live s)) e) as [st1 out1]. cbn [fst snd].
    destruct (pf_run rate st1 (filter (fun e0 => N.eqb (ev_frame e0) f) H)) as [st2 out2]. cbn [fst snd].
    split; [reflexivity|]. rewrite app_assoc. reflexivity.
  - rewrite I1, I2, P1, P2. split; reflexivity.
Qed.

Lemma run_proj rate H f :
  lookup f (live (run rate H)) = fst (pf_run rate None (proj f H))
  /\ logged_for f (run rate H) = snd (pf_run rate None (proj f H)).
Proof.
  unfold run. destruct (pf_run_proj rate H init f) as [A B]. split; [exact A|].
  rewrite B. cbn. apply app_nil_r.
Qed.

(* ---------- one frame ---------- *)
Lemma code_eqb_eq a b : code_eqb a b = true -> a = b.
Proof.
  destruct a as [i1 t1 a1 f1 k1], b as [i2 t2 a2 f2 k2]. unfold code_eqb. cbn. intros H.
  repeat (apply andb_prop in H; destruct H as [H ?]).
  apply N.eqb_eq in H. apply Bool.eqb_prop in H3, H2. subst.
  assert (f1 = f2) as ->.
  { destruct f1, f2; try discriminate; [apply N.eqb_eq in H1; subst|]; reflexivity. }
  assert (k1 = k2) as -> by (destruct k1, k2; try discriminate; reflexivity).
  reflexivity.
Qed.

Definition only_other (es : list ev) : bool := forallb (fun e => match e with EvOther _ _ => true | _ => false end) es.

Lemma pf_run_only_other rate st es : only_other es = true -> pf_run rate st es = (st, []).
Proof.
  induction es as [|e r IH]; intros H; [reflexivity|]. cbn in H. apply andb_prop in H. destruct H as [He Hr].
  destruct e; try discriminate. cbn [pf_run pf_step]. rewrite (IH Hr). reflexivity.
Qed.
Lemma final_of_only_other es : only_other es = true -> final_of es = None.
Proof. induction es as [|e r IH]; intros H; [reflexivity|]. cbn in H. apply andb_prop in H. destruct H. destruct e; try discriminate. cbn. auto. Qed.
Lemma yields_of_only_other acc es : only_other es = true -> yields_of acc es = acc.
Proof. revert acc. induction es as [|e r IH]; intros acc H; [reflexivity|]. cbn in H. apply andb_prop in H. destruct H. destruct e; try discriminate. cbn. auto. Qed.

(* a frame whose code is gated or unresolvable never leaves anything *)
Definition untraceable (c : code) : bool := gated c || match c_func c with None => true | Some _ => false end.

Lemma pf_run_untraceable rate c b es :
  untraceable c = true -> wf_frame_from c b es = true -> pf_run rate None es = (None, []).
Proof.
  intros U. revert b. induction es as [|e r IH]; intros b W; [reflexivity|].
  destruct e as [g c' args d|g c' sm op a|g c']; cbn [wf_frame_from] in W.
  - apply andb_prop in W. destruct W as [W Wr]. apply andb_prop in W. destruct W as [_ Ec].
    apply code_eqb_eq in Ec. subst c'. cbn [pf_run pf_step].
    unfold untraceable in U. destruct (gated c); [rewrite (IH _ Wr); reflexivity|]. cbn in U.
    destruct (skipped_by_sampling rate d); [rewrite (IH _ Wr); reflexivity|].
    destruct (c_func c); [discriminate|]. rewrite (IH _ Wr). reflexivity.
  - apply andb_prop in W. destruct W as [W Wr]. apply andb_prop in W. destruct W as [_ Ec].
    apply code_eqb_eq in Ec. subst c'. cbn [pf_run pf_step].
    assert (pf_run rate None r = (None, [])) as R.
    { destruct (is_final sm); [apply pf_run_only_other; exact Wr|apply (IH _ Wr)]. }
    destruct (gated c); rewrite R; reflexivity.
  - apply andb_prop in W. destruct W as [_ Wr]. cbn [pf_run pf_step]. rewrite (IH _ Wr). reflexivity.
Qed.

(* the running / suspended part of a traceable frame, sampling off *)
Definition acc_yield (acc : option ty) (a : ty) : option ty :=
  match acc with None => Some a | Some y => Some (union_mk [y; a]) end.

Lemma pf_run_started rate c fn es : forall b t,
  gated c = false -> c_func c = Some fn ->
  wf_frame_from c b es = true -> forallb ev_consistent es = true ->
  pf_run rate (Some t) es =
    match final_of es with
    | None => (Some (Trace (t_func t) (t_args t) (t_ret t) (yields_of (t_yield t) es)), [])
    | Some (sm, a) =>
        (None, [Trace (t_func t) (t_args t) (match sm with SReturn => Some a | _ => t_ret t end)
                      (yields_of (t_yield t) es)])
    end.
Proof.
  intros b t G F. revert b t. induction es as [|e r IH]; intros b t W C.
  - cbn. destruct t; reflexivity.
  - cbn [forallb] in C. apply andb_prop in C. destruct C as [Ce Cr].
    destruct e as [g c' args d|g c' sm op a|g c']; cbn [wf_frame_from] in W.
    + apply andb_prop in W. destruct W as [W Wr]. apply andb_prop in W. destruct W as [_ Ec].
      apply code_eqb_eq in Ec. subst c'. cbn [pf_run pf_step final_of yields_of]. rewrite G, F.
      destruct (skipped_by_sampling rate d);
        rewrite (IH _ t Wr Cr); destruct (final_of r) as [[sm a]|]; reflexivity.
    + apply andb_prop in W. destruct W as [W Wr]. apply andb_prop in W. destruct W as [_ Ec].
      apply code_eqb_eq in Ec. subst c'. cbn [ev_consistent] in Ce. cbn [pf_run pf_step]. rewrite G.
      rewrite is_yield_op_iff, is_return_op_iff, yield_guard_on. unfold consistent in Ce.
      destruct sm; cbn [is_final] in Wr; cbn [final_of yields_of is_final].
      * apply andb_prop in Ce. destruct Ce as [H1 H2]. apply negb_true_iff in H2. rewrite H1, H2. cbn [andb].
        rewrite (IH _ (with_yield t a) Wr Cr). cbn [with_yield t_func t_args t_ret t_yield].
        destruct (final_of r) as [[sm' a']|]; rewrite app_nil_r; reflexivity.
      * apply andb_prop in Ce. destruct Ce as [H1 H2]. rewrite H1, H2. cbn [andb].
        rewrite (IH _ t Wr Cr). destruct (final_of r) as [[sm' a']|]; rewrite app_nil_r; reflexivity.
      * assert (String.eqb op op_yield = false) as Hy.
        { apply orb_prop in Ce. destruct Ce as [H|H]; apply String.eqb_eq in H; subst op; reflexivity. }
        rewrite Hy, Ce. rewrite (pf_run_only_other _ _ _ Wr), (yields_of_only_other _ _ Wr). reflexivity.
      * apply andb_prop in Ce. destruct Ce as [Ce H3]. apply andb_prop in Ce. destruct Ce as [H1 H2].
        apply negb_true_iff in H1, H2, H3. rewrite H1, H2, H3. cbn [orb].
        rewrite (pf_run_only_other _ _ _ Wr), (yields_of_only_other _ _ Wr). destruct t; reflexivity.
    + apply andb_prop in W. destruct W as [_ Wr]. cbn [pf_run pf_step final_of yields_of].
      rewrite (IH _ t Wr Cr). destruct (final_of r) as [[sm a]|]; rewrite ?app_nil_r; reflexivity.
Qed.

(* is the frame's FIRST call event taken (not skipped by sampling)? *)
Definition first_taken (rate : option nat) (es : list ev) : bool :=
  match first_draw es with Some d => negb (skipped_by_sampling rate d) | None => true end.

(* leading unsupported events before the first call *)
Lemma frame_faithful_from rate c es :
  first_taken rate es = true -> wf_frame_from c true es = true -> forallb ev_consistent es = true ->
  (forall c' args, first_call es = Some (c', args) -> c' = c) ->
  snd (pf_run rate None es) = expected_frame es
  /\ (match fst (pf_run rate None es) with Some _ => true | None => false end) = pending_frame es.
Proof.
  induction es as [|e r IH]; intros Hs W C FC; [split; reflexivity|].
  cbn [forallb] in C. apply andb_prop in C. destruct C as [Ce Cr].
  destruct e as [g c' args d|g c' sm op a|g c']; cbn [wf_frame_from] in W.
  - apply andb_prop in W. destruct W as [W Wr]. apply andb_prop in W. destruct W as [_ Ec].
    apply code_eqb_eq in Ec. subst c'.
    unfold expected_frame, pending_frame. cbn [first_call pf_run pf_step].
    destruct (gated c) eqn:G.
    { rewrite (pf_run_untraceable rate c false r); [split; reflexivity| |exact Wr]. unfold untraceable. rewrite G. reflexivity. }
    unfold first_taken in Hs. cbn in Hs. apply negb_true_iff in Hs. rewrite Hs.
    destruct (c_func c) as [fn|] eqn:F.
    2:{ rewrite (pf_run_untraceable rate c false r); [split; reflexivity| |exact Wr]. unfold untraceable. rewrite F. apply orb_true_r. }
    rewrite (pf_run_started rate c fn r false (Trace fn args None None) G F Wr Cr).
    cbn [t_func t_args t_ret t_yield final_of yields_of negb andb].
    destruct (final_of r) as [[sm a]|]; cbn [fst snd app]; split; try reflexivity; destruct sm; reflexivity.
  - cbn in W. discriminate W.
  - apply andb_prop in W. destruct W as [_ Wr].
    cbn [pf_run pf_step]. unfold expected_frame, pending_frame in *. cbn [first_call final_of yields_of].
    assert (forall c'0 args, first_call r = Some (c'0, args) -> c'0 = c) as FC' by (intros; eapply FC; cbn; eassumption).
    assert (first_taken rate r = true) as Hs' by exact Hs.
    destruct (IH Hs' Wr Cr FC') as [I1 I2].
    destruct (pf_run rate None r) as [st out]. cbn [fst snd] in *. rewrite app_nil_r. split; assumption.
Qed.

Lemma first_call_code_of_wf c es c' args :
  wf_frame_from c true es = true -> first_call es = Some (c', args) -> c' = c.
Proof.
  induction es as [|e r IH]; intros W F; [discriminate|].
  destruct e as [g c2 a2 d|g c2 sm op a|g c2]; cbn [wf_frame_from first_call] in *.
  - injection F as <- _. apply andb_prop in W. destruct W as [W _]. apply andb_prop in W. destruct W as [_ E].
    apply code_eqb_eq in E. exact E.
  - discriminate.
  - apply andb_prop in W. destruct W as [_ W]. apply IH; assumption.
Qed.

Theorem frame_faithful_taken rate es :
  first_taken rate es = true -> wf_frame es = true -> forallb ev_consistent es = true ->
  snd (pf_run rate None es) = expected_frame es
  /\ (match fst (pf_run rate None es) with Some _ => true | None => false end) = pending_frame es.
Proof.
  intros Hs W C. destruct es as [|e r]; [split; reflexivity|].
  unfold wf_frame in W. apply (frame_faithful_from rate (ev_code e)); try assumption.
  intros c' args. apply first_call_code_of_wf. exact W.
Qed.

Lemma first_taken_off rate es : sampling rate = false -> first_taken rate es = true.
Proof. intros Hs. unfold first_taken, skipped_by_sampling. rewrite Hs. destruct (first_draw es); reflexivity. Qed.

Theorem frame_faithful rate es :
  sampling rate = false -> wf_frame es = true -> forallb ev_consistent es = true ->
  snd (pf_run rate None es) = expected_frame es
  /\ (match fst (pf_run rate None es) with Some _ => true | None => false end) = pending_frame es.
Proof. intros Hs. apply frame_faithful_taken. apply first_taken_off. exact Hs. Qed.

(* ---------- histories ---------- *)
Lemma proj_nil_not_in f H : existsb (N.eqb f) (frames_of H) = false -> proj f H = [].
Proof.
  induction H as [|e r IH]; intros Hn; [reflexivity|]. cbn [frames_of] in Hn. unfold proj in *. cbn [filter].
  destruct (existsb (N.eqb (ev_frame e)) (frames_of r)) eqn:E.
  - destruct (N.eqb (ev_frame e) f) eqn:Ef.
    + apply N.eqb_eq in Ef. subst f. rewrite E in Hn. discriminate.
    + apply IH. exact Hn.
  - cbn in Hn. apply orb_false_elim in Hn. destruct Hn as [H1 H2].
    rewrite N.eqb_sym in H1. rewrite H1. apply IH. exact H2.
Qed.

Lemma wf_history_frame H f : wf_history H = true -> wf_frame (proj f H) = true /\ forallb ev_consistent (proj f H) = true.
Proof.
  unfold wf_history. intros W. apply andb_prop in W. destruct W as [W C]. split.
  - destruct (existsb (N.eqb f) (frames_of H)) eqn:E.
    + apply existsb_exists in E. destruct E as [g [Hin Hg]]. apply N.eqb_eq in Hg. subst g.
      rewrite forallb_forall in W. apply W. exact Hin.
    + rewrite (proj_nil_not_in f H E). reflexivity.
  - unfold proj. rewrite forallb_forall in *. intros e He. apply filter_In in He. apply C. apply He.
Qed.

Theorem tracer_log_faithful_frame rate H f :
  sampling rate = false -> wf_history H = true ->
  logged_for f (run rate H) = expected_frame (proj f H).
Proof.
  intros Hs W. destruct (wf_history_frame H f W) as [Wf Cf]. destruct (run_proj rate H f) as [_ B].
  rewrite B. apply (frame_faithful rate _ Hs Wf Cf).
Qed.

Theorem tracer_no_residue_frame rate H f :
  sampling rate = false -> wf_history H = true ->
  (match lookup f (live (run rate H)) with Some _ => true | None => false end) = pending_frame (proj f H).
Proof.
  intros Hs W. destruct (wf_history_frame H f W) as [Wf Cf]. destruct (run_proj rate H f) as [A _].
  rewrite A. apply (frame_faithful rate _ Hs Wf Cf).
Qed.

Lemma expected_frame_le1 es : List.length (expected_frame es) <= 1.
Proof.
  unfold expected_frame. destruct (first_call es) as [[c args]|]; [|cbn; lia].
  destruct (gated c); [cbn; lia|]. destruct (c_func c); [|cbn; lia]. destruct (final_of es) as [[sm a]|]; cbn; lia.
Qed.

(* ---------- sampling (C18) ---------- *)
Lemma step_rate_off rate s e : sampling rate = false -> step rate s e = step None s e.
Proof.
  intros Hs. destruct e as [f c args d|f c sm op a|f c]; cbn [step]; try reflexivity.
  destruct (gated c); [reflexivity|]. unfold handle_call, skipped_by_sampling. rewrite Hs. reflexivity.
Qed.

Definition ev_draw_zero (e : ev) : bool := match e with EvCall _ _ _ d => Nat.eqb d 0 | _ => true end.

Lemma step_draw_zero rate s e : ev_draw_zero e = true -> step rate s e = step None s e.
Proof.
  intros Hd. destruct e as [f c args d|f c sm op a|f c]; cbn [step]; try reflexivity.
  destruct (gated c); [reflexivity|]. unfold handle_call, skipped_by_sampling. cbn in Hd. rewrite Hd.
  rewrite andb_false_r. reflexivity.
Qed.

Lemma fold_draw_zero rate H : forall s, forallb ev_draw_zero H = true -> fold_left (step rate) H s = fold_left (step None) H s.
Proof.
  induction H as [|e r IH]; intros s Hd; [reflexivity|]. cbn in Hd. apply andb_prop in Hd. destruct Hd as [He Hr].
  cbn [fold_left]. rewrite (step_draw_zero rate s e He). apply IH. exact Hr.
Qed.

(* randrange(1) is always 0: with rate 1 every draw is 0 *)
Definition draws_below (n : nat) (H : list ev) : bool :=
  forallb (fun e => match e with EvCall _ _ _ d => Nat.ltb d n | _ => true end) H.

Theorem rate_one_traces_all H : draws_below 1 H = true -> run (Some 1) H = run None H.
Proof.
  intros Hd. unfold run. apply fold_draw_zero. unfold draws_below in Hd. rewrite forallb_forall in *.
  intros e He. specialize (Hd e He). destruct e; try reflexivity. cbn. apply Nat.ltb_lt in Hd.
  apply Nat.eqb_eq. lia.
Qed.

Theorem rate_unset_traces_all rate H : sampling rate = false -> run rate H = run None H.
Proof.
  intros Hs. unfold run. generalize init. induction H as [|e r IH]; intros s; [reflexivity|].
  cbn [fold_left]. rewrite (step_rate_off rate s e Hs). apply IH.
Qed.

(* a frame none of whose call events drew 0 leaves no trace and no residue *)
Definition no_call_sampled (es : list ev) : bool :=
  forallb (fun e => match e with EvCall _ _ _ d => negb (Nat.eqb d 0) | _ => true end) es.

Lemma pf_run_unsampled rate es :
  sampling rate = true -> no_call_sampled es = true -> pf_run rate None es = (None, []).
Proof.
  intros Hs. induction es as [|e r IH]; intros Hn; [reflexivity|]. cbn in Hn. apply andb_prop in Hn. destruct Hn as [He Hr].
  destruct e as [g c args d|g c sm op a|g c]; cbn [pf_run pf_step].
  - unfold skipped_by_sampling. rewrite Hs, He. cbn [andb]. destruct (gated c); rewrite (IH Hr); reflexivity.
  - destruct (gated c); rewrite (IH Hr); reflexivity.
  - rewrite (IH Hr). reflexivity.
Qed.

(* the complete decision for one frame under sampling, outside the known finding class *)
Lemma later_zero_true_all r :
  later_zero true r = false -> no_call_sampled r = true.
Proof.
  induction r as [|e r IH]; intros K; [reflexivity|].
  destruct e as [g c args d|g c sm op a|g c]; cbn [later_zero no_call_sampled forallb] in *.
  - apply orb_false_elim in K. destruct K as [A B]. rewrite A. cbn. apply IH. exact B.
  - apply IH. exact K.
  - apply IH. exact K.
Qed.

Lemma kf_free_unsampled rate es :
  sampling rate = true -> first_taken rate es = false -> kf_resume_sampled_after_skip rate es = false ->
  no_call_sampled es = true.
Proof.
  intros Hs Ft K. unfold first_taken in Ft. unfold kf_resume_sampled_after_skip in K. rewrite Hs in K. cbn [andb] in K.
  destruct (first_draw es) as [d0|] eqn:Fd; [|discriminate].
  unfold skipped_by_sampling in Ft. rewrite Hs in Ft. cbn [andb] in Ft. apply negb_false_iff in Ft. rewrite Ft in K.
  cbn [andb] in K. unfold any_later_draw_zero in K.
  revert Fd K. induction es as [|e r IH]; intros Fd K; [reflexivity|].
  destruct e as [g c args d|g c sm op a|g c]; cbn [first_draw later_zero] in *.
  - injection Fd as ->. unfold no_call_sampled. cbn [forallb]. rewrite Ft. cbn [andb].
    apply later_zero_true_all. exact K.
  - discriminate.
  - unfold no_call_sampled in *. cbn [forallb]. apply IH; assumption.
Qed.

Theorem sampled_frame rate es :
  sampling rate = true -> wf_frame es = true -> forallb ev_consistent es = true ->
  kf_resume_sampled_after_skip rate es = false ->
  snd (pf_run rate None es) = (if first_taken rate es then expected_frame es else [])
  /\ (match fst (pf_run rate None es) with Some _ => true | None => false end)
     = (first_taken rate es && pending_frame es).
Proof.
  intros Hs W C K. destruct (first_taken rate es) eqn:Ft.
  - apply frame_faithful_taken; assumption.
  - rewrite (pf_run_unsampled rate es Hs (kf_free_unsampled rate es Hs Ft K)). split; reflexivity.
Qed.

Theorem sampled_history rate H f :
  sampling rate = true -> wf_history H = true -> kf_resume_sampled_after_skip rate (proj f H) = false ->
  logged_for f (run rate H) = (if first_taken rate (proj f H) then expected_frame (proj f H) else [])
  /\ (match lookup f (live (run rate H)) with Some _ => true | None => false end)
     = (first_taken rate (proj f H) && pending_frame (proj f H)).
Proof.
  intros Hs W K. destruct (wf_history_frame H f W) as [Wf Cf]. destruct (run_proj rate H f) as [A B].
  rewrite A, B. apply sampled_frame; assumption.
Qed.

Theorem unsampled_history rate H f :
  sampling rate = true -> no_call_sampled (proj f H) = true ->
  logged_for f (run rate H) = [] /\ lookup f (live (run rate H)) = None.
Proof.
  intros Hs N. destruct (run_proj rate H f) as [A B]. rewrite A, B, (pf_run_unsampled rate _ Hs N). split; reflexivity.
Qed.

Theorem log_grows_only_at_completion rate H1 H2 :
  exists new, logged (run rate (H1 ++ H2)) = new ++ logged (run rate H1).
Proof. unfold run. rewrite fold_left_app. apply log_append_only. Qed.
