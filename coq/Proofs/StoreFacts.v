(* Proofs/StoreFacts.v — lemmas and theorems about the trace-store model (C09). *)
From Coq Require Import List Bool Arith NArith String Ascii Lia Permutation.
From MT Require Import Constants StoreConstants Store StoreSpec.
Import ListNotations.
Open Scope list_scope.

(* ------------------------------------------------------------------------------------------------ *)
(* boolean equality / membership / dedup reflect the Prop-level notions                             *)
(* ------------------------------------------------------------------------------------------------ *)
Lemma str_eqb_eq a : forall b, str_eqb a b = true <-> a = b.
Proof.
  induction a as [|c a IH]; intros [|d b]; simpl.
  - split; reflexivity.
  - split; discriminate.
  - split; discriminate.
  - destruct (Ascii.eqb c d) eqn:E.
    + apply Ascii.eqb_eq in E. subst. rewrite IH. split; intro H; [subst; reflexivity | injection H; auto].
    + split; [discriminate|]. intro H. injection H as H1 H2. subst. rewrite Ascii.eqb_refl in E. discriminate.
Qed.

Lemma str_eqb_refl a : str_eqb a a = true.
Proof. apply str_eqb_eq. reflexivity. Qed.

Lemma opt_eqb_eq a b : opt_eqb a b = true <-> a = b.
Proof.
  destruct a as [x|], b as [y|]; simpl.
  - rewrite str_eqb_eq. split; intro; congruence.
  - split; discriminate.
  - split; discriminate.
  - split; reflexivity.
Qed.

Lemma row_eqb_eq a b : row_eqb a b = true <-> a = b.
Proof.
  destruct a as [m q a r y], b as [m' q' a' r' y']; unfold row_eqb; simpl. split.
  - destruct (str_eqb m m') eqn:E1; [|discriminate].
    destruct (str_eqb q q') eqn:E2; [|discriminate].
    destruct (str_eqb a a') eqn:E3; [|discriminate].
    destruct (opt_eqb r r') eqn:E4; [|discriminate].
    intro E5. apply str_eqb_eq in E1, E2, E3. apply opt_eqb_eq in E4, E5. subst. reflexivity.
  - intro H. injection H; intros; subst.
    rewrite !str_eqb_refl. rewrite (proj2 (opt_eqb_eq r' r') eq_refl). apply opt_eqb_eq. reflexivity.
Qed.

Lemma memb_In x l : memb x l = true <-> In x l.
Proof.
  induction l as [|a l IH]; simpl.
  - split; [discriminate | tauto].
  - destruct (row_eqb x a) eqn:E.
    + apply row_eqb_eq in E. subst. split; auto.
    + rewrite IH. split; [auto|]. intros [H|H]; [|exact H].
      subst. rewrite (proj2 (row_eqb_eq x x) eq_refl) in E. discriminate.
Qed.

Lemma dedup_rows_In x l : In x (dedup_rows l) <-> In x l.
Proof.
  induction l as [|a l IH]; simpl; [tauto|].
  destruct (memb a l) eqn:E.
  - rewrite IH. split; [auto|]. intros [->|H]; [apply memb_In; exact E | exact H].
  - simpl. rewrite IH. tauto.
Qed.

Lemma dedup_rows_NoDup l : NoDup (dedup_rows l).
Proof.
  induction l as [|a l IH]; simpl; [constructor|].
  destruct (memb a l) eqn:E; [exact IH|].
  constructor; [|exact IH]. rewrite dedup_rows_In. intro H. apply memb_In in H. congruence.
Qed.

Lemma nodupb_NoDup l : nodupb l = true <-> NoDup l.
Proof.
  induction l as [|a l IH]; simpl.
  - split; [constructor | reflexivity].
  - rewrite andb_true_iff, negb_true_iff, IH. split.
    + intros [H1 H2]. constructor; [|exact H2]. intro Hin. apply memb_In in Hin. congruence.
    + intro H. inversion H as [|? ? Hn Hd]; subst. split; [|exact Hd].
      destruct (memb a l) eqn:E; [|reflexivity]. apply memb_In in E. contradiction.
Qed.

Lemma mem_str_In x l : mem_str x l = true <-> In x l.
Proof.
  induction l as [|a l IH]; simpl.
  - split; [discriminate | tauto].
  - destruct (str_eqb x a) eqn:E.
    + apply str_eqb_eq in E. subst. split; auto.
    + rewrite IH. split; [auto|]. intros [H|H]; [|exact H].
      subst. rewrite str_eqb_refl in E. discriminate.
Qed.

Lemma dedup_str_In x l : In x (dedup_str l) <-> In x l.
Proof.
  induction l as [|a l IH]; simpl; [tauto|].
  destruct (mem_str a l) eqn:E.
  - rewrite IH. split; [auto|]. intros [->|H]; [apply mem_str_In; exact E | exact H].
  - simpl. rewrite IH. tauto.
Qed.

Lemma dedup_str_NoDup l : NoDup (dedup_str l).
Proof.
  induction l as [|a l IH]; simpl; [constructor|].
  destruct (mem_str a l) eqn:E; [exact IH|].
  constructor; [|exact IH]. rewrite dedup_str_In. intro H. apply mem_str_In in H. congruence.
Qed.

Lemma nodup_strb_NoDup l : nodup_strb l = true -> NoDup l.
Proof.
  induction l as [|a l IH]; simpl; [constructor|].
  rewrite andb_true_iff, negb_true_iff. intros [H1 H2]. constructor; [|auto].
  intro Hin. apply mem_str_In in Hin. congruence.
Qed.

Lemma NoDup_same_length {A} (a b : list A) :
  NoDup a -> NoDup b -> (forall x, In x a <-> In x b) -> List.length a = List.length b.
Proof. intros Ha Hb H. apply Permutation_length, NoDup_Permutation; assumption. Qed.

(* ------------------------------------------------------------------------------------------------ *)
(* the two prefix tests mean "starts with"; LIKE does not                                           *)
(* ------------------------------------------------------------------------------------------------ *)
Lemma starts_withb_spec p : forall q, starts_withb p q = true <-> starts_with p q.
Proof.
  unfold starts_with. induction p as [|c p IH]; intro q; simpl.
  - split; [intros _; exists q; reflexivity | reflexivity].
  - destruct q as [|d q].
    + split; [discriminate | intros [s H]; discriminate].
    + rewrite andb_true_iff, Ascii.eqb_eq, IH. split.
      * intros [-> [s ->]]. exists s. reflexivity.
      * intros [s H]. injection H as Hd Hq. split; [auto | exists s; exact Hq].
Qed.

(* substr(q, 1, length(p)) == p  <->  q starts with p *)
Lemma exact_prefix_spec p : forall q, exact_prefix p q = true <-> starts_with p q.
Proof.
  unfold exact_prefix, starts_with. induction p as [|c p IH]; intro q.
  - split; [intros _; exists q; reflexivity | intros _; destruct q; reflexivity].
  - destruct q as [|d q].
    + simpl. split; [discriminate | intros [s H]; discriminate].
    + change (String.length (String c p)) with (S (String.length p)).
      change (substring 0 (S (String.length p)) (String d q))
        with (String d (substring 0 (String.length p) q)).
      rewrite String.eqb_eq. split.
      * intro H. injection H as Hd Hs. apply String.eqb_eq in Hs. apply IH in Hs.
        destruct Hs as [s Hs]. exists s. simpl. congruence.
      * intros [s H]. simpl in H. injection H as Hd Hq.
        assert (Hs : substring 0 (String.length p) q = p).
        { apply String.eqb_eq. apply IH. exists s. exact Hq. }
        rewrite Hs, Hd. reflexivity.
Qed.

(* today's LIKE operator keeps every row the prefix test keeps (it only ever returns too much) *)
Lemma like_pct_all : forall s, like (String pct EmptyString) s = true.
Proof.
  intro s. cbn [like]. replace (Ascii.eqb pct pct) with true by (symmetry; apply Ascii.eqb_refl).
  induction s as [|d s IH].
  - reflexivity.
  - cbn [like orb]. exact IH.
Qed.

Lemma like_prefix_app p : forall s, like_prefix p (p ++ s)%string = true.
Proof.
  unfold like_prefix. induction p as [|c p IH]; intro s.
  - apply like_pct_all.
  - change ((String c p ++ String pct EmptyString)%string) with (String c (p ++ String pct EmptyString)%string).
    change ((String c p ++ s)%string) with (String c (p ++ s)%string).
    cbn [like]. destruct (Ascii.eqb c pct) eqn:E.
    + (* the prefix itself contains % : let it swallow exactly its own character *)
      apply orb_true_iff. right. specialize (IH s).
      destruct (p ++ s)%string; simpl; simpl in IH; rewrite IH; reflexivity.
    + rewrite (IH s), Ascii.eqb_refl. rewrite orb_true_r. reflexivity.
Qed.

Lemma like_prefix_superset p q : starts_with p q -> like_prefix p q = true.
Proof. intros [s ->]. apply like_prefix_app. Qed.

(* ------------------------------------------------------------------------------------------------ *)
(* histories                                                                                        *)
(* ------------------------------------------------------------------------------------------------ *)
Lemma run_snoc ops o : run (ops ++ [o]) = step (run ops) o.
Proof. unfold run. rewrite fold_left_app. reflexivity. Qed.

Lemma fold_step_concat : forall ops db,
  fold_left step ops db = db ++ List.concat (map serialisable (added ops)).
Proof.
  induction ops as [|o ops IH]; intro db.
  - simpl. rewrite app_nil_r. reflexivity.
  - destruct o; simpl; rewrite IH; try reflexivity.
    rewrite <- app_assoc. reflexivity.
Qed.

(* after ANY history the table is the concatenation, in order, of the serialisable part of exactly the
   batches whose add() returned - whole batches only *)
Lemma run_concat ops : run ops = List.concat (map serialisable (added ops)).
Proof. unfold run. rewrite fold_step_concat. reflexivity. Qed.

Lemma In_serialisable b r : In r (serialisable b) <-> In (Some r) b.
Proof.
  induction b as [|[x|] b IH]; simpl.
  - tauto.
  - rewrite IH. split; intros [H|H]; auto; left; congruence.
  - rewrite IH. split; [auto|]. intros [H|H]; [discriminate | exact H].
Qed.

Lemma In_added ops b : In b (added ops) <-> In (Add b) ops.
Proof.
  induction ops as [|o ops IH]; simpl; [tauto|].
  destruct o; simpl; rewrite IH; split; intros H; auto;
    try (destruct H as [H|H]; [discriminate | exact H]).
  - destruct H as [H|H]; [left; congruence | right; exact H].
  - destruct H as [H|H]; [left; congruence | right; exact H].
Qed.

Lemma In_run ops r : In r (run ops) <-> committed ops r.
Proof.
  unfold committed. rewrite run_concat, in_concat. split.
  - intros [l [Hl Hr]]. apply in_map_iff in Hl. destruct Hl as [b [<- Hb]].
    exists b. split; [apply In_added; exact Hb | apply In_serialisable; exact Hr].
  - intros [b [Hb Hr]]. exists (serialisable b). split.
    + apply in_map. apply In_added. exact Hb.
    + apply In_serialisable. exact Hr.
Qed.

(* add_atomic: one step appends the whole serialisable part of the batch or nothing; nothing else writes *)
Lemma add_atomic_all ops b : run (ops ++ [Add b]) = run ops ++ serialisable b.
Proof. rewrite run_snoc. reflexivity. Qed.

Lemma add_atomic_none ops b : run (ops ++ [AddAborted b]) = run ops.
Proof. rewrite run_snoc. reflexivity. Qed.

Lemma readers_do_not_write ops o :
  (forall b, o <> Add b) -> run (ops ++ [o]) = run ops.
Proof. intro H. rewrite run_snoc. destruct o; try reflexivity. exfalso. apply (H b). reflexivity. Qed.

Lemma add_atomic_general ops :
  (forall b, run (ops ++ [Add b]) = run ops ++ serialisable b)
  /\ (forall b, run (ops ++ [AddAborted b]) = run ops)
  /\ (forall o, (forall b, o <> Add b) -> run (ops ++ [o]) = run ops)
  /\ run ops = List.concat (map serialisable (added ops)).
Proof.
  split; [|split; [|split]].
  - intro b. apply add_atomic_all.
  - intro b. apply add_atomic_none.
  - intro o. apply readers_do_not_write.
  - apply run_concat.
Qed.

(* the batch is never torn: a row of the batch is in the table afterwards iff the batch committed or the row was
   there before *)
Lemma batch_not_torn ops b r :
  In (Some r) b ->
  In r (run (ops ++ [Add b])) /\ (In r (run (ops ++ [AddAborted b])) <-> In r (run ops)).
Proof.
  intro H. rewrite add_atomic_all, add_atomic_none. split; [|tauto].
  apply in_or_app. right. apply In_serialisable. exact H.
Qed.

(* history_refines_set *)
Lemma fold_refines : forall ops db (S : rowset),
  (forall r, In r db <-> S r) ->
  forall r, In r (fold_left step ops db) <-> fold_left spec_step ops S r.
Proof.
  induction ops as [|o ops IH]; intros db S H r; simpl; [apply H|].
  apply IH. intro r'. destruct o; simpl; try apply H.
  rewrite in_app_iff, In_serialisable, H. tauto.
Qed.

Lemma history_refines_set_l ops r : In r (run ops) <-> spec_run ops r.
Proof. unfold run, spec_run. apply fold_refines. intro; simpl; tauto. Qed.

Lemma spec_run_committed ops r : spec_run ops r <-> committed ops r.
Proof. rewrite <- history_refines_set_l. apply In_run. Qed.

(* every serial order of the same batches gives the same set: the order in which SQLite serialises
   concurrent writers does not matter to any answer *)
Lemma committed_perm ops ops' r : Permutation ops ops' -> (committed ops r <-> committed ops' r).
Proof.
  intro P. unfold committed. split; intros [b [Hb Hr]]; exists b; split; auto.
  - eapply Permutation_in; eauto.
  - eapply Permutation_in; [apply Permutation_sym|]; eauto.
Qed.

Lemma schedule_irrelevant_l ops ops' :
  Permutation ops ops' ->
  (forall r, In r (run ops) <-> In r (run ops'))
  /\ (forall m p n out, filter_answer_spec ops m p n out <-> filter_answer_spec ops' m p n out)
  /\ (forall ms, modules_answer_spec ops ms <-> modules_answer_spec ops' ms).
Proof.
  intro P.
  assert (C : forall r, committed ops r <-> committed ops' r) by (intro; apply committed_perm; exact P).
  assert (W : forall m p r, wanted ops m p r <-> wanted ops' m p r).
  { intros. unfold wanted. rewrite C. tauto. }
  split; [|split].
  - intro r. rewrite !In_run. apply C.
  - intros m p n out. unfold filter_answer_spec. split; intros [H1 [H2 H3]]; (split; [exact H1|split]).
    + intros r Hr. apply W, H2, Hr.
    + intros l Hl Hw. apply H3; [exact Hl|]. intro r. rewrite Hw. symmetry. apply W.
    + intros r Hr. apply W, H2, Hr.
    + intros l Hl Hw. apply H3; [exact Hl|]. intro r. rewrite Hw. apply W.
  - intro ms. unfold modules_answer_spec.
    split; intros [H1 H2]; (split; [exact H1|]); intro m; rewrite H2;
      split; intros [Hne [r [Hc Hm]]]; (split; [exact Hne|]); exists r; (split; [apply C; exact Hc | exact Hm]).
Qed.

(* ------------------------------------------------------------------------------------------------ *)
(* filter                                                                                           *)
(* ------------------------------------------------------------------------------------------------ *)
Section FilterGen.
Variable mt : string -> string -> bool.
Hypothesis Hmt : forall p q, mt p q = true <-> starts_with p q.

Lemma select_with_In ops m p r : In r (select_with mt (run ops) m p) <-> wanted ops m p r.
Proof.
  unfold select_with, wanted, where_clause.
  rewrite dedup_rows_In, filter_In, In_run, andb_true_iff, String.eqb_eq.
  destruct p as [p|]; [rewrite Hmt|]; intuition.
Qed.

Lemma answer_ok_spec ops m p n out :
  answer_okb_with mt (run ops) m p n out = true -> filter_answer_spec ops m p n out.
Proof.
  unfold answer_okb_with, filter_answer_spec.
  rewrite !andb_true_iff, nodupb_NoDup, forallb_forall, N.eqb_eq.
  intros [[Hnd Hin] Hlen]. split; [exact Hnd|split].
  - intros r Hr. apply select_with_In. apply memb_In. apply Hin. exact Hr.
  - intros l Hl Hw. rewrite Hlen. f_equal. f_equal.
    apply NoDup_same_length; [apply dedup_rows_NoDup | exact Hl |].
    intro r. rewrite select_with_In. symmetry. apply Hw.
Qed.

(* completeness of the relation: every answer the specification allows is accepted *)
Lemma answer_ok_complete ops m p n out :
  filter_answer_spec ops m p n out -> answer_okb_with mt (run ops) m p n out = true.
Proof.
  unfold answer_okb_with, filter_answer_spec. intros [Hnd [Hin Hlen]].
  rewrite !andb_true_iff, nodupb_NoDup, forallb_forall, N.eqb_eq. split; [split|].
  - exact Hnd.
  - intros r Hr. apply memb_In. apply select_with_In. apply Hin. exact Hr.
  - apply Hlen; [apply dedup_rows_NoDup|]. intro r. apply select_with_In.
Qed.
End FilterGen.

(* The code's operator, as regenerated from make_query, is the exact prefix test.  This is the one place where the
   source text of the query reaches the theorems: with `LIKE ? || '%'` this lemma does not check. *)
Lemma code_matcher_exact : code_matcher = Some exact_prefix.
Proof. reflexivity. Qed.

Lemma filter_spec_l ops m p n out :
  filter_answerb (run ops) m p n out = true <-> filter_answer_spec ops m p n out.
Proof.
  unfold filter_answerb. rewrite code_matcher_exact. split.
  - apply answer_ok_spec. intros; apply exact_prefix_spec.
  - apply answer_ok_complete. intros; apply exact_prefix_spec.
Qed.

(* the model's own full answer (no LIMIT) is an accepted answer whenever the limit does not bite *)
Lemma sql_select_accepted ops m p n D :
  sql_select (run ops) m p = Some D -> (N.of_nat (List.length D) <= n)%N ->
  filter_answerb (run ops) m p n D = true.
Proof.
  unfold sql_select, filter_answerb. destruct code_matcher as [mt|]; [|discriminate].
  intros H Hn. injection H as <-. unfold answer_okb_with.
  rewrite !andb_true_iff. split; [split|].
  - apply nodupb_NoDup. apply dedup_rows_NoDup.
  - apply forallb_forall. intros r Hr. apply memb_In. exact Hr.
  - apply N.eqb_eq. rewrite N.min_r; [reflexivity | exact Hn].
Qed.

(* ------------------------------------------------------------------------------------------------ *)
(* list_modules                                                                                     *)
(* ------------------------------------------------------------------------------------------------ *)
Lemma list_modules_eq db : list_modules db = filter nonempty (dedup_str (map r_module db)).
Proof. reflexivity. Qed.

Lemma nonempty_spec m : nonempty m = true <-> m <> EmptyString.
Proof.
  destruct m; simpl; split; intro H.
  - discriminate.
  - exfalso. apply H. reflexivity.
  - discriminate.
  - reflexivity.
Qed.

Lemma list_modules_In ops m :
  In m (list_modules (run ops)) <-> (m <> EmptyString /\ exists r, committed ops r /\ r_module r = m).
Proof.
  rewrite list_modules_eq, filter_In, dedup_str_In, in_map_iff, nonempty_spec. split.
  - intros [[r [Hm Hr]] Hne]. split; [exact Hne|]. exists r. split; [apply In_run; exact Hr | exact Hm].
  - intros [Hne [r [Hc Hm]]]. split; [|exact Hne]. exists r. split; [exact Hm | apply In_run; exact Hc].
Qed.

Lemma list_modules_NoDup db : NoDup (list_modules db).
Proof. rewrite list_modules_eq. apply NoDup_filter. apply dedup_str_NoDup. Qed.

Lemma modules_spec_l ops ms :
  modules_answerb (run ops) ms = true -> modules_answer_spec ops ms.
Proof.
  unfold modules_answerb, modules_answer_spec. cbv zeta.
  rewrite !andb_true_iff, !forallb_forall. intros [[[_ Hnd] H1] H2].
  split; [apply nodup_strb_NoDup; exact Hnd|].
  intro m. rewrite <- list_modules_In. split.
  - intro H. apply mem_str_In. apply H1. exact H.
  - intro H. apply mem_str_In. apply H2. exact H.
Qed.

Lemma list_modules_accepted ops : modules_answerb (run ops) (list_modules (run ops)) = true.
Proof.
  unfold modules_answerb. cbv zeta. rewrite !andb_true_iff. split; [split; [split|]|].
  - reflexivity.
  - generalize (list_modules_NoDup (run ops)). generalize (list_modules (run ops)).
    induction l as [|a l IH]; intro H; simpl; [reflexivity|].
    inversion H as [|? ? Hn Hd]; subst. rewrite IH by exact Hd. rewrite andb_true_r.
    destruct (mem_str a l) eqn:E; [|reflexivity]. apply mem_str_In in E. contradiction.
  - apply forallb_forall. intros m Hm. apply mem_str_In. exact Hm.
  - apply forallb_forall. intros m Hm. apply mem_str_In. exact Hm.
Qed.
