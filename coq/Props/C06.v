(* C06 — the TypedDict size limit is honoured end to end; zero disables TypedDicts. *)
From MT Require Import Types Infer TypesFacts TdBounded.
From MT Require Import Types Infer Rewrite RewriteTrigger Render TypesFacts TdBounded Encode EncodeRoundtrip Pipeline
                       EncodeExamples TdBoundedE2EStore TdBoundedE2ERewrite TdBoundedE2EStubs TdBoundedE2E.

(* limit 0: no TypedDict anywhere in the inferred type *)
Theorem k0_no_typeddict :
  forall vs t, forallb wf_valueb vs = true -> infer 0 vs = Some t -> has_td t = false.
Proof. exact TdBounded.k0_no_typeddict. Qed.
Print Assumptions k0_no_typeddict.

(* limit k: every TypedDict node of the inferred type has between 1 and k fields, at every depth,
   for single values and after merging any number of values *)
Theorem td_bounded_infer :
  forall k vs t, forallb wf_valueb vs = true -> infer k vs = Some t -> td_boundedb k t = true.
Proof. exact infer_bd. Qed.
Print Assumptions td_bounded_infer.

(* merging already-bounded types (what stub generation does with types decoded from the store) *)
Theorem td_bounded_merge :
  forall k ts t, Forall wf_ty ts -> forallb (td_boundedb k) ts = true -> shrink_top k ts = Some t ->
                 td_boundedb k t = true.
Proof. exact merge_bd. Qed.
Print Assumptions td_bounded_merge.

(* only non-empty dicts whose keys are all strings (and at most k of them) become TypedDicts *)
Theorem td_from_str_dicts_only :
  forall k v r o, get_type k v = Some (TTypedDict r o) ->
    exists kvs, v = VDict kvs /\ kvs <> [] /\ forallb is_strkey kvs = true
                /\ List.length kvs <= k /\ o = [] /\ map fst r = map strkey kvs.
Proof. exact td_only_from_str_dicts. Qed.
Print Assumptions td_from_str_dicts_only.

(* ---- the store ---- *)
(* the relation a store round trip guarantees (C08: corrb) preserves the size of every TypedDict node; wf_ty
   (TypedDict field names distinct) is needed: TdBoundedE2EStore.ex_bd_corrb_needs_wf *)
Theorem td_bounded_corrb :
  forall k a b, wf_ty a -> corrb a b = true -> td_boundedb k a = td_boundedb k b.
Proof. exact bd_corrb. Qed.
Print Assumptions td_bounded_corrb.

Theorem has_td_corr : forall a b, corrb a b = true -> has_td a = has_td b.
Proof. exact has_td_corrb. Qed.
Print Assumptions has_td_corr.

(* under C08's premises, what is decoded from the stored JSON is bounded when what was encoded is *)
Theorem td_survives_store :
  forall (cname : cls -> string * string) (site : string) (env : string -> string -> lookup)
         (hidden : string -> option cls) k t j t',
    typing_ok env -> inferable t /\ Forall (importable cname env hidden) (classes t) ->
    td_boundedb k t = true ->
    type_to_json cname site t = Ok j -> type_from_json env hidden j = Ok t' ->
    td_boundedb k t' = true.
Proof. exact TdBoundedE2EStore.td_survives_store. Qed.
Print Assumptions td_survives_store.

(* a TypedDict-free type is stored as JSON without an "is_typed_dict" object and decodes TypedDict-free *)
Theorem no_td_survives_store :
  forall (cname : cls -> string * string) (site : string) (env : string -> string -> lookup)
         (hidden : string -> option cls) t j t',
    typing_ok env -> inferable t /\ Forall (importable cname env hidden) (classes t) ->
    has_td t = false ->
    type_to_json cname site t = Ok j -> type_from_json env hidden j = Ok t' ->
    json_has_td j = false /\ has_td t' = false.
Proof. exact TdBoundedE2EStore.no_td_survives_store. Qed.
Print Assumptions no_td_survives_store.

(* ---- the rewriters neither create TypedDicts nor enlarge them ---- *)
Theorem td_bounded_rewrite :
  forall h bt k r t, td_boundedb k t = true -> td_boundedb k (rw h bt r t) = true.
Proof. exact rw_bd. Qed.
Print Assumptions td_bounded_rewrite.

Theorem td_bounded_rewrite_chain :
  forall h bt k rs t, td_boundedb k t = true -> td_boundedb k (rw_chain h bt rs t) = true.
Proof. exact rw_chain_bd. Qed.
Print Assumptions td_bounded_rewrite_chain.

Theorem no_td_rewrite : forall h bt r t, has_td t = false -> has_td (rw h bt r t) = false.
Proof. exact rw_no_td. Qed.
Print Assumptions no_td_rewrite.

Theorem no_td_rewrite_chain : forall h bt rs t, has_td t = false -> has_td (rw_chain h bt rs t) = false.
Proof. exact rw_chain_no_td. Qed.
Print Assumptions no_td_rewrite_chain.

(* ---- the TypedDict classes rendered into the stub ---- *)
Theorem td_bounded_stub_classes :
  forall k t hint, td_boundedb k t = true ->
    td_boundedb k (fst (rtd t hint)) = true /\ stubs_ok k (snd (rtd t hint)).
Proof. exact rtd_bounded. Qed.
Print Assumptions td_bounded_stub_classes.

Theorem td_bounded_stub_classes_by_name :
  forall k cs, stubs_ok k cs -> NoDup (map cs_name cs) -> cstubs_boundedb k cs = true.
Proof. exact stubs_ok_by_name. Qed.
Print Assumptions td_bounded_stub_classes_by_name.

Theorem no_td_no_stub_class :
  forall t hint, has_td t = false ->
    snd (rtd t hint) = [] /\ has_td (fst (rtd t hint)) = false /\ (normal t = true -> fst (rtd t hint) = t).
Proof. exact rtd_no_td. Qed.
Print Assumptions no_td_no_stub_class.

(* ---- end to end ---- *)
Theorem k_limit_end_to_end :
  forall (cname : cls -> string * string) (site : string) (env : string -> string -> lookup)
         (hidden : string -> option cls) (h : hierarchy) (bt : bases_table)
         k rs (vss : list (list value)) (ts ds stored : list ty) T hint,
    typing_ok env ->
    inferred k vss ts ->
    Forall (fun t => Forall (importable cname env hidden) (classes t)) ts ->
    mapM (store_rt cname site env hidden) ts = Some ds ->
    incl stored ds ->
    shrink_top k stored = Some T ->
    let T' := rw_chain h bt rs T in
    let out := rtd T' hint in
    forallb (td_boundedb k) ts = true
    /\ forallb (td_boundedb k) ds = true
    /\ td_boundedb k T = true
    /\ td_boundedb k T' = true
    /\ td_boundedb k (fst out) = true
    /\ stubs_ok k (snd out)
    /\ (NoDup (map cs_name (snd out)) -> cstubs_boundedb k (snd out) = true).
Proof. exact k_limit_e2e. Qed.
Print Assumptions k_limit_end_to_end.

Theorem k0_end_to_end :
  forall (cname : cls -> string * string) (site : string) (env : string -> string -> lookup)
         (hidden : string -> option cls) (h : hierarchy) (bt : bases_table)
         rs (vss : list (list value)) (ts ds stored : list ty) T hint,
    typing_ok env ->
    inferred 0 vss ts ->
    Forall (fun t => Forall (importable cname env hidden) (classes t)) ts ->
    mapM (store_rt cname site env hidden) ts = Some ds ->
    incl stored ds ->
    shrink_top 0 stored = Some T ->
    let T' := rw_chain h bt rs T in
    let out := rtd T' hint in
    existsb has_td ts = false
    /\ (forall t j, In t ts -> type_to_json cname site t = Ok j -> json_has_td j = false)
    /\ existsb has_td ds = false
    /\ has_td T = false
    /\ has_td T' = false
    /\ has_td (fst out) = false
    /\ snd out = []
    /\ (forallb normal stored = true -> out = (T', [])).
Proof. exact k0_e2e. Qed.
Print Assumptions k0_end_to_end.

Example ex_c06_e2e_nonvacuous :
  inferred 2 [[ex_v1]; [ex_v2]] ex_ts
  /\ mapM (store_rt ex_cn ex_site ex_ev ex_hd) ex_ts = Some ex_ts
  /\ shrink_top 2 (ex_ts ++ ex_ts) = Some ex_T
  /\ cstubs_boundedb 2 (snd (rtd (rw_chain [] [] ex_rs ex_T) "arg"%string)) = true
  /\ cstubs_boundedb 1 (snd (rtd (rw_chain [] [] ex_rs ex_T) "arg"%string)) = false.
Proof.
  destruct ex_k_limit_e2e as [_ [H1 [_ [H2 [_ [H3 H4]]]]]]. cbv zeta in H4.
  destruct H4 as [_ [_ [_ [_ [_ [H5 H6]]]]]]. repeat split; assumption.
Qed.

Example ex_c06_nonvacuous :
  let vs := [VDict [(VStr "a", VAtom cInt 1); (VStr "b", VStr "x"); (VStr "c", VAtom cNone 0)];
             VDict [(VStr "a", VAtom cInt 1)]] in
  forallb wf_valueb vs = true
  /\ infer 0 vs = Some (TUnion [TDict (TCls cStr) (TUnion [TCls cInt; TCls cStr; TCls cNone]);
                                TDict (TCls cStr) (TCls cInt)])
  /\ infer 3 vs = Some (TTypedDict [("a"%string, TCls cInt)] [("b"%string, TCls cStr); ("c"%string, TCls cNone)])
  /\ td_boundedb 3 (TTypedDict [("a"%string, TCls cInt)] [("b"%string, TCls cStr); ("c"%string, TCls cNone)]) = true.
Proof. vm_compute. repeat split; reflexivity. Qed.

(* the limit in force at merge time bounds every TypedDict the merge itself builds, whatever limit the merged types
   were recorded under (a configuration lowered between `run` and `stub`) *)
From MT Require TdMergeLimit.
Theorem td_merge_top_limit :
  forall k ts r o, forallb is_td ts = true -> shrink_top k ts = Some (TTypedDict r o) ->
                   List.length r + List.length o <= k.
Proof. exact TdMergeLimit.td_merge_top_limit. Qed.
Print Assumptions td_merge_top_limit.
