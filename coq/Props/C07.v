(* C07 — shipped rewriters never narrow, never crash, fire only on their trigger.
   (First tranche; the monotonicity development is in Proofs/RewriteMono.v once built.) *)
From MT Require Import Rewrite Constants.

(* The model of DEFAULT_REWRITER is the one the source declares today (Gen/Constants.v is
   regenerated from monkeytype/typing.py on every run): every member is a modelled rewriter. *)
Theorem default_chain_modelled :
  default_chain = Some [RRemoveEmpty; RConfigDict; RLargeUnion large_union_default_max; RGenerator].
Proof. reflexivity. Qed.
Print Assumptions default_chain_modelled.

Theorem noop_identity : forall h bt t, rw h bt RNoOp t = t.
Proof. intros h bt t. destruct t; reflexivity. Qed.
Print Assumptions noop_identity.
