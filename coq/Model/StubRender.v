(* Model/StubRender.v — token-level model of monkeytype/stubs.py's signature and stub layout (C12):
   render_parameter, render_signature (both layouts, chosen by the length test), FunctionStub.render
   (async, decorator by kind, strip_modules hack), build_module_stubs (qualname split, class key,
   dict-by-name placement), ClassStub/ModuleStub.render ordering, update_signature_args (receiver),
   and `reparse`/`parse_module`: Python's parameter grammar and block structure at the level of these tokens.
   Executable definitions only; proofs live in Proofs/StubRender*.v. *)
From Coq Require Import List Bool Arith ZArith String Ascii.
From MT Require Import Constants.
Import ListNotations.
Open Scope list_scope.

(* ------------------------------------------------------------------------------------------ *)
(* signatures                                                                                  *)
(* ------------------------------------------------------------------------------------------ *)
Inductive pkind := PO | PK | VP | KO | VK.   (* inspect.Parameter.kind, in inspect's order *)

Definition pkind_rank (k : pkind) : nat :=
  match k with PO => 0 | PK => 1 | VP => 2 | KO => 3 | VK => 4 end.
Definition pkind_eqb (a b : pkind) : bool := Nat.eqb (pkind_rank a) (pkind_rank b).
Definition pkind_leb (a b : pkind) : bool := Nat.leb (pkind_rank a) (pkind_rank b).

(* p_anno: the text render_annotation gives for the parameter's annotation (after render_parameter's
   Optional[...] wrapping), None = inspect.Parameter.empty.  The text is opaque here (C11 is about it).
   p_default: `default is not Parameter.empty` (None and other defaults render alike: " = ..."). *)
Record param := Param { p_name : string; p_kind : pkind; p_anno : option string; p_default : bool }.

(* what a reader of the stub can see of one parameter: name, kind, has a default, is annotated *)
Definition pentry := (string * pkind * bool * bool)%type.
Definition isSome {A} (o : option A) : bool := match o with Some _ => true | None => false end.
Definition erase (p : param) : pentry := (p_name p, p_kind p, p_default p, isSome (p_anno p)).

Definition is_positional (k : pkind) : bool := match k with PO | PK => true | _ => false end.
Definition is_variadic (k : pkind) : bool := match k with VP | VK => true | _ => false end.

(* inspect.Signature.__init__'s own check (kinds never decrease; no non-default positional parameter after a
   defaulted one), inspect.Parameter's (variadics carry no default), and the one thing a code object adds:
   at most one *args and one **kwargs.  Name uniqueness is not needed by any theorem below. *)
Fixpoint valid_go (top : pkind) (seen_default : bool) (ps : list param) : bool :=
  match ps with
  | [] => true
  | p :: r =>
      let k := p_kind p in
      pkind_leb top k
      && (if is_variadic k then negb (pkind_eqb top k) && negb (p_default p) else true)
      && (if is_positional k then negb (seen_default && negb (p_default p)) else true)
      && valid_go k (if is_positional k then seen_default || p_default p else seen_default) r
  end.
Definition valid_signature (ps : list param) : bool := valid_go PO false ps.

(* ------------------------------------------------------------------------------------------ *)
(* tokens                                                                                      *)
(* ------------------------------------------------------------------------------------------ *)
Inductive token :=
| TName (s : string)          (* identifier *)
| TColon | TAnno (a : string) (* an annotation expression, atomic here *)
| TEq | TEllipsis | TStar | TStarStar | TSlash | TComma | TLParen | TRParen | TArrow
| TLayout (s : string)        (* spaces, newlines, indentation *)
| TKw (s : string)            (* def / async / class *)
| TAt | TDot.

Definition tok_text (t : token) : string :=
  match t with
  | TName s => s | TColon => ":" | TAnno a => a | TEq => "=" | TEllipsis => "..."
  | TStar => "*" | TStarStar => "**" | TSlash => "/" | TComma => "," | TLParen => "(" | TRParen => ")"
  | TArrow => "->" | TLayout s => s | TKw s => s | TAt => "@" | TDot => "."
  end%string.

Fixpoint toks_text (ts : list token) : string :=
  match ts with [] => EmptyString | t :: r => (tok_text t ++ toks_text r)%string end.
Definition toks_len (ts : list token) : nat := String.length (toks_text ts).

Definition is_layout (t : token) : bool := match t with TLayout _ => true | _ => false end.
Definition strip_layout (ts : list token) : list token := filter (fun t => negb (is_layout t)) ts.

(* ------------------------------------------------------------------------------------------ *)
(* render_parameter, render_signature                                                          *)
(* ------------------------------------------------------------------------------------------ *)
Definition nl : ascii := "010"%char.
Definition sp : token := TLayout " ".

Definition render_parameter (p : param) : list token :=
  (match p_kind p with VP => [TStar] | VK => [TStarStar] | _ => [] end)
  ++ [TName (p_name p)]
  ++ (match p_anno p with Some a => [TColon; sp; TAnno a] | None => [] end)
  ++ (if p_default p then [sp; TEq; sp; TEllipsis] else []).

(* one entry of `formatted_params` *)
Inductive fitem := FSlash | FStar | FParam (p : param).

(* the loop of render_signature with its two flags, in source order *)
Fixpoint fmt_go (render_pos_only_separator render_kw_only_separator : bool) (ps : list param) : list fitem :=
  match ps with
  | [] => if render_pos_only_separator then [FSlash] else []
  | p :: r =>
      let k := p_kind p in
      let '(pre1, rps) :=
        match k with
        | PO => ([], true)
        | _ => if render_pos_only_separator then ([FSlash], false) else ([], false)
        end in
      let '(pre2, rks) :=
        match k with
        | VP => ([], false)
        | KO => if render_kw_only_separator then ([FStar], false) else ([], render_kw_only_separator)
        | _ => ([], render_kw_only_separator)
        end in
      pre1 ++ pre2 ++ FParam p :: fmt_go rps rks r
  end.
Definition formatted_params (ps : list param) : list fitem := fmt_go false true ps.

Definition fitem_tokens (it : fitem) : list token :=
  match it with FSlash => [TSlash] | FStar => [TStar] | FParam p => render_parameter p end.

Definition render_return (ret : option string) : list token :=
  match ret with Some a => [sp; TArrow; sp; TAnno a] | None => [] end.

Fixpoint join_single (its : list fitem) : list token :=
  match its with
  | [] => []
  | [it] => fitem_tokens it
  | it :: r => fitem_tokens it ++ [TComma; sp] ++ join_single r
  end.

Fixpoint lines_multi (prefix : string) (its : list fitem) : list token :=
  match its with
  | [] => []
  | it :: r =>
      [TLayout (String nl (prefix ++ "    "))%string] ++ fitem_tokens it
      ++ (match r with [] => [] | _ => [TComma] end) ++ lines_multi prefix r
  end.

Inductive layout := Single | Multi (prefix : string).

Definition render_sig (l : layout) (ps : list param) (ret : option string) : list token :=
  match l with
  | Single => [TLParen] ++ join_single (formatted_params ps) ++ [TRParen] ++ render_return ret
  | Multi prefix => [TLParen] ++ lines_multi prefix (formatted_params ps)
                    ++ [TLayout (String nl prefix); TRParen] ++ render_return ret
  end.

(* which layout: `max_line_len is None or len(rendered_single_line) <= max_line_len` *)
Definition choose_layout (max_line_len : option Z) (prefix : string) (ps : list param) (ret : option string) : layout :=
  match max_line_len with
  | None => Single
  | Some m => if (Z.of_nat (toks_len (render_sig Single ps ret)) <=? m)%Z then Single else Multi prefix
  end.

Definition render_signature (max_line_len : option Z) (prefix : string) (ps : list param) (ret : option string)
  : list token :=
  render_sig (choose_layout max_line_len prefix ps ret) ps ret.

(* ------------------------------------------------------------------------------------------ *)
(* FunctionStub.render                                                                         *)
(* ------------------------------------------------------------------------------------------ *)
Inductive fkind := KModule | KClass | KInstance | KStatic | KProperty | KCachedProperty.

Definition fkind_name (k : fkind) : string :=
  match k with
  | KModule => "MODULE" | KClass => "CLASS" | KInstance => "INSTANCE" | KStatic => "STATIC"
  | KProperty => "PROPERTY" | KCachedProperty => "DJANGO_CACHED_PROPERTY"
  end%string.
Definition fkind_eqb (a b : fkind) : bool := String.eqb (fkind_name a) (fkind_name b).

(* FunctionDefinition.has_self, against _KIND_WITH_SELF as it is in the source now (Gen/Constants.v) *)
Definition has_self (k : fkind) : bool := existsb (String.eqb (fkind_name k)) kind_with_self.

Definition decorator_of (k : fkind) : list string :=
  match k with
  | KClass => ["classmethod"] | KStatic => ["staticmethod"] | KProperty => ["property"]
  | KCachedProperty => ["cached_property"] | KModule | KInstance => []
  end%string.

Record fstub := FStub {
  fs_name : string; fs_params : list param; fs_ret : option string; fs_kind : fkind;
  fs_strip : list string;        (* strip_modules *)
  fs_async : bool }.

(* re.sub(r"(?<![\w.])(?:m1|m2|...)\.", "", s), alternatives longest first: a module prefix is removed where it starts a
   dotted name (the character before it is neither a word character nor a dot), the longest listed module winning; the
   scan resumes after the removed text (whose last character is the dot, so nothing is removed right after it). *)
Definition is_word_char (c : ascii) : bool :=
  let n := nat_of_ascii c in
  (Nat.leb 48 n && Nat.leb n 57) || (Nat.leb 65 n && Nat.leb n 90) || (Nat.leb 97 n && Nat.leb n 122) || Nat.eqb n 95.
Definition boundary_after (c : ascii) : bool := negb (is_word_char c || Ascii.eqb c "."%char).
(* length of the longest  m ++ "."  (m in mods) that s starts with; 0 if none *)
Definition best_prefix (mods : list string) (s : string) : nat :=
  fold_left (fun best m => let p := (m ++ ".")%string in
                           if String.prefix p s && Nat.ltb best (String.length p) then String.length p else best)
            mods 0.
Fixpoint strip_go (mods : list string) (prev_ok : bool) (skip : nat) (s : string) : string :=
  match s with
  | EmptyString => EmptyString
  | String c r =>
      match skip with
      | S k => strip_go mods (boundary_after c) k r
      | O => match (if prev_ok then best_prefix mods s else 0) with
             | O => String c (strip_go mods (boundary_after c) 0 r)
             | S k => strip_go mods (boundary_after c) k r
             end
      end
  end.
(* The substitution runs over the whole line.  Outside annotations a name is never followed by "." (the "..." of a
   default or of the body follows a space), so only annotation texts change; an annotation always follows ": " or
   "-> ", i.e. starts at a boundary. *)
Definition strip_text (mods : list string) (a : string) : string := strip_go mods true 0 a.
Definition strip_tok (mods : list string) (t : token) : token :=
  match t with TAnno a => TAnno (strip_text mods a) | _ => t end.

(* a stub is a list of logical lines *)
Inductive line :=
| LBlank
| LClass (name : string)                                    (* class <name>: *)
| LDecor (indent name : string)                             (* <indent>@<name> *)
| LDef (indent : string) (async : bool) (name : string) (sig : list token).  (* <indent>[async ]def <name><sig>: ... *)

Definition max_line : Z := 120%Z.

Definition def_head_len (prefix : string) (async : bool) (name : string) : nat :=
  String.length prefix + (if async then 6 else 0) + 4 + String.length name.

Definition render_function (prefix : string) (f : fstub) : list line :=
  let s_len := def_head_len prefix (fs_async f) (fs_name f) in
  let sig := render_signature (Some (max_line - Z.of_nat s_len)%Z) prefix (fs_params f) (fs_ret f) in
  map (LDecor prefix) (decorator_of (fs_kind f))
  ++ [LDef prefix (fs_async f) (fs_name f) (map (strip_tok (fs_strip f)) sig)].

(* ------------------------------------------------------------------------------------------ *)
(* dicts (insertion ordered), sorting                                                          *)
(* ------------------------------------------------------------------------------------------ *)
Section Dict.
Context {V : Type}.
Fixpoint lookup (k : string) (d : list (string * V)) : option V :=
  match d with [] => None | (k', v) :: r => if String.eqb k k' then Some v else lookup k r end.
(* d[k] = f(d[k] if k in d else dflt); an existing key keeps its position *)
Fixpoint upd (k : string) (f : V -> V) (dflt : V) (d : list (string * V)) : list (string * V) :=
  match d with
  | [] => [(k, f dflt)]
  | (k', v) :: r => if String.eqb k k' then (k', f v) :: r else (k', v) :: upd k f dflt r
  end.
Definition dict_set (k : string) (v : V) (d : list (string * V)) := upd k (fun _ => v) v d.

Fixpoint insert_sorted (kv : string * V) (l : list (string * V)) : list (string * V) :=
  match l with
  | [] => [kv]
  | h :: t => if String.leb (fst kv) (fst h) then kv :: l else h :: insert_sorted kv t
  end.
(* sorted(..., key=name): keys are unique (dict keys), so stability does not matter *)
Definition sort_by_key (l : list (string * V)) : list (string * V) := fold_right insert_sorted [] l.
End Dict.

(* ------------------------------------------------------------------------------------------ *)
(* build_module_stubs                                                                          *)
(* ------------------------------------------------------------------------------------------ *)
Record fdef := FDef {
  fd_module : string; fd_qualname : string; fd_kind : fkind; fd_async : bool;
  fd_params : list param; fd_ret : option string;
  fd_strip : list string }.    (* list(get_imports_for_signature(sig).keys()) — C11's business, an input here *)

Definition dot : ascii := "."%char.
(* str.split(".") *)
Fixpoint split_dot (s : string) : list string :=
  match s with
  | EmptyString => [EmptyString]
  | String c r =>
      if Ascii.eqb c dot then EmptyString :: split_dot r
      else match split_dot r with
           | [] => [String c EmptyString]
           | h :: t => String c h :: t
           end
  end.
(* ".".join *)
Fixpoint join_dot (l : list string) : string :=
  match l with
  | [] => EmptyString
  | [x] => x
  | x :: r => (x ++ String dot (join_dot r))%string
  end.

Definition fd_path (d : fdef) : list string := split_dot (fd_qualname d).
Definition fd_name (d : fdef) : string := last (fd_path d) EmptyString.         (* path.pop() *)
Definition fd_class_path (d : fdef) : list string := removelast (fd_path d).

Record cstub := CStub { cs_name : string; cs_funcs : list (string * fstub) }.
Record mstub := MStub { ms_funcs : list (string * fstub); ms_classes : list (string * cstub) }.

Definition fstub_of (d : fdef) : fstub :=
  FStub (fd_name d) (fd_params d) (fd_ret d) (fd_kind d) (fd_strip d) (fd_async d).

Definition add_entry (m : mstub) (d : fdef) : mstub :=
  let f := fstub_of d in
  match fd_class_path d with
  | [] => MStub (dict_set (fs_name f) f (ms_funcs m)) (ms_classes m)
  | cp => let klass := join_dot cp in
          MStub (ms_funcs m)
                (upd klass (fun c => CStub (cs_name c) (dict_set (fs_name f) f (cs_funcs c)))
                     (CStub klass []) (ms_classes m))
  end.
Definition build_one (ds : list fdef) : mstub := fold_left add_entry ds (MStub [] []).

(* modules in first-seen order, each with the entries of that module in their order *)
Fixpoint modules_of (seen : list string) (ds : list fdef) : list string :=
  match ds with
  | [] => []
  | d :: r => if existsb (String.eqb (fd_module d)) seen then modules_of seen r
              else fd_module d :: modules_of (fd_module d :: seen) r
  end.
Definition build_module_stubs (ds : list fdef) : list (string * mstub) :=
  map (fun m => (m, build_one (filter (fun d => String.eqb (fd_module d) m) ds))) (modules_of [] ds).

(* ------------------------------------------------------------------------------------------ *)
(* ClassStub.render / ModuleStub.render (function stubs only; imports and TypedDict classes are C11) *)
(* ------------------------------------------------------------------------------------------ *)
Definition indent4 : string := "    "%string.

Definition render_class (c : cstub) : list line :=
  LClass (cs_name c) :: flat_map (fun kv => render_function indent4 (snd kv)) (sort_by_key (cs_funcs c)).

Definition module_parts (m : mstub) : list (list line) :=
  map (fun kv => render_function EmptyString (snd kv)) (sort_by_key (ms_funcs m))
  ++ map (fun kv => render_class (snd kv)) (sort_by_key (ms_classes m)).

(* "\n\n\n".join(parts) *)
Fixpoint join_parts (parts : list (list line)) : list line :=
  match parts with
  | [] => []
  | [p] => p
  | p :: r => p ++ [LBlank; LBlank] ++ join_parts r
  end.
Definition render_module (m : mstub) : list line := join_parts (module_parts m).

(* text *)
Definition line_text (l : line) : string :=
  match l with
  | LBlank => EmptyString
  | LClass n => ("class " ++ n ++ ":")%string
  | LDecor i n => (i ++ "@" ++ n)%string
  | LDef i a n sig => (i ++ (if a then "async " else "") ++ "def " ++ n ++ toks_text sig ++ ": ...")%string
  end.
Fixpoint lines_text (ls : list line) : string :=
  match ls with
  | [] => EmptyString
  | [l] => line_text l
  | l :: r => (line_text l ++ String nl (lines_text r))%string
  end.

(* token stream modulo layout *)
Fixpoint dotted_tokens (l : list string) : list token :=
  match l with [] => [] | [x] => [TName x] | x :: r => TName x :: TDot :: dotted_tokens r end.
Definition line_tokens (l : line) : list token :=
  match l with
  | LBlank => []
  | LClass n => TKw "class" :: dotted_tokens (split_dot n) ++ [TColon]
  | LDecor _ n => [TAt; TName n]
  | LDef _ a n sig => (if a then [TKw "async"] else []) ++ [TKw "def"; TName n] ++ strip_layout sig ++ [TColon; TEllipsis]
  end.
Definition lines_tokens (ls : list line) : list token := flat_map line_tokens ls.

(* ------------------------------------------------------------------------------------------ *)
(* reparse: Python's parameter grammar over these tokens                                       *)
(* ------------------------------------------------------------------------------------------ *)
Inductive pstars := S0 | S1 | S2.
Inductive pitem := ISlash | IStar | IParam (stars : pstars) (name : string) (anno dflt : bool).

(* up to the closing parenthesis, cut at commas (annotations are atomic, so there is no nesting) *)
Fixpoint split_commas (ts : list token) : option (list (list token) * list token) :=
  match ts with
  | [] => None
  | TRParen :: rest => Some ([[]], rest)
  | TComma :: r =>
      match split_commas r with
      | Some (segs, rest) => Some ([] :: segs, rest)
      | None => None
      end
  | t :: r =>
      match split_commas r with
      | Some (seg :: segs, rest) => Some ((t :: seg) :: segs, rest)
      | _ => None
      end
  end.

Definition param_tail (st : pstars) (ts : list token) : option pitem :=
  match ts with
  | [TName n] => Some (IParam st n false false)
  | [TName n; TColon; TAnno _] => Some (IParam st n true false)
  | [TName n; TEq; TEllipsis] => Some (IParam st n false true)
  | [TName n; TColon; TAnno _; TEq; TEllipsis] => Some (IParam st n true true)
  | _ => None
  end.
Definition parse_seg (ts : list token) : option pitem :=
  match ts with
  | [TSlash] => Some ISlash
  | [TStar] => Some IStar
  | TStar :: r => param_tail S1 r
  | TStarStar :: r => param_tail S2 r
  | r => param_tail S0 r
  end.

Fixpoint map_opt {A B} (f : A -> option B) (l : list A) : option (list B) :=
  match l with
  | [] => Some []
  | a :: r => match f a, map_opt f r with Some b, Some bs => Some (b :: bs) | _, _ => None end
  end.

Inductive phase := PhPos | PhKw (need_named : bool) | PhDone.

(* after any "/" : positional-or-keyword, then *args or bare *, keyword-only, **kwargs *)
Fixpoint classify_rest (ph : phase) (seen_default : bool) (its : list pitem) : option (list pentry) :=
  match its with
  | [] => match ph with PhKw true => None | _ => Some [] end
  | ISlash :: _ => None
  | IStar :: r => match ph with PhPos => classify_rest (PhKw true) seen_default r | _ => None end
  | IParam S0 n a d :: r =>
      match ph with
      | PhPos => if seen_default && negb d then None
                 else option_map (cons (n, PK, d, a)) (classify_rest PhPos (seen_default || d) r)
      | PhKw _ => option_map (cons (n, KO, d, a)) (classify_rest (PhKw false) seen_default r)
      | PhDone => None
      end
  | IParam S1 n a d :: r =>
      if d then None else
      match ph with
      | PhPos => option_map (cons (n, VP, false, a)) (classify_rest (PhKw false) seen_default r)
      | _ => None
      end
  | IParam S2 n a d :: r =>
      if d then None else
      match ph with
      | PhPos | PhKw false => option_map (cons (n, VK, false, a)) (classify_rest PhDone seen_default r)
      | _ => None
      end
  end.

(* the parameters before "/": plain names only; returns them as positional-only and the default flag *)
Fixpoint classify_pos (seen_default : bool) (its : list pitem) : option (list pentry * bool) :=
  match its with
  | [] => Some ([], seen_default)
  | IParam S0 n a d :: r =>
      if seen_default && negb d then None
      else match classify_pos (seen_default || d) r with
           | Some (es, sd) => Some ((n, PO, d, a) :: es, sd)
           | None => None
           end
  | _ => None
  end.

(* the items before the first "/" and those after it *)
Fixpoint split_slash (its : list pitem) : option (list pitem * list pitem) :=
  match its with
  | [] => None
  | ISlash :: r => Some ([], r)
  | it :: r => match split_slash r with Some (a, b) => Some (it :: a, b) | None => None end
  end.

Definition classify (its : list pitem) : option (list pentry) :=
  match split_slash its with
  | None => classify_rest PhPos false its
  | Some ([], _) => None                                   (* "/" must follow a parameter *)
  | Some (pre, post) =>
      match classify_pos false pre with
      | Some (es, sd) => option_map (app es) (classify_rest PhPos sd post)
      | None => None
      end
  end.

(* "(" params ")" [ "->" annotation ]; layout dropped first (inside the parentheses Python's tokenizer ignores
   newlines and indentation; the spaces around "->" are ordinary inter-token space) *)
Definition reparse_sig (ts : list token) : option (list pentry * bool) :=
  match strip_layout ts with
  | TLParen :: r =>
      match split_commas r with
      | Some (segs, rest) =>
          let params :=
            match segs with
            | [[]] => Some []
            | _ => match map_opt parse_seg segs with Some its => classify its | None => None end
            end in
          match params, rest with
          | Some es, [] => Some (es, false)
          | Some es, [TArrow; TAnno _] => Some (es, true)
          | _, _ => None
          end
      | None => None
      end
  | _ => None
  end.
Definition reparse (ts : list token) : option (list pentry) := option_map fst (reparse_sig ts).

(* ------------------------------------------------------------------------------------------ *)
(* parse_module: the block structure of a stub                                                 *)
(* ------------------------------------------------------------------------------------------ *)
Record item := Item {
  it_class : list string;        (* enclosing classes, outermost first *)
  it_name : string;
  it_decor : list string;
  it_async : bool;
  it_params : list pentry;
  it_ret : bool }.

Fixpoint no_dot (s : string) : bool :=
  match s with EmptyString => true | String c r => negb (Ascii.eqb c dot) && no_dot r end.
(* `class <name>:` is a class header iff <name> is one identifier (identifier characters are the harness's
   and Python's business; what the model can get wrong is the dot) *)
Definition ident_ok (s : string) : bool := negb (String.eqb s EmptyString) && no_dot s.

Definition is_blank (l : line) : bool := match l with LBlank => true | _ => false end.

Inductive pstate :=
| STop                                   (* at module level *)
| SClass (c : string) (ind : option string).   (* after `class c:`; ind = indentation of its body once seen *)

Definition empty_indent (i : string) : bool := String.eqb i EmptyString.

(* may a line indented by i come next, and in which state does it land? *)
Definition enter (st : pstate) (i : string) : option pstate :=
  if empty_indent i then
    match st with
    | STop => Some STop
    | SClass _ (Some _) => Some STop            (* dedent: the class body is over *)
    | SClass _ None => None                     (* expected an indented block *)
    end
  else
    match st with
    | STop => None                              (* unexpected indent *)
    | SClass c None => Some (SClass c (Some i))
    | SClass c (Some i') => if String.eqb i i' then Some st else None
    end.

Definition class_of_state (st : pstate) : list string :=
  match st with STop => [] | SClass c _ => [c] end.

(* pend: indentation and names of the decorator lines waiting for their def *)
Fixpoint parse_lines (st : pstate) (pend : option (string * list string)) (ls : list line) : option (list item) :=
  match ls with
  | [] => match pend, st with
          | Some _, _ => None
          | None, SClass _ None => None
          | None, _ => Some []
          end
  | LBlank :: r => parse_lines st pend r
  | LClass n :: r =>
      match pend, enter st EmptyString with
      | None, Some _ => if ident_ok n then parse_lines (SClass n None) None r else None
      | _, _ => None
      end
  | LDecor i n :: r =>
      match pend with
      | None => match enter st i with
                | Some st' => parse_lines st' (Some (i, [n])) r
                | None => None
                end
      | Some (i', ns) => if String.eqb i i' then parse_lines st (Some (i', ns ++ [n])) r else None
      end
  | LDef i a n sig :: r =>
      let go (st' : pstate) (decor : list string) :=
        match reparse_sig sig with
        | Some (es, ret) =>
            option_map (cons (Item (class_of_state st') n decor a es ret)) (parse_lines st' None r)
        | None => None
        end in
      match pend with
      | None => match enter st i with Some st' => go st' [] | None => None end
      | Some (i', ns) => if String.eqb i i' then go st ns else None
      end
  end.
Definition parse_module (ls : list line) : option (list item) := parse_lines STop None ls.

(* ------------------------------------------------------------------------------------------ *)
(* update_signature_args (what get_updated_definition does to parameter annotations)           *)
(* ------------------------------------------------------------------------------------------ *)
Inductive strategy := REPLICATE | IGNORE | OMIT.
Definition strategy_eqb (a b : strategy) : bool :=
  match a, b with REPLICATE, REPLICATE | IGNORE, IGNORE | OMIT, OMIT => true | _, _ => false end.

Definition set_anno (p : param) (a : option string) : param := Param (p_name p) (p_kind p) a (p_default p).

Fixpoint update_args_go (hs : bool) (st : strategy) (traced : string -> option string) (idx : nat)
         (ps : list param) : list param :=
  match ps with
  | [] => []
  | p :: r =>
      let annotated := isSome (p_anno p) in
      let p1 := if annotated && strategy_eqb st OMIT then set_anno p None else p in
      let is_self := hs && Nat.eqb idx 0 in
      let p2 := if negb is_self && (strategy_eqb st IGNORE || negb annotated)
                then set_anno p1 (traced (p_name p)) else p1 in
      p2 :: update_args_go hs st traced (S idx) r
  end.
Definition update_signature_args (k : fkind) (st : strategy) (traced : string -> option string) (ps : list param) :=
  update_args_go (has_self k) st traced 0 ps.

(* ------------------------------------------------------------------------------------------ *)
(* the known finding class                                                                      *)
(* ------------------------------------------------------------------------------------------ *)
(* the function's qualname has two or more class components: Outer.Inner.m *)
Definition kf_nested_class (d : fdef) : bool := Nat.leb 2 (List.length (fd_class_path d)).

(* what a stub should show for a definition *)
Definition expected_item (d : fdef) : item :=
  Item (fd_class_path d) (fd_name d) (decorator_of (fd_kind d)) (fd_async d) (map erase (fd_params d)) (isSome (fd_ret d)).

Definition all_nonempty (l : list string) : bool := forallb (fun s => negb (String.eqb s EmptyString)) l.
(* a definition MonkeyType can meet: a qualname of non-empty components, a signature inspect accepts *)
Definition valid_def (d : fdef) : bool := all_nonempty (fd_path d) && valid_signature (fd_params d).
