(* Known finding kf_raise_at_yield (C02): an exception thrown into a suspended generator (close(), throw(), GC of
   a live generator) unwinds the frame with f_lasti still at the YIELD_VALUE; the tracer reads that as a yield of
   None, never logs the call and keeps the frame's entry.  Witness replayed on the real code by the C02 check. *)
From MT Require Import Types Tracer.

Theorem raise_at_yield_refuted :
  exists H f, forallb (fun e => ev_consistent e || kf_raise_at_yield e) H = true
    /\ forallb (fun f => wf_frame (proj f H)) (frames_of H) = true
    /\ logged_for f (run None H) <> expected_frame (proj f H)
    /\ lookup f (live (run None H)) <> None /\ pending_frame (proj f H) = false.
Proof.
  exists [EvCall 1 (Code 1 false true (Some 5%N) KGen) [] 0;
          EvReturn 1 (Code 1 false true (Some 5%N) KGen) SYield op_yield (TCls cInt);
          EvCall 1 (Code 1 false true (Some 5%N) KGen) [] 0;
          EvReturn 1 (Code 1 false true (Some 5%N) KGen) SRaise op_yield (TCls cNone)], 1%N.
  vm_compute. repeat split; discriminate.
Qed.
Print Assumptions raise_at_yield_refuted.
