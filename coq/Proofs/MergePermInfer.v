(* Proofs/MergePermInfer.v — C04/C14: the order/multiplicity theorems of MergePerm.v at the level of VALUES
   (infer k vs), the k = 0 corollary (order and multiplicity of the values are both immaterial), the refutation of
   unrestricted multiplicity invariance (DESIGN Appendix B-2), and non-vacuity examples for every theorem. *)
From MT Require Import Types StubSet Infer TypesFacts UnionFacts InferFacts StubSetEquiv StubSetOrder StubSetMerge
  InferSound GetTypeSound TdBounded MergePermBase MergePerm.
From Coq Require Import Lia Sorting.Permutation.

(* ---------- a boolean reading of wf_ty (used to discharge the premises of the examples) ---------- *)
Fixpoint wf_ty_b (t : ty) : bool :=
  match t with
  | TAny | TCls _ | TCallable | TFwd _ => true
  | TType x | TList x | TSet x | TIterator x | TTupleVar x => wf_ty_b x
  | TDict k v | TDefaultDict k v => wf_ty_b k && wf_ty_b v
  | TTuple ts | TUnion ts => forallb wf_ty_b ts
  | TGenerator a b c => wf_ty_b a && wf_ty_b b && wf_ty_b c
  | TTypedDict r o => nodup_strb (map fst r ++ map fst o)
                      && forallb (fun f => wf_ty_b (snd f)) r && forallb (fun f => wf_ty_b (snd f)) o
  end.

Lemma wf_ty_b_sound t : wf_ty_b t = true -> wf_ty t.
Proof.
  induction t as [ | c | x IH | | x IH | x IH | x IH | k v0 IHk IHv | k v0 IHk IHv | xs IH | x IH
                 | a1 a2 a3 IH1 IH2 IH3 | xs IH | r o IHr IHo | s ] using ty_ind';
    cbn [wf_ty_b]; intros H; try exact I; try (cbn [wf_ty]; auto; fail).
  - apply andb_prop in H. destruct H. cbn [wf_ty]. auto.
  - apply andb_prop in H. destruct H. cbn [wf_ty]. auto.
  - apply wf_TTuple. rewrite forallb_forall in H. rewrite Forall_forall in *. auto.
  - apply andb_prop in H. destruct H as [H H3]. apply andb_prop in H. destruct H. cbn [wf_ty]. auto.
  - apply wf_TUnion. rewrite forallb_forall in H. rewrite Forall_forall in *. auto.
  - apply andb_prop in H. destruct H as [H Ho]. apply andb_prop in H. destruct H as [ND Hr].
    apply wf_TTypedDict. rewrite forallb_forall in Hr, Ho. rewrite Forall_forall in *.
    split; [apply nodup_strb_NoDup; exact ND|]. split; rewrite ?Forall_forall; auto.
Qed.

Lemma wf_ty_b_Forall ts : forallb wf_ty_b ts = true -> Forall wf_ty ts.
Proof. rewrite forallb_forall, Forall_forall. intros H x Hx. apply wf_ty_b_sound. auto. Qed.

(* ---------- mapM and list presentations ---------- *)
Lemma mapM_perm {A B} (f : A -> option B) l l' : Permutation l l' ->
  forall r, mapM f l = Some r -> exists r', mapM f l' = Some r' /\ Permutation r r'.
Proof.
  induction 1 as [|x l l' P IH|x y l|l l' l'' P1 IH1 P2 IH2]; intros r H.
  - exists r. split; [exact H|apply Permutation_refl].
  - cbn [mapM] in *. destruct (f x) as [b|]; [|discriminate H]. destruct (mapM f l) as [bs|]; [|discriminate H].
    injection H as <-. destruct (IH bs eq_refl) as [bs' [-> P']]. exists (b :: bs'). split; [reflexivity|].
    apply perm_skip. exact P'.
  - cbn [mapM] in *. destruct (f y) as [b|]; [|discriminate H]. destruct (f x) as [a|]; [|discriminate H].
    destruct (mapM f l) as [bs|]; [|discriminate H]. injection H as <-.
    exists (a :: b :: bs). split; [reflexivity|apply perm_swap].
  - destruct (IH1 r H) as [r' [H' P']]. destruct (IH2 r' H') as [r'' [H'' P'']].
    exists r''. split; [exact H''|]. eapply Permutation_trans; eassumption.
Qed.

Lemma mapM_In {A B} (f : A -> option B) l : forall r x,
  mapM f l = Some r -> In x l -> exists y, f x = Some y /\ In y r.
Proof.
  induction l as [|a l IH]; intros r x H Hx; [destruct Hx|]. cbn [mapM] in H.
  destruct (f a) as [b|] eqn:Fa; [|discriminate H]. destruct (mapM f l) as [bs|]; [|discriminate H].
  injection H as <-. destruct Hx as [<-|Hx].
  - exists b. split; [exact Fa|left; reflexivity].
  - destruct (IH bs x eq_refl Hx) as [y [Fy Hy]]. exists y. split; [exact Fy|right; exact Hy].
Qed.

Lemma mapM_In_back {A B} (f : A -> option B) l : forall r y,
  mapM f l = Some r -> In y r -> exists x, In x l /\ f x = Some y.
Proof.
  induction l as [|a l IH]; intros r y H Hy; cbn [mapM] in H; [injection H as <-; destruct Hy|].
  destruct (f a) as [b|] eqn:Fa; [|discriminate H]. destruct (mapM f l) as [bs|]; [|discriminate H].
  injection H as <-. destruct Hy as [<-|Hy].
  - exists a. split; [left; reflexivity|exact Fa].
  - destruct (IH bs y eq_refl Hy) as [x [Hx Fx]]. exists x. split; [right; exact Hx|exact Fx].
Qed.

Lemma mapM_defined_all {A B} (f : A -> option B) l :
  (forall x, In x l -> exists y, f x = Some y) -> exists r, mapM f l = Some r.
Proof.
  induction l as [|a l IH]; intros H; [exists []; reflexivity|]. cbn [mapM].
  destruct (H a (or_introl eq_refl)) as [b ->].
  destruct IH as [bs ->]; [intros x Hx; apply H; right; exact Hx|]. exists (b :: bs). reflexivity.
Qed.

Lemma get_types_wf k vs ts :
  forallb wf_valueb vs = true -> mapM (get_type k) vs = Some ts -> Forall wf_ty ts.
Proof.
  intros WV HM.
  assert (HF : Forall (gt_ok (fun c a => N.eqb c a) k) vs).
  { rewrite Forall_forall. intros x _. apply get_type_ok. intros c. apply N.eqb_refl. }
  destruct (mapM_gt_ok (fun c a => N.eqb c a) k (fun e => e) vs ts HF WV HM) as [X _]. exact X.
Qed.

Lemma get_types0_tdfree vs ts :
  forallb wf_valueb vs = true -> mapM (get_type 0) vs = Some ts -> Forall (fun t => has_td t = false) ts.
Proof.
  intros WV HM.
  assert (HF : Forall (gt_bd 0) vs) by (rewrite Forall_forall; intros x _; apply get_type_bd).
  destruct (mapM_gt_bd 0 (fun e => e) vs ts HF WV HM) as [B _].
  rewrite forallb_forall in B. rewrite Forall_forall. intros t Ht. apply bd_k0_no_td. apply B. exact Ht.
Qed.

(* ================= ORDER of the values: every k, TypedDicts anywhere ================= *)
Theorem infer_perm_members anyb sub k vs vs' t t' :
  forallb wf_valueb vs = true -> Permutation vs vs' ->
  infer k vs = Some t -> infer k vs' = Some t' ->
  forall v, member anyb sub v t = member anyb sub v t'.
Proof.
  unfold infer. intros WV P H H'.
  apply opt_bind_Some in H. destruct H as [ts [HM HS]].
  apply opt_bind_Some in H'. destruct H' as [ts' [HM' HS']].
  destruct (mapM_perm _ _ _ P ts HM) as [ts'' [HM'' P']]. rewrite HM' in HM''. injection HM'' as <-.
  apply (merge_perm_members anyb sub k ts ts' t t'); try assumption. apply (get_types_wf k vs ts WV HM).
Qed.

Theorem infer_perm_defined k vs vs' t :
  forallb wf_valueb vs = true -> Permutation vs vs' -> infer k vs = Some t -> exists t', infer k vs' = Some t'.
Proof.
  unfold infer. intros WV P H. apply opt_bind_Some in H. destruct H as [ts [HM HS]].
  destruct (mapM_perm _ _ _ P ts HM) as [ts' [HM' P']]. rewrite HM'. cbn [opt_bind].
  apply (merge_perm_defined k ts ts' t); try assumption. apply (get_types_wf k vs ts WV HM).
Qed.

(* ================= MULTIPLICITY of a value whose type is outside the finding class ================= *)
Theorem infer_dup_members anyb sub k vs x tx t t' :
  forallb wf_valueb vs = true -> In x vs -> get_type k x = Some tx -> kf_td_under_union tx = false ->
  infer k vs = Some t -> infer k (x :: vs) = Some t' ->
  forall v, member anyb sub v t = member anyb sub v t'.
Proof.
  unfold infer. intros WV Hx Gx T H H'.
  apply opt_bind_Some in H. destruct H as [ts [HM HS]].
  cbn [mapM] in H'. rewrite Gx, HM in H'. cbn [opt_bind] in H'.
  apply (merge_dup_members anyb sub k ts tx t t'); try assumption.
  - apply (get_types_wf k vs ts WV HM).
  - destruct (mapM_In _ _ _ _ HM Hx) as [y [Gy Hy]]. rewrite Gx in Gy. injection Gy as <-. exact Hy.
Qed.

Theorem infer_dup_defined k vs x tx t :
  forallb wf_valueb vs = true -> In x vs -> get_type k x = Some tx -> kf_td_under_union tx = false ->
  infer k vs = Some t -> exists t', infer k (x :: vs) = Some t'.
Proof.
  unfold infer. intros WV Hx Gx T H.
  apply opt_bind_Some in H. destruct H as [ts [HM HS]].
  cbn [mapM]. rewrite Gx, HM. cbn [opt_bind].
  apply (merge_dup_defined k ts tx); try assumption.
  - apply (get_types_wf k vs ts WV HM).
  - destruct (mapM_In _ _ _ _ HM Hx) as [y [Gy Hy]]. rewrite Gx in Gy. injection Gy as <-. exact Hy.
  - exists t. exact HS.
Qed.

(* ================= k = 0 (no TypedDicts are produced): only the SET of values matters ================= *)
Theorem infer0_set_members anyb sub vs vs' t t' :
  forallb wf_valueb vs = true -> incl vs vs' -> incl vs' vs ->
  infer 0 vs = Some t -> infer 0 vs' = Some t' ->
  forall v, member anyb sub v t = member anyb sub v t'.
Proof.
  unfold infer. intros WV I1 I2 H H'.
  apply opt_bind_Some in H. destruct H as [ts [HM HS]].
  apply opt_bind_Some in H'. destruct H' as [ts' [HM' HS']].
  apply (shrink_top_set_invariant anyb sub 0 ts ts' t t'); try assumption.
  - apply (get_types0_tdfree vs ts WV HM).
  - intros y Hy. destruct (mapM_In_back _ _ _ _ HM Hy) as [x [Hx Gx]].
    destruct (mapM_In _ _ _ _ HM' (I1 x Hx)) as [y' [Gy' Hy']]. rewrite Gx in Gy'. injection Gy' as <-. exact Hy'.
  - intros y Hy. destruct (mapM_In_back _ _ _ _ HM' Hy) as [x [Hx Gx]].
    destruct (mapM_In _ _ _ _ HM (I2 x Hx)) as [y' [Gy' Hy']]. rewrite Gx in Gy'. injection Gy' as <-. exact Hy'.
Qed.

Theorem infer0_set_defined vs vs' t :
  forallb wf_valueb vs = true -> incl vs' vs -> infer 0 vs = Some t -> exists t', infer 0 vs' = Some t'.
Proof.
  unfold infer. intros WV I2 H. apply opt_bind_Some in H. destruct H as [ts [HM HS]].
  destruct (mapM_defined_all (get_type 0) vs') as [ts' HM'].
  { intros x Hx. destruct (mapM_In _ _ _ _ HM (I2 x Hx)) as [y [Gy _]]. exists y. exact Gy. }
  rewrite HM'. cbn [opt_bind]. apply shrink_top_tdfree_defined.
  apply (get_types0_tdfree vs' ts'); [|exact HM'].
  rewrite forallb_forall in *. intros x Hx. apply WV. apply I2. exact Hx.
Qed.

Corollary infer0_perm_members anyb sub vs vs' t t' :
  forallb wf_valueb vs = true -> Permutation vs vs' -> infer 0 vs = Some t -> infer 0 vs' = Some t' ->
  forall v, member anyb sub v t = member anyb sub v t'.
Proof. apply infer_perm_members. Qed.

Corollary infer0_dup_members anyb sub vs x t t' :
  forallb wf_valueb vs = true -> In x vs -> infer 0 vs = Some t -> infer 0 (x :: vs) = Some t' ->
  forall v, member anyb sub v t = member anyb sub v t'.
Proof.
  intros WV Hx. apply infer0_set_members; [exact WV|apply incl_tl; apply incl_refl|].
  intros y [<-|Hy]; assumption.
Qed.

(* ================= multiplicity invariance WITHOUT the class premise is false (DESIGN B-2) ================= *)
Open Scope string_scope.

(* v = ([defaultdict(a={'x':1}), 1], {'q':1}) *)
Definition v_b2 : value :=
  VTuple [VList [VDefaultDict [(VStr "a", VDict [(VStr "x", VAtom cInt 1)])]; VAtom cInt 1];
          VDict [(VStr "q", VAtom cInt 1)]].

Definition t_b2 : ty :=
  TTuple [TList (TUnion [TDefaultDict (TCls cStr) (TTypedDict [("x", TCls cInt)] []); TCls cInt]);
          TTypedDict [("q", TCls cInt)] []].

(* seen once: the TypedDict {'q': int} survives; seen twice: == fails on the two (identical) types, the union path
   rewrites every TypedDict it can reach to Dict[str, int] *)
Definition t_b2_twice : ty :=
  let tup := TTuple [TList (TUnion [TDefaultDict (TCls cStr) (TTypedDict [("x", TCls cInt)] []); TCls cInt]);
                     TDict (TCls cStr) (TCls cInt)] in
  TUnion [tup; tup].

Example ex_b2_facts :
  wf_valueb v_b2 = true /\ get_type 1 v_b2 = Some t_b2 /\ wf_ty_b t_b2 = true
  /\ kf_td_under_union t_b2 = true /\ py_eqb t_b2 t_b2 = false /\ equivb t_b2 t_b2 = true
  /\ shrink_top 1 [t_b2] = Some t_b2 /\ shrink_top 1 [t_b2; t_b2] = Some t_b2_twice
  /\ infer 1 [v_b2] = Some t_b2 /\ infer 1 [v_b2; v_b2] = Some t_b2_twice
  /\ equivb t_b2 t_b2_twice = false.
Proof. vm_compute. repeat split; reflexivity. Qed.

(* a value the twice-seen type admits and the once-seen type rejects *)
Definition w_b2 : value := VTuple [VList []; VDict [(VStr "zz", VAtom cInt 1)]].

Theorem merge_dup_refuted :
  exists k ts x t t',
    Forall wf_ty ts /\ In x ts /\ shrink_top k ts = Some t /\ shrink_top k (x :: ts) = Some t'
    /\ equivb t t' = false
    /\ exists w, forall anyb, member anyb (subclass []) w t = false /\ member anyb (subclass []) w t' = true.
Proof.
  exists 1, [t_b2], t_b2, t_b2, t_b2_twice. split; [apply wf_ty_b_Forall; vm_compute; reflexivity|].
  split; [left; reflexivity|]. split; [vm_compute; reflexivity|]. split; [vm_compute; reflexivity|].
  split; [vm_compute; reflexivity|]. exists w_b2. intros [|]; vm_compute; split; reflexivity.
Qed.

(* the same, on values: observing v a second time changes what the inferred type admits *)
Theorem infer_dup_refuted :
  exists k vs x t t',
    forallb wf_valueb vs = true /\ In x vs /\ infer k vs = Some t /\ infer k (x :: vs) = Some t'
    /\ exists w, forall anyb, member anyb (subclass []) w t = false /\ member anyb (subclass []) w t' = true.
Proof.
  exists 1, [v_b2], v_b2, t_b2, t_b2_twice. split; [vm_compute; reflexivity|].
  split; [left; reflexivity|]. split; [vm_compute; reflexivity|]. split; [vm_compute; reflexivity|].
  exists w_b2. intros [|]; vm_compute; split; reflexivity.
Qed.

(* the statement with the class as a parameter: true for "outside kf_td_under_union", false for "any type" *)
Definition merge_dup_stmt (P : ty -> bool) : Prop :=
  forall anyb sub k ts x t t',
    Forall wf_ty ts -> In x ts -> P x = true ->
    shrink_top k ts = Some t -> shrink_top k (x :: ts) = Some t' ->
    forall v, member anyb sub v t = member anyb sub v t'.

Theorem merge_dup_outside_class : merge_dup_stmt (fun x => negb (kf_td_under_union x)).
Proof.
  intros anyb sub k ts x t t' W Hx T. apply negb_true_iff in T. apply merge_dup_members; assumption.
Qed.

Theorem merge_dup_unrestricted_refuted : ~ merge_dup_stmt (fun _ => true).
Proof.
  intros H.
  specialize (H false (subclass []) 1 [t_b2] t_b2 t_b2 t_b2_twice
                (wf_ty_b_Forall [t_b2] eq_refl) (or_introl eq_refl) eq_refl eq_refl eq_refl w_b2).
  vm_compute in H. discriminate H.
Qed.

(* ================= non-vacuity ================= *)
Definition td_a  : ty := TTypedDict [("a", TCls cInt)] [].
Definition td_ab : ty := TTypedDict [("a", TCls cStr); ("b", TCls cInt)] [].
Definition td_bo : ty := TTypedDict [("b", TCls cInt)] [("a", TCls cInt)].
(* two inputs IN the finding class: a field whose type is a Union with a TypedDict member *)
Definition td_nest1 : ty := TTypedDict [("a", TTypedDict [("x", TCls cStr)] []); ("c", TUnion [td_a; TCls cInt])] [].
Definition td_nest2 : ty := TTypedDict [("c", TUnion [td_a; TCls cInt])] [("b", TList td_a)].

(* merge_perm_members / merge_perm_defined: four TypedDicts, two of them in the finding class; the TypedDict path
   (k = 3: fields come out in a different order, union members too) and the oversize path (k = 1) *)
Example ex_merge_perm :
  let ts  := [td_ab; td_bo; td_nest1; td_nest2] in
  let ts' := [td_nest2; td_nest1; td_bo; td_ab] in
  forallb wf_ty_b ts = true /\ Permutation ts ts'
  /\ map kf_td_under_union ts = [false; false; true; true]
  /\ shrink_top 3 ts =
       Some (TTypedDict []
               [("a", TUnion [TCls cStr; TDict (TCls cStr) (TCls cStr); TCls cInt]);
                ("b", TUnion [TCls cInt; TList (TDict (TCls cStr) (TCls cInt))]);
                ("c", TUnion [TDict (TCls cStr) (TCls cInt); TCls cInt])])
  /\ shrink_top 3 ts' =
       Some (TTypedDict []
               [("c", TUnion [TDict (TCls cStr) (TCls cInt); TCls cInt]);
                ("a", TUnion [TDict (TCls cStr) (TCls cStr); TCls cStr; TCls cInt]);
                ("b", TUnion [TCls cInt; TList (TDict (TCls cStr) (TCls cInt))])])
  /\ opt_equivb (shrink_top 3 ts) (shrink_top 3 ts') = true
  /\ (exists T T', shrink_top 1 ts = Some (TDict (TCls cStr) T) /\ shrink_top 1 ts' = Some (TDict (TCls cStr) T')
                   /\ ty_eqb T T' = false /\ equivb T T' = true).
Proof.
  cbv zeta. split; [vm_compute; reflexivity|]. split; [exact (Permutation_rev [td_ab; td_bo; td_nest1; td_nest2])|].
  split; [vm_compute; reflexivity|]. split; [vm_compute; reflexivity|]. split; [vm_compute; reflexivity|].
  split; [vm_compute; reflexivity|]. eexists. eexists. split; [vm_compute; reflexivity|].
  split; [vm_compute; reflexivity|]. split; vm_compute; reflexivity.
Qed.

(* required keys survive a reordering as required keys, with the field types merged recursively (a nested
   TypedDict merge below the key "a") *)
Example ex_merge_perm_required :
  let x1 := TTypedDict [("a", TTypedDict [("x", TCls cInt)] []); ("n", TCls cInt)] [] in
  let x2 := TTypedDict [("n", TCls cStr); ("a", TTypedDict [("x", TCls cStr); ("y", TCls cInt)] [])] [] in
  let x3 := TTypedDict [("a", TTypedDict [("x", TCls cInt)] []); ("n", TCls cInt)] [("z", TCls cNone)] in
  forallb wf_ty_b [x1; x2; x3] = true /\ Permutation [x1; x2; x3] [x3; x1; x2]
  /\ shrink_top 3 [x1; x2; x3] =
       Some (TTypedDict [("a", TTypedDict [("x", TUnion [TCls cInt; TCls cStr])] [("y", TCls cInt)]);
                         ("n", TUnion [TCls cInt; TCls cStr])] [("z", TCls cNone)])
  /\ shrink_top 3 [x3; x1; x2] =
       Some (TTypedDict [("a", TTypedDict [("x", TUnion [TCls cInt; TCls cStr])] [("y", TCls cInt)]);
                         ("n", TUnion [TCls cInt; TCls cStr])] [("z", TCls cNone)])
  /\ shrink_top 3 [x2; x3; x1] =
       Some (TTypedDict [("n", TUnion [TCls cStr; TCls cInt]);
                         ("a", TTypedDict [("x", TUnion [TCls cStr; TCls cInt])] [("y", TCls cInt)])] [("z", TCls cNone)]).
Proof.
  cbv zeta. split; [vm_compute; reflexivity|]. split.
  - apply Permutation_sym. apply (Permutation_cons_append [_; _] _).
  - vm_compute. repeat split; reflexivity.
Qed.

(* merge_dup_members: the duplicated type is outside the class (it may contain TypedDicts), another input is in it *)
Example ex_merge_dup :
  let x := TTuple [td_ab; TList td_a] in
  let y := TTuple [TUnion [td_a; TCls cInt]; TList td_a] in
  forallb wf_ty_b [y; x] = true /\ In x [y; x]
  /\ kf_td_under_union x = false /\ has_td x = true /\ kf_td_under_union y = true
  /\ opt_equivb (shrink_top 2 [y; x]) (shrink_top 2 (x :: [y; x])) = true /\ shrink_top 2 [y; x] <> None
  /\ shrink_top 2 [x] = Some x /\ shrink_top 2 [x; x] = Some x
  /\ (exists t t', shrink_top 2 [td_ab; td_a] = Some t /\ shrink_top 2 [td_a; td_ab; td_a] = Some t'
                   /\ ty_eqb t t' = false /\ equivb t t' = true).
Proof.
  cbv zeta. split; [vm_compute; reflexivity|]. split; [right; left; reflexivity|].
  split; [vm_compute; reflexivity|]. split; [vm_compute; reflexivity|]. split; [vm_compute; reflexivity|].
  split; [vm_compute; reflexivity|]. split; [vm_compute; discriminate|]. split; [vm_compute; reflexivity|].
  split; [vm_compute; reflexivity|]. eexists. eexists. split; [vm_compute; reflexivity|].
  split; [vm_compute; reflexivity|]. split; vm_compute; reflexivity.
Qed.

(* merge_set_members: the same set of class-free types in different orders and multiplicities *)
Example ex_merge_set :
  let ts  := [td_ab; td_bo; TList td_a] in
  let ts' := [TList td_a; td_bo; td_bo; td_ab; TList td_a] in
  forallb wf_ty_b ts = true /\ forallb (fun t => negb (kf_td_under_union t)) ts = true
  /\ forallb (fun x => existsb (ty_eqb x) ts') ts && forallb (fun x => existsb (ty_eqb x) ts) ts' = true
  /\ opt_equivb (shrink_top 2 ts) (shrink_top 2 ts') = true
  /\ shrink_top 2 ts <> shrink_top 2 ts' /\ shrink_top 2 ts <> None.
Proof. vm_compute. repeat split; try reflexivity; discriminate. Qed.

(* py_eqb_refl_iff_not_in_class, both ways *)
Example ex_py_eqb_class :
  let inside := TList (TUnion [td_a; TCls cInt]) in
  let outside := TTuple [td_ab; TUnion [TCls cInt; TCls cStr]] in
  wf_ty_b inside = true /\ kf_td_under_union inside = true /\ py_eqb inside inside = false
  /\ wf_ty_b outside = true /\ kf_td_under_union outside = false /\ py_eqb outside outside = true
  /\ has_td outside = true.
Proof. vm_compute. repeat split; reflexivity. Qed.

(* infer_perm_members / infer_dup_members on values, k = 2 *)
Example ex_infer_perm :
  let d1 := VDict [(VStr "a", VAtom cInt 1); (VStr "b", VStr "x")] in
  let d2 := VDict [(VStr "a", VAtom cNone 0)] in
  let d3 := VDict [(VStr "b", VStr "y"); (VStr "a", VDict [(VStr "p", VAtom cInt 1)])] in
  forallb wf_valueb [d1; d2; d3] = true /\ Permutation [d1; d2; d3] [d3; d2; d1]
  /\ infer 2 [d1; d2; d3] =
       Some (TTypedDict [("a", TUnion [TCls cInt; TCls cNone; TDict (TCls cStr) (TCls cInt)])] [("b", TCls cStr)])
  /\ infer 2 [d3; d2; d1] =
       Some (TTypedDict [("a", TUnion [TDict (TCls cStr) (TCls cInt); TCls cNone; TCls cInt])] [("b", TCls cStr)])
  /\ option_map kf_td_under_union (get_type 2 d3) = Some false
  /\ opt_equivb (infer 2 [d1; d2; d3]) (infer 2 [d3; d1; d2; d3]) = true.
Proof.
  cbv zeta. split; [vm_compute; reflexivity|]. split; [exact (Permutation_rev [_; _; _])|].
  vm_compute. repeat split; reflexivity.
Qed.

(* infer0_set_members: at k = 0 order and multiplicity of the values are both immaterial *)
Example ex_infer0_set :
  let d1 := VDict [(VStr "a", VAtom cInt 1)] in
  let l1 := VList [VAtom cInt 1; VStr "s"] in
  let vs  := [d1; l1; VAtom cNone 0] in
  let vs' := [VAtom cNone 0; l1; d1; l1; VAtom cNone 0] in
  forallb wf_valueb vs = true
  /\ infer 0 vs  = Some (TUnion [TDict (TCls cStr) (TCls cInt); TList (TUnion [TCls cInt; TCls cStr]); TCls cNone])
  /\ infer 0 vs' = Some (TUnion [TCls cNone; TList (TUnion [TCls cInt; TCls cStr]); TDict (TCls cStr) (TCls cInt)]).
Proof. vm_compute. repeat split; reflexivity. Qed.

Print Assumptions merge_same_inputs_members.
Print Assumptions merge_same_inputs_defined.
Print Assumptions merge_perm_members.
Print Assumptions merge_perm_defined.
Print Assumptions merge_dup_members.
Print Assumptions merge_dup_defined.
Print Assumptions merge_set_members.
Print Assumptions merge_set_defined.
Print Assumptions py_eqb_refl_iff_not_in_class.
Print Assumptions infer_perm_members.
Print Assumptions infer_perm_defined.
Print Assumptions infer_dup_members.
Print Assumptions infer_dup_defined.
Print Assumptions infer0_set_members.
Print Assumptions infer0_set_defined.
Print Assumptions merge_dup_refuted.
Print Assumptions infer_dup_refuted.
Print Assumptions merge_dup_outside_class.
Print Assumptions merge_dup_unrestricted_refuted.
