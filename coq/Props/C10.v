(* C10 — stale or undecodable stored traces are skipped, never fatal.
   `subscript` (typing's g[args]), `build` (stub construction from the decoded traces) and `applyf` (libcst
   application) are universally quantified: the statements hold whatever they do. *)
From Coq Require Import List Bool Arith String.
From MT Require Import Constants Decode DecodeFacts DecodeStale DecodeExamples.
Import ListNotations.
Open Scope list_scope.

(* For ALL worlds, ALL row lists (every row valid or of one of the thirteen stale kinds, in any number and
   order) and both reporting modes: the outcome is the outcome of the decodable rows alone with the failure
   report put in front of its stderr; the report counts/lists exactly the rows that do not decode; `stub`
   exits 0 with the stub built from the decodable rows in order; if nothing decodes stdout is empty and the
   line after the report starts "No traces found", status 0. *)
Theorem get_stub_skips_stale :
  forall subscript build applyf a w rows,
  Forall (stale_or_valid subscript w) rows ->
  run subscript build applyf a w rows =
    prepend_err (report (a_verbose a) (failures subscript w rows))
                (run subscript build applyf a w (filter (decodable subscript w) rows))
  /\ run subscript build applyf a w (filter (decodable subscript w) rows) =
       finish build applyf a (decode_all subscript w rows) []
  /\ List.length (failures subscript w rows) =
       List.length (filter (fun r => negb (decodable subscript w r)) rows)
  /\ (a_cmd a = CStub -> (forall x, build (decode_all subscript w rows) <> BRaises x) ->
      exists out err, run subscript build applyf a w rows = Exit out err 0
        /\ (forall s, build (decode_all subscript w rows) = BStub s ->
                      decode_all subscript w rows <> [] -> out = [s]))
  /\ (filter (decodable subscript w) rows = [] ->
      exists rest, run subscript build applyf a w rows =
        Exit [] (report (a_verbose a) (failures subscript w rows) ++ [("No traces found" ++ rest)%string]) 0).
Proof. exact DecodeStale.get_stub_skips_stale. Qed.
Print Assumptions get_stub_skips_stale.

(* every stale kind the property lists makes to_trace raise a MonkeyTypeError of the expected subclass --
   the only class cli.get_stub catches -- never any other exception and never a trace *)
Theorem stale_is_mterror :
  forall subscript w r k, exhibits subscript w r k ->
  exists err, to_trace subscript w r = MTError err /\ mt_class err = kind_class k.
Proof. exact DecodeStale.stale_is_mterror. Qed.
Print Assumptions stale_is_mterror.

(* a stale name anywhere the type decoder visits (below generics, inside TypedDict fields) *)
Theorem stale_ty_is_mterror :
  forall subscript w how e, stale_ty subscript w how e ->
  exists err, decode_ty subscript w e = MTError err /\ mt_class err = ref_class how.
Proof. exact DecodeStale.stale_ty_mterror. Qed.
Print Assumptions stale_ty_is_mterror.

(* the loop of cli.get_stub against its filter/map specification, for any rows none of which raises a
   non-MonkeyType exception *)
Theorem get_stub_loop_spec :
  forall subscript build applyf a w rows,
  Forall (no_other subscript w) rows ->
  run subscript build applyf a w rows =
  finish build applyf a (decode_all subscript w rows) (report (a_verbose a) (failures subscript w rows)).
Proof. exact DecodeFacts.run_spec. Qed.
Print Assumptions get_stub_loop_spec.

(* the hypothesis is necessary: the first row that raises anything else kills the command *)
Theorem other_error_is_fatal :
  forall subscript build applyf a w pre r post x,
  Forall (no_other subscript w) pre -> to_trace subscript w r = OtherError x ->
  run subscript build applyf a w (pre ++ r :: post) =
  Crash x (if a_verbose a then map warn_line (failures subscript w pre) else []).
Proof. exact DecodeFacts.run_crash. Qed.
Print Assumptions other_error_is_fatal.

(* traced names that are no longer parameters do not influence update_signature_args *)
Theorem unknown_params_ignored :
  forall anno st has_self (ats : list (string * anno)) ps,
  update_signature_args anno st has_self ats ps =
  update_signature_args anno st has_self (filter (known anno ps) ats) ps.
Proof. exact DecodeFacts.unknown_names_ignored. Qed.
Print Assumptions unknown_params_ignored.

(* ---- non-vacuity ---- *)
Example ex_every_stale_kind_exhibited : forall k, exists r, exhibits ex_subscript exw r k.
Proof. exact DecodeExamples.every_kind_exhibited. Qed.

Example ex_rows_stale_or_valid : Forall (stale_or_valid ex_subscript exw) ex_rows.
Proof. exact DecodeExamples.ex_rows_ok. Qed.

Example ex_run :
  run ex_subscript ex_build (fun s => AOk s) (ex_args false) exw ex_rows
    = Exit ["stub of 3 trace(s)"%string] ["13 traces failed to decode; use -v for details"%string] 0
  /\ (exists l, run ex_subscript ex_build (fun s => AOk s) (ex_args true) exw ex_rows
                = Exit ["stub of 3 trace(s)"%string] l 0 /\ List.length l = 13
                  /\ nth 2 l ""%string = "WARNING: Failed decoding trace: Module 'fx' has no attribute 'K.gone'"%string)
  /\ run ex_subscript ex_build (fun s => AOk s) (ex_args false) exw (filter (fun r => negb (decodable ex_subscript exw r)) ex_rows)
     = Exit [] ["13 traces failed to decode; use -v for details"%string; "No traces found for module fx"%string] 0.
Proof. exact DecodeExamples.ex_run_ok. Qed.

Example ex_unknown_param :
  update_signature_args string Replicate false [("a", "int"); ("gone", "str")]%string
                        [Param string "a"%string None; Param string "c"%string None]
  = [Param string "a"%string (Some "int"%string); Param string "c"%string None].
Proof. reflexivity. Qed.
