(* Proofs/TightMergeUnion.v — C05: union_mk of witnessed alternatives is tight; td2dict preserves tightness. *)
From MT Require Import Types Infer Tight TypesFacts UnionFacts InferFacts InferSound GetTypeSound TightMergeBase.
From Coq Require Import Lia.

(* every type of ts has a non-empty sub-collection of V it is tight for *)
Definition witnessed (ts : list ty) (V : list value) : Prop :=
  forall x, In x ts -> exists ws, ws <> [] /\ incl ws V /\ tightb x ws = true.
(* every value of V is an exact member of some type of ts *)
Definition covered (ts : list ty) (V : list value) : Prop :=
  forall v, In v V -> exists x, In x ts /\ memt v x = true.
(* every value of V lies in a sub-collection some type of ts is tight for *)
Definition covered_s (ts : list ty) (V : list value) : Prop :=
  forall v, In v V -> exists x ws, In x ts /\ In v ws /\ incl ws V /\ tightb x ws = true.

Lemma covered_s_covered ts V : oks V -> covered_s ts V -> covered ts V.
Proof.
  intros OK C v Hv. destruct (C v Hv) as [x [ws [Hx [Hw [Hi T]]]]]. exists x. split; [exact Hx|].
  apply (tight_memt x ws v); [eapply oks_incl; eauto|exact T|exact Hw].
Qed.

Lemma witnessed_nonempty ts V : ts <> [] -> witnessed ts V -> V <> [].
Proof.
  intros N W. destruct ts as [|x ts]; [congruence|]. destruct (W x (or_introl eq_refl)) as [ws [Nw [Hi _]]].
  destruct ws as [|w ws]; [congruence|]. intros ->. apply (Hi w). left. reflexivity.
Qed.

(* ---------- the final step of union_mk ---------- *)
Definition fin (L : list ty) : ty := match L with [t] => t | l => TUnion l end.
Lemma union_mk_fin ts : union_mk ts = fin (dedup [] (flatten ts)).
Proof. unfold union_mk, fin. destruct (dedup [] (flatten ts)) as [|t [|t' l]]; reflexivity. Qed.

Lemma union_final L V :
  L <> [] -> Forall wf_ty L -> oks V -> witnessed L V -> covered L V ->
  tightb (fin L) V = true.
Proof.
  intros N W OK Wi C. destruct L as [|t [|t' l]]; [congruence| |]; cbn [fin].
  - destruct (Wi t (or_introl eq_refl)) as [ws [Nw [Hi T]]]. inversion W; subst.
    apply (tight_mono t ws V); auto. intros v Hv. destruct (C v Hv) as [x [[<-|[]] M]]. exact M.
  - set (L := t :: t' :: l) in *. rewrite tightb_TUnion. bsplit; [bsplit|].
    + reflexivity.
    + apply forallb_forall. intros v Hv. destruct (C v Hv) as [x [Hx M]]. apply existsb_exists. eauto.
    + apply forallb_forall. intros ti Hti. destruct (Wi ti Hti) as [ws [Nw [Hi T]]].
      assert (Hi' : incl ws (filter (fun v => memt v ti) V)).
      { intros w Hw. apply filter_In. split; [apply Hi; exact Hw|].
        apply (tight_memt ti ws w); [eapply oks_incl; eauto|exact T|exact Hw]. }
      bsplit.
      * apply nonempty_neq. destruct ws as [|w ws]; [congruence|]. intros E.
        specialize (Hi' w (or_introl eq_refl)). rewrite E in Hi'. destruct Hi'.
      * rewrite Forall_forall in W.
        apply (tight_mono ti ws); [apply W; exact Hti|exact T|exact Hi'| |].
        -- intros v Hv. apply filter_In in Hv. apply OK. tauto.
        -- intros v Hv. apply filter_In in Hv. tauto.
Qed.

(* ---------- flatten ---------- *)
Lemma in_flatten x ts : In x (flatten ts) <->
  exists t, In t ts /\ In x (match t with TUnion us => us | _ => [t] end).
Proof. unfold flatten. apply in_flat_map. Qed.

Lemma flatten_witnessed ts V : witnessed ts V -> witnessed (flatten ts) V.
Proof.
  intros Wi x Hx. apply in_flatten in Hx. destruct Hx as [t [Ht Hx]].
  destruct (Wi t Ht) as [ws [Nw [Hi T]]].
  destruct t; try (destruct Hx as [<-|[]]; exists ws; auto).
  rewrite tightb_TUnion in T. bdestr T. rewrite forallb_forall in T0. specialize (T0 x Hx).
  apply andb_prop in T0. destruct T0 as [Ta Tb].
  exists (filter (fun v => memt v x) ws). split; [apply nonempty_neq; exact Ta|]. split; [|exact Tb].
  intros v Hv. apply filter_In in Hv. apply Hi. tauto.
Qed.

Lemma flatten_covered ts V : covered ts V -> covered (flatten ts) V.
Proof.
  intros C v Hv. destruct (C v Hv) as [t [Ht M]].
  destruct t; try (eexists; split; [apply in_flatten; eexists; split; [exact Ht|left; reflexivity]|exact M]).
  rewrite memt_TUnion in M. apply existsb_exists in M. destruct M as [u [Hu Mu]].
  exists u. split; [|exact Mu]. apply in_flatten. exists (TUnion ts0). auto.
Qed.

(* ---------- dedup ---------- *)
Lemma dedup_witnessed seen ts V : witnessed ts V -> witnessed (dedup seen ts) V.
Proof. intros Wi x Hx. apply Wi. eapply dedup_incl. exact Hx. Qed.

Lemma dedup_keeps_memt v : forall ts seen,
  Forall wf_ty ts -> Forall wf_ty seen ->
  (exists x, In x ts /\ memt v x = true) ->
  (exists y, In y (dedup seen ts) /\ memt v y = true) \/ (exists y, In y seen /\ memt v y = true).
Proof.
  induction ts as [|t r IH]; intros seen Wt Ws [x [Hx M]]; [destruct Hx|].
  inversion Wt as [|? ? Wt0 Wr]; subst. cbn [dedup].
  destruct (negb (has_td t) && existsb (py_eqb t) seen) eqn:D.
  - destruct Hx as [<-|Hx].
    + right. apply andb_prop in D. destruct D as [_ D]. apply existsb_exists in D. destruct D as [s [Hs E]].
      exists s. split; [exact Hs|]. rewrite Forall_forall in Ws. eapply memt_py_eqb; eauto.
    + apply IH; eauto.
  - destruct Hx as [<-|Hx].
    + left. exists t. split; [left; reflexivity|exact M].
    + destruct (IH (t :: seen) Wr (Forall_cons _ Wt0 Ws) (ex_intro _ x (conj Hx M))) as [[y [Hy My]]|[y [Hy My]]].
      * left. exists y. split; [right; exact Hy|exact My].
      * destruct Hy as [<-|Hy].
        -- left. exists t. split; [left; reflexivity|exact My].
        -- right. eauto.
Qed.

Lemma dedup_covered ts V : Forall wf_ty ts -> covered ts V -> covered (dedup [] ts) V.
Proof.
  intros W C v Hv. destruct (dedup_keeps_memt v ts [] W (Forall_nil _) (C v Hv)) as [H|[y [[] _]]]. exact H.
Qed.

(* ---------- union_mk of witnessed alternatives is tight ---------- *)
Lemma union_mk_tight ts V :
  ts <> [] -> Forall wf_ty ts -> oks V -> witnessed ts V -> covered ts V ->
  tightb (union_mk ts) V = true.
Proof.
  intros N W OK Wi C. rewrite union_mk_fin.
  pose proof (flatten_wf _ W) as Wf.
  pose proof (dedup_covered _ V Wf (flatten_covered _ _ C)) as C'.
  apply union_final; auto.
  - pose proof (witnessed_nonempty ts V N Wi) as NV. destruct V as [|v V]; [congruence|].
    destruct (C' v (or_introl eq_refl)) as [y [Hy _]]. intros E. rewrite E in Hy. destruct Hy.
  - apply dedup_wf. exact Wf.
  - apply dedup_witnessed. apply flatten_witnessed. exact Wi.
Qed.

(* ---------- what tightness of a TypedDict says, field by field ---------- *)
Lemma td_tight_parts r o vs : tightb (TTypedDict r o) vs = true ->
  vs <> []
  /\ (forall v, In v vs -> exists kvs, v = VDict kvs /\
        forall kk x, In (kk, x) kvs -> exists s, kk = VStr s /\ (In s (map fst r) \/ In s (map fst o)))
  /\ (forall f, In f r -> (forall v, In v vs -> has_skey (fst f) v = true)
                          /\ tightb (snd f) (under_key (fst f) vs) = true)
  /\ (forall f, In f o -> (exists v, In v vs /\ has_skey (fst f) v = true)
                          /\ (exists v, In v vs /\ has_skey (fst f) v = false)
                          /\ tightb (snd f) (under_key (fst f) vs) = true).
Proof.
  rewrite tightb_TTypedDict. intros T.
  apply andb_prop in T; destruct T as [T Topt]. apply andb_prop in T; destruct T as [T Treq].
  apply andb_prop in T; destruct T as [T Tdecl]. apply andb_prop in T; destruct T as [Tne Tsk].
  rewrite forallb_forall in Topt, Treq, Tdecl, Tsk.
  split; [apply nonempty_neq; exact Tne|]. split; [|split].
  - intros v Hv. specialize (Tsk v Hv). specialize (Tdecl v Hv). destruct v; try discriminate Tsk.
    exists kvs. split; [reflexivity|]. intros kk x Hin. cbn [str_keyed dict_items] in *.
    rewrite forallb_forall in Tsk, Tdecl. specialize (Tsk _ Hin). specialize (Tdecl _ Hin). cbn [fst] in *.
    destruct kk; try discriminate Tsk. exists s. split; [reflexivity|].
    apply orb_prop in Tdecl. destruct Tdecl as [H|H]; apply existsb_key in H; auto.
  - intros f Hf. specialize (Treq f Hf). apply andb_prop in Treq. destruct Treq as [A B].
    rewrite forallb_forall in A. auto.
  - intros f Hf. specialize (Topt f Hf). apply andb_prop in Topt. destruct Topt as [A C].
    apply andb_prop in A. destruct A as [A B]. apply existsb_exists in A, B.
    destruct A as [v1 [H1 A]], B as [v2 [H2 B]]. apply negb_true_iff in B. eauto 8.
Qed.

Lemma td_tight_intro r o vs :
  vs <> [] ->
  (forall v, In v vs -> exists kvs, v = VDict kvs /\
        forall kk x, In (kk, x) kvs -> exists s, kk = VStr s /\ (In s (map fst r) \/ In s (map fst o))) ->
  (forall f, In f r -> (forall v, In v vs -> has_skey (fst f) v = true)
                       /\ tightb (snd f) (under_key (fst f) vs) = true) ->
  (forall f, In f o -> (exists v, In v vs /\ has_skey (fst f) v = true)
                       /\ (exists v, In v vs /\ has_skey (fst f) v = false)
                       /\ tightb (snd f) (under_key (fst f) vs) = true) ->
  tightb (TTypedDict r o) vs = true.
Proof.
  intros N D R O. rewrite tightb_TTypedDict. bsplit; [bsplit; [bsplit; [bsplit|]|]|].
  - apply nonempty_neq. exact N.
  - apply forallb_forall. intros v Hv. destruct (D v Hv) as [kvs [-> K]]. cbn [str_keyed].
    apply forallb_forall. intros [kk x] Hin. destruct (K kk x Hin) as [s [-> _]]. reflexivity.
  - apply forallb_forall. intros v Hv. destruct (D v Hv) as [kvs [-> K]]. cbn [dict_items].
    apply forallb_forall. intros [kk x] Hin. destruct (K kk x Hin) as [s [-> [H|H]]]; cbn [fst];
      apply orb_true_intro; [left|right]; apply existsb_key; exact H.
  - apply forallb_forall. intros f Hf. destruct (R f Hf) as [A B]. bsplit; [|exact B].
    apply forallb_forall. exact A.
  - apply forallb_forall. intros f Hf. destruct (O f Hf) as [[v1 [H1 A]] [[v2 [H2 B]] C]].
    bsplit; [bsplit|exact C]; apply existsb_exists; [exists v1|exists v2]; split; auto.
    rewrite B. reflexivity.
Qed.

Lemma under_key_nonempty s vs : (exists v, In v vs /\ has_skey s v = true) -> under_key s vs <> [].
Proof.
  intros [v [Hv H]]. unfold has_skey in H. apply has_key_lookup in H. destruct H as [x L].
  intros E. assert (X : In x (under_key s vs)) by (apply in_under_key; eauto). rewrite E in X. destruct X.
Qed.

Lemma under_key_incl_vals s vs : incl (under_key s vs) (map snd (flat_map dict_items vs)).
Proof.
  intros x Hx. apply in_under_key in Hx. destruct Hx as [v [Hv L]]. apply lookup_str_In in L.
  apply in_map_iff. exists (VStr s, x). split; [reflexivity|]. apply in_flat_map. eauto.
Qed.

Lemma is_vdict_of_td r o vs : tightb (TTypedDict r o) vs = true -> forallb is_vdict vs = true.
Proof.
  intros T. destruct (td_tight_parts _ _ _ T) as [_ [D _]]. apply forallb_forall. intros v Hv.
  destruct (D v Hv) as [kvs [-> _]]. reflexivity.
Qed.

(* the values stored in a collection of dicts tight for a TypedDict: witnessed and covered by its field types,
   after mapping the field types by any g that preserves tightness *)
Lemma td_fields_witness (g : ty -> ty) r o vs :
  oks vs -> tightb (TTypedDict r o) vs = true ->
  (forall f, In f r \/ In f o -> forall ws, oks ws -> tightb (snd f) ws = true -> tightb (g (snd f)) ws = true) ->
  witnessed (map (fun f => g (snd f)) r ++ map (fun f => g (snd f)) o) (map snd (flat_map dict_items vs))
  /\ covered (map (fun f => g (snd f)) r ++ map (fun f => g (snd f)) o) (map snd (flat_map dict_items vs)).
Proof.
  intros OK T G. destruct (td_tight_parts _ _ _ T) as [N [D [R O]]]. split.
  - intros y Hy. apply in_app_or in Hy. destruct Hy as [Hy|Hy]; apply in_map_iff in Hy; destruct Hy as [f [<- Hf]].
    + destruct (R f Hf) as [A B]. exists (under_key (fst f) vs). split; [|split].
      * apply under_key_nonempty. destruct vs as [|v vs]; [congruence|]. exists v. split; [left; reflexivity|].
        apply A. left. reflexivity.
      * apply under_key_incl_vals.
      * apply G; auto. apply oks_under_key. exact OK.
    + destruct (O f Hf) as [A [_ B]]. exists (under_key (fst f) vs). split; [|split].
      * apply under_key_nonempty. exact A.
      * apply under_key_incl_vals.
      * apply G; auto. apply oks_under_key. exact OK.
  - intros e He. apply in_map_iff in He. destruct He as [[kk x] [<- Hkv]]. cbn [snd].
    apply in_flat_map in Hkv. destruct Hkv as [v [Hv Hkv]]. destruct (D v Hv) as [kvs [-> K]].
    cbn [dict_items] in Hkv. destruct (K kk x Hkv) as [s [-> Hs]].
    assert (UK : In x (under_key s vs)).
    { apply in_under_key. exists (VDict kvs). split; [exact Hv|]. cbn [dict_items].
      apply lookup_str_nodup; [apply okv_nodup; apply OK; exact Hv|exact Hkv]. }
    destruct Hs as [Hs|Hs]; apply in_map_iff in Hs; destruct Hs as [f [<- Hf]].
    + exists (g (snd f)). split; [apply in_or_app; left; apply (in_map (fun f => g (snd f))); exact Hf|].
      destruct (R f Hf) as [_ B].
      apply (tight_memt _ (under_key (fst f) vs)); [apply oks_under_key; exact OK| |exact UK].
      apply G; auto. apply oks_under_key. exact OK.
    + exists (g (snd f)). split; [apply in_or_app; right; apply (in_map (fun f => g (snd f))); exact Hf|].
      destruct (O f Hf) as [_ [_ B]].
      apply (tight_memt _ (under_key (fst f) vs)); [apply oks_under_key; exact OK| |exact UK].
      apply G; auto. apply oks_under_key. exact OK.
Qed.

(* the string keys of a non-empty-field TypedDict's dicts *)
Lemma td_keys_tight r o vs : tightb (TTypedDict r o) vs = true -> (r <> [] \/ o <> []) ->
  tightb (TCls cStr) (map fst (flat_map dict_items vs)) = true.
Proof.
  intros T NE. destruct (td_tight_parts _ _ _ T) as [N [D [R O]]]. rewrite tightb_TCls. bsplit.
  - assert (X : exists v, In v vs /\ exists s, has_skey s v = true).
    { destruct r as [|f r].
      - destruct o as [|f o]; [destruct NE; congruence|]. destruct (O f (or_introl eq_refl)) as [[v [Hv A]] _]. eauto.
      - destruct (R f (or_introl eq_refl)) as [A _]. destruct vs as [|v vs]; [congruence|].
        exists v. split; [left; reflexivity|]. exists (fst f). apply A. left. reflexivity. }
    destruct X as [v [Hv [s H]]]. unfold has_skey in H. apply has_key_In in H. destruct H as [x Hx].
    apply nonempty_In. exists (VStr s). apply in_map_iff. exists (VStr s, x). split; [reflexivity|].
    apply in_flat_map. eauto.
  - apply forallb_forall. intros kk Hk. apply in_map_iff in Hk. destruct Hk as [[kk' x] [<- Hkv]].
    apply in_flat_map in Hkv. destruct Hkv as [v [Hv Hkv]]. destruct (D v Hv) as [kvs [-> K]].
    destruct (K kk' x Hkv) as [s [-> _]]. reflexivity.
Qed.

(* ---------- td2dict preserves tightness ---------- *)
Lemma tcols_td2dict ts : forall rows,
  Forall (fun t => forall vs, wf_ty t -> oks vs -> tightb t vs = true -> tightb (td2dict t) vs = true) ts ->
  Forall wf_ty ts -> (forall r, In r rows -> oks r) ->
  tcols ts rows = true -> tcols (map td2dict ts) rows = true.
Proof.
  induction ts as [|t ts IHts]; intros rows IH W OK T; cbn [map tcols] in *; [exact T|].
  bdestr T. bdestr T. inversion IH; subst. inversion W; subst. bsplit; [bsplit|]; auto.
  - apply H1; auto. intros x Hx. apply in_heads in Hx. destruct Hx as [r0 Hr0]. apply (OK _ Hr0). left. reflexivity.
  - apply IHts; auto. intros r1 Hr1 x Hx. apply in_tails in Hr1. destruct Hr1 as [r0 [Hr0 ->]].
    apply (OK _ Hr0). destruct r0; [destruct Hx|right; exact Hx].
Qed.

Lemma td2dict_tight t : forall vs, wf_ty t -> oks vs -> tightb t vs = true -> tightb (td2dict t) vs = true.
Proof.
  induction t as [ | c | x IH | | x IH | x IH | x IH | a b IHa IHb | a b IHa IHb | xs IH | x IH
                 | a1 a2 a3 IH1 IH2 IH3 | xs IH | r o IHr IHo | s ] using ty_ind';
    intros vs W OK T; cbn [td2dict]; try exact T; try (cbn [tightb] in T; discriminate T).
  - (* TList *) rewrite tightb_TList in *. bdestr T. bdestr T. bsplit; [bsplit|]; auto.
    apply IH; auto. apply oks_list_elems. exact OK.
  - (* TSet *) rewrite tightb_TSet in *. bdestr T. bdestr T. bsplit; [bsplit|]; auto.
    apply IH; auto. apply oks_set_elems. exact OK.
  - (* TDict *) rewrite tightb_TDict in *. bdestr T. bdestr T. bdestr T. cbn [wf_ty] in W. destruct W.
    bsplit; [bsplit; [bsplit|]|]; auto.
    + apply IHa; auto. apply oks_keys. exact OK.
    + apply IHb; auto. apply oks_vals. exact OK.
  - (* TTuple *) rewrite tightb_TTuple in *. bdestr T. bdestr T. apply wf_TTuple in W. bsplit; [bsplit|]; auto.
    apply tcols_td2dict; auto. apply oks_tuple_elems. exact OK.
  - (* TUnion *) apply wf_TUnion in W. rewrite tightb_TUnion in T. bdestr T. bdestr T.
    rewrite forallb_forall in T0, T1. rewrite Forall_forall in IH, W.
    assert (TW : forall x, In x xs -> tightb (td2dict x) (filter (fun v => memt v x) vs) = true).
    { intros x Hx. specialize (T0 x Hx). apply andb_prop in T0. destruct T0 as [Ta Tb]. apply IH; auto.
      intros v Hv. apply filter_In in Hv. apply OK. tauto. }
    apply union_mk_tight.
    + destruct xs; [discriminate T|discriminate].
    + rewrite Forall_forall. intros y Hy. apply in_map_iff in Hy. destruct Hy as [x [<- Hx]].
      apply td2dict_wf. auto.
    + exact OK.
    + intros y Hy. apply in_map_iff in Hy. destruct Hy as [x [<- Hx]].
      exists (filter (fun v => memt v x) vs). split; [|split].
      * specialize (T0 x Hx). apply andb_prop in T0. destruct T0 as [Ta Tb]. apply nonempty_neq. exact Ta.
      * intros v Hv. apply filter_In in Hv. tauto.
      * apply TW. exact Hx.
    + intros v Hv. specialize (T1 v Hv). apply existsb_exists in T1. destruct T1 as [x [Hx M]].
      exists (td2dict x). split; [apply in_map; exact Hx|].
      apply (tight_memt _ (filter (fun v => memt v x) vs)); [|apply TW; exact Hx|apply filter_In; auto].
      intros w Hw. apply filter_In in Hw. apply OK. tauto.
  - (* TTypedDict *)
    pose proof W as W0. apply wf_TTypedDict in W. destruct W as [_ [Wr Wo]].
    assert (G : r <> [] \/ o <> [] ->
                tightb (TDict (TCls cStr)
                 (union_mk (map (fun f => td2dict (snd f)) r ++ map (fun f => td2dict (snd f)) o))) vs = true).
    { intros NE. rewrite tightb_TDict.
      destruct (td_tight_parts _ _ _ T) as [N _].
      assert (GG : forall f, In f r \/ In f o -> forall ws, oks ws -> tightb (snd f) ws = true ->
                     tightb (td2dict (snd f)) ws = true).
      { rewrite Forall_forall in IHr, IHo, Wr, Wo. intros f [Hf|Hf] ws OKw Tw; [apply (IHr f Hf)|apply (IHo f Hf)]; auto. }
      destruct (td_fields_witness td2dict r o vs OK T GG) as [Wi C].
      bsplit; [bsplit; [bsplit|]|].
      - apply nonempty_neq. exact N.
      - eapply is_vdict_of_td. exact T.
      - apply td_keys_tight with (r := r) (o := o); assumption.
      - apply union_mk_tight; auto.
        + destruct NE as [NE|NE]; [destruct r|destruct o]; try congruence; cbn; try discriminate.
          destruct (map (fun f => td2dict (snd f)) r); discriminate.
        + apply Forall_app. rewrite Forall_forall in Wr, Wo. split; rewrite Forall_forall; intros y Hy;
            apply in_map_iff in Hy; destruct Hy as [f [<- Hf]]; apply td2dict_wf; auto.
        + apply oks_vals. exact OK. }
    destruct r as [|f0 r'].
    + destruct o as [|f0 o'].
      * (* the empty TypedDict: only empty dicts were seen *)
        destruct (td_tight_parts _ _ _ T) as [N [D _]]. rewrite tightb_TDict.
        assert (E : flat_map dict_items vs = []).
        { destruct (flat_map dict_items vs) as [|[kk x] l] eqn:E; [reflexivity|].
          assert (X : In (kk, x) (flat_map dict_items vs)) by (rewrite E; left; reflexivity).
          apply in_flat_map in X. destruct X as [v [Hv X]]. destruct (D v Hv) as [kvs [-> K]].
          destruct (K kk x X) as [s [_ [[]|[]]]]. }
        rewrite E. cbn [map tightb nonempty negb]. rewrite !andb_true_r. bsplit.
        -- apply nonempty_neq. exact N.
        -- eapply is_vdict_of_td. exact T.
      * apply G. right. discriminate.
    + apply G. left. discriminate.
Qed.
