"""C13 — existing source annotations are kept, omitted or overridden exactly as requested."""
import ast
import inspect
import os
import random
import sys

from harness import common
from harness import sigupdate_gen as G

COQ_TARGETS = ["Check/SigUpdateCases.vo"]
TRUSTED_BASE = [
    "inspect.Signature.from_callable / Parameter.replace / Signature.replace keep names, kinds and defaults "
    "(observed on every case, not modelled)",
    "Python's ast parser reading the rendered stub back; evaluation of the stub's annotation expressions in the "
    "fixture module's namespace (harness/sigupdate_gen.py)",
    "typing's Union/Optional normalisation as modelled by union_mk (Model/Types.v)",
    "argparse's store_const / mutually-exclusive-group behaviour as modelled by cli_strategy",
]
ASSUMPTIONS = [
    "the receiver is position 0 of a function whose kind is in _KIND_WITH_SELF, whatever that parameter's kind "
    "(a method written `def m(*args)` or `def m(*, a)` has that parameter treated as the receiver)",
    "a source annotation `None` and NoneType denote the same type",
    "a string annotation denotes what it evaluates to in its module (the stub prints it unquoted)",
    "traced types are TypedDict-free (max_typed_dict_size 0): hash-set dedup of a Python set equals py_eqb dedup",
    "django's cached_property is replaced by a stand-in class (Django is not installed)",
]
PARTIAL = []

HEADER = "From MT Require Import SigUpdateCases.\n"
RELATION = "sig_corrb (update_sig s kind sig (collect k traces)) impl_signature  &  rendered_ok env . rendered_stub"


def trace_patterns(rnd, names, focus_name):
    """which parameter names are traced: all / none / only the focus / all but the focus / random"""
    pats = [("all", set(names)), ("none", set()), ("focus", {focus_name}),
            ("all_but_focus", set(names) - {focus_name}),
            ("random", {n for n in names if rnd.random() < 0.5})]
    return pats


def describe(sp, strat, traces, rec, extra=""):
    tr = [{"args": {k: repr(v) for k, v in t.arg_types.items()}, "return": repr(t.return_type),
           "yield": repr(t.yield_type)} for t in traces]
    head = " ".join(l.strip() for l in sp.source().strip().splitlines()
                    if l.strip() and not l.strip().startswith(("pass", "yield")))
    return (f"{sp.fkind} function `{head}` strategy={strat} "
            f"traces={tr} -> stub `{rec.get('stub', '').strip()[-300:]}` {extra}")


def run(ctx):
    from monkeytype import stubs
    rnd = random.Random(ctx.seed + 13)
    ct = common.ClassTable()
    members = G.strategy_members()
    saved_cp = stubs.cached_property
    stubs.cached_property = G.cached_property
    work = ctx.work
    thorough = ctx.tier == "thorough"
    cases, terms = [], []
    dist = {"situations": {}, "strategies": {}, "ret_modes": {}, "trace_patterns": {}, "kinds_seen": {},
            "functions": 0, "cli_cases": 0, "cli_invocations": 0, "cli_usage_errors": 0,
            "receiver_not_positional": 0, "rendered_optional_wrapped": 0}
    cells, ret_cells = set(), set()
    try:
        specs = G.generate_specs(rnd, per_cell=1)
        if thorough:
            specs += [G.random_spec(rnd, f"r{i}") for i in range(2000)]
        mods = G.write_modules(work, specs, "c13fx")
        dist["functions"] = len(specs)
        fn_index = 0
        for mname, chunk in mods:
            mod = G.import_module(work, mname)
            ns = G.namespace(mod)
            pool = G.type_pool(mod)
            for sp in chunk:
                func = G.live_function(mod, sp)
                names = [p[0] for p in sp.params]
                focus_name = names[sp.focus]
                pats = trace_patterns(rnd, names, focus_name)
                is_random_fn = sp.name.startswith("r")
                if not thorough or is_random_fn:
                    # all + none already put every position in both the traced and the untraced cell under
                    # every strategy; one of the three subset patterns rotates in for cross-position interaction
                    pats = pats[:2] + [pats[2 + fn_index % 3]]
                nmodes = 2 if (thorough and not is_random_fn) else 1
                for sname in ("REPLICATE", "IGNORE", "OMIT"):
                    if sname not in members:
                        raise RuntimeError(f"ExistingAnnotationStrategy has no member {sname}")
                    for pi, (pname_, traced) in enumerate(pats):
                        modes = [G.RET_MODES[(pi + fn_index + 3 * j) % len(G.RET_MODES)] for j in range(nmodes)]
                        for mode in modes:
                            traces = G.make_traces(rnd, func, names, traced, mode, pool)
                            rec = G.run_api(func, traces, members[sname], 0, ns, ct)
                            tt = G.coq_list(G.reify_trace(t, ct) for t in traces)
                            term = G.case_term(sname, members[sname].value, None, rec["kind"] or sp.fkind, rec["sig"], 0, tt,
                                               rec["shrunk"], rec["out"], rec["rendered"], rec["env"],
                                               rec["raised"] is not None, False)
                            terms.append(term)
                            cases.append({"sp": sp, "strategy": sname, "traces": traces, "rec": rec, "mode": mode,
                                          "pattern": pname_, "module": mname, "cli": None})
                            # ---- coverage accounting ----
                            if rec["kind"] and rec["kind"] != sp.fkind:
                                raise RuntimeError(f"fixture {sp.name}: expected kind {sp.fkind}, implementation "
                                                   f"derived {rec['kind']}")
                            hs = sp.fkind in ("INSTANCE", "CLASS", "PROPERTY", "DJANGO_CACHED_PROPERTY")
                            seen_names = set().union(*[set(t.arg_types) for t in traces]) if traces else set()
                            for i, (n, k, a, d) in enumerate(sp.params):
                                form = next(f for f, vs in G.FORMS.items() if a in vs)
                                cells.add((hs and i == 0, k, d, form, n in seen_names, sname))
                                if hs and i == 0 and k not in ("PO", "PK"):
                                    dist["receiver_not_positional"] += 1
                            rform = next(f for f, vs in G.FORMS.items() if sp.ret in vs)
                            ret_cells.add((rform, mode, sname))
                            for key, val in (("situations", sp.fkind), ("strategies", sname), ("ret_modes", mode),
                                             ("trace_patterns", pname_)):
                                dist[key][val] = dist[key].get(val, 0) + 1
                            if "Optional[" in rec.get("stub", ""):
                                dist["rendered_optional_wrapped"] += 1
                fn_index += 1

        # ---------------- hand-written edge functions (PEP 604, async, unevaluable strings, odd receivers) ----
        with open(os.path.join(work, "c13edge.py"), "w") as f:
            f.write(G.EDGE_MODULE)
        emod = G.import_module(work, "c13edge")
        ens, epool = G.namespace(emod), G.type_pool(emod)
        for ename, ekind in G.EDGE_FUNCS:
            esp = G.FnSpec(ename, ekind, [], None, 0)
            func = G.live_function(emod, esp)
            names = list(inspect.signature(func).parameters)
            for sname in ("REPLICATE", "IGNORE", "OMIT"):
                for pname_, traced in (("all", set(names)), ("none", set()), ("random", {n for n in names if rnd.random() < 0.5})):
                    for mode in G.RET_MODES:
                        traces = G.make_traces(rnd, func, names, traced, mode, epool)
                        rec = G.run_api(func, traces, members[sname], 0, ens, ct)
                        tt = G.coq_list(G.reify_trace(t, ct) for t in traces)
                        terms.append(G.case_term(sname, members[sname].value, None, rec["kind"] or ekind, rec["sig"], 0, tt,
                                                 rec["shrunk"], rec["out"], rec["rendered"], rec["env"],
                                                 rec["raised"] is not None, False))
                        esp.src_text = inspect.getsource(func)
                        cases.append({"sp": esp, "strategy": sname, "traces": traces, "rec": rec, "mode": mode,
                                      "pattern": "edge", "module": "c13edge", "cli": None})
                        dist["edge_cases"] = dist.get("edge_cases", 0) + 1

        # ---------------- the real command line, for a sample ----------------
        cli_specs = [sp for sp in specs if sp.fkind != "DJANGO_CACHED_PROPERTY"]
        rnd.shuffle(cli_specs)
        cli_specs = cli_specs[: (60 if not thorough else 300)]
        for i, sp in enumerate(cli_specs):
            sp2 = G.FnSpec(f"c{i}", sp.fkind, sp.params, sp.ret, sp.focus)
            cli_specs[i] = sp2
        cmods = G.write_modules(work, cli_specs, "c13cli", per_module=60)
        from monkeytype.db.sqlite import SQLiteStore
        for mname, chunk in cmods:
            mod = G.import_module(work, mname)
            ns = G.namespace(mod)
            pool = G.type_pool(mod)
            db = os.path.join(work, mname + ".sqlite3")
            store = SQLiteStore.make_store(db)
            per_fn = {}
            for j, sp in enumerate(chunk):
                func = G.live_function(mod, sp)
                names = [p[0] for p in sp.params]
                traced = {n for n in names if rnd.random() < 0.6}
                mode = G.RET_MODES[j % len(G.RET_MODES)]
                traces = G.make_traces(rnd, func, names, traced, mode, pool)
                if not traces or all(not t.arg_types and t.return_type is None and t.yield_type is None for t in traces):
                    traces = G.make_traces(rnd, func, names, set(names[:1]), "return", pool)
                store.add(traces)
                per_fn[sp.name] = (sp, func, traces)
            store.conn.close() if hasattr(store, "conn") else None
            runs = [("group", [], True), ("group", ["--ignore-existing-annotations"], True),
                    ("group", ["--omit-existing-annotations"], True),
                    ("group", ["--ignore-existing-annotations", "--omit-existing-annotations"], True),
                    ("group", [], False), ("group", ["--ignore-existing-annotations"], False),
                    ("group", ["--omit-existing-annotations"], False),
                    ("apply_parser", ["--omit-existing-annotations"], True)]
            for parser, flags, inproc in runs:
                sub = "stub" if parser == "group" else "apply"
                argv = ["--disable-type-rewriting", sub, mname] + flags
                rc, out, err = G.run_cli(argv, db, work, in_process=inproc)
                dist["cli_invocations"] += 1
                usage = (rc == 2 and "usage:" in err)
                if usage:
                    dist["cli_usage_errors"] += 1
                tree = None
                if not usage:
                    try:
                        tree = ast.parse(out)
                    except SyntaxError:
                        tree = None
                targets = list(per_fn.values()) if not usage else list(per_fn.values())[:1]
                for sp, func, traces in targets:
                    sig0 = inspect.Signature.from_callable(func)
                    a, r, y = stubs.shrink_traced_types(traces, 0)
                    rendered, raised = "None", None
                    qual = sp.name if sp.fkind == "MODULE" else "C." + sp.name
                    if not usage:
                        node = G.find_def(tree, qual) if tree is not None else None
                        if node is None:
                            raised = f"`{' '.join(argv)}` exit={rc}: no definition of {qual} in the output; stderr={err[-300:]}"
                        else:
                            rendered = "(Some %s)" % G.reify_rendered(node, ns, ct)
                    tt = G.coq_list(G.reify_trace(t, ct) for t in traces)
                    term = G.case_term("", 0, (parser, flags), sp.fkind, G.reify_sig(sig0, ct), 0, tt,
                                       "(Some %s)" % G.reify_traced(a, r, y, ct), "None", rendered,
                                       G.string_env(sig0, ns, ct), raised is not None, usage)
                    terms.append(term)
                    rec = {"stub": out if not usage else err, "raised": raised, "kind": sp.fkind}
                    cases.append({"sp": sp, "strategy": " ".join(flags) or "(no flag)", "traces": traces, "rec": rec,
                                  "mode": "", "pattern": "cli", "module": mname,
                                  "cli": {"argv": argv, "in_process": inproc, "exit": rc}})
                    dist["cli_cases"] += 1
    finally:
        stubs.cached_property = saved_cp
        if work in sys.path:
            sys.path.remove(work)
        for m in [m for m in sys.modules if m.startswith("c13fx_") or m.startswith("c13cli_") or m == "c13edge"]:
            sys.modules.pop(m, None)

    # ---------------- exhaustiveness of the enumerated matrix ----------------
    want_cells = {(recv, k, d, form, tr, s) for recv in (False, True) for k, d in G.valid_cells()
                  for form in G.FORM_NAMES for tr in (False, True) for s in ("REPLICATE", "IGNORE", "OMIT")}
    want_ret = {(f, m, s) for f in G.FORM_NAMES for m in G.RET_MODES for s in ("REPLICATE", "IGNORE", "OMIT")}
    missing = sorted(want_cells - cells)
    missing_ret = sorted(want_ret - ret_cells)
    dist["position_cells_hit"] = len(cells & want_cells)
    dist["position_cells_total"] = len(want_cells)
    dist["return_cells_hit"] = len(ret_cells & want_ret)
    dist["return_cells_total"] = len(want_ret)
    if missing or missing_ret:
        raise RuntimeError(f"matrix not exhaustive: {len(missing)} position cells missing (e.g. {missing[:3]}), "
                           f"{len(missing_ret)} return cells missing (e.g. {missing_ret[:3]})")

    outs = common.run_coq_shards(ctx.work, "c13", HEADER, terms, "ucase", "bad verdict_c13 0 cases")
    bad = common.parse_bad(outs)
    failures, mismatches = [], []
    for i, code in bad:
        c = cases[i]
        rec = {"function": c["sp"].source(), "fkind": c["sp"].fkind, "strategy": c["strategy"], "cli": c["cli"],
               "traces": [{"args": {k: repr(v) for k, v in t.arg_types.items()}, "return": repr(t.return_type),
                           "yield": repr(t.yield_type)} for t in c["traces"]],
               "stub": c["rec"].get("stub", "")[-1500:], "raised": c["rec"].get("raised"), "verdict": code,
               "term": terms[i]}
        if code == 2:
            rec["what"] = describe(c["sp"], c["strategy"], c["traces"], c["rec"],
                                   ("raised " + str(c["rec"].get("raised"))) if c["rec"].get("raised") else
                                   "violates the per-position annotation rule")
            failures.append(rec)
        else:
            rec["what"] = ("malformed case (harness)" if code == 3 else "model and implementation differ: ") + \
                describe(c["sp"], c["strategy"], c["traces"], c["rec"])
            mismatches.append(rec)
    nontrivial = set()
    for t, c in zip(terms, cases):
        if any(p[2] is not None for p in c["sp"].params) or c["sp"].ret is not None or \
                any(tr.arg_types or tr.return_type is not None or tr.yield_type is not None for tr in c["traces"]):
            nontrivial.add(common.digest(t))

    def sample(c, t):
        return {"function": c["sp"].source(), "strategy": c["strategy"], "cli": c["cli"],
                "traces": [repr(x) for x in c["traces"]][:3], "stub": c["rec"].get("stub", "")[-400:], "term": t[:1500]}
    picks = [0, len(cases) // 2, len(cases) - 1]
    return {
        "evaluations": len(cases), "distinct_nontrivial": len(nontrivial),
        "rule": "live functions generated so that every per-position cell (receiver? x parameter kind x default in "
                "{none, None, other} x annotation form in {unannotated, class, generic, Optional, string, NewType, "
                "None, Union/Any} x traced? x strategy) is the focus of a function in every situation (module "
                "function, static/instance/class method, property, cached_property; focus first or not), with random "
                "valid neighbours; each function x 3 strategies x trace subsets (all, none, and focus / all-but-focus / random: one of them rotating in the quick tier, all in thorough) "
                "x rotating return mode in {return, return None, yield, yield+return, yield+None, yield+mixed, "
                "nothing}; through real shrink_traced_types + get_updated_definition + build_module_stubs + render "
                "(stub parsed back with ast), plus the real `monkeytype stub` command line (in-process and as a "
                "subprocess) with no flag / --ignore-existing-annotations / --omit-existing-annotations / both, and "
                "`apply --omit-existing-annotations`; non-trivial = something annotated or traced; distinct by hash "
                "of the reified case",
        "samples": [sample(cases[i], terms[i]) for i in picks],
        "distribution": dist, "failures": failures, "mismatches": mismatches, "relation": RELATION,
        "exhaustive": True,
        "extra": {"matrix": f"{len(want_cells)} per-position cells and {len(want_ret)} return cells, all hit"},
    }


def replay(ctx, payload):
    """re-run one stored case: rebuild the function from its source, feed the stored traces through the real
    implementation and the Coq verdict; print implementation output, model verdict, predicate."""
    from monkeytype import stubs
    from monkeytype.tracing import CallTrace
    src = payload.get("function")
    if not src:
        print(payload)
        return 0
    fkind = payload.get("fkind", "MODULE")
    import re
    import textwrap
    body = G.MODULE_HEADER
    if fkind == "MODULE":
        body += textwrap.dedent(src)
    else:
        body += "class C:\n" + textwrap.indent(textwrap.dedent(src), "    ")
    with open(os.path.join(ctx.work, "c13replay.py"), "w") as f:
        f.write(body)
    saved = stubs.cached_property
    stubs.cached_property = G.cached_property
    try:
        mod = G.import_module(ctx.work, "c13replay")
        ns = G.namespace(mod)
        name = [l for l in src.splitlines() if l.strip().startswith("def ")][0].split("def ")[1].split("(")[0]
        sp = G.FnSpec(name, fkind, [], None, 0)
        func = G.live_function(mod, sp)
        ns["typing"] = __import__("typing")

        def ev(txt):
            if txt == "None":
                return None
            txt = re.sub(r"<class '(?:\w+\.)*(\w+)'>", r"\1", txt)
            txt = re.sub(r"\bc13\w+\.", "", txt).replace("NoneType", "type(None)")
            return eval(txt, dict(ns))
        traces = [CallTrace(func, {k: ev(v) for k, v in t["args"].items()}, ev(t["return"]), ev(t["yield"]))
                  for t in payload.get("traces", [])]
        ct = common.ClassTable()
        members = G.strategy_members()
        strat = payload.get("strategy", "REPLICATE")
        if strat not in members:
            strat = {"--ignore-existing-annotations": "IGNORE", "--omit-existing-annotations": "OMIT"}.get(strat, "REPLICATE")
        rec = G.run_api(func, traces, members[strat], 0, ns, ct)
        tt = G.coq_list(G.reify_trace(t, ct) for t in traces)
        term = G.case_term(strat, members[strat].value, None, rec["kind"] or fkind, rec["sig"], 0, tt, rec["shrunk"],
                           rec["out"], rec["rendered"], rec["env"], rec["raised"] is not None, False)
        outs = common.run_coq_shards(ctx.work, "c13replay", HEADER, [term], "ucase", "bad verdict_c13 0 cases")
        bad = common.parse_bad(outs)
        mpath = os.path.join(ctx.work, "c13replay_model.v")
        with open(mpath, "w") as f:
            f.write(HEADER + f"Definition c : ucase := {term}.\n"
                    "Eval vm_compute in (option_map (update_sig (u_strat c) (u_kind c) (u_sig c)) "
                    "(collect (u_k c) (u_traces c))).\n")
        _, mout = common.run_coqc(mpath)
        print("implementation stub:\n" + rec.get("stub", "") + ("\nraised: " + rec["raised"] if rec["raised"] else ""))
        print("model signature:\n" + mout.strip()[:3000])
        code = bad[0][1] if bad else 0
        print(f"verdict: {code}  (0 ok / 1 model differs / 2 property predicate false on the implementation's output / 3 malformed)")
        return 0 if code == 0 else 1
    finally:
        stubs.cached_property = saved
        if ctx.work in sys.path:
            sys.path.remove(ctx.work)
        sys.modules.pop("c13replay", None)


CLAIM = {'text': 'Coq theorems replicate_spec, omit_spec, ignore_spec (+ _return), no_invention (+ _return), '
                 'annotation_provenance, receiver_untouched, names_kinds_defaults_preserved, generator_return_shape, '
                 'optional_default_none, cli_flags_select_strategy, traced_positions and model_meets_checked_predicate '
                 'about an executable model of update_signature_args / update_signature_return / shrink_traced_types / '
                 "render_parameter's Optional wrapping, for every signature of any length, every trace table, every "
                 'function kind; enum values, receiver kinds and CLI flags are regenerated from the source each run.',
         'note': 'Trusted: Coq kernel + vm_compute; harness reifiers and stub parser; inspect.Signature; argparse and '
                 "typing.Union as modelled. The model is tied to /repo by an exhaustive per-position matrix on live "
                 'generated functions through get_updated_definition + render and through the real `stub` command line.',
         'technique': 'Coq proof by induction on the parameter list / case analysis + vm_compute differential correspondence',
         'ref': '4/C13'}
