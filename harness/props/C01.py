"""C01 — emitted annotations admit every value seen at runtime (run -> store -> stub)."""
import collections
import json
import os
import subprocess
from concurrent.futures import ThreadPoolExecutor

from harness import common

COQ_TARGETS = ["Check/E2ECases.vo"]
TRUSTED_BASE = [
    "harness/stubeval.py (the stub text is parsed with `ast`; every import line is executed on its own in an empty namespace, "
    "generated TypedDict class stubs are registered, each annotation evaluated with eval() and reified)",
    "the generated programs' self-recorded ground truth (harness/tracer_prog.py R.enter / R.act: the values bound to the "
    "parameters at entry, every returned and yielded value)",
    "the stage theorems composed by pipeline_sound are about the Coq models of the stages; each model is tied to its stage by "
    "that stage's own correspondence check (C02, C04, C07, C08, C11, C13)",
]
ASSUMPTIONS = ["workloads exhaust their generators (closing or throwing into a suspended generator is C02's recorded finding "
               "kf_raise_at_yield: such calls are never logged)",
               "*args / **kwargs are never traced by MonkeyType, so they carry no emitted annotation to check"]
PARTIAL = ["the end-to-end statement on stub TEXT (C01_full) composes C11's token-level theorem only partially; the text level is "
           "decided per generated program by evaluating the real stub"]


def run_batch(workdir, seed, n):
    p = subprocess.run([common.PY, "-m", "harness.e2e_run", workdir, str(seed), str(n)], capture_output=True, text=True,
                       env=common.sub_env(), timeout=900, cwd=common.VERIF)
    if p.returncode != 0:
        raise RuntimeError(f"e2e_run failed (seed {seed}): {p.stderr[-1500:]}")
    return json.loads(p.stdout[p.stdout.index("{"):])


def run(ctx):
    n = 160 if ctx.tier == "quick" else 2400
    nb = common.NCPU
    per = max(1, n // nb)
    jobs = [(os.path.join(ctx.work, f"b{i}"), ctx.seed * 1000 + 100 + i, per) for i in range(nb)]
    with ThreadPoolExecutor(max_workers=nb) as ex:
        batches = list(ex.map(lambda j: run_batch(*j), jobs))
    failures, mismatches, all_cases = [], [], []
    dist = collections.Counter()
    for bi, b in enumerate(batches):
        cases = b["cases"]
        for c in cases:
            s = c["stats"]
            if "harness_error" in s:
                raise RuntimeError("e2e harness failed: " + json.dumps(s)[:1500])
            dist["programs"] += 1
            dist[f"k={s['k']}"] += 1
            dist[f"rewriter={s['rewriter']}"] += 1
            dist["flags=" + (" ".join(s["flags"]) or "default")] += 1
            dist["positions"] += s.get("positions", 0)
            dist["values_checked"] += s.get("values_checked", 0)
            dist["stub_typed_dict_classes"] += s.get("typed_dict_classes", 0)
            dist["workload_crashed"] += 1 if s.get("crashed") else 0
        good = [c for c in cases if c["term"]]
        for c in cases:
            if not c["term"]:
                rec = {"what": f"program {c['prog']}: {c['error']} (k={c['stats'].get('k')}, rewriter={c['stats'].get('rewriter')})",
                       "stats": c["stats"], "stub": c.get("stub", "")[:4000]}
                if c.get("finding"):
                    rec["finding"] = c["finding"]
                failures.append(rec)
        header = f"From MT Require Import E2ECases.\nDefinition h : hierarchy := {b['hierarchy']}.\n"
        outs = common.run_coq_shards(ctx.work, f"c01_{bi}", header, [c["term"] for c in good], "e2ecase",
                                     "bad (verdict_e2e h) 0 cases", shard_size=40)
        for i, code in common.parse_bad(outs):
            c = good[i]
            rec = {"program": c["prog"], "stats": c["stats"], "stub": c["stub"][:6000], "term": c["term"][:30000]}
            if code == 6:
                rec["finding"] = "kf_hidden_builtin_type"
                rec["what"] = (f"program {c['prog']} observed a value whose class cannot be looked up by name (module, dict_keys, "
                               f"list_iterator, ...): its traces fail to decode and the other values of those calls are lost")
            elif code == 5:
                rec["finding"] = "kf_typeddict_rendering"
                rec["what"] = (f"an annotation of the stub of {c['prog']} does not evaluate in the stub's own namespace (k={c['stats']['k']}: "
                               f"{c['stats'].get('unresolved')})")
            else:
                rec["what"] = (f"a value observed at a position is outside the emitted annotation: program {c['prog']}, k={c['stats']['k']}, "
                               f"rewriter={c['stats']['rewriter']}, flags={c['stats']['flags']}; unresolved={c['stats'].get('unresolved')}")
            failures.append(rec)
        all_cases += good
    nontrivial = len({common.digest(c["term"]) for c in all_cases if c["stats"].get("values_checked", 0) >= 10})
    return {
        "evaluations": sum(len(b["cases"]) for b in batches), "distinct_nontrivial": nontrivial,
        "rule": "generated programs (module functions with every parameter kind, methods of every kind, properties, inheritance, "
                "closures, functools.wraps, recursion, generators driven by next/send/list, coroutines that really suspend; values "
                "from the value grammar) run under the real monkeytype.trace(config) into SQLite, then the real `stub` CLI with "
                "k in {0,1,2,3,10} x rewriter in {none, each shipped, default} x flags; every annotation of the stub evaluated in "
                "the stub's own namespace and every value the program recorded at that position tested for membership in Coq; "
                "non-trivial = at least 10 values checked; distinct by hash",
        "samples": [{"program": c["prog"], "stats": c["stats"], "stub": c["stub"][:1500]} for c in all_cases[:3]],
        "distribution": dict(dist), "failures": failures, "mismatches": mismatches,
        "relation": "forall position, forall observed value v: member true h v (eval (annotation text)) = true",
    }


def replay(ctx, payload):
    print(payload.get("what"))
    print(payload.get("stub"))
    return 0


CLAIM = {
    "text": "Coq composition theorems over the stage models (Props/C01.v): pipeline_sound (for every class table with closed MROs, "
            "every limit k, every chain in which RemoveEmptyContainers never follows RewriteLargeUnion, every collection of "
            "observed values whose inferred types reached the merge as corrb-equal decoded copies in any order and multiplicity: "
            "the rewritten merged type admits every observed value), pipeline_sound_default, pipeline_sound_no_rewriter, "
            "pipeline_sound_store (the store hypothesis discharged by C08's type_roundtrip; get_type_inferable proved), member_corrb, "
            "pipeline_sound_rendered_partial / pipeline_sound_denoted (reduction of the text-level statement to C11's per-case "
            "denotation check); C01_full (stub TEXT, TypedDict class stubs included) is kept as a Definition. Tie: generated "
            "programs through the real monkeytype.trace(config) -> SQLite -> `stub` CLI; every annotation evaluated in the stub's own "
            "namespace; membership of every value the program recorded about itself decided in Coq.",
    "note": "Partial: the text-level statement is proved only under C11's tokenwise premise and without generated TypedDict classes; "
            "findings kf_typeddict_rendering and kf_hidden_builtin_type recorded. Trusted: Coq kernel + vm_compute, "
            "harness/stubeval.py, the programs' self-recorded ground truth.",
    "technique": "Coq proof by composition of the stage theorems + end-to-end differential runs with Coq-evaluated membership",
    "ref": "4/C01",
}
