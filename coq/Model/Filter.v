(* Model/Filter.v — executable model of what decides whether a call is recorded (C17):
     monkeytype/config.py   default_code_filter, _startswith, LIB_PATHS (an input), MONKEYTYPE_TRACE_MODULES
     monkeytype/tracing.py  CallTracer.__call__  (the gate in front of handle_call / handle_return)
     monkeytype/db/base.py  CallTraceStoreLogger.log / flush
   Definitions only; the proofs are in Proofs/Filter*.v.

   Paths are pathlib `parts`: a list of components, the anchor "/" first for an absolute path.
   `pathlib.Path.resolve()` (symlinks, "..", cwd) and `sysconfig` are inputs: the model receives the
   resolved path of `co_filename` (or the fact that resolve() raised) and the tuple LIB_PATHS. *)
From Coq Require Import List Bool Arith String Ascii.
Import ListNotations.
Open Scope list_scope.

Definition comp := string.
Definition path := list comp.

(* ------------------------------------------------------------------------------------------ *)
(* strings                                                                                     *)
(* ------------------------------------------------------------------------------------------ *)
Definition str_empty (s : string) : bool := match s with EmptyString => true | _ => false end.

(* `not code.co_filename or code.co_filename[0] == "<"` *)
Definition synthetic (raw : string) : bool :=
  match raw with
  | EmptyString => true
  | String c _ => Ascii.eqb c "<"
  end.

(* name.rfind("."): the text before and after the LAST dot *)
Fixpoint split_last_dot (s : string) : option (string * string) :=
  match s with
  | EmptyString => None
  | String c r =>
      match split_last_dot r with
      | Some (a, b) => Some (String c a, b)
      | None => if Ascii.eqb c "." then Some (EmptyString, r) else None
      end
  end.

(* PurePath.stem of a final component:  i = name.rfind('.');  name[:i] if 0 < i < len(name)-1 else name *)
Definition stem_name (name : string) : string :=
  match split_last_dot name with
  | Some (a, b) => if str_empty a || str_empty b then name else a
  | None => name
  end.

(* str.split(","): never empty; "" -> [""] *)
Fixpoint split_comma (s : string) : list string :=
  match s with
  | EmptyString => [EmptyString]
  | String c r =>
      if Ascii.eqb c ","
      then EmptyString :: split_comma r
      else match split_comma r with
           | h :: t => String c h :: t
           | [] => [String c EmptyString]      (* unreachable: split_comma is never [] (split_comma_nonempty) *)
           end
  end.

(* ------------------------------------------------------------------------------------------ *)
(* paths                                                                                       *)
(* ------------------------------------------------------------------------------------------ *)
(* a.relative_to(b): Some rest when b's components are a prefix of a's, None = ValueError.
   (Both are results of resolve(), hence absolute; a relative b is outside the model's domain.) *)
Fixpoint relative_to (a b : path) {struct b} : option path :=
  match b with
  | [] => Some a
  | y :: b' =>
      match a with
      | [] => None
      | x :: a' => if String.eqb x y then relative_to a' b' else None
      end
  end.

(* _startswith: bool(a.relative_to(b)) — a PurePath is always truthy, also "." (a == b) *)
Definition startswith (a b : path) : bool :=
  match relative_to a b with Some _ => true | None => false end.

(* PurePath._tail: the parts without the anchor *)
Definition tail_parts (p : path) : path :=
  match p with
  | c :: r => if String.eqb c "/" then r else p
  | [] => []
  end.

(* PurePath.name: last component of the tail, "" when there is none ("/" and ".") *)
Definition name_of (p : path) : string := last (tail_parts p) EmptyString.

Definition stem (p : path) : string := stem_name (name_of p).

(* for lib_path in LIB_PATHS: try: filename = filename.relative_to(lib_path); break  except ValueError: pass *)
Fixpoint strip_first_root (roots : list path) (file : path) : path :=
  match roots with
  | [] => file
  | r :: rs =>
      match relative_to file r with
      | Some rest => rest
      | None => strip_first_root rs file
      end
  end.

(* any(m == filename.stem or m in filename.parts for m in trace_modules) *)
Definition listed (ms : list string) (p : path) : bool :=
  existsb (fun m => String.eqb m (stem p) || existsb (String.eqb m) p) ms.

(* the body of default_code_filter after the synthetic-name test, on the resolved path *)
Definition default_filter_path (roots : list path) (allow : option (list string)) (file : path) : bool :=
  match allow with
  | Some ms => listed ms (strip_first_root roots file)
  | None => negb (existsb (startswith file) roots)
  end.

(* os.environ.get("MONKEYTYPE_TRACE_MODULES") -> trace_modules *)
Definition allow_of_env (env : option string) : option (list string) :=
  match env with Some s => Some (split_comma s) | None => None end.

(* default_code_filter.  `resolved` = None when Path(co_filename).resolve() raises (RuntimeError on a symlink
   loop); the result None = the filter raises.  resolve() is not reached for a synthetic name. *)
Definition default_filter (roots : list path) (allow : option (list string)) (raw : string)
           (resolved : option path) : option bool :=
  if synthetic raw then Some false
  else match resolved with
       | None => None
       | Some file => Some (default_filter_path roots allow file)
       end.

(* ------------------------------------------------------------------------------------------ *)
(* an independently written decision procedure for the declarative spec (Proofs/FilterSpec.v     *)
(* proves it equivalent to the spec; Check/FilterCases.v compares the real answer with it)       *)
(* ------------------------------------------------------------------------------------------ *)
Fixpoint path_eqb (a b : path) : bool :=
  match a, b with
  | [], [] => true
  | x :: a', y :: b' => String.eqb x y && path_eqb a' b'
  | _, _ => false
  end.

Definition underb (r file : path) : bool := path_eqb (firstn (List.length r) file) r.

Definition spec_rest (roots : list path) (file : path) : path :=
  match find (fun r => underb r file) roots with
  | Some r => skipn (List.length r) file
  | None => file
  end.

Definition real_source_b (raw : string) : bool :=
  negb (String.eqb raw "") &&
  match String.get 0 raw with Some c => negb (Ascii.eqb c "<") | None => false end.

Definition spec_b (roots : list path) (allow : option (list string)) (raw : string) (file : path) : bool :=
  real_source_b raw &&
  match allow with
  | None => forallb (fun r => negb (underb r file)) roots
  | Some ms => let rest := spec_rest roots file in
               existsb (fun m => String.eqb m (stem rest) || if in_dec string_dec m rest then true else false) ms
  end.

(* ------------------------------------------------------------------------------------------ *)
(* CallTraceStoreLogger                                                                        *)
(* ------------------------------------------------------------------------------------------ *)
(* what the logger looks at: trace.func.__module__ (None is possible for a callable without a module) *)
Record trace := { tr_module : option string; tr_qualname : string }.

Definition is_main (t : trace) : bool :=
  match tr_module t with Some m => String.eqb m "__main__" | None => false end.

(* log: `if not trace.func.__module__ == "__main__": self.traces.append(trace)` *)
Definition log (buf : list trace) (t : trace) : list trace :=
  if is_main t then buf else buf ++ [t].

(* the logger with its store: `added` = the batches handed to store.add, oldest first *)
Record slogger := { added : list (list trace); buf : list trace }.
Inductive lop := Log (t : trace) | Flush.

Definition lstep (s : slogger) (o : lop) : slogger :=
  match o with
  | Log t => {| added := added s; buf := log (buf s) t |}
  | Flush => {| added := added s ++ [buf s]; buf := [] |}     (* store.add(self.traces); self.traces = [] *)
  end.

Definition lrun (s : slogger) (ops : list lop) : slogger := fold_left lstep ops s.
Definition slogger0 : slogger := {| added := []; buf := [] |}.
Definition logged_of (ops : list lop) : list trace :=
  flat_map (fun o => match o with Log t => [t] | Flush => [] end) ops.

(* ------------------------------------------------------------------------------------------ *)
(* CallTracer.__call__: the gate                                                               *)
(* ------------------------------------------------------------------------------------------ *)
Inductive evkind := KCall | KReturn | KOther.     (* "call", "return", anything else (c_call, c_return, c_exception) *)
Definition supported (k : evkind) : bool := match k with KOther => false | _ => true end.

Section Gate.
  Variables code frame T : Type.
  (* the part of the tracer behind the gate (handle_call / handle_return incl. their try/except):
     new tracer state and the traces handed to logger.log, in order *)
  Variable inner : T -> evkind -> code -> frame -> T * list trace.
  Variable is_trace_types : code -> bool.         (* code.co_name == "trace_types" *)
  Variable filt : option (code -> bool).          (* self.should_trace *)

  Record event := { ev_kind : evkind; ev_code : code; ev_frame : frame }.

  Definition rejected (c : code) : bool :=
    match filt with Some f => negb (f c) | None => false end.

  (* `event not in SUPPORTED_EVENTS or code.co_name == "trace_types" or self.should_trace and not self.should_trace(code)` *)
  Definition passes (e : event) : bool :=
    negb (negb (supported (ev_kind e)) || is_trace_types (ev_code e) || rejected (ev_code e)).

  Definition gate (s : T) (e : event) : T * list trace :=
    if passes e then inner s (ev_kind e) (ev_code e) (ev_frame e) else (s, []).

  Definition ungated (s : T) (e : event) : T * list trace := inner s (ev_kind e) (ev_code e) (ev_frame e).

  (* a whole history: final tracer state and everything the logger received *)
  Fixpoint run (step : T -> event -> T * list trace) (s : T) (H : list event) : T * list trace :=
    match H with
    | [] => (s, [])
    | e :: H' => let '(s1, l1) := step s e in
                 let '(s2, l2) := run step s1 H' in (s2, l1 ++ l2)
    end.
End Gate.

Arguments ev_kind {code frame}.
Arguments ev_code {code frame}.
Arguments ev_frame {code frame}.
Arguments Build_event {code frame}.

(* ------------------------------------------------------------------------------------------ *)
(* a small concrete tracer behind the gate, used by the non-vacuity examples and by the         *)
(* end-to-end correspondence: code objects are numbered, each resolves to a (module, qualname)  *)
(* ------------------------------------------------------------------------------------------ *)
Definition mini_state := list (nat * nat).        (* live frames: (frame id, code id) — CallTracer.traces *)

Fixpoint remove_frame (f : nat) (s : mini_state) : mini_state :=
  match s with
  | [] => []
  | (g, c) :: r => if Nat.eqb f g then r else (g, c) :: remove_frame f r
  end.

Fixpoint find_frame (f : nat) (s : mini_state) : option nat :=
  match s with
  | [] => None
  | (g, c) :: r => if Nat.eqb f g then Some c else find_frame f r
  end.

Definition mini_inner (resolve : nat -> option trace) (s : mini_state) (k : evkind) (c f : nat)
  : mini_state * list trace :=
  match k with
  | KCall => match resolve c with
             | Some _ => match find_frame f s with Some _ => (s, []) | None => ((f, c) :: s, []) end
             | None => (s, [])                                  (* get_func found nothing *)
             end
  | KReturn => match find_frame f s with
               | Some c' => (remove_frame f s, match resolve c' with Some t => [t] | None => [] end)
               | None => (s, [])
               end
  | KOther => (s, [])
  end.

(* the batch CallTraceStoreLogger has buffered after logging ts (what flush hands to store.add) *)
Definition batch (ts : list trace) : list trace := fold_left log ts [].

(* tracer -> logger -> store.add for a whole history, from a fresh tracer and logger *)
Definition pipeline_rows (resolve : nat -> option trace) (is_tt : nat -> bool) (filt : option (nat -> bool))
           (H : list (event nat nat)) : list trace :=
  batch (snd (run nat nat mini_state (gate nat nat mini_state (mini_inner resolve) is_tt filt) [] H)).
