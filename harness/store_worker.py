"""C09 worker processes (run as `python -m harness.store_worker <mode> ...` with env=common.sub_env()):
writer / reader for the concurrency campaign, selfkill / victim for the SIGKILL campaign."""
import json
import os
import signal
import sqlite3
import sys
import time


def _store(path, cache=None):
    from monkeytype.db.sqlite import SQLiteStore
    store = SQLiteStore.make_store(path)
    if cache:
        store.conn.execute(f"PRAGMA cache_size={int(cache)}")   # tiny page cache: the insert spills to the file before commit
    return store


def main(argv):
    from harness import store_model as sm
    sm.quiet()
    mode = argv[0]
    if mode == "writer":
        path, wid, nb, t0 = argv[1], int(argv[2]), int(argv[3]), float(argv[4])
        time.sleep(max(0.0, t0 - time.time()))
        out = []
        try:
            store = _store(path)
        except Exception as e:
            print(json.dumps({"open_error": f"{type(e).__name__}: {e}", "status": []}))
            return 0
        for j in range(nb):
            traces = [sm.build_trace(s) for s in sm.writer_batch(wid, j)]
            try:
                store.add(traces)
                out.append("ok")
            except Exception as e:
                out.append(f"raised {type(e).__name__}: {e}")
        print(json.dumps({"status": out}))
        return 0
    if mode == "reader":
        path, t0, nsnap = argv[1], float(argv[2]), int(argv[3])
        time.sleep(max(0.0, t0 - time.time()))
        snaps = []
        store = None
        for i in range(nsnap):
            try:
                if store is None:
                    store = _store(path)
                m = sm.MODULES[i % 2]
                p = [None, "my_func", "foo", "a%b", "my"][i % 5]
                if i % 4 == 3:
                    snaps.append({"k": "mods", "mods": store.list_modules()})
                else:
                    rs = store.filter(m, p, 2000)
                    snaps.append({"k": "rows", "m": m, "p": p, "n": 2000,
                                  "rows": [[r.module, r.qualname, r.arg_types, r.return_type, r.yield_type] for r in rs]})
            except Exception as e:
                snaps.append({"k": "raised", "err": f"{type(e).__name__}: {e}"})
            time.sleep(0.004)
        print(json.dumps({"snaps": snaps}))
        return 0
    if mode == "selfkill":
        path, k, cache, wide, n_rows = argv[1], int(argv[2]), int(argv[3]), int(argv[4]), int(argv[5])
        store = _store(path, cache)
        a, b = sm.kill_batches(wide, n_rows)
        store.add([sm.build_trace(s) for s in a])
        print("OK A", flush=True)
        calls = [0]

        def handler():
            calls[0] += 1
            if calls[0] == k:
                os.kill(os.getpid(), signal.SIGKILL)
            return 0
        store.conn.set_progress_handler(handler, 1)
        store.add([sm.build_trace(s) for s in b])
        store.conn.set_progress_handler(None, 1)
        print(f"OK B {calls[0]}", flush=True)
        return 0
    if mode == "isolation":
        # stores on DIFFERENT databases that have the same connection string: two `:memory:` stores, and the same
        # relative path opened from two working directories.  Prints, per store, the answers it gave.
        import os as _os
        base = argv[1]
        from monkeytype.db.sqlite import SQLiteStore
        x = [["t", "m", "my_func", 0, None], ["bad", "arg"], ["t", "M", "foo", 1, None]]
        y = [["t", "m", "foo", 0, None], ["t", "m", "my_func", 8, None]]
        out = {}
        for scen in ("memory", "relative"):
            stores = []
            for k in (0, 1):
                if scen == "relative":
                    d = _os.path.join(base, f"cwd{k}")
                    _os.makedirs(d, exist_ok=True)
                    _os.chdir(d)
                    stores.append(SQLiteStore.make_store("traces.db"))
                else:
                    stores.append(SQLiteStore.make_store(":memory:"))
            logs = [[], []]

            def do(k, op):
                st = stores[k]
                try:
                    if op[0] == "add":
                        st.add([sm.build_trace(sp) for sp in op[2]])
                        obs = {"k": "none"}
                    elif op[0] == "filter":
                        rs = st.filter(op[2], op[3], op[4])
                        obs = {"k": "rows", "rows": [[r.module, r.qualname, r.arg_types, r.return_type, r.yield_type] for r in rs]}
                    else:
                        obs = {"k": "mods", "mods": list(st.list_modules())}
                except Exception as e:
                    obs = {"k": "raised", "err": f"{type(e).__name__}: {e}"}
                logs[k].append([op, obs])
            do(0, ["add", 0, x]); do(1, ["filter", 0, "m", None, 2000]); do(1, ["modules", 0]); do(0, ["filter", 0, "m", None, 2000])
            do(1, ["add", 0, y]); do(0, ["filter", 0, "m", "my_func", 2000]); do(1, ["filter", 0, "m", "my_func", 2000])
            do(0, ["modules", 0]); do(1, ["modules", 0]); do(0, ["filter", 0, "M", None, 2000]); do(1, ["filter", 0, "M", None, 2000])
            out[scen] = logs
        print(json.dumps(out))
        return 0
    if mode == "spillkill":
        # dies as soon as the database file has grown by `grow` bytes, i.e. strictly inside the big insert, after
        # SQLite had to write pages of the uncommitted batch over / behind committed pages of the file
        path, grow = argv[1], int(argv[2])
        store = _store(path)
        a, b = sm.spill_batches()
        store.add([sm.build_trace(s) for s in a])
        traces = [sm.build_trace(s) for s in b]
        base = os.path.getsize(path)
        print(f"OK A {base}", flush=True)

        def handler():
            if os.path.getsize(path) > base + grow:
                os.kill(os.getpid(), signal.SIGKILL)
            return 0
        store.conn.set_progress_handler(handler, 500)
        store.add(traces)
        print("OK B", flush=True)
        return 0
    if mode == "victim":
        path, cache, wide, n_rows = argv[1], int(argv[2]), int(argv[3]), int(argv[4])
        store = _store(path, cache)
        a, b = sm.kill_batches(wide, n_rows)
        store.add([sm.build_trace(s) for s in a])
        traces = [sm.build_trace(s) for s in b]
        first = [True]

        def handler():       # tells the parent when the INSERT has really begun (serialisation is over)
            if first[0]:
                first[0] = False
                print("START", flush=True)
            return 0
        store.conn.set_progress_handler(handler, 40)
        store.add(traces)
        print("DONE", flush=True)
        time.sleep(5)
        return 0
    raise SystemExit(f"unknown mode {mode}")


if __name__ == "__main__":
    sys.exit(main(sys.argv[1:]))
