(* Refuted/C11.v — C11_full is false of the faithful model (of today's renderer and of the repaired one):
   one closed witness per finding class, each satisfying the well-formedness premise, lying in exactly the
   named class among the seven, and failing `stub_ok`.  Every witness is replayed against the real code by the
   directed block of harness/render_gen.py (same shapes). *)
From MT Require Import Types Render RenderTok RenderCases.
From MT.Props Require C11.

Open Scope string_scope.
Open Scope nat_scope.
Open Scope list_scope.

Definition rct : ctable :=
  [(1%N, ("builtins", "NoneType")); (2%N, ("builtins", "int")); (3%N, ("builtins", "str"));
   (16%N, ("utils", "A")); (19%N, ("pkg.utils", "B")); (21%N, ("foo", "Baz")); (22%N, ("barfoo", "Baz"));
   (23%N, ("foo", "MyNoneTypeX")); (24%N, ("mytyping", "Q")); (25%N, ("barfoo", "Qux"))].

Definition f0 (t : ty) : fdef := Build_fdef [] "f0" false [("a", 0)] [("a", t)] None None.
Definition g2 (a b : ty) : fdef := Build_fdef [] "g2" false [("a", 0); ("b", 0)] [("a", a); ("b", b)] None None.
Definition td1 : ty := TTypedDict [("x", TCls 2%N)] [].
Definition td2 : ty := TTypedDict [("x", TCls 2%N); ("y", TCls 3%N)] [].

(* the seven class predicates as one vector *)
Definition kfs (ct : ctable) (own : string) (fds : list fdef) : list bool :=
  [kf_same_root_name ct own fds; kf_td_not_descended fds; kf_nonetype_in_name ct fds; kf_typing_in_name ct fds;
   kf_hint_collision ct fds; kf_td_field_names ct fds; kf_fwd_not_descended ct fds].

Definition refutes (own : string) (fds : list fdef) (v : list bool) : Prop :=
  C11.wf_input rct fds = true /\ kfs rct own fds = v /\ C11.stub_ok rct own fds = false.

(* from foo import Baz / from barfoo import Baz: the second import shadows the first *)
Theorem kf_same_root_name_refuted :
  exists own fds, refutes own fds [true; false; false; false; false; false; false].
Proof. exists "utils", [g2 (TCls 21%N) (TCls 22%N)]. vm_compute. repeat split; reflexivity. Qed.
Print Assumptions kf_same_root_name_refuted.

(* DefaultDict[str, TypedDict]: rendered `DefaultDict[str, monkeytype.DUMMY_NAME]`, `from monkeytype.typing import DUMMY_NAME` *)
Theorem kf_td_not_descended_refuted :
  exists own fds, refutes own fds [false; true; false; false; false; false; false].
Proof. exists "utils", [f0 (TDefaultDict (TCls 3%N) td1)]. vm_compute. repeat split; reflexivity. Qed.
Print Assumptions kf_td_not_descended_refuted.

(* class foo.MyNoneTypeX is rendered MyNoneX *)
Theorem kf_nonetype_in_name_refuted :
  exists own fds, refutes own fds [false; false; true; false; false; false; false].
Proof. exists "utils", [f0 (TCls 23%N)]. vm_compute. repeat split; reflexivity. Qed.
Print Assumptions kf_nonetype_in_name_refuted.

(* List[mytyping.Q] is rendered List[myQ] *)
Theorem kf_typing_in_name_refuted :
  exists own fds, refutes own fds [false; false; false; true; false; false; false].
Proof. exists "utils", [f0 (TList (TCls 24%N))]. vm_compute. repeat split; reflexivity. Qed.
Print Assumptions kf_typing_in_name_refuted.

(* two different TypedDicts below fields of the same name: both classes are called VTypedDict__RENAME_ME__ *)
Theorem kf_hint_collision_refuted :
  exists own fds, refutes own fds [false; false; false; false; true; false; false].
Proof.
  exists "utils", [g2 (TTypedDict [("v", td1)] []) (TTypedDict [("v", td2)] [])].
  vm_compute. repeat split; reflexivity.
Qed.
Print Assumptions kf_hint_collision_refuted.

(* a TypedDict field of a user class: `x: foo.Baz` in the class stub, nothing imports foo *)
Theorem kf_td_field_names_refuted :
  exists own fds, refutes own fds [false; false; false; false; false; true; false].
Proof. exists "utils", [f0 (TTypedDict [("x", TCls 21%N)] [])]. vm_compute. repeat split; reflexivity. Qed.
Print Assumptions kf_td_field_names_refuted.

(* a generator yielding a TypedDict: `-> Iterator[ForwardRef('F0YieldTypedDict__RENAME_ME__')]` *)
Theorem kf_fwd_not_descended_refuted :
  exists own fds, refutes own fds [false; false; false; false; false; false; true].
Proof.
  exists "utils", [Build_fdef [] "f0" false [("a", 0)] [] None (Some td1)].
  vm_compute. repeat split; reflexivity.
Qed.
Print Assumptions kf_fwd_not_descended_refuted.

Theorem C11_full_refuted : ~ C11.C11_full.
Proof.
  intros H. specialize (H rct "utils" [f0 (TCls 23%N)]).
  assert (E : C11.stub_ok rct "utils" [f0 (TCls 23%N)] = false) by (vm_compute; reflexivity).
  rewrite H in E; [discriminate | vm_compute; reflexivity].
Qed.
Print Assumptions C11_full_refuted.

(* today's sequential str.replace of module prefixes (before _proposed/C11-prefix-strip.diff): utils.A and
   pkg.utils.B in one signature; the repaired stripping resolves, today's does not *)
Theorem prefix_strip_today_refuted :
  exists mods t ns,
    binds_base ns /\ binds_cls_l rct ns (tcls t) /\ ok t = true
    /\ strip_mods_old mods (ra rct t) = "Tuple[A, pkg.B]"
    /\ eval_text rct ns (strip_mods_old mods (ra rct t)) = None
    /\ strip_mods mods (ra rct t) = "Tuple[A, B]"
    /\ eval_text rct ns (strip_mods mods (ra rct t)) = Some t.
Proof.
  exists ["utils"; "typing"; "pkg.utils"], (TTuple [TCls 16%N; TCls 19%N]),
         ([("None", NsNone); ("Ellipsis", NsEllipsis)] ++ map (fun k => (k, NsTyp k)) typing_names
          ++ [("A", NsCls 16%N); ("B", NsCls 19%N)]).
  split.
  { split; [reflexivity|]. split; [reflexivity|].
    intros k Hk. cbn in Hk. repeat (destruct Hk as [<-|Hk]; [reflexivity|]). destruct Hk. }
  split.
  { intros c Hc Hn. cbn in Hc. repeat (destruct Hc as [<-|Hc]; [vm_compute; reflexivity|]). destruct Hc. }
  vm_compute. repeat split; reflexivity.
Qed.
Print Assumptions prefix_strip_today_refuted.
