(* Proofs/EncodeStruct.v — C08, "encoding is a function of the type's structure only":
   two types that differ only in the order in which TypedDicts list their fields have the same JSON,
   provided their TypedDict classes were constructed in the same module (the `site` parameter). *)
From MT Require Import Types TypesFacts Encode EncodeSort EncodeRoundtrip.
From Coq Require Import Lia Permutation.
Open Scope string_scope.
Open Scope list_scope.

(* position-wise relation on lists, by recursion on the first *)
Fixpoint lrelP (R : ty -> ty -> Prop) (xs ys : list ty) : Prop :=
  match xs, ys with
  | [], [] => True
  | x :: xs', y :: ys' => R x y /\ lrelP R xs' ys'
  | _, _ => False
  end.

Fixpoint frelP (R : ty -> ty -> Prop) (xs ys : list (string * ty)) : Prop :=
  match xs, ys with
  | [], [] => True
  | x :: xs', y :: ys' => fst x = fst y /\ R (snd x) (snd y) /\ frelP R xs' ys'
  | _, _ => False
  end.

(* same structure; every TypedDict's required (optional) fields are the other's, in any order *)
Fixpoint fields_perm (a b : ty) {struct a} : Prop :=
  let fix lrel (xs ys : list ty) : Prop :=
      match xs, ys with
      | [], [] => True
      | x :: xs', y :: ys' => fields_perm x y /\ lrel xs' ys'
      | _, _ => False end in
  let fix frel (xs ys : list (string * ty)) : Prop :=
      match xs, ys with
      | [], [] => True
      | x :: xs', y :: ys' => fst x = fst y /\ fields_perm (snd x) (snd y) /\ frel xs' ys'
      | _, _ => False end in
  match a, b with
  | TAny, TAny => True
  | TCls c, TCls d => c = d
  | TCallable, TCallable => True
  | TFwd s, TFwd s' => s = s'
  | TType x, TType y => fields_perm x y
  | TList x, TList y => fields_perm x y
  | TSet x, TSet y => fields_perm x y
  | TIterator x, TIterator y => fields_perm x y
  | TTupleVar x, TTupleVar y => fields_perm x y
  | TDict k v, TDict k' v' => fields_perm k k' /\ fields_perm v v'
  | TDefaultDict k v, TDefaultDict k' v' => fields_perm k k' /\ fields_perm v v'
  | TTuple xs, TTuple ys => lrel xs ys
  | TUnion xs, TUnion ys => lrel xs ys          (* member order is behaviour: it changes the JSON *)
  | TGenerator a1 a2 a3, TGenerator b1 b2 b3 => fields_perm a1 b1 /\ fields_perm a2 b2 /\ fields_perm a3 b3
  | TTypedDict r o, TTypedDict r' o' =>
      exists r2 o2, frel r r2 /\ Permutation r2 r' /\ frel o o2 /\ Permutation o2 o'
  | _, _ => False
  end.

Lemma fields_perm_tuple xs ys : fields_perm (TTuple xs) (TTuple ys) <-> lrelP fields_perm xs ys.
Proof.
  cbn [fields_perm]. revert ys. induction xs as [|x r IH]; intros [|y ys]; cbn [lrelP]; try reflexivity.
  rewrite IH. reflexivity.
Qed.

Lemma fields_perm_union xs ys : fields_perm (TUnion xs) (TUnion ys) <-> lrelP fields_perm xs ys.
Proof.
  cbn [fields_perm]. revert ys. induction xs as [|x r IH]; intros [|y ys]; cbn [lrelP]; try reflexivity.
  rewrite IH. reflexivity.
Qed.

Lemma fields_perm_td r o r' o' :
  fields_perm (TTypedDict r o) (TTypedDict r' o') <->
  exists r2 o2, frelP fields_perm r r2 /\ Permutation r2 r' /\ frelP fields_perm o o2 /\ Permutation o2 o'.
Proof.
  cbn [fields_perm].
  assert (E : forall xs ys,
    (fix frel (xs0 ys0 : list (string * ty)) {struct xs0} : Prop :=
       match xs0 with
       | [] => match ys0 with [] => True | _ :: _ => False end
       | x :: xs' => match ys0 with
                     | [] => False
                     | y :: ys' => fst x = fst y /\ fields_perm (snd x) (snd y) /\ frel xs' ys' end
       end) xs ys <-> frelP fields_perm xs ys).
  { induction xs as [|x xs IH]; intros [|y ys]; cbn [frelP]; try reflexivity. rewrite IH. reflexivity. }
  split; intros [r2 [o2 [H1 [H2 [H3 H4]]]]]; exists r2, o2; repeat split; try assumption; apply E; assumption.
Qed.

Lemma lrel_canon xs : forall ys,
  Forall (fun x => forall b, wf_tyb x = true -> fields_perm x b -> canon x = canon b) xs ->
  forallb wf_tyb xs = true -> lrelP fields_perm xs ys -> map canon xs = map canon ys.
Proof.
  induction xs as [|x r IH]; intros [|y ys] F W H; cbn [lrelP] in H; try contradiction; [reflexivity|].
  inversion F as [|? ? Fx Fr]; subst. cbn [forallb] in W. apply andb_prop in W. destruct W as [W1 W2].
  destruct H as [H1 H2]. cbn [map]. rewrite (Fx _ W1 H1), (IH _ Fr W2 H2). reflexivity.
Qed.

Lemma frel_canon xs : forall ys,
  Forall (fun f => forall b, wf_tyb (snd f) = true -> fields_perm (snd f) b -> canon (snd f) = canon b) xs ->
  forallb (fun f => wf_tyb (snd f)) xs = true -> frelP fields_perm xs ys ->
  map (fun f => (fst f, canon (snd f))) xs = map (fun f => (fst f, canon (snd f))) ys.
Proof.
  induction xs as [|x r IH]; intros [|y ys] F W H; cbn [frelP] in H; try contradiction; [reflexivity|].
  inversion F as [|? ? Fx Fr]; subst. cbn [forallb] in W. apply andb_prop in W. destruct W as [W1 W2].
  destruct H as [H0 [H1 H2]]. cbn [map]. rewrite H0, (Fx _ W1 H1), (IH _ Fr W2 H2). reflexivity.
Qed.

Lemma sorted_fields_eq (r r2 r' : list (string * ty)) :
  nodup_strb (map fst r) = true ->
  map (fun f => (fst f, canon (snd f))) r = map (fun f => (fst f, canon (snd f))) r2 ->
  Permutation r2 r' ->
  sort_kv (map (fun f => (fst f, canon (snd f))) r) = sort_kv (map (fun f => (fst f, canon (snd f))) r').
Proof.
  intros ND E P. rewrite E. apply sort_kv_unique.
  - rewrite <- E. rewrite map_fst_map. apply nodup_strb_NoDup. exact ND.
  - apply Permutation_map. exact P.
Qed.

(* fields-permuted types have the same canonical (field-sorted) form *)
Lemma fields_perm_canon a : forall b, wf_tyb a = true -> fields_perm a b -> canon a = canon b.
Proof.
  induction a as [ | c | x IH | | x IH | x IH | x IH | k v IHk IHv | k v IHk IHv | xs IH | x IH
                 | a1 a2 a3 IH1 IH2 IH3 | xs IH | r o IHr IHo | s ] using ty_ind';
    intros b W H; destruct b; cbn [fields_perm] in H; try contradiction; cbn [canon wf_tyb] in *;
    try reflexivity; try (subst; reflexivity); try (rewrite (IH _ W H); reflexivity).
  - apply andb_prop in W. destruct W, H. rewrite (IHk b1), (IHv b2) by assumption. reflexivity.
  - apply andb_prop in W. destruct W, H. rewrite (IHk b1), (IHv b2) by assumption. reflexivity.
  - f_equal. apply lrel_canon; try assumption. apply fields_perm_tuple. exact H.
  - apply andb_prop in W. destruct W as [W W3]. apply andb_prop in W. destruct W. destruct H as [? [? ?]].
    rewrite (IH1 b1), (IH2 b2), (IH3 b3) by assumption. reflexivity.
  - f_equal. apply lrel_canon; try assumption. apply fields_perm_union. exact H.
  - change (fields_perm (TTypedDict r o) (TTypedDict req opt)) in H. apply fields_perm_td in H.
    destruct H as [r2 [o2 [H1 [H2 [H3 H4]]]]].
    apply andb_prop in W. destruct W as [W W3]. apply andb_prop in W. destruct W as [W1 W2].
    f_equal.
    + apply (sorted_fields_eq r r2 req); [eapply nodup_app_l; exact W1| |exact H2].
      apply frel_canon; assumption.
    + apply (sorted_fields_eq o o2 opt); [eapply nodup_app_r; exact W1| |exact H4].
      apply frel_canon; assumption.
Qed.

Section Structural.
Variable cname : cls -> string * string.
Variable site : string.
Variable env : string -> string -> lookup.
Variable hidden : string -> option cls.

(* both types encoded with the same construction site (same_site): same JSON *)
Theorem encode_structural t1 t2 :
  good cname env hidden t1 -> good cname env hidden t2 -> wf_tyb t1 = true -> fields_perm t1 t2 ->
  type_to_json cname site t1 = type_to_json cname site t2.
Proof.
  intros G1 G2 W P.
  rewrite (type_to_json_good cname site env hidden t1 G1), (type_to_json_good cname site env hidden t2 G2).
  rewrite (fields_perm_canon t1 t2 W P). reflexivity.
Qed.

(* ... and the JSON is the JSON of the field-sorted form, whatever the order was *)
Theorem encode_canonical t :
  good cname env hidden t -> type_to_json cname site t = type_to_dict cname site (canon t).
Proof.
  intros G. rewrite (type_to_json_good cname site env hidden t G).
  symmetry. apply (enc0_ok cname site env hidden). apply good_canon. exact G.
Qed.
End Structural.

Theorem encode_structural_ok (cname : cls -> string * string) (site : string)
        (env : string -> string -> lookup) (hidden : string -> option cls) t1 t2 :
  ok_type cname env hidden t1 -> ok_type cname env hidden t2 -> fields_perm t1 t2 ->
  type_to_json cname site t1 = type_to_json cname site t2.
Proof.
  intros O1 O2 P. apply (encode_structural cname site env hidden); try assumption.
  - apply (good_of_ok cname site env hidden). exact O1.
  - apply (good_of_ok cname site env hidden). exact O2.
  - destruct O1 as [[_ [_ W]] _]. exact W.
Qed.

(* ================================================================================================
   ... lifted to stored rows: CallTraceRow.from_trace is a function of the trace's structure
   ================================================================================================ *)
Definition opt_fields_perm (a b : option ty) : Prop :=
  match a, b with
  | None, None => True
  | Some x, Some y => fields_perm x y
  | _, _ => False
  end.

(* same function; the argument dict lists the same names in any insertion order, with field-permuted types;
   return / yield field-permuted *)
Definition trace_perm (t1 t2 : trace) : Prop :=
  tr_func t1 = tr_func t2
  /\ (exists a2, frelP fields_perm (tr_args t1) a2 /\ Permutation a2 (tr_args t2))
  /\ opt_fields_perm (tr_ret t1) (tr_ret t2) /\ opt_fields_perm (tr_yield t1) (tr_yield t2).

Section RowStructural.
Variable cname : cls -> string * string.
Variable fname : fid -> string * string.
Variable site : string.
Variable env : string -> string -> lookup.
Variable hidden : string -> option cls.

Notation goodt := (good cname env hidden).

Lemma maybe_encode_good o :
  good_opt cname env hidden o ->
  maybe_encode_type cname site o = Ok (option_map (fun t => enc0 cname site (canon t)) o).
Proof.
  destruct o as [t|]; intros G; [|reflexivity]. cbn [maybe_encode_type option_map].
  rewrite (type_to_json_good cname site env hidden t G). reflexivity.
Qed.

Lemma from_trace_good tr :
  good_trace cname fname env hidden tr ->
  from_trace cname fname site tr =
  Ok (Row (fst (fname (tr_func tr))) (snd (fname (tr_func tr)))
          (JObj (map (fun f => (fst f, enc0 cname site (snd f))) (canon_args (tr_args tr))))
          (option_map (fun t => enc0 cname site (canon t)) (tr_ret tr))
          (option_map (fun t => enc0 cname site (canon t)) (tr_yield tr))).
Proof.
  intros [_ [_ [GA [GR GY]]]]. unfold from_trace.
  rewrite (arg_types_to_json_good cname site env hidden _ GA), (maybe_encode_good _ GR), (maybe_encode_good _ GY).
  reflexivity.
Qed.

Lemma opt_perm_canon (a b : option ty) :
  match a with Some t => wf_tyb t = true | None => True end -> opt_fields_perm a b ->
  option_map (fun t => enc0 cname site (canon t)) a = option_map (fun t => enc0 cname site (canon t)) b.
Proof.
  destruct a as [x|], b as [y|]; cbn [opt_fields_perm option_map]; intros W P; try contradiction; [|reflexivity].
  rewrite (fields_perm_canon x y W P). reflexivity.
Qed.

Theorem from_trace_structural tr1 tr2 :
  ok_trace cname fname env hidden tr1 -> ok_trace cname fname env hidden tr2 -> trace_perm tr1 tr2 ->
  from_trace cname fname site tr1 = from_trace cname fname site tr2.
Proof.
  intros O1 O2 [PF [[a2 [PA1 PA2]] [PR PY]]].
  rewrite (from_trace_good tr1 (good_trace_of_ok cname fname site env hidden tr1 O1)).
  rewrite (from_trace_good tr2 (good_trace_of_ok cname fname site env hidden tr2 O2)).
  destruct O1 as [_ [ND1 [A1 [R1 Y1]]]].
  assert (EA : canon_args (tr_args tr1) = canon_args (tr_args tr2)).
  { unfold canon_args. apply (sorted_fields_eq (tr_args tr1) a2 (tr_args tr2) ND1); [|exact PA2].
    apply frel_canon; [| |exact PA1].
    - apply Forall_forall. intros f _ b W P. apply fields_perm_canon; assumption.
    - apply forallb_forall. intros f Hf. rewrite Forall_forall in A1. destruct (A1 f Hf) as [[_ [_ W]] _]. exact W. }
  assert (ER : option_map (fun t => enc0 cname site (canon t)) (tr_ret tr1)
               = option_map (fun t => enc0 cname site (canon t)) (tr_ret tr2)).
  { apply opt_perm_canon; [|exact PR]. destruct (tr_ret tr1); [|exact I]. destruct R1 as [[_ [_ W]] _]. exact W. }
  assert (EY : option_map (fun t => enc0 cname site (canon t)) (tr_yield tr1)
               = option_map (fun t => enc0 cname site (canon t)) (tr_yield tr2)).
  { apply opt_perm_canon; [|exact PY]. destruct (tr_yield tr1); [|exact I]. destruct Y1 as [[_ [_ W]] _]. exact W. }
  rewrite PF, EA, ER, EY. reflexivity.
Qed.
End RowStructural.
