#!/usr/bin/env python3
"""tools/mut_table.py <log of tools/eval_mutants.sh>  — one line per seeded change: which checks gave a concrete input,
which only a broken proof/tie, which nothing."""
import re, sys
cur, rows = None, {}
pend = []
for line in open(sys.argv[1]):
    m = re.match(r"######## (\S+) (\S+)", line)
    if m:
        cur = f"{m.group(1)} {m.group(2)}"; rows[cur] = []; pend = []; continue
    if cur is None:
        continue
    if line.startswith("PATCH DOES NOT APPLY"):
        rows[cur].append("PATCH-DOES-NOT-APPLY")
    if line.startswith("VIOLATION"):
        pend.append("nofail" if "no-failing-input-found" in line else "concrete")
    m = re.match(r"\[(C\d+)\].*violations=(\d+)", line)
    if m:
        kind = "missed" if m.group(2) == "0" else ("concrete" if "concrete" in pend else "nofail")
        rows[cur].append(f"{m.group(1)}:{kind}")
        pend = []
for k, v in rows.items():
    ok = any(x.endswith(":concrete") for x in v)
    print(("OK   " if ok else "TODO ") + k.ljust(12) + " ".join(v))
