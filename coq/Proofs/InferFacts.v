(* Proofs/InferFacts.v — td2dict and the TypedDict merge: structural facts. *)
From MT Require Import Types Infer TypesFacts UnionFacts.
From Coq Require Import Lia.

(* ---------- td2dict ---------- *)
Lemma td2dict_wf t : wf_ty t -> wf_ty (td2dict t).
Proof.
  induction t as [ | c | x IH | | x IH | x IH | x IH | k v0 IHk IHv | k v0 IHk IHv | xs IH | x IH
                 | a1 a2 a3 IH1 IH2 IH3 | xs IH | r o IHr IHo | s ] using ty_ind';
    intros W; cbn [td2dict wf_ty] in *; auto; try tauto.
  - (* TTuple *) apply wf_list_Forall. apply wf_list_Forall in W.
    rewrite Forall_forall in *. intros y Hy. apply in_map_iff in Hy. destruct Hy as [x [<- Hx]]. auto.
  - (* TUnion *) apply union_mk_wf. apply wf_list_Forall in W.
    rewrite Forall_forall in *. intros y Hy. apply in_map_iff in Hy. destruct Hy as [x [<- Hx]]. auto.
  - (* TTypedDict *)
    change (wf_ty (TTypedDict r o)) in W. apply wf_TTypedDict in W. destruct W as [_ [Wr Wo]].
    assert (G : wf_ty (TDict (TCls cStr)
                 (union_mk (map (fun f => td2dict (snd f)) r ++ map (fun f => td2dict (snd f)) o)))).
    { cbn [wf_ty]. split; [exact I|]. apply union_mk_wf. apply Forall_app.
      rewrite Forall_forall in Wr, Wo, IHr, IHo.
      split; rewrite Forall_forall; intros y Hy; apply in_map_iff in Hy; destruct Hy as [f [<- Hf]]; auto. }
    destruct r, o; try exact G; cbn [wf_ty]; tauto.
Qed.

Section Td2dictMember.
Variable anyb : bool.
Variable sub : cls -> cls -> bool.
Hypothesis sub_str : sub cStr cStr = true.
Notation mem := (member anyb sub).

Lemma td2dict_monotone t : forall v, wf_ty t -> mem v t = true -> mem v (td2dict t) = true.
Proof.
  induction t as [ | c | x IH | | x IH | x IH | x IH | k v0 IHk IHv | k v0 IHk IHv | xs IH | x IH
                 | a1 a2 a3 IH1 IH2 IH3 | xs IH | r o IHr IHo | s ] using ty_ind';
    intros v W M; cbn [td2dict]; try exact M.
  - (* TList *) cbn [member wf_ty] in *. destruct v; try discriminate M. revert M. apply forallb_imp. auto.
  - (* TSet *) cbn [member wf_ty] in *. destruct v; try discriminate M. revert M. apply forallb_imp. auto.
  - (* TDict *) cbn [member wf_ty] in *. destruct W as [W1 W2].
    destruct v; try discriminate M; revert M; apply forallb_imp; intros kv _ H;
      apply andb_prop in H; destruct H as [H1 H2]; apply andb_true_intro; split; auto.
  - (* TTuple *) apply wf_TTuple in W. destruct v; try discriminate M. rewrite member_TTuple in *.
    revert es M. induction xs as [|x xs IHxs]; intros [|e es] M; cbn [map]; try discriminate M; try exact M.
    inversion IH; subst. inversion W; subst.
    apply andb_prop in M. destruct M as [M1 M2]. apply andb_true_intro; split; auto.
  - (* TTupleVar *) cbn [member wf_ty] in *. destruct v; try discriminate M. revert M. apply forallb_imp. auto.
  - (* TUnion *) apply wf_TUnion in W. rewrite member_TUnion in M.
    apply existsb_exists in M. destruct M as [x [Hx Mx]].
    rewrite Forall_forall in IH, W.
    apply union_mk_complete.
    + rewrite Forall_forall. intros y Hy. apply in_map_iff in Hy. destruct Hy as [x' [<- Hx']].
      apply td2dict_wf. auto.
    + apply existsb_exists. exists (td2dict x). split; [apply in_map; exact Hx|]. auto.
  - (* TTypedDict *)
    apply wf_TTypedDict in W. destruct W as [_ [Wr Wo]].
    rewrite member_TTypedDict in M. destruct v; try discriminate M.
    apply andb_prop in M. destruct M as [MA _].
    assert (G : mem (VDict kvs) (TDict (TCls cStr)
                 (union_mk (map (fun f => td2dict (snd f)) r ++ map (fun f => td2dict (snd f)) o))) = true).
    { cbn [member]. revert MA. apply forallb_imp. intros [kk vv] _. cbn [fst snd].
      destruct kk; try (intros; discriminate). intros H.
      apply andb_true_intro; split; [cbn [member class_of]; exact sub_str|].
      unfold field_ty in H.
      assert (Hft : exists ft, (In (s, ft) r \/ In (s, ft) o) /\ mem vv ft = true).
      { destruct (lookup_f s r) as [ft|] eqn:Lr.
        - exists ft. split; [left; apply lookup_f_In; exact Lr|exact H].
        - destruct (lookup_f s o) as [ft|] eqn:Lo; [|discriminate H].
          exists ft. split; [right; apply lookup_f_In; exact Lo|exact H]. }
      destruct Hft as [ft [Hin Mft]].
      rewrite Forall_forall in IHr, IHo, Wr, Wo.
      apply union_mk_complete.
      - apply Forall_app. rewrite !Forall_forall.
        split; intros y Hy; apply in_map_iff in Hy; destruct Hy as [f [<- Hf]]; apply td2dict_wf; auto.
      - apply existsb_exists. exists (td2dict ft). split.
        + apply in_or_app. destruct Hin as [Hin|Hin]; [left|right];
            apply (in_map (fun f => td2dict (snd f))) in Hin; exact Hin.
        + destruct Hin as [Hin|Hin]; [apply (IHr _ Hin)|apply (IHo _ Hin)]; cbn [snd]; auto;
            [apply (Wr _ Hin)|apply (Wo _ Hin)]. }
    destruct r, o; try exact G.
    (* the empty TypedDict admits only the empty dict *)
    destruct kvs as [|[kk vv] kvs']; [reflexivity|].
    cbn [forallb fst] in MA. destruct kk; cbn in MA; discriminate MA.
Qed.

End Td2dictMember.

(* ---------- the key -> value-types maps of shrink_typed_dict_types ---------- *)
Notation keys m := (map fst m) (only parsing).

Fixpoint lookup_m (s : string) (m : list (string * list ty)) : list ty :=
  match m with
  | [] => []
  | e :: r => if String.eqb s (fst e) then snd e else lookup_m s r
  end.

Lemma lookup_m_add_field s k t m :
  lookup_m s (add_field k t m) = if String.eqb s k then lookup_m s m ++ [t] else lookup_m s m.
Proof.
  induction m as [|e r IH]; cbn [add_field lookup_m].
  - cbn [fst snd]. destruct (String.eqb s k); reflexivity.
  - destruct (String.eqb_spec k (fst e)) as [E|E]; cbn [lookup_m fst snd].
    + subst k. destruct (String.eqb s (fst e)); reflexivity.
    + rewrite IH. destruct (String.eqb_spec s (fst e)) as [E2|E2]; [|reflexivity].
      subst s. destruct (String.eqb_spec (fst e) k) as [E3|E3]; [congruence|reflexivity].
Qed.

Lemma keys_add_field s k t m : In s (keys (add_field k t m)) <-> s = k \/ In s (keys m).
Proof.
  induction m as [|e r IH]; cbn [add_field map In].
  - cbn [fst]. split; intros [H|H]; auto; destruct H.
  - destruct (String.eqb_spec k (fst e)) as [E|E]; cbn [map In fst].
    + subst. split; [intros [H|H]; [left; congruence|right; right; exact H]
                    |intros [H|[H|H]]; [left; congruence|left; exact H|right; exact H]].
    + rewrite IH. tauto.
Qed.

Lemma NoDup_add_field k t m : NoDup (keys m) -> NoDup (keys (add_field k t m)).
Proof.
  induction m as [|e r IH]; cbn [add_field map]; intros ND.
  - constructor; [intros []|constructor].
  - inversion ND as [|? ? Hn ND']; subst.
    destruct (String.eqb_spec k (fst e)) as [E|E]; cbn [map fst].
    + constructor; assumption.
    + constructor; [|apply IH; exact ND'].
      intros Hc. apply (keys_add_field (fst e) k t r) in Hc. destruct Hc as [Hc|Hc]; [congruence|].
      apply Hn. exact Hc.
Qed.

Definition vals_of (s : string) (fs : list (string * ty)) : list ty :=
  map snd (filter (fun f => String.eqb s (fst f)) fs).

Lemma lookup_m_add_fields s fs : forall m,
  lookup_m s (add_fields fs m) = lookup_m s m ++ vals_of s fs.
Proof.
  unfold add_fields, vals_of. induction fs as [|f r IH]; intros m; cbn [fold_left filter map].
  - rewrite app_nil_r. reflexivity.
  - rewrite IH, lookup_m_add_field. destruct (String.eqb s (fst f)); cbn [map].
    + rewrite <- app_assoc. reflexivity.
    + reflexivity.
Qed.

Lemma keys_add_fields s fs : forall m, In s (keys (add_fields fs m)) <-> In s (keys fs) \/ In s (keys m).
Proof.
  unfold add_fields. induction fs as [|f r IH]; intros m; cbn [fold_left].
  - cbn. tauto.
  - rewrite IH, keys_add_field. cbn [map In].
    split; [intros [H|[H|H]]|intros [[H|H]|H]]; auto.
Qed.

Lemma NoDup_add_fields fs : forall m, NoDup (keys m) -> NoDup (keys (add_fields fs m)).
Proof.
  unfold add_fields. induction fs as [|f r IH]; intros m ND; cbn [fold_left]; [exact ND|].
  apply IH. apply NoDup_add_field. exact ND.
Qed.

Definition kvmap (ts : list ty) (m : list (string * list ty)) :=
  fold_left (fun m t => add_fields (td_req t) m) ts m.

Lemma lookup_m_kvmap s ts : forall m,
  lookup_m s (kvmap ts m) = lookup_m s m ++ flat_map (fun t => vals_of s (td_req t)) ts.
Proof.
  unfold kvmap. induction ts as [|t r IH]; intros m; cbn [fold_left flat_map].
  - rewrite app_nil_r. reflexivity.
  - rewrite IH, lookup_m_add_fields, <- app_assoc. reflexivity.
Qed.

Lemma keys_kvmap s ts : forall m,
  In s (keys (kvmap ts m)) <-> (exists t, In t ts /\ In s (keys (td_req t))) \/ In s (keys m).
Proof.
  unfold kvmap. induction ts as [|t r IH]; intros m; cbn [fold_left].
  - split; [auto|]. intros [[t [[] _]]|H]; exact H.
  - rewrite IH, keys_add_fields. split.
    + intros [[t' [H1 H2]]|[H|H]]; auto.
      * left. exists t'. split; [right; exact H1|exact H2].
      * left. exists t. split; [left; reflexivity|exact H].
    + intros [[t' [[->|H1] H2]]|H]; auto. left. exists t'. auto.
Qed.

Lemma NoDup_kvmap ts : forall m, NoDup (keys m) -> NoDup (keys (kvmap ts m)).
Proof.
  unfold kvmap. induction ts as [|t r IH]; intros m ND; cbn [fold_left]; [exact ND|].
  apply IH. apply NoDup_add_fields. exact ND.
Qed.

Lemma lookup_m_In s m : In s (keys m) -> In (s, lookup_m s m) m.
Proof.
  induction m as [|e r IH]; cbn [map In lookup_m]; intros H; [destruct H|].
  destruct (String.eqb_spec s (fst e)) as [E|E].
  - left. destruct e; cbn in *; subst; reflexivity.
  - right. apply IH. destruct H as [H|H]; [congruence|exact H].
Qed.

Lemma lookup_m_NoDup s l m : NoDup (keys m) -> In (s, l) m -> lookup_m s m = l.
Proof.
  induction m as [|e r IH]; cbn [map In lookup_m]; intros ND H; [destruct H|].
  inversion ND as [|? ? Hn ND']; subst. destruct H as [->|H]; cbn [fst snd].
  - rewrite String.eqb_refl. reflexivity.
  - destruct (String.eqb_spec s (fst e)) as [E|E]; [|apply IH; assumption].
    exfalso. apply Hn. rewrite <- E. apply (in_map fst) in H. exact H.
Qed.

Lemma In_vals_of s ft fs : In ft (vals_of s fs) <-> In (s, ft) fs.
Proof.
  unfold vals_of. rewrite in_map_iff. split.
  - intros [f [<- Hf]]. apply filter_In in Hf. destruct Hf as [Hf E].
    apply String.eqb_eq in E. subst. destruct f; exact Hf.
  - intros H. exists (s, ft). split; [reflexivity|]. apply filter_In. split; [exact H|].
    cbn [fst]. apply String.eqb_refl.
Qed.

Lemma vals_of_length_le s fs : NoDup (keys fs) -> List.length (vals_of s fs) <= 1.
Proof.
  unfold vals_of. rewrite map_length.
  induction fs as [|f r IH]; cbn [map filter]; intros ND; [cbn; lia|].
  inversion ND as [|? ? Hn ND']; subst.
  destruct (String.eqb_spec s (fst f)) as [E|E]; [|apply IH; exact ND'].
  cbn [List.length].
  assert (Z : filter (fun f0 => String.eqb s (fst f0)) r = []).
  { destruct (filter (fun f0 => String.eqb s (fst f0)) r) as [|g l] eqn:F; [reflexivity|].
    exfalso. assert (Hg : In g (g :: l)) by (left; reflexivity). rewrite <- F in Hg.
    apply filter_In in Hg. destruct Hg as [Hg Eg]. apply String.eqb_eq in Eg.
    apply Hn. rewrite <- E, Eg. apply in_map. exact Hg. }
  rewrite Z. cbn. lia.
Qed.

Lemma vals_of_nonempty_key s fs : vals_of s fs <> [] -> In s (keys fs).
Proof.
  intros H. destruct (vals_of s fs) as [|ft l] eqn:E; [congruence|].
  assert (Hin : In ft (vals_of s fs)) by (rewrite E; left; reflexivity).
  apply In_vals_of in Hin. apply (in_map fst) in Hin. exact Hin.
Qed.

Lemma flat_map_length_all {A} (g : A -> list ty) (l : list A) :
  (forall x, In x l -> List.length (g x) <= 1) ->
  List.length (flat_map g l) = List.length l ->
  forall x, In x l -> g x <> [].
Proof.
  induction l as [|a r IH]; intros Hle Hlen x Hx; [destruct Hx|].
  cbn [flat_map List.length] in Hlen. rewrite app_length in Hlen.
  assert (Ha : List.length (g a) <= 1) by (apply Hle; left; reflexivity).
  assert (Hr : List.length (flat_map g r) <= List.length r).
  { clear -Hle. induction r as [|b r IH]; [cbn; lia|]. cbn [flat_map List.length]. rewrite app_length.
    assert (List.length (g b) <= 1) by (apply Hle; right; left; reflexivity).
    assert (List.length (flat_map g r) <= List.length r).
    { apply IH. intros y [Hy|Hy]; apply Hle; [left|right; right]; assumption. }
    lia. }
  destruct Hx as [->|Hx].
  - intros Z. rewrite Z in Hlen. cbn in Hlen. lia.
  - apply IH; auto. + intros y Hy. apply Hle. right. exact Hy. + lia.
Qed.

(* ---------- mapM ---------- *)
Lemma mapM_Forall2 {A B} (f : A -> option B) l l' :
  mapM f l = Some l' -> Forall2 (fun x y => f x = Some y) l l'.
Proof.
  revert l'. induction l as [|x r IH]; intros l' H; cbn [mapM] in H.
  - injection H as <-. constructor.
  - destruct (f x) eqn:E; [|discriminate H]. destruct (mapM f r) eqn:E2; [|discriminate H].
    injection H as <-. constructor; [exact E|apply IH; reflexivity].
Qed.
