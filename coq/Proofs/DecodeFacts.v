(* Proofs/DecodeFacts.v — the loop of cli.get_stub equals its filter/map specification (C10). *)
From Coq Require Import List Bool Arith NArith String Ascii Lia.
From MT Require Import Constants Decode.
Import ListNotations.
Open Scope list_scope.

Section Facts.
Variable subscript : string -> list dty -> option dty.
Variable build : list trace -> bres.
Variable applyf : string -> ares.

Notation to_trace := (to_trace subscript).
Notation decode_ty := (decode_ty subscript).
Notation decode_list := (decode_list subscript).
Notation decode_fields := (decode_fields subscript).
Notation decode_all := (decode_all subscript).
Notation failures := (failures subscript).
Notation decodable := (decodable subscript).
Notation no_other := (no_other subscript).
Notation loop := (loop subscript).
Notation run := (run subscript build applyf).
Notation finish := (finish build applyf).

(* ---- unfolding equations of the nested fixpoint ---- *)
Lemma decode_list_eq : forall w es,
  (fix dl (l : list ety) : result (list dty) :=
     match l with
     | [] => Ok []
     | e' :: r => bindr (decode_ty w e') (fun d => bindr (dl r) (fun ds => Ok (d :: ds)))
     end) es = decode_list w es.
Proof. induction es as [|e r IH]; simpl; [reflexivity|]. rewrite IH. reflexivity. Qed.

Lemma decode_fields_eq : forall w fs,
  (fix df (l : list (string * ety)) : result (list (string * dty)) :=
     match l with
     | [] => Ok []
     | (k, e') :: r => bindr (decode_ty w e') (fun d => bindr (df r) (fun ds => Ok ((k, d) :: ds)))
     end) fs = decode_fields w fs.
Proof. induction fs as [|[k e] r IH]; simpl; [reflexivity|]. rewrite IH. reflexivity. Qed.

Lemma decode_ty_ETy : forall w m q has es,
  decode_ty w (ETy m q has es) =
  bindr (resolve_head w m q) (fun h =>
    match h with
    | HType d => Ok d
    | HGeneric g => if has then bindr (decode_list w es) (subscript_r subscript g) else Ok (DGenBare g)
    end).
Proof. intros. cbn [Decode.decode_ty]. rewrite decode_list_eq. reflexivity. Qed.

Lemma decode_ty_ETd : forall w m q fs,
  decode_ty w (ETd m q fs) = bindr (decode_fields w fs) (fun ds => Ok (DTd q ds)).
Proof. intros. cbn [Decode.decode_ty]. rewrite decode_fields_eq. reflexivity. Qed.

(* ---- the loop ---- *)
Lemma decode_all_cons : forall w r rest,
  decode_all w (r :: rest) = (match to_trace w r with Ok t => [t] | _ => [] end) ++ decode_all w rest.
Proof. reflexivity. Qed.

Lemma failures_cons : forall w r rest,
  failures w (r :: rest) = (match to_trace w r with MTError e => [e] | _ => [] end) ++ failures w rest.
Proof. reflexivity. Qed.

Lemma loop_spec : forall w v rows T F E,
  Forall (no_other w) rows ->
  loop w v rows T F E =
  LoopDone (T ++ decode_all w rows) (F + List.length (failures w rows))
           (E ++ if v then map warn_line (failures w rows) else []).
Proof.
  intros w v rows. induction rows as [|r rest IH]; intros T F E H.
  - cbn. rewrite !app_nil_r, Nat.add_0_r. destruct v; rewrite ?app_nil_r; reflexivity.
  - inversion H as [|? ? Hr Hrest]; subst.
    cbn [Decode.loop]. rewrite decode_all_cons, failures_cons.
    destruct (to_trace w r) as [t|e|x] eqn:Et.
    + rewrite IH by assumption. cbn [app]. rewrite <- app_assoc. reflexivity.
    + rewrite IH by assumption. cbn [app List.length map].
      f_equal; [lia|]. destruct v; [rewrite <- app_assoc|]; reflexivity.
    + exfalso. exact (Hr x Et).
Qed.

Lemma loop_crash : forall w v pre r post x T F E,
  Forall (no_other w) pre -> to_trace w r = OtherError x ->
  loop w v (pre ++ r :: post) T F E =
  LoopCrash x (E ++ if v then map warn_line (failures w pre) else []).
Proof.
  intros w v pre. induction pre as [|p rest IH]; intros r post x T F E H Hx.
  - cbn. rewrite Hx. destruct v; rewrite app_nil_r; reflexivity.
  - inversion H as [|? ? Hp Hrest]; subst.
    cbn [app Decode.loop]. rewrite failures_cons.
    destruct (to_trace w p) as [t|e|y] eqn:Et.
    + rewrite (IH r post x) by assumption. reflexivity.
    + rewrite (IH r post x) by assumption. cbn [app map].
      destruct v; [rewrite <- app_assoc|]; reflexivity.
    + exfalso. exact (Hp y Et).
Qed.

Theorem run_spec : forall a w rows,
  Forall (no_other w) rows ->
  run a w rows = finish a (decode_all w rows) (report (a_verbose a) (failures w rows)).
Proof.
  intros a w rows H. unfold Decode.run. rewrite loop_spec by assumption.
  cbn [app Nat.add]. unfold report.
  destruct (a_verbose a); cbn [negb andb].
  - rewrite andb_false_r. reflexivity.
  - rewrite andb_true_r. destruct (failures w rows) as [|e es]; reflexivity.
Qed.

Theorem run_crash : forall a w pre r post x,
  Forall (no_other w) pre -> to_trace w r = OtherError x ->
  run a w (pre ++ r :: post) = Crash x (if a_verbose a then map warn_line (failures w pre) else []).
Proof.
  intros. unfold Decode.run. rewrite (loop_crash w (a_verbose a) pre r post x) by assumption. reflexivity.
Qed.

(* ---- the decodable rows alone ---- *)
Lemma decodable_no_other : forall w r, decodable w r = true -> no_other w r.
Proof. unfold Decode.decodable, Decode.no_other. intros w r H x E. rewrite E in H. discriminate. Qed.

Lemma filter_no_other : forall w rows, Forall (no_other w) (filter (decodable w) rows).
Proof.
  intros. apply Forall_forall. intros r Hin. apply filter_In in Hin. apply decodable_no_other. tauto.
Qed.

Lemma decode_all_filter : forall w rows, decode_all w (filter (decodable w) rows) = decode_all w rows.
Proof.
  intros w rows. induction rows as [|r rest IH]; [reflexivity|].
  cbn [filter]. rewrite (decode_all_cons w r rest). unfold Decode.decodable at 1.
  destruct (to_trace w r) as [t|e|x] eqn:Et.
  - rewrite decode_all_cons, Et. cbn [app]. f_equal. exact IH.
  - exact IH.
  - exact IH.
Qed.

Lemma failures_filter : forall w rows, failures w (filter (decodable w) rows) = [].
Proof.
  intros w rows. induction rows as [|r rest IH]; [reflexivity|].
  cbn [filter]. unfold Decode.decodable at 1.
  destruct (to_trace w r) as [t|e|x] eqn:Et; try exact IH.
  rewrite failures_cons, Et. exact IH.
Qed.

Lemma decode_all_length : forall w rows,
  List.length (decode_all w rows) = List.length (filter (decodable w) rows).
Proof.
  intros w rows. induction rows as [|r rest IH]; [reflexivity|].
  cbn [filter]. rewrite decode_all_cons. unfold Decode.decodable at 1.
  destruct (to_trace w r); cbn [app List.length]; rewrite ?IH; reflexivity.
Qed.

Lemma failures_length : forall w rows,
  Forall (no_other w) rows ->
  List.length (failures w rows) = List.length (filter (fun r => negb (decodable w r)) rows).
Proof.
  intros w rows H. induction H as [|r rest Hr Hrest IH]; [reflexivity|].
  cbn [filter]. rewrite failures_cons. unfold Decode.decodable at 1.
  destruct (to_trace w r) as [t|e|x] eqn:Et; cbn [negb app List.length]; rewrite ?IH; try reflexivity.
  exfalso. exact (Hr x Et).
Qed.

Lemma finish_prepend : forall a ts pre,
  finish a ts pre = prepend_err pre (finish a ts []).
Proof.
  intros a ts pre. unfold Decode.finish.
  destruct ts as [|t ts']; [reflexivity|].
  destruct (build (t :: ts')) as [s| |x]; cbn [app prepend_err].
  - destruct (a_sample_count a), (a_cmd a); cbn [app prepend_err]; try rewrite app_nil_r; try reflexivity;
      destruct (applyf s); cbn [app prepend_err]; rewrite ?app_nil_r, ?app_assoc; reflexivity.
  - destruct (a_sample_count a); cbn [app prepend_err]; rewrite ?app_nil_r, ?app_assoc; reflexivity.
  - rewrite app_nil_r. reflexivity.
Qed.

(* "The output equals what the decodable traces alone would produce" + the report on stderr *)
Theorem run_as_decodable_alone : forall a w rows,
  Forall (no_other w) rows ->
  run a w rows = prepend_err (report (a_verbose a) (failures w rows)) (run a w (filter (decodable w) rows))
  /\ run a w (filter (decodable w) rows) = finish a (decode_all w rows) [].
Proof.
  intros a w rows H.
  assert (E2 : run a w (filter (decodable w) rows) = finish a (decode_all w rows) []).
  { rewrite run_spec by apply filter_no_other.
    rewrite decode_all_filter, failures_filter. unfold report. destruct (a_verbose a); reflexivity. }
  split; [|exact E2].
  rewrite E2, run_spec by assumption. apply finish_prepend.
Qed.

Lemma complain_prefix : forall a, exists rest, complain a = ("No traces found" ++ rest)%string.
Proof.
  intros a. unfold complain.
  destruct (a_qualname a) as [[|c q]|].
  - destruct (a_path_exists a); eexists; cbn; reflexivity.
  - eexists; cbn; reflexivity.
  - destruct (a_path_exists a); eexists; cbn; reflexivity.
Qed.

Theorem nothing_decodable : forall a w rows,
  Forall (no_other w) rows -> filter (decodable w) rows = [] ->
  run a w rows = Exit [] (report (a_verbose a) (failures w rows) ++ [complain a]) 0.
Proof.
  intros a w rows H Hf. rewrite run_spec by assumption.
  assert (E : decode_all w rows = []).
  { apply length_zero_iff_nil. rewrite decode_all_length, Hf. reflexivity. }
  rewrite E. reflexivity.
Qed.

Theorem stub_exit_zero : forall a w rows,
  Forall (no_other w) rows -> a_cmd a = CStub -> (forall x, build (decode_all w rows) <> BRaises x) ->
  exists out err, run a w rows = Exit out err 0
    /\ (forall s, build (decode_all w rows) = BStub s -> decode_all w rows <> [] -> out = [s]).
Proof.
  intros a w rows H Hc Hb. rewrite run_spec by assumption. unfold Decode.finish.
  destruct (decode_all w rows) as [|t ts] eqn:Ed.
  - eexists; eexists; split; [reflexivity|]. intros s _ Hne. exfalso. apply Hne. reflexivity.
  - destruct (build (t :: ts)) as [s| |x] eqn:Eb.
    + rewrite Hc. eexists; eexists; split; [reflexivity|]. intros s' Hs _. inversion Hs. reflexivity.
    + eexists; eexists; split; [reflexivity|]. intros s' Hs. discriminate.
    + exfalso. exact (Hb x eq_refl).
Qed.

End Facts.

(* ---- update_signature_args looks only at the names that are parameters ---- *)
Section SigFacts.
Variable anno : Type.

Lemma upd_params_ext : forall st hs (a1 a2 : list (string * anno)) ps idx,
  (forall p, In p ps -> lookup anno (p_name anno p) a1 = lookup anno (p_name anno p) a2) ->
  upd_params anno st hs a1 idx ps = upd_params anno st hs a2 idx ps.
Proof.
  intros st hs a1 a2 ps. induction ps as [|p r IH]; intros idx H; [reflexivity|].
  cbn [upd_params]. f_equal.
  - unfold upd_param. rewrite (H p (or_introl eq_refl)). reflexivity.
  - apply IH. intros p' Hin. apply H. right. exact Hin.
Qed.

Lemma lookup_filter_known : forall (ps : list (param anno)) n ats,
  existsb (fun p => String.eqb n (p_name anno p)) ps = true ->
  lookup anno n (filter (known anno ps) ats) = lookup anno n ats.
Proof.
  intros ps n ats Hn. induction ats as [|[k v] r IH]; [reflexivity|].
  cbn [filter lookup]. unfold known at 1. cbn [fst].
  destruct (String.eqb n k) eqn:Ek.
  - apply String.eqb_eq in Ek. subst k. rewrite Hn. cbn [lookup]. rewrite String.eqb_refl. reflexivity.
  - destruct (existsb (fun p => String.eqb k (p_name anno p)) ps); [cbn [lookup]; rewrite Ek|]; exact IH.
Qed.

Theorem unknown_names_ignored : forall st hs (ats : list (string * anno)) ps,
  update_signature_args anno st hs ats ps =
  update_signature_args anno st hs (filter (known anno ps) ats) ps.
Proof.
  intros. unfold update_signature_args. apply upd_params_ext. intros p Hin.
  symmetry. apply lookup_filter_known. apply existsb_exists. exists p. split; [exact Hin|apply String.eqb_refl].
Qed.
End SigFacts.
