"""C11 — rendered annotations denote the inferred type and stubs are self-contained."""
import glob
import json
import os
import random
import re
import subprocess

from harness import common, render_fixture, render_gen

COQ_TARGETS = ["Check/RenderCases.vo"]
TRUSTED_BASE = [
    "harness/render_impl.py: the stub-namespace evaluator on the Python side (ast.parse of the real stub, one exec per "
    "imported name in an empty namespace, eval() of every annotation source segment, forward references resolved through "
    "the class stubs of the same text) and its reifier (fails closed: anything unrecognised is `None`)",
    "CPython 3.12 typing: repr() of typing objects, Union/Optional normalisation, ForwardRef equality, as modelled in "
    "Model/Render.v (repr_ty, ev) and Model/Types.v (union_mk)",
    "mypy_extensions.TypedDict taking __module__ from the calling frame (anonymous TypedDicts live in monkeytype.typing)",
    "Python's re: (?<![\\w.]) look-behind and leftmost, first-alternative matching as modelled by strip_mods "
    "(repaired FunctionStub.render, _proposed/C11-prefix-strip.diff)",
]
ASSUMPTIONS = [
    "fixture identifiers are ASCII; TypedDict field names and parameter names are identifiers (wf_case)",
    "source functions carry no annotations of their own and ExistingAnnotationStrategy.IGNORE is used (C13 covers the "
    "strategies); parameters are positional-or-keyword, functions are module level or plain methods (C12 covers kinds)",
    "class table: (module, qualname) identifies a class; builtins are the classes whose __module__ is 'builtins'",
]
PARTIAL = [
    "the text level is proved (render_parse_back, strip_is_tokenwise, render_resolves_text: stripping module prefixes from the "
    "rendered text equals printing with stripped class texts, and the text evaluates to the type) under the boolean side "
    "condition text_ok (lexically well-formed class names, no module prefix overlapping a name), which is evaluated per case by "
    "vm_compute; generated TypedDict classes are covered for the flat case only (td_stub_resolves_flat_partial)",
    "C11_full is false of today's code and of the repaired code: finding classes kf_same_root_name, kf_td_not_descended, "
    "kf_nonetype_in_name, kf_typing_in_name, kf_hint_collision, kf_td_field_names, kf_fwd_not_descended (Refuted/C11.v)",
]

HEADER = """From MT Require Import Common RenderCases.
Definition the_ct : ctable := %s.
"""

KF_BITS = [(1, "kf_same_root_name"), (2, "kf_td_not_descended"), (4, "kf_nonetype_in_name"), (8, "kf_typing_in_name"),
           (16, "kf_hint_collision"), (32, "kf_td_field_names"), (64, "kf_fwd_not_descended")]
BIT_PREFIX_OVERLAP, BIT_MODEL_PROP_OK, BIT_MODEL_DIFFERS = 128, 256, 512


# common.parse_bad's pattern misses pairs that Coq's printer wraps right after the opening parenthesis
PAIR_RE = re.compile(r"\(\s*(\d+)\s*,\s*(\d+)\s*\)")


def parse_pairs(outs):
    return [(si + int(m.group(1)), int(m.group(2))) for si, out in outs for m in PAIR_RE.finditer(out)]


HASH_SEEDS = [0, 1, 2, 3]


def run_impl(work, cases):
    fixture = os.path.join(work, "fixture")
    if not os.path.isdir(fixture):
        os.makedirs(fixture)
        render_fixture.write(fixture)
    cj = os.path.join(work, "cases.json")
    oj = os.path.join(work, "impl_out.json")
    with open(cj, "w") as f:
        json.dump(cases, f)
    # the implementation is run under several PYTHONHASHSEEDs at once; the first run is the one that is judged, the
    # others only contribute their stub texts: a stub whose text depends on the hash seed (set iteration order leaking
    # into the output) is reported to Coq as `rc_raised` (no one stub exists for this input)
    procs = []
    for hs in HASH_SEEDS:
        out = oj if hs == HASH_SEEDS[0] else os.path.join(work, f"impl_out_h{hs}.json")
        procs.append((hs, out, subprocess.Popen(
            [common.PY, os.path.join(common.VERIF, "harness", "render_impl.py"), fixture, cj, out],
            env=common.sub_env({"PYTHONHASHSEED": str(hs)}), stdout=subprocess.PIPE, stderr=subprocess.STDOUT, text=True,
            cwd=work)))
    outs = {}
    for hs, out, pr in procs:
        log, _ = pr.communicate(timeout=900)
        if pr.returncode != 0:
            raise RuntimeError(f"render_impl.py (PYTHONHASHSEED={hs}) failed:\n" + log[-3000:])
        outs[hs] = json.load(open(out))
    impl = outs[HASH_SEEDS[0]]
    for i, r in enumerate(impl["results"]):
        for hs in HASH_SEEDS[1:]:
            other = outs[hs]["results"][i]["text"]
            if other != r["text"] and not r["raised"]:
                r["raised"] = (f"generation under PYTHONHASHSEED={hs} differs from the one under PYTHONHASHSEED={HASH_SEEDS[0]}; "
                               f"it was: {other!r}")
        r["term"] = r["term"].replace("__RAISED__", common.coq_bool(r["raised"] is not None), 1)
    return impl


def show_ty(j):
    k = j[0]
    if k == "cls":
        m, q = render_fixture.POOL[j[1]]
        return q if m == "builtins" else f"{m}.{q}"
    if k in ("any", "callable"):
        return k.capitalize()
    if k == "alias":
        return render_fixture.alias_text(j[1])
    if k == "td":
        return "TD{%s|%s}" % (", ".join(f"{n}: {show_ty(t)}" for n, t in j[1]), ", ".join(f"{n}: {show_ty(t)}" for n, t in j[2]))
    name = {"list": "List", "set": "Set", "iter": "Iterator", "type": "Type", "dict": "Dict", "ddict": "DefaultDict",
            "tuple": "Tuple", "tuplevar": "TupleVar", "union": "Union", "gen": "Generator"}[k]
    subs = j[1] if k in ("tuple", "union") else j[1:]
    return f"{name}[{', '.join(show_ty(x) for x in subs)}]"


def show_case(c):
    fns = []
    for f in c["fns"]:
        parts = [f"{n}: {show_ty(t)}" for n, t in f["args"]]
        s = f"{f['key']}({', '.join(parts)})"
        if f["ret"] is not None:
            s += f" -> {show_ty(f['ret'])}"
        if f["yield"] is not None:
            s += f" yields {show_ty(f['yield'])}"
        fns.append(s)
    return f"target module {c['own']}: " + "; ".join(fns)


def kinds_of(j, acc):
    acc[j[0]] = acc.get(j[0], 0) + 1
    if j[0] == "alias":
        return
    if j[0] == "td":
        for _, t in j[1] + j[2]:
            kinds_of(t, acc)
    elif j[0] in ("tuple", "union"):
        for t in j[1]:
            kinds_of(t, acc)
    elif j[0] not in ("cls", "any", "callable"):
        for t in j[1:]:
            kinds_of(t, acc)


def nontrivial(c):
    acc, n_anno = {}, 0
    user = False
    for f in c["fns"]:
        for _, t in f["args"]:
            kinds_of(t, acc)
            n_anno += 1
        for t in (f["ret"], f["yield"]):
            if t is not None:
                kinds_of(t, acc)
                n_anno += 1
    def has_user(j):
        if j[0] == "alias":
            return True
        if j[0] == "cls":
            return render_fixture.POOL[j[1]][0] != "builtins"
        if j[0] == "td":
            return any(has_user(t) for _, t in j[1] + j[2])
        if j[0] in ("tuple", "union"):
            return any(has_user(t) for t in j[1])
        return any(has_user(t) for t in j[1:]) if j[0] not in ("any", "callable") else False
    for f in c["fns"]:
        for _, t in f["args"]:
            user = user or has_user(t)
        for t in (f["ret"], f["yield"]):
            if t is not None:
                user = user or has_user(t)
    return n_anno >= 2 and (user or acc.get("td", 0) > 0), acc


def corpus_cases():
    out = []
    for p in sorted(glob.glob(os.path.join(common.VERIF, "corpus", "C11", "*.json"))):
        c = json.load(open(p))["case"]
        c["label"] = "corpus:" + os.path.basename(p)
        out.append(c)
    return out


def check_cases(ctx, cases, tag="c11"):
    """-> (impl results, {index: verdict code}, {index: classification bits})"""
    impl = run_impl(ctx.work, cases)
    header = HEADER % impl["ct"]
    terms = [r["term"] for r in impl["results"]]
    outs = common.run_coq_shards(ctx.work, tag, header, terms, "rcase", "bad verdict 0 cases", shard_size=40)
    bad = dict(parse_pairs(outs))
    idx = sorted(bad)
    cls = {}
    if idx:
        outs2 = common.run_coq_shards(ctx.work, tag + "_cls", header, [terms[i] for i in idx], "rcase",
                                      "bad classify 0 cases", shard_size=40)
        for j, bits in parse_pairs(outs2):
            cls[idx[j]] = bits
    return impl, bad, cls


def explain(case, res, bits):
    failing = [f"{k}.{s}: `{src}` -> {'unresolved' if t is None else 'a different type'}"
               for k, s, src, t in res["annos"] if t is None]
    extra = ""
    if res["raised"]:
        extra = (f" not repeatable: {res['raised']};" if res["raised"].startswith("generation")
                 else f" raised {res['raised']}")
    if res.get("parse_error"):
        extra += " " + res["parse_error"]
    if not res["imports_ok"]:
        extra += " an import line of the stub fails"
    if not failing and not extra:
        extra = " every name resolves, but an annotation evaluates to a different type than the traced one (shadowed name or wrong annotation)"
    return (f"stub of [{show_case(case)}] is not self-contained / does not denote the traced types:{extra} "
            + "; ".join(failing[:4]))[:900]


def run(ctx):
    rnd = random.Random(ctx.seed + 11)
    n = 300 if ctx.tier == "quick" else 6000
    cases = corpus_cases() + render_gen.generate(rnd, n)
    impl, bad, cls = check_cases(ctx, cases)
    failures, mismatches = [], []
    dist = {"labels": {}, "verdicts": {0: 0, 1: 0, 2: 0, 3: 0}, "classes_of_failing": {}, "kinds": {}, "targets": {},
            "annotations": 0, "stub_lines": 0, "wrapped_signatures": 0, "class_stubs": 0}
    distinct = set()
    for i, (c, r) in enumerate(zip(cases, impl["results"])):
        lab = c["label"].split(":")[0]
        dist["labels"][lab] = dist["labels"].get(lab, 0) + 1
        dist["targets"][c["own"]] = dist["targets"].get(c["own"], 0) + 1
        code = bad.get(i, 0)
        dist["verdicts"][code] = dist["verdicts"].get(code, 0) + 1
        nt, kinds = nontrivial(c)
        for k, v in kinds.items():
            dist["kinds"][k] = dist["kinds"].get(k, 0) + v
        dist["annotations"] += len(r["annos"])
        dist["stub_lines"] += r["text"].count("\n") + 1
        dist["wrapped_signatures"] += r["text"].count("(\n")
        dist["class_stubs"] += r["text"].count("TypedDict__RENAME_ME__") and r["text"].count("\nclass ") + r["text"].startswith("class ")
        if nt:
            distinct.add(common.digest(json.dumps([c["own"], c["fns"]], sort_keys=True)))
        if code == 0:
            continue
        bits = cls.get(i, 0)
        rec = {"case": {k: c[k] for k in ("own", "fns", "label", "history") if k in c}, "input": show_case(c), "impl_text": r["text"],
               "impl_annotations": r["annos"], "raised": r["raised"], "imports_ok": r["imports_ok"],
               "classification_bits": bits, "verdict": code}
        names = [name for b, name in KF_BITS if bits & b]
        if bits & BIT_PREFIX_OVERLAP:
            names.append("prefix_overlap(old != repaired stripping)")
        rec["classes"] = names
        for nme in names:
            dist["classes_of_failing"][nme] = dist["classes_of_failing"].get(nme, 0) + 1
        if code == 2:
            rec["what"] = explain(c, r, bits)
            # a finding is attributed only when the model reproduces the implementation exactly on this case (text,
            # annotation texts, evaluation), the model's own output fails the property too, and the input lies in the class
            explained = not (bits & BIT_MODEL_DIFFERS) and not (bits & BIT_MODEL_PROP_OK)
            kf = [name for b, name in KF_BITS if bits & b]
            if explained and kf:
                rec["finding"] = kf[0]
                rec["what"] = f"[{kf[0]}] " + rec["what"]
            elif bits & BIT_MODEL_DIFFERS:
                rec["what"] += " (the model of the repaired renderer produces a different stub for this input" + \
                               (": today's sequential str.replace of module prefixes corrupts a name)" if bits & BIT_PREFIX_OVERLAP else ")")
            failures.append(rec)
        elif code == 1:
            rec["what"] = "model and implementation differ (stub text, annotation text or evaluation): " + show_case(c)
            mismatches.append(rec)
        else:
            rec["what"] = "malformed case (harness bug): " + show_case(c)
            mismatches.append(rec)
    # failures first that have no finding (they become VIOLATION lines), then one per finding class
    failures.sort(key=lambda f: (f.get("finding") is not None, len(json.dumps(f["case"]))))
    samples = [{"input": show_case(c), "impl_text": r["text"], "annotations": r["annos"]}
               for c, r in list(zip(cases, impl["results"]))[:3]]
    return {
        "evaluations": len(cases), "distinct_nontrivial": len(distinct),
        "rule": "corpus + directed block (module names that are dotted/textual suffixes of one another, nested classes, class "
                "named like its module, _io, every generic kind, TypedDicts at every container position, the finding shapes) + "
                "seeded random modules of 1-3 functions/methods over the fixture package (70% clean, 30% wild); each case runs "
                "the real from_callable_and_traced_types + build_module_stubs + ModuleStub.render, the stub is evaluated in its "
                "own namespace; non-trivial = at least two annotations and a user class or TypedDict; distinct by hash of the input",
        "samples": samples, "distribution": dist, "failures": failures, "mismatches": mismatches,
        "relation": "render_module = ModuleStub.render() byte for byte; eval_anno (model) = eval() (Python) per annotation; "
                    "corrb expected evaluated",
    }


def replay(ctx, payload):
    c = payload.get("case") or payload.get("replay", {}).get("case")
    if c is None:
        print("no case in replay file")
        return 2
    c.setdefault("label", "replay")
    impl = run_impl(ctx.work, [c])
    r = impl["results"][0]
    header = HEADER % impl["ct"]
    path = os.path.join(ctx.work, "replay.v")
    with open(path, "w") as f:
        f.write(header)
        f.write(f"Definition c : rcase := {r['term']}.\n")
        f.write("Eval vm_compute in (verdict c, classify c).\n")
        f.write("Eval vm_compute in (render_module (rc_ct c) (rc_own c) (rc_fds c)).\n")
        f.write("Eval vm_compute in (model_annos c).\n")
    rc, out = common.run_coqc(path)
    print("input:", show_case(c))
    print("--- implementation stub ---")
    print(r["text"])
    print("--- implementation annotations (key, slot, source, evaluated) ---")
    for a in r["annos"]:
        print("  ", a)
    print("imports_ok:", r["imports_ok"], "raised:", r["raised"])
    print("--- Coq: (verdict, classification bits), model stub, model annotations ---")
    print(out)
    return 0 if rc == 0 else 2


CLAIM = {'note': 'Trusted: Coq kernel + vm_compute; the Python-side stub evaluator and reifier (render_impl.py); CPython '
         'typing repr/Union semantics as modelled. Text level is tied by a per-case boolean premise, not by the '
         'unproved replace_tokenwise lemma.',
 'ref': '4/C11',
 'technique': 'Coq proof by structural induction on types (token level) + vm_compute differential correspondence of '
              'a text-level model with the real renderer and of a Coq annotation evaluator with Python eval()',
 'text': 'Partial. Coq text-level model of the renderer (Model/Render.v, byte-exact against the real stub text) and '
         'theorems: render_resolves_tok / _repr (token level, all TypedDict-free types), imports_cover_names, '
         'render_parse_back (the tokenizer and parser invert the printer), strip_is_tokenwise (the repaired '
         'single-pass module-prefix stripping acts word by word: stripping the text = printing from the class table '
         'with stripped names), render_resolves_text (the text level WITHOUT a per-case premise, under the checkable '
         'condition text_ok), td_stub_resolves_flat_partial (generated class stubs of flat TypedDicts resolve to a '
         'corrb-equal type); C11_full and td_stub_resolves_full are kept as Definitions (C11_full is refuted inside '
         'seven recorded finding classes). Tie: real AttributeStub/FunctionStub/ModuleStub.render on a fixture '
         "package with overlapping module names; every annotation evaluated in the stub's own namespace; model text "
         'compared byte for byte.'}
