(* Proofs/SigUpdateSpec.v — C13: (1) corrb is reflexive on well-formed types, (2) the executable property
   predicate spec_sig used by the correspondence check holds of the model for every signature,
   (3) shrink_traced_types' notion of "traced" is exactly "some trace mentions the position". *)
From MT Require Import Types Infer TypesFacts Constants SigUpdate SigUpdateFacts.
Local Open Scope list_scope.

Lemma corrb_TTuple xs ys : corrb (TTuple xs) (TTuple ys) = forallb2 corrb xs ys.
Proof. cbn [corrb]. revert ys. induction xs as [|x r IH]; intros [|y ys]; try reflexivity.
  cbn [forallb2]. rewrite <- IH. reflexivity. Qed.

Fixpoint rm_corr (x : ty) (ys : list ty) : option (list ty) :=
  match ys with [] => None | y :: r => if corrb x y then Some r else option_map (cons y) (rm_corr x r) end.
Fixpoint perm_corr (xs ys : list ty) : bool :=
  match xs with
  | [] => match ys with [] => true | _ => false end
  | x :: xs' => match rm_corr x ys with Some ys' => perm_corr xs' ys' | None => false end
  end.
Lemma corrb_TUnion xs ys : corrb (TUnion xs) (TUnion ys) = perm_corr xs ys.
Proof. cbn [corrb]. revert ys. induction xs as [|x r IH]; intros ys; [reflexivity|].
  cbn [perm_corr].
  assert (E : forall l, (fix rm (ys0 : list ty) : option (list ty) :=
            match ys0 with [] => None | y :: r0 => if corrb x y then Some r0 else option_map (cons y) (rm r0) end) l
          = rm_corr x l).
  { induction l as [|y l IHl]; [reflexivity|]. cbn [rm_corr]. rewrite IHl. reflexivity. }
  rewrite E. destruct (rm_corr x ys); [apply IH|reflexivity]. Qed.

Definition fsubC (xs ys : list (string * ty)) : bool :=
  forallb (fun f => match lookup_f (fst f) ys with Some y => corrb (snd f) y | None => false end) xs.
Lemma corrb_TTypedDict r o r' o' :
  corrb (TTypedDict r o) (TTypedDict r' o') =
  Nat.eqb (List.length r) (List.length r') && fsubC r r' && Nat.eqb (List.length o) (List.length o') && fsubC o o'.
Proof.
  cbn [corrb].
  assert (E : forall ys xs, (fix fsub (xs ys : list (string * ty)) {struct xs} : bool :=
      match xs with [] => true
      | f :: xs' => match lookup_f (fst f) ys with Some y => corrb (snd f) y | None => false end && fsub xs' ys end) xs ys
      = fsubC xs ys).
  { intros ys. induction xs as [|f xs IH]; [reflexivity|]. unfold fsubC. cbn [forallb]. rewrite IH. reflexivity. }
  rewrite !E. reflexivity.
Qed.

Lemma corrb_refl t : wf_ty t -> corrb t t = true.
Proof.
  induction t as [|c|x IH| |x IH|x IH|x IH|k v IHk IHv|k v IHk IHv|ts IH|x IH|a b c IHa IHb IHc|ts IH|r o IHr IHo|s] using ty_ind'; intros W;
    try (cbn [corrb]; auto; fail).
  - cbn [corrb]. apply N.eqb_refl.
  - cbn [corrb]. destruct W. rewrite IHk, IHv by assumption. reflexivity.
  - cbn [corrb]. destruct W. rewrite IHk, IHv by assumption. reflexivity.
  - rewrite corrb_TTuple. apply wf_TTuple in W. induction IH as [|x l Hx Hl IHl]; [reflexivity|].
    inversion W; subst. cbn [forallb2]. rewrite Hx by assumption. apply IHl. assumption.
  - cbn [corrb]. destruct W as [? [? ?]]. rewrite IHa, IHb, IHc by assumption. reflexivity.
  - rewrite corrb_TUnion. apply wf_TUnion in W. induction IH as [|x l Hx Hl IHl]; [reflexivity|].
    inversion W; subst. cbn [perm_corr rm_corr]. rewrite Hx by assumption. apply IHl. assumption.
  - rewrite corrb_TTypedDict. apply wf_TTypedDict in W. destruct W as [ND [Wr Wo]].
    rewrite !Nat.eqb_refl. cbn [andb].
    assert (F : forall l, NoDup (map fst l) -> Forall (fun f => wf_ty (snd f) -> corrb (snd f) (snd f) = true) l ->
                Forall (fun f => wf_ty (snd f)) l -> fsubC l l = true).
    { intros l N H Wl. unfold fsubC. apply forallb_forall. intros f Hf.
      rewrite (lookup_f_NoDup (fst f) (snd f) l N) by (destruct f; exact Hf).
      rewrite Forall_forall in H, Wl. apply H; [exact Hf|apply Wl; exact Hf]. }
    rewrite (F r (NoDup_app_l _ _ ND) IHr Wr), (F o (NoDup_app_r _ _ ND) IHo Wo). reflexivity.
  - cbn [corrb]. apply String.eqb_refl.
Qed.

(* ---------- well-formedness (TypedDict field names distinct: a Python dict invariant) ---------- *)
Definition wf_anno (a : anno) : Prop := match a with ATy t => wf_ty t | _ => True end.
Definition wf_oanno (o : option anno) : Prop := match o with Some a => wf_anno a | None => True end.
Definition wf_oty (o : option ty) : Prop := match o with Some t => wf_ty t | None => True end.
Definition wf_sig (sg : sig) : Prop := Forall (fun p => wf_oanno (panno p)) (sparams sg) /\ wf_oanno (sret sg).
Definition wf_traced (tr : traced) : Prop :=
  Forall (fun e => wf_ty (snd e)) (targs tr) /\ wf_oty (tret tr) /\ wf_oty (tyield tr).

Lemma anno_corrb_refl a : wf_anno a -> anno_corrb a a = true.
Proof. destruct a; cbn; intros W; [apply corrb_refl; exact W| | |]; apply String.eqb_refl. Qed.
Lemma oanno_corrb_refl o : wf_oanno o -> oanno_corrb o o = true.
Proof. destruct o; cbn; [apply anno_corrb_refl|reflexivity]. Qed.

Lemma wf_lookup n args : Forall (fun e => wf_ty (snd e)) args -> wf_oty (lookup_f n args).
Proof.
  intros H. destruct (lookup_f n args) as [t|] eqn:E; [|exact I]. cbn.
  apply lookup_f_In in E. rewrite Forall_forall in H. apply (H _ E).
Qed.

Lemma wf_traced_return rt yt : wf_oty rt -> wf_oty yt -> wf_oty (traced_return rt yt).
Proof.
  destruct yt as [y|], rt as [r|]; cbn; intros Wr Wy; auto.
  destruct (is_none_ty r); cbn; auto.
Qed.

Lemma allowed_upd_param s b typ p :
  known_strat s = true -> wf_oanno (panno p) -> wf_oty typ ->
  allowed s b (panno p) typ (panno (upd_param s b typ p)) = true.
Proof.
  intros K Wp Wt. rewrite upd_param_anno. unfold allowed, allowed_b, annotated.
  assert (Rp := oanno_corrb_refl _ Wp).
  assert (Rt : oanno_corrb (option_map ATy typ) (option_map ATy typ) = true).
  { destruct typ; cbn; [apply corrb_refl; exact Wt|reflexivity]. }
  destruct b; cbn [negb andb].
  - destruct (panno p), (is_strat "OMIT" s); cbn [andb]; try reflexivity; exact Rp.
  - unfold known_strat in K.
    destruct (is_strat "REPLICATE" s) eqn:ER.
    + destruct (strat_replicate s ER) as [-> ->]. cbn [orb andb]. destruct (panno p); cbn [negb]; assumption.
    + destruct (is_strat "OMIT" s) eqn:EO.
      * destruct (strat_omit s EO) as [_ ->]. cbn [orb]. destruct (panno p); cbn [negb andb]; [reflexivity|assumption].
      * destruct (is_strat "IGNORE" s) eqn:EI; [|discriminate K]. cbn [orb].
        destruct typ as [t|]; cbn [option_map]; [exact Rt|reflexivity].
Qed.

Lemma spec_params_upd s hs args : known_strat s = true -> Forall (fun e => wf_ty (snd e)) args ->
  forall ps idx, Forall (fun p => wf_oanno (panno p)) ps ->
  spec_params s hs args idx ps (upd_params s hs args idx ps) = true.
Proof.
  intros K Wa. induction ps as [|p r IH]; intros idx W; [reflexivity|].
  inversion W as [|? ? Wp Wr]; subst. unfold spec_params in *. cbn [upd_params spec_params_with].
  rewrite upd_param_name, upd_param_kind, upd_param_def, String.eqb_refl.
  rewrite (allowed_upd_param s _ _ p K Wp (wf_lookup _ _ Wa)), (IH _ Wr).
  destruct (pk p), (pdef p); reflexivity.
Qed.

Lemma allowed_upd_return s src rt yt :
  known_strat s = true -> wf_oanno src -> wf_oty rt -> wf_oty yt ->
  allowed s false src (traced_return rt yt) (upd_return s src rt yt) = true.
Proof.
  intros K Ws Wr Wy. pose proof (wf_traced_return rt yt Wr Wy) as Wt.
  assert (Rs := oanno_corrb_refl _ Ws).
  unfold allowed, allowed_b, upd_return, known_strat in *.
  destruct (traced_return rt yt) as [t|]; cbn in Wt.
  - assert (Rt : oanno_corrb (Some (ATy t)) (Some (ATy t)) = true) by (cbn; apply corrb_refl; exact Wt).
    destruct (is_strat "REPLICATE" s) eqn:ER.
    + destruct (strat_replicate s ER) as [-> _]. destruct src; assumption.
    + destruct (is_strat "OMIT" s) eqn:EO.
      * destruct src; [reflexivity|assumption].
      * destruct (is_strat "IGNORE" s); [|discriminate K]. destruct src; assumption.
  - destruct (is_strat "REPLICATE" s) eqn:ER.
    + destruct (strat_replicate s ER) as [-> _]. destruct src; assumption.
    + destruct (is_strat "OMIT" s) eqn:EO.
      * destruct src; reflexivity.
      * destruct (is_strat "IGNORE" s); [|discriminate K]. destruct src; cbn; [|reflexivity].
        cbn in Rs. rewrite Rs. reflexivity.
Qed.

(* the predicate the correspondence check evaluates on /repo's output is satisfied by the model's
   output for every declared strategy, every kind, every signature, every traced table *)
Lemma update_meets_spec s kind sg tr :
  known_strat s = true -> wf_sig sg -> wf_traced tr ->
  spec_sig s kind sg tr (update_sig s kind sg tr) = true.
Proof.
  intros K [Wp Wr] [Wa [Wrt Wy]]. unfold spec_sig, spec_sig_with, update_sig. cbn [sparams sret].
  fold (spec_params s). rewrite (spec_params_upd s _ _ K Wa _ 0 Wp), (allowed_upd_return s _ _ _ K Wr Wrt Wy). reflexivity.
Qed.

(* ---------- which positions are traced ---------- *)
Lemma in_add_name n m seen : In n (add_name m seen) <-> n = m \/ In n seen.
Proof.
  induction seen as [|x r IH]; cbn [add_name].
  - cbn. intuition.
  - destruct (String.eqb m x) eqn:E.
    + apply String.eqb_eq in E. subst x. cbn. intuition.
    + cbn. rewrite IH. intuition.
Qed.

Lemma in_fold_names n (l : list (string * ty)) : forall acc,
  In n (fold_left (fun a e => add_name (fst e) a) l acc) <-> In n (map fst l) \/ In n acc.
Proof.
  induction l as [|e l IH]; intros acc; cbn [fold_left map].
  - cbn. intuition.
  - rewrite IH, in_add_name. cbn. intuition.
Qed.

Lemma in_trace_names_acc n : forall trs acc,
  In n (fold_left (fun acc t => fold_left (fun a e => add_name (fst e) a) (cargs t) acc) trs acc)
  <-> (exists t, In t trs /\ In n (map fst (cargs t))) \/ In n acc.
Proof.
  induction trs as [|t trs IH]; intros acc; cbn [fold_left].
  - split; [intros H; right; exact H|]. intros [[t [[] _]]|H]; exact H.
  - rewrite IH, in_fold_names. split.
    + intros [[t' [Ht Hn]]|[H|H]].
      * left. exists t'. split; [right; exact Ht|exact Hn].
      * left. exists t. split; [left; reflexivity|exact H].
      * right. exact H.
    + intros [[t' [[<-|Ht] Hn]]|H].
      * right. left. exact Hn.
      * left. exists t'. split; assumption.
      * right. right. exact H.
Qed.

Lemma arg_traced_spec n trs :
  arg_traced n trs = true <-> exists t, In t trs /\ In n (map fst (cargs t)).
Proof.
  unfold arg_traced. rewrite existsb_exists. split; intros [t [Ht H]]; exists t; split; try exact Ht.
  - destruct (lookup_f n (cargs t)) eqn:E; [|discriminate H]. eapply lookup_f_Some_key. exact E.
  - destruct (lookup_f n (cargs t)) eqn:E; [reflexivity|]. apply lookup_f_None in E. contradiction.
Qed.

Lemma in_trace_names n trs : In n (trace_names trs) <-> arg_traced n trs = true.
Proof.
  unfold trace_names. rewrite in_trace_names_acc, arg_traced_spec. split; [|intros H; left; exact H].
  intros [H|[]]. exact H.
Qed.

Lemma mapM_pair_keys {A} (f : string -> option A) : forall names l,
  mapM (fun n => option_map (pair n) (f n)) names = Some l -> map fst l = names.
Proof.
  induction names as [|n r IH]; intros l H; cbn [mapM] in H.
  - injection H as <-. reflexivity.
  - destruct (f n) as [x|]; cbn [option_map] in H; [|discriminate H].
    destruct (mapM _ r) as [ys|] eqn:E; [|discriminate H]. injection H as <-. cbn [map fst]. rewrite (IH _ eq_refl). reflexivity.
Qed.

Lemma merge_opt_presence k ts r : merge_opt k ts = Some r -> isSome r = negb (match ts with [] => true | _ => false end).
Proof.
  unfold merge_opt. destruct ts; [intros H; injection H as <-; reflexivity|].
  destruct (merge_set k (t :: ts)); cbn; [intros H; injection H as <-; reflexivity|discriminate].
Qed.

Lemma types_of_nil {A} (proj : trace -> option A) trs :
  (match flat_map (fun t => match proj t with Some x => [x] | None => [] end) trs with [] => true | _ => false end)
  = negb (existsb (fun t => match proj t with Some _ => true | None => false end) trs).
Proof.
  induction trs as [|t r IH]; [reflexivity|]. cbn [flat_map existsb].
  destruct (proj t); [reflexivity|]. cbn [app orb]. exact IH.
Qed.

(* a position counts as traced exactly when some trace mentions it; nothing else is in the table *)
Lemma collect_presence k trs tr : collect k trs = Some tr ->
  (forall n, isSome (lookup_f n (targs tr)) = arg_traced n trs)
  /\ isSome (tret tr) = ret_traced trs /\ isSome (tyield tr) = yield_traced trs.
Proof.
  unfold collect. destruct (mapM _ (trace_names trs)) as [a|] eqn:EA; [|discriminate].
  destruct (merge_opt k (types_of_ret trs)) as [r|] eqn:ER; [|discriminate].
  destruct (merge_opt k (types_of_yield trs)) as [y|] eqn:EY; [|discriminate].
  intros H. injection H as <-. cbn [targs tret tyield].
  apply mapM_pair_keys in EA. split; [|split].
  - intros n. destruct (lookup_f n a) eqn:L; cbn [isSome]; symmetry.
    + apply lookup_f_Some_key in L. rewrite EA in L. apply in_trace_names. exact L.
    + apply lookup_f_None in L. rewrite EA in L. destruct (arg_traced n trs) eqn:T; [|reflexivity].
      apply in_trace_names in T. contradiction.
  - rewrite (merge_opt_presence _ _ _ ER). unfold types_of_ret, ret_traced.
    rewrite (types_of_nil cret). apply negb_involutive.
  - rewrite (merge_opt_presence _ _ _ EY). unfold types_of_yield, yield_traced.
    rewrite (types_of_nil cyield). apply negb_involutive.
Qed.
