"""C15 — `apply` only adds annotations and imports; the program is otherwise untouched."""
import ast
import os
import random
import sys

from harness import common, apply_abs, apply_gen

COQ_TARGETS = ["Check/ApplyCases.vo"]
TRUSTED_BASE = [
    "libcst 1.9.0 ApplyTypeAnnotationsVisitor / AddImportsVisitor / GatherImportsVisitor: modelled in Model/Apply.v, not verified",
    "abstraction function Python ast -> Model/Apply.v `stmt` trees (harness/apply_abs.py), ast.unparse for opaque tokens",
    "concrete syntax (whitespace, comment placement) is outside the model; checked only by ast.parse + comment-sequence equality",
]
ASSUMPTIONS = [
    "the model covers the fragment where libcst does not qualify names (Model/Apply.v in_fragment); outside it only the "
    "property predicates are evaluated on the real output",
    "confinement (--pep_563) is not modelled here (C16); with confinement on only the property predicates are evaluated",
    "stubs are the renderings of monkeytype.stubs.build_module_stubs_from_traces (from-imports only, classes at top level)",
]
PARTIAL = [
    "idempotence of the whole of apply is proved under the boolean side conditions idem_side and reimport_safe "
    "(apply_idempotent_partial2, _closed); the unconditional C15_full is refuted in Refuted/C15.v with two re-application "
    "defects of libcst; on every case the second application is also compared textually",
    "libcst itself and concrete syntax are modelled / tested, not verified",
]

HEADER = "From MT Require Import ApplyCases.\nImport ListNotations.\nOpen Scope list_scope.\n"

FLAG_NAMES = [(1, "star"), (2, "dotted"), (4, "complete_other"), (8, "erase"), (16, "respects"), (32, "parse_or_comments"),
              (64, "idempotence"), (128, "raised"), (256, "outside_model"), (512, "model_mismatch"), (1024, "stub_unfit")]

FINDING_TEXT = {
    "kf_star_param": "stub annotation of a *args / **kwargs parameter is never applied (libcst _update_parameters ignores star_arg/star_kwarg)",
    "kf_dotted_name": "a dotted name A.B in a stub annotation of a positional-or-keyword parameter or return is rewritten to B "
                      "and `from <A> import B` is added (libcst _TypeCollectorDequalifier.leave_Attribute)",
    "kf_nested_class_stub": "stub for a method of a nested class renders `class Outer.Inner:`; apply fails with HandlerError",
    "kf_confine_reimports": "with --pep_563 and --ignore-existing-annotations a second application re-adds at module level the imports "
                            "the first one confined under `if TYPE_CHECKING:` (AddImportsVisitor only sees top-of-module imports)",
    "kf_confine_drops_source_import": "with --pep_563 a source import item is deleted / moved (C16's defects seen through C15's erase invariant)",
}


def real_apply(stub, src, ow, conf):
    from monkeytype.cli import apply_stub_using_libcst, HandlerError
    try:
        return apply_stub_using_libcst(stub, src, ow, conf), None
    except HandlerError as e:
        return None, str(e)[:300]


def top_items(text):
    out = []
    for st in ast.parse(text).body:
        if isinstance(st, (ast.Import, ast.ImportFrom)):
            out += apply_abs.stmt(st)
    return out


def all_items(text):
    out = []
    for st in ast.walk(ast.parse(text)):
        if isinstance(st, (ast.Import, ast.ImportFrom)):
            out += apply_abs.stmt(st)
    return out


def item_tuples(text):
    """(module, object | None, alias | None) of every imported name anywhere in the text"""
    out = []
    for st in ast.walk(ast.parse(text)):
        if isinstance(st, ast.Import):
            out += [(a.name, None, a.asname) for a in st.names]
        elif isinstance(st, ast.ImportFrom):
            out += [("." * (st.level or 0) + (st.module or ""), a.name, a.asname) for a in st.names]
    return out


CLI_SRC = '''"""C15 end-to-end fixture: the real `monkeytype apply` command."""
import typing
from SHAPES import Square


def page(items: typing.Sequence[int], start: int = None, size=10):
    # existing annotations whose canonical rendering differs from their source text
    return list(items)[start or 0:size]


def label(x, prefix: "str" = "p"):
    return prefix + str(x)


class Box:
    def put(self, thing, count: int = None):
        return thing


SIDE = Square()  # module level code
'''

CLI_CFG = '''from monkeytype.config import DefaultConfig
from monkeytype.db.sqlite import SQLiteStore


class Cfg(DefaultConfig):
    def __init__(self, k):
        self.k = k

    def trace_store(self):
        return SQLiteStore.make_store(DB)

    def max_typed_dict_size(self):
        return self.k


CONFIG0 = Cfg(0)
CONFIG3 = Cfg(3)
'''


def cli_case(work, shapes, modname, ign, pep, k):
    """One end-to-end run of the real CLI: traces in a SQLite store, `monkeytype stub` for the stub text,
    `monkeytype apply` twice on the module file.  The case says what the FLAGS asked for (overwrite iff
    --ignore-existing-annotations, confinement iff --pep_563); the observation is the file `apply` wrote."""
    import io
    import typing
    from monkeytype import cli
    from monkeytype.tracing import CallTrace
    from monkeytype.typing import get_type
    if work not in sys.path:
        sys.path.insert(0, work)
    src = CLI_SRC.replace("SHAPES", shapes)
    path = os.path.join(work, modname + ".py")
    with open(path, "w") as f:
        f.write(src)
    cfgname = modname + "_cfg"
    with open(os.path.join(work, cfgname + ".py"), "w") as f:
        f.write(CLI_CFG.replace("DB", repr(os.path.join(work, modname + ".sqlite3"))))
    mod = apply_gen.load(work, modname)
    sh = apply_gen.load(work, shapes)
    cfg = apply_gen.load(work, cfgname)
    NoneT = type(None)
    traces = [
        CallTrace(mod.page, {"items": typing.List[int], "start": NoneT, "size": int}, typing.List[int]),
        CallTrace(mod.page, {"items": typing.List[int], "start": int, "size": int}, typing.List[int]),
        CallTrace(mod.label, {"x": int, "prefix": str}, str),
        CallTrace(mod.Box.put, {"self": mod.Box, "thing": sh.Circle, "count": int}, sh.Circle),
        CallTrace(mod.Box.put, {"self": mod.Box, "thing": get_type({"a": 1, "b": "x"}, k), "count": NoneT}, sh.Circle),
    ]
    getattr(cfg, f"CONFIG{k}").trace_store().add(traces)
    flags = (["--ignore-existing-annotations"] if ign else []) + (["--pep_563"] if pep else [])
    meta = f"cli: monkeytype apply {' '.join(flags)} (max_typed_dict_size={k})"

    def run(argv):
        so, se = io.StringIO(), io.StringIO()
        try:
            rc = cli.main(["-c", f"{cfgname}:CONFIG{k}"] + argv, so, se)
        except BaseException as e:     # a traceback out of the command line tool
            return 2, "", f"{type(e).__name__}: {e}"
        return rc, so.getvalue(), se.getvalue()
    # the stub text `apply` really used (two get_stub calls may order union members differently): observed at the call
    seen = []
    orig = cli.apply_stub_using_libcst

    def recorder(*a, **kw):
        seen.append(kw["stub"] if "stub" in kw else a[0])
        return orig(*a, **kw)
    cli.apply_stub_using_libcst = recorder
    try:
        rc, _, err = run(["apply", modname] + flags)
        out = open(path).read()
        if rc != 0 or not seen:
            return make_case("<monkeytype apply failed>", src, ign, pep, meta, True,
                             {"out": None, "err": f"monkeytype apply: rc={rc} {err[:300]}", "second": None})
        stub = seen[0].rstrip("\n") + "\n"
        rc2, _, err2 = run(["apply", modname] + flags)
    finally:
        cli.apply_stub_using_libcst = orig
    second = open(path).read() if rc2 == 0 else f"second apply failed: {err2[:200]}"
    return make_case(stub, src, ign, pep, meta, True, {"out": out, "err": None, "second": second})


def _mk(t):
    if t[0] == "CLI":
        return cli_case(*t[1:])
    return make_case(*t)


def make_cases(todo):
    """Real runs in a fork pool (libcst needs ~0.25 s per application, nearly all of it visitor set-up)."""
    import multiprocessing
    if len(todo) < 4:
        return [_mk(t) for t in todo]
    with multiprocessing.get_context("fork").Pool(max(2, min(12, common.NCPU - 2))) as pool:
        return pool.map(_mk, todo, chunksize=4)


def make_case(stub, src, ow, conf, meta, gen=False, pre=None):
    """Run the real code on one input and reify input and observation.  `pre` carries an observation already made
    (the CLI stream; a stub the real machinery failed to build): {"out", "err", "second"}."""
    if pre is not None:
        out, err = pre["out"], pre["err"]
    else:
        out, err = real_apply(stub, src, ow, conf)
    c = {"stub": stub, "source": src, "overwrite": ow, "confine": conf, "out": out, "error": err, "meta": meta}
    try:
        stub_term = apply_abs.module_term(stub)
        c["stub_ok"] = True
    except SyntaxError:
        stub_term = '[Other "<stub is not Python>"%string]'
        c["stub_ok"] = False
    src_term = apply_abs.module_term(src)
    idem, parses, out_term = True, True, "None"
    if out is not None:
        try:
            out_term = f"(Some {apply_abs.module_term(out)})"
            parses = apply_abs.comments(out) == apply_abs.comments(src)
            c["comments_kept"] = parses
        except SyntaxError:
            parses = False
            out_term = "(Some [])"
        out2, err2 = (pre["second"], None) if pre is not None else real_apply(stub, out, ow, conf)
        idem = (out2 == out)
        c["second"] = None if idem else (out2 if out2 is not None else err2)
    c["term"] = (f"ACase {common.coq_bool(ow)} {common.coq_bool(conf)} {stub_term} {src_term} {out_term} "
                 f"{common.coq_bool(idem)} {common.coq_bool(parses)} {common.coq_bool(gen)}")
    return c


DIRECTED = [
    # DESIGN Appendix B-13
    ("b13", "from typing import Dict, List, Optional\nfrom things import Thing\n"
            "def f(a: Thing, b: str = ..., *args: int, c: Optional[int] = ..., **kw: Dict[str, int]) -> List[int]: ...\n",
     '"""doc"""\nfrom __future__ import annotations\nimport os\n\nX = 1\ndef f(a, b: int = 3, *args, c=None, **kw):\n    return [1]\n'),
    ("posonly", "from typing import List, Set\ndef f(a: Set[int], /, b: str = ...) -> List[int]: ...\n",
     "def f(a, /, b=3):\n    return [1]\n"),
    ("type_inner", "from typing import Type\nfrom things import Thing\ndef f(a: Type[Thing]) -> None: ...\n",
     "def f(a):\n    return None\n"),
    ("import_typing", "from typing import List\ndef f(a: List[int]) -> None: ...\n", "import typing\ndef f(a):\n    return None\n"),
    ("conflict", "from typing import List, Dict\ndef f(a: List[int]) -> Dict[str, int]: ...\n",
     "from foo import List\ndef f(a):\n    return None\n"),
    ("merge", "from typing import List, Dict\ndef f(a: List[int]) -> Dict[str, int]: ...\n",
     '"""d"""\nimport os\nfrom typing import Dict, Any\nx = 1\nfrom typing import Set\ndef f(a):\n    return None\n'),
    ("quote_and_class", "from mypy_extensions import TypedDict\nclass FooTypedDict__RENAME_ME__(TypedDict):\n    a: int\n"
                        "def g(x: Later) -> Later: ...\nclass Early:\n"
                        "    def m(self, o: Early, p: Later, foo: 'FooTypedDict__RENAME_ME__') -> Early: ...\n",
     "import os\nclass Early:\n    def m(self, o, p, foo):\n        return o\ndef g(x): return x\nfrom os import path\nclass Later: pass\n"),
    ("dotted", "from shapes import Outer\ndef f(a: Outer.Inner, *, b: Outer.Inner) -> Outer.Inner: ...\n",
     "def f(a, *, b):\n    return a\n"),
    ("names_differ", "def f(x: int, y: str) -> int: ...\n", "def f(x, z):\n    return 1\n"),
    ("nested_not_entered", "def f(a: int) -> int: ...\ndef helper(z: int) -> int: ...\n",
     "def f(a):\n    def helper(z):\n        return z\n    return helper(a)\n"),
    ("nothing_to_do", "from typing import List\ndef g(a: List[int]) -> int: ...\n", "import os\ndef f(a):\n    return 1\n"),
    ("in_block", "def f(a: int) -> int: ...\nclass K:\n    def m(self, x: str) -> None: ...\n",
     "import sys\nif sys.version_info > (3,):\n    def f(a):\n        return 1\nelse:\n    def f(a):\n        return 2\n"
     "try:\n    class K:\n        def m(self, x): pass\nexcept Exception:\n    pass\n"),
]


def classify(c, flags):
    """-> list of (finding id | None, description) for a case whose property predicate is false."""
    res = []
    tag = f"[{c['meta']}] overwrite={c['overwrite']} confine={c['confine']}"
    if flags & 128:
        fid = None
        if not c["stub_ok"] and "class " in c["stub"] and any(
                ln.startswith("class ") and "." in ln.split(":")[0] for ln in c["stub"].splitlines()):
            fid = "kf_nested_class_stub"
        res.append((fid, f"{tag}: apply raised HandlerError: {c['error']!r}"))
        return res
    if flags & 1:
        res.append(("kf_star_param", f"{tag}: a stub annotation for *args/**kwargs is absent from the result"))
    if flags & 2:
        res.append(("kf_dotted_name", f"{tag}: a dotted stub annotation was rewritten to its last component"))
    if flags & 64:
        # class: confinement on and overwrite on (the second run re-adds, at module level, imports that the first
        # run confined under `if TYPE_CHECKING:`)
        fid = None      # (kf_confine_reimports was repaired in /repo by 1f54bc8: any non-idempotence is a violation)
        res.append((fid, f"{tag}: applying the same stub to the output changed it again"))
    if flags & 8:
        fid = None
        if c["confine"] and c["out"] is not None:
            try:
                src_items, out_items = item_tuples(c["source"]), item_tuples(c["out"])
            except SyntaxError:
                src_items, out_items = [], []
            lost = [i for i in src_items if i not in out_items]
            # the recorded class (C16 kf_shadow): the lost item is shadowed in libcst's symbol mapping - another import
            # of the source binds the same name, or a star import of its module exists
            def shadowed(it):
                b = it[2] or it[1] or it[0]
                return any(o != it and ((o[2] or o[1] or o[0]) == b or (o[0] == it[0] and o[1] == "*")) for o in src_items)
            if lost:
                tag += f" lost={lost[:2]}"
                if all(shadowed(i) for i in lost):
                    fid = "kf_confine_drops_source_import"
        res.append((fid, f"{tag}: erase(result) differs from erase(source): something other than annotations/imports/"
                         f"generated classes changed"))
    if flags & 1024:
        res.append((None, f"{tag}: a function of the generated stub does not have the parameter shape of its own source "
                          f"function, so libcst skips it and none of its annotations is applied"))
    rest = flags & (4 | 16 | 32)
    if rest:
        names = [n for b, n in FLAG_NAMES if rest & b]
        res.append((None, f"{tag}: property predicate(s) false on the real output: {names}"))
    return res


def run(ctx):
    rnd = random.Random(ctx.seed)
    from monkeytype.stubs import build_module_stubs_from_traces, ExistingAnnotationStrategy as S
    from monkeytype.typing import DEFAULT_REWRITER
    quick = ctx.tier == "quick"
    tag = f"c15w{os.getpid()}"
    shapes = f"{tag}_shapes"
    with open(os.path.join(ctx.work, shapes + ".py"), "w") as f:
        f.write(apply_gen.SHAPES_SRC)
    shapes_obj = apply_gen.load(ctx.work, shapes)

    todo = []
    dist = {"modules": 0, "stub_subsets": 0, "handler_error": 0, "stub_unparseable": 0}
    for name, stub, src in DIRECTED:
        for ow in (False, True):
            for conf in (False, True):
                if conf and quick and name not in ("b13", "merge", "quote_and_class", "dotted"):
                    continue
                todo.append((stub, src, ow, conf, f"directed:{name}"))

    # the real command line path (cli.main -> apply_stub_handler -> file rewritten), all four flag combinations
    for j, (ign, pep, k) in enumerate([(i, p, k) for k in (0, 3) for i in (False, True) for p in (False, True)]):
        if quick and k == 3 and not (pep and not ign):
            continue
        todo.append(("CLI", ctx.work, shapes, f"{tag}_cli{j}", ign, pep, k))

    n_mod = 5 if quick else 80
    for mi in range(n_mod):
        m = apply_gen.Mod(rnd, f"{tag}_m{mi}", shapes, mi)
        src = m.text()
        with open(os.path.join(ctx.work, m.name + ".py"), "w") as f:
            f.write(src)
        try:
            mod_obj = apply_gen.load(ctx.work, m.name)
        except Exception as e:     # a generator bug, not a finding
            raise RuntimeError(f"generated module does not import: {type(e).__name__}: {e}\n{src}")
        dist["modules"] += 1
        fobjs = apply_gen.func_objects(mod_obj, m)
        qns = [q for q, _, _ in fobjs]
        subsets = [set(qns)]
        for _ in range(2 if quick else 4):
            subsets.append({q for q in qns if rnd.random() < 0.5} or {rnd.choice(qns)})
        subsets.append({rnd.choice(qns)})
        for si, chosen in enumerate(subsets):
            dist["stub_subsets"] += 1
            tseed = rnd.randrange(1 << 30)
            combos = [(ow, k, conf) for ow in (False, True) for k in (0, 3) for conf in (False, True)]
            if si > 0:
                combos = rnd.sample(combos, 2 if quick else 5)
            for ow, k, conf in combos:
                pool = apply_gen.type_pool(mod_obj, shapes_obj, k)
                traces = apply_gen.traces_for(random.Random(tseed), fobjs, pool, chosen, k)
                strat = S.IGNORE if ow else S.REPLICATE       # cli.py:217-222: overwrite := strategy == IGNORE
                try:
                    stubs = build_module_stubs_from_traces(traces, k, strat, DEFAULT_REWRITER)
                    if m.name not in stubs:
                        continue
                    stub = stubs[m.name].render()
                except Exception as e:       # no stub at all: `apply` dies, nothing is applied
                    names = sorted({t.funcname for t in traces})
                    todo.append((f"<stub generation raised {type(e).__name__}: {e}>", src, ow, conf,
                                 f"{m.name}/subset{si}/k{k} traced={names}", True,
                                 {"out": None, "err": f"build_module_stubs_from_traces raised {type(e).__name__}: {e}"[:300],
                                  "second": None}))
                    continue
                todo.append((stub, src, ow, conf, f"{m.name}/subset{si}/k{k}", True))
        sys.modules.pop(m.name, None)
    sys.modules.pop(shapes, None)
    if ctx.work in sys.path:
        sys.path.remove(ctx.work)

    import time
    t0 = time.time()
    cases = make_cases(todo)
    dist["t_real_runs_s"] = round(time.time() - t0, 1)
    t0 = time.time()
    outs = common.run_coq_shards(ctx.work, "c15", HEADER, [c["term"] for c in cases], "acase",
                                 "bad report 0 cases", shard_size=25)
    dist["t_coq_s"] = round(time.time() - t0, 1)
    rep = dict(common.parse_bad(outs))
    failures, mismatches = [], []
    per_finding = {}
    for b, n in FLAG_NAMES:
        dist["flag_" + n] = 0
    dist["compared_with_model"] = 0
    for i, c in enumerate(cases):
        code = rep.get(i, 0)
        v, flags = code % 4, code // 4
        for b, n in FLAG_NAMES:
            if flags & b:
                dist["flag_" + n] += 1
        if not (flags & (256 | 128)):
            dist["compared_with_model"] += 1
        if c["error"] is not None:
            dist["handler_error"] += 1
        if not c["stub_ok"]:
            dist["stub_unparseable"] += 1
        rec = {"stub": c["stub"], "source": c["source"], "overwrite": c["overwrite"], "confine": c["confine"],
               "impl_output": c["out"], "error": c["error"], "meta": c["meta"], "report_code": code}
        if v == 3:
            mismatches.append(rec | {"what": "malformed case"})
        if flags & 512:
            mismatches.append(rec | {"what": "model result differs from the abstraction of the real result"})
        if v == 2:
            for fid, what in classify(c, flags):
                n = per_finding.get(fid, 0)
                per_finding[fid] = n + 1
                if fid is None or n < 2:
                    r = dict(rec)
                    r["what"] = what + " | stub=" + repr(c["stub"][:400]) + " source=" + repr(c["source"][:300])
                    if fid:
                        r["finding"] = fid
                    if not c.get("second") is None:
                        r["second_application"] = c["second"]
                    failures.append(r)
    for fid, n in per_finding.items():
        dist["failures_" + str(fid)] = n
    nontrivial = {common.digest(c["term"]) for c in cases
                  if c["out"] is not None and c["out"] != c["source"]}
    samples = [{"meta": c["meta"], "overwrite": c["overwrite"], "confine": c["confine"], "stub": c["stub"][:600],
                "source": c["source"][:600], "impl_output": (c["out"] or "")[:600]} for c in cases if not c["meta"].startswith("directed")][:3]
    return {
        "evaluations": len(cases), "distinct_nontrivial": len(nontrivial),
        "rule": "12 directed (stub, source) pairs x overwrite x confinement (quick: confinement on for 4 of them), then generated modules (docstring, __future__, "
                "existing typing/user imports incl. qualifying and clashing ones, late and function-local imports, comments, "
                "decorators, nested defs, partial annotations, classes with class-level code, functions inside if-blocks, "
                "nested classes) x stubs rendered by build_module_stubs_from_traces from CallTraces of subsets of the functions "
                "(REPLICATE for overwrite=False, IGNORE for overwrite=True, as cli.py does) x max_typed_dict_size {0,3} x "
                "confinement {off,on}; non-trivial = the real output differs from the source; distinct by hash of the reified case",
        "samples": samples, "distribution": dist, "failures": failures, "mismatches": mismatches,
        "relation": "apply ow stub src = Some (abstraction of apply_stub_using_libcst output)  [Check/ApplyCases.v verdict]",
        "extra": {"finding_texts": {k: v for k, v in FINDING_TEXT.items() if per_finding.get(k)}},
    }


def replay(ctx, payload):
    c = make_case(payload["stub"], payload["source"], payload["overwrite"], payload["confine"], payload.get("meta", "replay"),
                  not str(payload.get("meta", "")).startswith("directed"))
    outs = common.run_coq_shards(ctx.work, "c15r", HEADER, [c["term"]], "acase", "bad report 0 cases")
    mpath = os.path.join(ctx.work, "c15_model.v")
    with open(mpath, "w") as f:
        f.write(HEADER + f"Definition the_case : acase := {c['term']}.\nEval vm_compute in (model the_case).\n")
    mouts = [(0, common.run_coqc(mpath)[1])]
    print("--- stub\n" + c["stub"] + "\n--- source\n" + c["source"])
    print("--- implementation output\n" + (c["out"] if c["out"] is not None else "raised: " + str(c["error"])))
    if c.get("second") is not None:
        print("--- second application gives\n" + str(c["second"]))
    print("--- model output (None = outside the modelled fragment / confinement on)\n" + mouts[0][1][:6000])
    code = dict(common.parse_bad(outs[:1])).get(0, 0)
    print("flags:", [n for b, n in FLAG_NAMES if (code // 4) & b], "verdict:", code % 4)
    return 1 if code % 4 else 0


CLAIM = {'note': 'Trusted: Coq kernel + vm_compute; harness abstraction ast -> stmt; libcst is modelled, not verified; '
         'concrete syntax outside the model. Full-apply idempotence is tested, not proved.',
 'ref': '4/C15',
 'technique': 'Coq model + theorems, vm_compute differential correspondence',
 'text': 'Partial (libcst is modelled, not verified). Abstract-syntax model of ApplyTypeAnnotationsVisitor + '
         'AddImportsVisitor as cli.py drives them and theorems for all overwrite flags, stubs and sources in the '
         'modelled fragment: apply_only_inserts, apply_erase_invariant, apply_respects_existing, apply_complete '
         '(outside kf_star_param, kf_dotted_name), add_imports_idempotent, apply_idempotent_partial2 / _closed (a '
         'second application is the identity under the boolean conditions idem_side and reimport_safe; the '
         'unconditional C15_full is REFUTED with two genuine re-application defects of libcst - a redefined method '
         'in an inserted class, a forward-reference quote added on the second pass with overwrite on - in '
         'Refuted/C15.v). Tie: generated sources x stubs rendered by the real machinery x overwrite x k x '
         'confinement through the real apply_stub_using_libcst; model vs abstraction of the real result, '
         'erase/respect/complete predicates and textual idempotence, verdicts in Coq.'}
