(* Proofs/ConfineItems.v — C16: where import items end up (run-time level vs TYPE_CHECKING) and the head of the module. *)
From Coq Require Import List Bool Arith String Ascii Lia.
From MT Require Import Confine ConfineEmb.
Import ListNotations.
Open Scope list_scope.

(* ------------------------------------------------------------ items through rm_imp *)
Lemma rm_imp_items moved i it :
  (exists i', rm_imp moved i = Some i' /\ In it (imp_items i')) <-> (In it (imp_items i) /\ memb it moved = false).
Proof.
  destruct i as [ns | md ns | md]; simpl.
  - set (f := fun n : name => Item (fst n) None (snd n)).
    assert (E : In it (map f (filter (keep_import moved) ns)) <-> In it (map f ns) /\ memb it moved = false).
    { rewrite !in_map_iff. split.
      - intros [n [<- Hn]]. apply filter_In in Hn as [Hn Hk]. unfold keep_import in Hk. apply negb_true_iff in Hk.
        split; [now exists n | exact Hk].
      - intros [[n [<- Hn]] Hm]. exists n. split; [reflexivity|]. apply filter_In. split; [assumption|].
        unfold keep_import. fold (f n). now rewrite Hm. }
    destruct (filter (keep_import moved) ns) eqn:F.
    + split; [intros [i' [X _]]; discriminate|]. intro H. apply E in H. destruct H.
    + split.
      * intros [i' [X Hi]]. injection X as <-. apply E. exact Hi.
      * intro H. eexists. split; [reflexivity|]. apply E. exact H.
  - destruct (is_rel md) eqn:Rel.
    + split.
      * intros [i' [X Hi]]. injection X as <-. simpl in Hi. rewrite Rel in Hi. destruct Hi.
      * intros [[] _].
    + set (f := fun n : name => Item md (Some (fst n)) (snd n)).
      assert (E : In it (map f (filter (keep_from moved md) ns)) <-> In it (map f ns) /\ memb it moved = false).
      { rewrite !in_map_iff. split.
        - intros [n [<- Hn]]. apply filter_In in Hn as [Hn Hk]. unfold keep_from in Hk. apply negb_true_iff in Hk.
          split; [now exists n | exact Hk].
        - intros [[n [<- Hn]] Hm]. exists n. split; [reflexivity|]. apply filter_In. split; [assumption|].
          unfold keep_from. fold (f n). now rewrite Hm. }
      destruct (filter (keep_from moved md) ns) eqn:F.
      * split; [intros [i' [X _]]; discriminate|]. intro H. apply E in H. destruct H.
      * split.
        -- intros [i' [X Hi]]. injection X as <-. simpl in Hi. rewrite Rel in Hi. apply E. exact Hi.
        -- intro H. eexists. split; [reflexivity|]. simpl. rewrite Rel. apply E. exact H.
  - split.
    + intros [i' [X Hi]]. injection X as <-. destruct Hi.
    + intros [[] _].
Qed.

Definition items_of (l : list imp) : list item := flat_map imp_items l.

Lemma top_items_cons s m :
  top_items (s :: m) = items_of (match s with SImp i => [i] | _ => [] end) ++ top_items m.
Proof. unfold top_items, items_of, top_imps. simpl. now rewrite flat_map_app. Qed.

Lemma nested_cons s m : nested_run_items (s :: m) = items_of (stmt_nested_run s) ++ nested_run_items m.
Proof. unfold nested_run_items, items_of. simpl. now rewrite flat_map_app. Qed.

Lemma run_items_cons s m : run_items (s :: m) = items_of (stmt_run_imps s) ++ run_items m.
Proof. unfold run_items, items_of. simpl. now rewrite flat_map_app. Qed.

Lemma run_items_split m it : In it (run_items m) <-> In it (top_items m) \/ In it (nested_run_items m).
Proof.
  induction m as [|s r IH]; [unfold run_items, top_items, nested_run_items; simpl; tauto|].
  rewrite run_items_cons, top_items_cons, nested_cons, !in_app_iff, IH.
  destruct s; unfold items_of; simpl; tauto.
Qed.

Lemma top_items_simp i m it : In it (top_items (SImp i :: m)) <-> In it (imp_items i) \/ In it (top_items m).
Proof. rewrite top_items_cons, in_app_iff. unfold items_of. simpl. now rewrite app_nil_r. Qed.

Lemma top_items_remove moved m it :
  In it (top_items (remove moved m)) <-> (In it (top_items m) /\ memb it moved = false).
Proof.
  induction m as [|s r IH]; [unfold top_items; simpl; tauto|].
  destruct s; simpl; try (rewrite !top_items_cons; simpl; exact IH).
  pose proof (rm_imp_items moved i it) as Hi.
  destruct (rm_imp moved i) as [i'|] eqn:E; rewrite ?top_items_simp, IH.
  - split.
    + intros [H | [H1 H2]]; [|tauto].
      destruct (proj1 Hi (ex_intro _ i' (conj eq_refl H))) as [A B]. tauto.
    + intros [[H|H] Hm]; [|tauto].
      destruct (proj2 Hi (conj H Hm)) as [i'' [X Y]]. injection X as <-. now left.
  - split; [tauto|].
    intros [[H|H] Hm]; [|tauto].
    destruct (proj2 Hi (conj H Hm)) as [i'' [X _]]; discriminate.
Qed.

Lemma nested_remove moved m : nested_run_items (remove moved m) = nested_run_items m.
Proof.
  induction m as [|s r IH]; [reflexivity|].
  destruct s; simpl; rewrite ?nested_cons, ?IH; try reflexivity.
  destruct (rm_imp moved i); rewrite ?nested_cons, ?IH; reflexivity.
Qed.

Lemma run_items_remove moved m it :
  In it (run_items (remove moved m)) <->
  ((In it (top_items m) /\ memb it moved = false) \/ In it (nested_run_items m)).
Proof. now rewrite run_items_split, top_items_remove, nested_remove. Qed.

Lemma run_items_app a b : run_items (a ++ b) = run_items a ++ run_items b.
Proof. unfold run_items. now rewrite !flat_map_app. Qed.
Lemma tc_items_app a b : tc_items (a ++ b) = tc_items a ++ tc_items b.
Proof. unfold tc_items. now rewrite !flat_map_app. Qed.

(* ------------------------------------------------------------ run-time items through the insertions *)
Definition tc_item : item := Item "typing" (Some "TYPE_CHECKING"%string) None.

Lemma run_items_add_first m it :
  (In it (run_items m) -> In it (run_items (add_first m)))
  /\ (In it (run_items (add_first m)) -> In it (run_items m) \/ it = tc_item).
Proof.
  induction m as [|s r IH]; simpl; [tauto|].
  destruct s; try tauto.
  destruct i; try (rewrite !run_items_cons, !in_app_iff; tauto).
  destruct (String.eqb md "typing") eqn:E.
  - apply String.eqb_eq in E. subst md. rewrite !run_items_cons, !in_app_iff. simpl. rewrite !app_nil_r. simpl.
    unfold tc_item. split; [tauto|]. intros [[H|H]|H]; auto.
  - rewrite !run_items_cons, !in_app_iff. tauto.
Qed.

Lemma run_items_insert_after_block x m it :
  In it (run_items (insert_after_block x m)) <-> In it (items_of (stmt_run_imps x)) \/ In it (run_items m).
Proof.
  induction m as [|s r IH]; simpl.
  - rewrite run_items_cons, in_app_iff. tauto.
  - destruct s; rewrite !run_items_cons, !in_app_iff; tauto.
Qed.

Lemma run_items_add_tc_body m it :
  (In it (run_items m) -> In it (run_items (add_tc_body m)))
  /\ (In it (run_items (add_tc_body m)) -> In it (run_items m) \/ it = tc_item).
Proof.
  unfold add_tc_body. destruct (typing_star (top_block m) || typing_has_tc (top_block m)); [tauto|].
  destruct (typing_from (top_block m)); [apply run_items_add_first|].
  rewrite run_items_insert_after_block. unfold items_of. simpl. unfold tc_item.
  split; [tauto|]. intros [[H|[]]|H]; auto.
Qed.

Lemma run_items_add_tc m it :
  (In it (run_items m) -> In it (run_items (add_tc m)))
  /\ (In it (run_items (add_tc m)) -> In it (run_items m) \/ it = tc_item).
Proof.
  unfold add_tc. destruct m as [|s r]; [apply run_items_add_tc_body|].
  destruct s; try apply run_items_add_tc_body.
  rewrite !run_items_cons. simpl. apply run_items_add_tc_body.
Qed.

Lemma run_items_insert_go b m it :
  In it (run_items (insert_after_last_go (SIfTC b) m)) <-> In it (run_items m).
Proof.
  induction m as [|s r IH]; simpl; [unfold run_items; simpl; tauto|].
  destruct (existsb is_simp r).
  - rewrite !run_items_cons, !in_app_iff, IH. tauto.
  - rewrite !run_items_cons. simpl. tauto.
Qed.

Lemma run_items_insert_block moved m it :
  In it (run_items (insert_block moved m)) <-> In it (run_items m).
Proof.
  unfold insert_block. destruct moved; [tauto|]. unfold insert_after_last.
  destruct (existsb is_simp m); [apply run_items_insert_go|]. rewrite run_items_cons. simpl. tauto.
Qed.

Lemma tc_items_cons s m : tc_items (s :: m) = items_of (stmt_tc_imps s) ++ tc_items m.
Proof. unfold tc_items, items_of. simpl. now rewrite flat_map_app. Qed.

Lemma tc_items_insert_go b m it :
  In it (items_of b) -> In it (tc_items (insert_after_last_go (SIfTC b) m)).
Proof.
  intro H. induction m as [|s r IH]; simpl.
  - rewrite tc_items_cons, in_app_iff. now left.
  - destruct (existsb is_simp r).
    + rewrite tc_items_cons, in_app_iff. now right.
    + rewrite !tc_items_cons, !in_app_iff. right. now left.
Qed.

Lemma tc_items_insert_block it moved m :
  In it moved -> In it (items_of (render moved)) -> In it (tc_items (insert_block moved m)).
Proof.
  intros Hm H. unfold insert_block. destruct moved; [destruct Hm|]. unfold insert_after_last.
  destruct (existsb is_simp m); [now apply tc_items_insert_go|].
  rewrite tc_items_cons, in_app_iff. now left.
Qed.

Lemma nested_add_first m : nested_run_items (add_first m) = nested_run_items m.
Proof.
  induction m as [|s r IH]; [reflexivity|]. destruct s; try reflexivity.
  destruct i; simpl; rewrite ?nested_cons, ?IH; try reflexivity.
  destruct (String.eqb md "typing"); rewrite ?nested_cons, ?IH; reflexivity.
Qed.

Lemma nested_insert_after_block i m : nested_run_items (insert_after_block (SImp i) m) = nested_run_items m.
Proof.
  induction m as [|s r IH]; [reflexivity|]. destruct s; try reflexivity.
  simpl. now rewrite !nested_cons, IH.
Qed.

Lemma nested_add_tc m : nested_run_items (add_tc m) = nested_run_items m.
Proof.
  assert (B : forall m, nested_run_items (add_tc_body m) = nested_run_items m).
  { intro m0. unfold add_tc_body. destruct (_ || _); [reflexivity|].
    destruct (typing_from _); [apply nested_add_first | apply nested_insert_after_block]. }
  unfold add_tc. destruct m as [|s r]; [apply B|]. destruct s; try apply B.
  now rewrite !nested_cons, B.
Qed.

Lemma top_items_insert_go b m it :
  In it (top_items (insert_after_last_go (SIfTC b) m)) <-> In it (top_items m).
Proof.
  induction m as [|s r IH]; simpl; [unfold top_items; simpl; tauto|].
  destruct (existsb is_simp r).
  - rewrite !top_items_cons, !in_app_iff, IH. tauto.
  - rewrite !top_items_cons. simpl. tauto.
Qed.

Lemma top_items_insert_block moved m it :
  In it (top_items (insert_block moved m)) <-> In it (top_items m).
Proof.
  unfold insert_block. destruct moved; [tauto|]. unfold insert_after_last.
  destruct (existsb is_simp m); [apply top_items_insert_go|]. rewrite top_items_cons. simpl. tauto.
Qed.

(* ------------------------------------------------------------ clause 3: no new run-time import *)
Theorem confine_no_new_runtime moved src applied :
  (forall it, In it (top_items applied) -> allowed_runtime src it = true \/ In it moved) ->
  (forall it, In it (nested_run_items applied) -> allowed_runtime src it = true) ->
  forall it, In it (run_items (confine_with moved applied)) -> allowed_runtime src it = true.
Proof.
  intros H Hn it Hit. unfold confine_with in Hit.
  apply run_items_insert_block in Hit. apply run_items_remove in Hit as [[Hit Hm] | Hit].
  - assert (R : In it (run_items (add_tc applied))) by (apply run_items_split; now left).
    apply run_items_add_tc in R as [R | ->].
    + apply run_items_split in R as [R | R]; [|now apply Hn].
      destruct (H it R) as [X | X]; [exact X|]. apply memb_In in X. rewrite X in Hm. discriminate.
    + unfold allowed_runtime. replace (runtime_module (i_mod tc_item)) with true by reflexivity.
      now rewrite orb_true_r.
  - rewrite nested_add_tc in Hit. now apply Hn.
Qed.

(* half of clause 2: nothing that is moved stays in a module-level import statement *)
Theorem confine_moved_not_toplevel moved applied it :
  In it moved -> ~ In it (top_items (confine_with moved applied)).
Proof.
  intros Hm Hit. unfold confine_with in Hit.
  apply top_items_insert_block in Hit. apply top_items_remove in Hit as [_ X].
  apply memb_In in Hm. rewrite Hm in X. discriminate.
Qed.

(* what is at run-time level and not moved stays at run-time level *)
Lemma confine_runtime_kept moved applied it :
  In it (run_items applied) -> memb it moved = false -> In it (run_items (confine_with moved applied)).
Proof.
  intros H Hm. unfold confine_with. apply run_items_insert_block. apply run_items_remove.
  apply (proj1 (run_items_add_tc applied it)) in H. apply run_items_split in H as [H | H]; [left | right]; auto.
Qed.

(* ------------------------------------------------------------ clause 1: the head *)
Lemma no_future_filter moved ns :
  (forall it, In it moved -> String.eqb (i_mod it) "__future__" = false) ->
  filter (keep_from moved "__future__") ns = ns.
Proof.
  intro H. induction ns as [|n r IH]; simpl; [reflexivity|].
  unfold keep_from at 1. destruct (memb _ moved) eqn:E.
  - apply memb_In in E. apply H in E. simpl in E. discriminate.
  - simpl. now rewrite IH.
Qed.

Lemma future_head_body_confine moved m :
  (forall it, In it moved -> String.eqb (i_mod it) "__future__" = false) ->
  future_head_body m = true ->
  exists r, remove moved (add_tc_body m) = List.hd (SOther "") m :: r /\ future_head_body m = true /\ is_simp (List.hd (SOther "") m) = true.
Proof.
  intros Hm H. destruct m as [|s r]; [discriminate|]. destruct s; try discriminate. destruct i; try discriminate.
  simpl in H. apply andb_true_iff in H as [Hmd Hann]. apply String.eqb_eq in Hmd. subst md.
  assert (Hne : ns <> []) by (intro; subst; discriminate).
  assert (Rm : forall r', remove moved (SImp (IFrom "__future__" ns) :: r') = SImp (IFrom "__future__" ns) :: remove moved r').
  { intro r'. simpl. rewrite (no_future_filter moved ns Hm). destruct ns; [now elim Hne | reflexivity]. }
  simpl List.hd. unfold add_tc_body.
  destruct (typing_star _ || typing_has_tc _).
  - eexists. split; [apply Rm|]. split; [|reflexivity]. simpl. now rewrite Hann.
  - destruct (typing_from _).
    + simpl add_first. eexists. split; [apply Rm|]. split; [|reflexivity]. simpl. now rewrite Hann.
    + simpl insert_after_block. eexists. split; [apply Rm|]. split; [|reflexivity]. simpl. now rewrite Hann.
Qed.

Lemma insert_go_head x s r : is_simp s = true -> exists r', insert_after_last_go x (s :: r) = s :: r'.
Proof. intros _. simpl. destruct (existsb is_simp r); eexists; reflexivity. Qed.

Lemma insert_block_head l m : future_head m = true -> future_head (insert_block l m) = true.
Proof.
  intro H. unfold insert_block. destruct l as [|it0 l0]; [exact H|].
  unfold insert_after_last. destruct m as [|s r]; [discriminate|].
  destruct s; try discriminate.
  - (* docstring, then the __future__ import *)
    simpl in H. destruct r as [|s2 r2]; [discriminate|]. destruct s2; try discriminate.
    simpl. destruct (existsb is_simp r2); simpl; exact H.
  - assert (Hb : future_head_body (SImp i :: r) = true) by exact H.
    simpl. destruct (existsb is_simp r); exact Hb.
Qed.

Lemma remove_add_tc_head moved applied :
  (forall it, In it moved -> String.eqb (i_mod it) "__future__" = false) ->
  future_head applied = true -> future_head (remove moved (add_tc applied)) = true.
Proof.
  intros Hm H. destruct applied as [|s r]; [discriminate|].
  destruct s; try discriminate.
  - simpl in H. destruct (future_head_body_confine moved r Hm H) as [r' [E [Hb Hs]]].
    destruct r as [|s2 r2]; [discriminate|]. simpl List.hd in *.
    assert (X : remove moved (add_tc (SDoc tok :: s2 :: r2)) = SDoc tok :: s2 :: r') by (simpl; now rewrite E).
    rewrite X. simpl. destruct s2; try discriminate. exact Hb.
  - assert (Hb : future_head_body (SImp i :: r) = true) by exact H.
    destruct (future_head_body_confine moved _ Hm Hb) as [r' [E [_ Hs]]]. simpl List.hd in *.
    assert (X : remove moved (add_tc (SImp i :: r)) = SImp i :: r') by exact E.
    rewrite X. exact H.
Qed.

Theorem confine_head moved applied :
  (forall it, In it moved -> String.eqb (i_mod it) "__future__" = false) ->
  future_head applied = true -> future_head (confine_with moved applied) = true.
Proof.
  intros Hm H. unfold confine_with. apply insert_block_head. now apply remove_add_tc_head.
Qed.
