(* Proofs/TightMergeBase.v — C05: basic facts about tightb / memt used by the merge induction.
   Well-formed observed values (oks), unfolding lemmas, tight_memt (tightness entails exact
   membership), tight_mono (a tight type stays tight when more of its exact members are observed). *)
From MT Require Import Types Infer Tight TypesFacts UnionFacts InferFacts InferSound GetTypeSound.
From Coq Require Import Lia.

Ltac bsplit := apply andb_true_intro; split.
Ltac bdestr H := let H1 := fresh H in apply andb_prop in H; destruct H as [H H1].

(* ---------- observed values are well formed (string keys of a dict pairwise distinct) ---------- *)
Definition oks (vs : list value) : Prop := forall v, In v vs -> wf_valueb v = true.
Notation okv := wf_valueb (only parsing).

Lemma oks_forallb vs : forallb wf_valueb vs = true <-> oks vs.
Proof. unfold oks. rewrite forallb_forall. reflexivity. Qed.

Lemma oks_app a b : oks a -> oks b -> oks (a ++ b).
Proof. intros Ha Hb v Hv. apply in_app_or in Hv. destruct Hv; auto. Qed.
Lemma oks_incl a b : incl a b -> oks b -> oks a.
Proof. intros Hi Hb v Hv. auto. Qed.

Lemma oks_list_elems vs : oks vs -> oks (flat_map list_elems vs).
Proof.
  intros H e He. apply in_flat_map in He. destruct He as [v [Hv He]]. specialize (H v Hv).
  destruct v; cbn [list_elems] in He; try destruct He. cbn [wf_valueb] in H. rewrite forallb_forall in H. auto.
Qed.
Lemma oks_set_elems vs : oks vs -> oks (flat_map set_elems vs).
Proof.
  intros H e He. apply in_flat_map in He. destruct He as [v [Hv He]]. specialize (H v Hv).
  destruct v; cbn [set_elems] in He; try destruct He. cbn [wf_valueb] in H. rewrite forallb_forall in H. auto.
Qed.
Lemma oks_tuple_elems vs : oks vs -> forall r, In r (map tuple_elems vs) -> oks r.
Proof.
  intros H r Hr e He. apply in_map_iff in Hr. destruct Hr as [v [<- Hv]]. specialize (H v Hv).
  destruct v; cbn [tuple_elems] in He; try destruct He. cbn [wf_valueb] in H. rewrite forallb_forall in H. auto.
Qed.

Lemma okv_item v kv : wf_valueb v = true -> In kv (dict_items v) ->
  wf_valueb (fst kv) = true /\ wf_valueb (snd kv) = true.
Proof.
  intros H Hkv. destruct v; cbn [dict_items] in Hkv; try destruct Hkv; cbn [wf_valueb] in H.
  - bdestr H. rewrite forallb_forall in H0. specialize (H0 kv Hkv). bdestr H0. auto.
  - rewrite forallb_forall in H. specialize (H kv Hkv). bdestr H. auto.
Qed.

Lemma oks_keys vs : oks vs -> oks (map fst (flat_map dict_items vs)).
Proof.
  intros H e He. apply in_map_iff in He. destruct He as [kv [<- Hkv]]. apply in_flat_map in Hkv.
  destruct Hkv as [v [Hv Hkv]]. apply (okv_item v kv (H v Hv) Hkv).
Qed.
Lemma oks_vals vs : oks vs -> oks (map snd (flat_map dict_items vs)).
Proof.
  intros H e He. apply in_map_iff in He. destruct He as [kv [<- Hkv]]. apply in_flat_map in Hkv.
  destruct Hkv as [v [Hv Hkv]]. apply (okv_item v kv (H v Hv) Hkv).
Qed.

(* ---------- string-keyed lookups ---------- *)
Lemma lookup_str_In s kvs x : lookup_str s kvs = Some x -> In (VStr s, x) kvs.
Proof.
  induction kvs as [|[kk vv] r IH]; cbn [lookup_str]; [discriminate|].
  destruct kk; try (intros H; right; apply IH; exact H).
  destruct (String.eqb_spec s s0) as [E|E]; intros H.
  - injection H as <-. subst. left. reflexivity.
  - right. apply IH. exact H.
Qed.

Lemma lookup_str_nodup s kvs x :
  nodup_strb (strkeys kvs) = true -> In (VStr s, x) kvs -> lookup_str s kvs = Some x.
Proof.
  induction kvs as [|[kk vv] r IH]; intros ND Hin; [destruct Hin|].
  destruct Hin as [E|Hin].
  - injection E as -> ->. cbn [lookup_str]. rewrite String.eqb_refl. reflexivity.
  - cbn [lookup_str]. destruct kk; try (apply IH; [exact ND|exact Hin]).
    unfold strkeys in ND. cbn [flat_map fst app nodup_strb] in ND. bdestr ND.
    destruct (String.eqb_spec s s0) as [E|E]; [|apply IH; assumption].
    exfalso. subst s0. apply negb_true_iff in ND.
    assert (X : existsb (String.eqb s) (strkeys r) = true).
    { apply existsb_exists. exists s. split; [|apply String.eqb_refl].
      unfold strkeys. apply in_flat_map. exists (VStr s, x). split; [exact Hin|left; reflexivity]. }
    unfold strkeys in X. congruence.
Qed.

Lemma has_key_In s kvs : has_key s kvs = true <-> exists x, In (VStr s, x) kvs.
Proof.
  unfold has_key. rewrite existsb_exists. split.
  - intros [[kk vv] [Hin E]]. cbn [fst] in E. destruct kk; try discriminate E.
    apply String.eqb_eq in E. subst. eauto.
  - intros [x Hin]. exists (VStr s, x). split; [exact Hin|apply String.eqb_refl].
Qed.

Lemma has_key_lookup s kvs : has_key s kvs = true <-> exists x, lookup_str s kvs = Some x.
Proof.
  induction kvs as [|[kk vv] r IH]; cbn [lookup_str].
  - split; [intros H; discriminate H|intros [x H]; discriminate H].
  - unfold has_key in *. cbn [existsb fst]. destruct kk; cbn [orb]; try exact IH.
    rewrite String_eqb_sym. destruct (String.eqb s s0); cbn [orb]; [|exact IH].
    split; [eauto|reflexivity].
Qed.

Lemma okv_nodup kvs : okv (VDict kvs) = true -> nodup_strb (strkeys kvs) = true.
Proof. cbn [wf_valueb]. intros H. bdestr H. exact H. Qed.

Lemma in_under_key s vs x : In x (under_key s vs) <-> exists v, In v vs /\ lookup_str s (dict_items v) = Some x.
Proof.
  unfold under_key. rewrite in_flat_map. split.
  - intros [v [Hv Hx]]. exists v. split; [exact Hv|]. destruct (lookup_str s (dict_items v)); [|destruct Hx].
    destruct Hx as [->|[]]. reflexivity.
  - intros [v [Hv E]]. exists v. split; [exact Hv|]. rewrite E. left. reflexivity.
Qed.

Lemma oks_under_key s vs : oks vs -> oks (under_key s vs).
Proof.
  intros H x Hx. apply in_under_key in Hx. destruct Hx as [v [Hv E]]. apply lookup_str_In in E.
  apply (okv_item v _ (H v Hv) E).
Qed.

Lemma under_key_app s a b : under_key s (a ++ b) = under_key s a ++ under_key s b.
Proof. unfold under_key. apply flat_map_app. Qed.

Lemma incl_flat_map {A B} (f : A -> list B) a b : incl a b -> incl (flat_map f a) (flat_map f b).
Proof. intros H x Hx. apply in_flat_map in Hx. destruct Hx as [y [Hy Hx]]. apply in_flat_map. exists y. auto. Qed.
Lemma incl_under_key s a b : incl a b -> incl (under_key s a) (under_key s b).
Proof. apply incl_flat_map. Qed.
Lemma incl_filter {A} (f : A -> bool) a b : incl a b -> incl (filter f a) (filter f b).
Proof. intros H x Hx. apply filter_In in Hx. apply filter_In. destruct Hx. auto. Qed.

Lemma nonempty_incl {A} (a b : list A) : nonempty a = true -> incl a b -> nonempty b = true.
Proof. destruct a as [|x a]; [discriminate|]. intros _ H. destruct b; [destruct (H x (or_introl eq_refl))|reflexivity]. Qed.
Lemma nonempty_In {A} (a : list A) : nonempty a = true <-> exists x, In x a.
Proof. destruct a as [|x a]; split; try discriminate; [intros [x []]|intros _; exists x; left; reflexivity|reflexivity]. Qed.
Lemma nonempty_neq {A} (a : list A) : nonempty a = true <-> a <> [].
Proof. destruct a; split; try discriminate; try congruence. reflexivity. Qed.

Lemma existsb_incl {A} (f : A -> bool) a b : incl a b -> existsb f a = true -> existsb f b = true.
Proof. intros H E. apply existsb_exists in E. destruct E as [x [Hx Fx]]. apply existsb_exists. exists x. auto. Qed.

Lemma existsb_key s (fs : list (string * ty)) :
  existsb (fun f => String.eqb s (fst f)) fs = true <-> In s (map fst fs).
Proof.
  rewrite existsb_exists, in_map_iff. split.
  - intros [f [Hf E]]. apply String.eqb_eq in E. exists f. auto.
  - intros [f [E Hf]]. exists f. split; [exact Hf|]. rewrite E. apply String.eqb_refl.
Qed.

(* ---------- unfolding lemmas ---------- *)
Fixpoint mtup (ts : list ty) (es : list value) : bool :=
  match ts, es with
  | [], [] => true
  | t1 :: ts', e :: es' => memt e t1 && mtup ts' es'
  | _, _ => false
  end.

Fixpoint tcols (ts : list ty) (rows : list (list value)) : bool :=
  match ts with
  | [] => forallb (fun r => negb (nonempty r)) rows
  | t1 :: ts' => forallb (fun r => nonempty r) rows && tightb t1 (heads rows) && tcols ts' (tails rows)
  end.

Lemma memt_TUnion v ts : memt v (TUnion ts) = existsb (memt v) ts.
Proof. cbn [memt]. induction ts as [|t r IH]; [reflexivity|]. cbn [existsb]. rewrite <- IH. reflexivity. Qed.
Lemma memt_TTuple v ts : memt v (TTuple ts) = match v with VTuple es => mtup ts es | _ => false end.
Proof.
  destruct v; reflexivity.
Qed.
Lemma memt_TTypedDict v req opt :
  memt v (TTypedDict req opt) =
  match v with
  | VDict kvs =>
      forallb (fun kv => match fst kv with
                         | VStr s => match field_ty s req opt with Some t => memt (snd kv) t | None => false end
                         | _ => false end) kvs
      && forallb (fun f => has_key (fst f) kvs) req
  | _ => false
  end.
Proof.
  cbn [memt]. destruct v; try reflexivity. f_equal.
  apply forallb_ext'. intros [kk vv]. cbn [fst snd]. destruct kk; try reflexivity.
  unfold field_ty.
  induction req as [|f r IH]; cbn [lookup_f].
  - induction opt as [|f r IH]; cbn [lookup_f]; [reflexivity|].
    destruct (String.eqb s (fst f)); [reflexivity|exact IH].
  - destruct (String.eqb s (fst f)); [reflexivity|exact IH].
Qed.

Lemma tightb_TTuple ts vs :
  tightb (TTuple ts) vs = nonempty vs && forallb is_vtuple vs && tcols ts (map tuple_elems vs).
Proof.
  reflexivity.
Qed.
Lemma tightb_TUnion ts vs :
  tightb (TUnion ts) vs =
  Nat.leb 2 (List.length ts)
  && forallb (fun v => existsb (fun ti => memt v ti) ts) vs
  && forallb (fun ti => nonempty (filter (fun v => memt v ti) vs)
                        && tightb ti (filter (fun v => memt v ti) vs)) ts.
Proof. reflexivity. Qed.
Lemma tightb_TTypedDict req opt vs :
  tightb (TTypedDict req opt) vs =
  nonempty vs && forallb str_keyed vs
  && forallb (fun v => forallb (fun kv => match fst kv with
                                          | VStr s => existsb (fun f => String.eqb s (fst f)) req
                                                      || existsb (fun f => String.eqb s (fst f)) opt
                                          | _ => false end) (dict_items v)) vs
  && forallb (fun f => forallb (has_skey (fst f)) vs && tightb (snd f) (under_key (fst f) vs)) req
  && forallb (fun f => existsb (has_skey (fst f)) vs && existsb (fun v => negb (has_skey (fst f) v)) vs
                       && tightb (snd f) (under_key (fst f) vs)) opt.
Proof. reflexivity. Qed.
Lemma tightb_TList x vs :
  tightb (TList x) vs = nonempty vs && forallb is_vlist vs && tightb x (flat_map list_elems vs).
Proof. reflexivity. Qed.
Lemma tightb_TSet x vs :
  tightb (TSet x) vs = nonempty vs && forallb is_vset vs && tightb x (flat_map set_elems vs).
Proof. reflexivity. Qed.
Lemma tightb_TDict k v vs :
  tightb (TDict k v) vs = nonempty vs && forallb is_vdict vs
      && tightb k (map fst (flat_map dict_items vs)) && tightb v (map snd (flat_map dict_items vs)).
Proof. reflexivity. Qed.
Lemma tightb_TDefaultDict k v vs :
  tightb (TDefaultDict k v) vs = nonempty vs && forallb is_vddict vs
      && tightb k (map fst (flat_map dict_items vs)) && tightb v (map snd (flat_map dict_items vs)).
Proof. reflexivity. Qed.
Lemma tightb_TCls c vs :
  tightb (TCls c) vs = nonempty vs && forallb (fun v => is_plain v && N.eqb (class_of v) c) vs.
Proof. reflexivity. Qed.

Lemma tight_nil t : tightb t [] = true -> t = TAny.
Proof.
  destruct t; cbn [tightb nonempty andb]; intros H; try discriminate H; try reflexivity.
  - destruct t; discriminate H.
  - destruct t; discriminate H.
  - destruct ts as [|a [|b l]]; cbn in H; discriminate H.
Qed.
Lemma tight_nonempty t vs : tightb t vs = true -> vs <> [] -> t <> TAny.
Proof. intros H N ->. destruct vs; [congruence|discriminate H]. Qed.
Lemma tight_notany t vs : tightb t vs = true -> t <> TAny -> vs <> [].
Proof. intros H N ->. apply N. apply tight_nil. exact H. Qed.

(* ---------- heads / tails ---------- *)
Lemma in_heads x rows : In x (heads rows) <-> exists r, In (x :: r) rows.
Proof.
  unfold heads. rewrite in_flat_map. split.
  - intros [r [Hr Hx]]. destruct r as [|y r]; [destruct Hx|]. destruct Hx as [->|[]]. eauto.
  - intros [r Hr]. exists (x :: r). split; [exact Hr|left; reflexivity].
Qed.
Lemma in_tails r rows : In r (tails rows) <-> exists r0, In r0 rows /\ r = tl r0.
Proof. unfold tails. rewrite in_map_iff. split; intros [r0 H]; exists r0; intuition. Qed.
Lemma incl_heads a b : incl a b -> incl (heads a) (heads b).
Proof. apply incl_flat_map. Qed.
Lemma incl_tails a b : incl a b -> incl (tails a) (tails b).
Proof. intros H r Hr. apply in_map_iff in Hr. destruct Hr as [r0 [<- Hr0]]. apply in_map. auto. Qed.

(* ---------- memt and member false subN ---------- *)
Lemma memt_memx t : forall v, memt v t = true -> memx v t = true.
Proof.
  induction t as [ | c | x IH | | x IH | x IH | x IH | a b IHa IHb | a b IHa IHb | xs IH | x IH
                 | a1 a2 a3 IH1 IH2 IH3 | xs IH | r o IHr IHo | s ] using ty_ind';
    intros v M; try exact M.
  - cbn [memt member] in *. bdestr M. exact M0.
  - cbn [memt member] in *. destruct v; try discriminate M. revert M. apply forallb_imp. auto.
  - cbn [memt member] in *. destruct v; try discriminate M. revert M. apply forallb_imp. auto.
  - cbn [memt member] in *. destruct v; try discriminate M. revert M. apply forallb_imp.
    intros kv _ H. bdestr H. bsplit; auto.
  - cbn [memt member] in *. destruct v; try discriminate M. revert M. apply forallb_imp.
    intros kv _ H. bdestr H. bsplit; auto.
  - rewrite memt_TTuple in M. destruct v; try discriminate M. rewrite member_TTuple.
    revert es M. induction xs as [|x xs IHxs]; intros [|e es] M; try discriminate M; try exact M.
    inversion IH; subst. cbn [mtup] in M. bdestr M. bsplit; auto.
  - cbn [memt member] in *. destruct v; try discriminate M. revert M. apply forallb_imp. auto.
  - rewrite memt_TUnion in M. rewrite member_TUnion. apply existsb_exists in M. destruct M as [x [Hx Mx]].
    apply existsb_exists. exists x. split; [exact Hx|]. rewrite Forall_forall in IH. auto.
  - rewrite memt_TTypedDict in M. rewrite member_TTypedDict. destruct v; try discriminate M.
    bdestr M. bsplit; [|exact M0].
    revert M. apply forallb_imp. intros [kk vv] _. cbn [fst snd]. destruct kk; try (intros; discriminate).
    unfold field_ty. intros H.
    destruct (lookup_f s r) as [ft|] eqn:Lr.
    + rewrite Forall_forall in IHr. apply (IHr _ (lookup_f_In _ _ _ Lr)). exact H.
    + destruct (lookup_f s o) as [ft|] eqn:Lo; [|discriminate H].
      rewrite Forall_forall in IHo. apply (IHo _ (lookup_f_In _ _ _ Lo)). exact H.
Qed.

(* ---------- Python == implies same exact members ---------- *)
Lemma wf_subN_refl : forall c, subN c c = true.
Proof. intros c. apply N.eqb_refl. Qed.

Lemma memt_py_eqb a : forall b v,
  wf_ty a -> wf_ty b -> py_eqb a b = true -> memt v a = true -> memt v b = true.
Proof.
  induction a as [ | c | x IH | | x IH | x IH | x IH | k v0 IHk IHv | k v0 IHk IHv | xs IH | x IH
                 | a1 a2 a3 IH1 IH2 IH3 | xs IH | r o IHr IHo | s ] using ty_ind';
    intros b v Wa Wb E M; destruct b; cbn [py_eqb] in E; try discriminate E; try exact M.
  - apply N.eqb_eq in E. subst. exact M.
  - cbn [memt] in *. destruct v; try discriminate M.
    destruct x, b; cbn [py_eqb] in E; try discriminate E; try discriminate M.
    apply N.eqb_eq in E. subst. exact M.
  - cbn [memt] in *. destruct v; try discriminate M. revert M. apply forallb_imp. intros e _. apply IH; assumption.
  - cbn [memt] in *. destruct v; try discriminate M. revert M. apply forallb_imp. intros e _. apply IH; assumption.
  - cbn [memt wf_ty] in *. destruct Wa as [Wa1 Wa2], Wb as [Wb1 Wb2]. bdestr E.
    destruct v; try discriminate M. revert M. apply forallb_imp. intros kv _ H. bdestr H. bsplit;
      [apply IHk|apply IHv]; assumption.
  - cbn [memt wf_ty] in *. destruct Wa as [Wa1 Wa2], Wb as [Wb1 Wb2]. bdestr E.
    destruct v; try discriminate M. revert M. apply forallb_imp. intros kv _ H. bdestr H. bsplit;
      [apply IHk|apply IHv]; assumption.
  - change (py_eqb (TTuple xs) (TTuple ts) = true) in E. rewrite py_eqb_TTuple in E.
    apply wf_TTuple in Wa. apply wf_TTuple in Wb. rewrite memt_TTuple in *.
    destruct v; try discriminate M.
    revert ts es Wb E M. induction xs as [|x xs IHxs]; intros [|y ys] es Wb E M; cbn [forallb2] in E; try discriminate E.
    + exact M.
    + destruct es as [|e es]; [discriminate M|]. cbn [mtup] in *. bdestr E. bdestr M.
      inversion IH as [|? ? IHx IHxs']; subst. inversion Wa; subst. inversion Wb; subst. bsplit.
      * apply IHx; assumption.
      * apply IHxs; assumption.
  - cbn [memt] in *. destruct v; try discriminate M. revert M. apply forallb_imp. intros e _. apply IH; assumption.
  - change (py_eqb (TUnion xs) (TUnion ts) = true) in E. rewrite py_eqb_TUnion in E.
    apply wf_TUnion in Wa. apply wf_TUnion in Wb.
    rewrite memt_TUnion in *. apply existsb_exists in M. destruct M as [x [Hx Mx]].
    bdestr E. rewrite forallb_forall in E. specialize (E x Hx). bdestr E.
    apply existsb_exists in E1. destruct E1 as [y [Hy Exy]].
    apply existsb_exists. exists y. split; [exact Hy|].
    rewrite Forall_forall in IH, Wa, Wb. apply (IH x Hx); auto.
  - (* TTypedDict *)
    change (py_eqb (TTypedDict r o) (TTypedDict req opt) = true) in E. rewrite py_eqb_TTypedDict in E.
    apply wf_TTypedDict in Wa. apply wf_TTypedDict in Wb.
    destruct Wa as [NDa [Wr Wo]], Wb as [NDb [Wr' Wo']].
    apply andb_prop in E. destruct E as [E Eo]. apply andb_prop in E. destruct E as [E Elo].
    apply andb_prop in E. destruct E as [Elr Er]. apply Nat.eqb_eq in Elr, Elo.
    rewrite memt_TTypedDict in *. destruct v; try discriminate M.
    apply andb_prop in M. destruct M as [MA MB]. apply andb_true_intro; split.
    + revert MA. apply forallb_imp. intros [kk vv] _. cbn [fst snd]. destruct kk; try (intros; discriminate).
      unfold field_ty. intros H.
      destruct (lookup_f s r) as [ft|] eqn:Lr.
      * unfold fsubP in Er. rewrite forallb_forall in Er.
        pose proof (lookup_f_In _ _ _ Lr) as Hin. specialize (Er _ Hin). cbn [fst snd] in Er.
        destruct (lookup_f s req) as [ft'|] eqn:Lr'; [|discriminate Er].
        rewrite Forall_forall in IHr, Wr, Wr'. apply (IHr _ Hin); cbn [snd]; auto.
        { apply (Wr _ Hin). } { apply (Wr' (s, ft')). apply lookup_f_In. exact Lr'. }
      * destruct (lookup_f s o) as [ft|] eqn:Lo; [|discriminate H].
        unfold fsubP in Eo. rewrite forallb_forall in Eo.
        pose proof (lookup_f_In _ _ _ Lo) as Hin. specialize (Eo _ Hin). cbn [fst snd] in Eo.
        destruct (lookup_f s opt) as [ft'|] eqn:Lo'; [|discriminate Eo].
        assert (Lr' : lookup_f s req = None).
        { apply lookup_f_None. intros Hc. eapply (NoDup_app_disj _ _ s NDb); [exact Hc|].
          eapply lookup_f_Some_key. exact Lo'. }
        rewrite Lr'. rewrite Forall_forall in IHo, Wo, Wo'. apply (IHo _ Hin); cbn [snd]; auto.
        { apply (Wo _ Hin). } { apply (Wo' (s, ft')). apply lookup_f_In. exact Lo'. }
    + assert (Hincl : incl (map fst req) (map fst r)).
      { apply NoDup_length_incl.
        - apply NoDup_app_l in NDa. exact NDa.
        - rewrite !map_length. lia.
        - apply fsubP_keys. exact Er. }
      rewrite forallb_forall in MB |- *. intros f' Hf'.
      assert (Hk : In (fst f') (map fst r)) by (apply Hincl; apply in_map; exact Hf').
      apply in_map_iff in Hk. destruct Hk as [f [Ef Hf]]. rewrite <- Ef. apply MB. exact Hf.
Qed.

(* ---------- tightness entails exact membership ---------- *)
Lemma tcols_mtup ts : forall rows r,
  Forall (fun t => forall vs v, oks vs -> tightb t vs = true -> In v vs -> memt v t = true) ts ->
  (forall r, In r rows -> oks r) ->
  tcols ts rows = true -> In r rows -> mtup ts r = true.
Proof.
  induction ts as [|t ts IHts]; intros rows r IH OK T Hr; cbn [tcols] in T.
  - rewrite forallb_forall in T. specialize (T r Hr). destruct r; [reflexivity|discriminate T].
  - bdestr T. bdestr T. inversion IH as [|? ? IHt IHts']; subst.
    rewrite forallb_forall in T. pose proof (T r Hr) as Nr. destruct r as [|e r]; [discriminate Nr|].
    cbn [mtup]. bsplit.
    + apply (IHt (heads rows)); [|exact T1|apply in_heads; eauto].
      intros x Hx. apply in_heads in Hx. destruct Hx as [r0 Hr0]. apply (OK _ Hr0). left. reflexivity.
    + apply (IHts (tails rows)); [exact IHts'| |exact T0|apply in_tails; exists (e :: r); auto].
      intros r1 Hr1 x Hx. apply in_tails in Hr1. destruct Hr1 as [r0 [Hr0 ->]].
      apply (OK _ Hr0). destruct r0; [destruct Hx|right; exact Hx].
Qed.

Lemma field_ty_req s req opt ft : NoDup (map fst req ++ map fst opt) -> In (s, ft) req -> field_ty s req opt = Some ft.
Proof.
  intros ND H. unfold field_ty. rewrite (lookup_f_NoDup s ft req); [reflexivity| |exact H].
  apply NoDup_app_l in ND. exact ND.
Qed.
Lemma field_ty_opt s req opt ft : NoDup (map fst req ++ map fst opt) -> In (s, ft) opt -> field_ty s req opt = Some ft.
Proof.
  intros ND H. unfold field_ty.
  assert (L : lookup_f s req = None).
  { apply lookup_f_None. intros Hc. apply (NoDup_app_disj _ _ s ND Hc). apply (in_map fst) in H. exact H. }
  rewrite L. apply lookup_f_NoDup; [|exact H]. apply NoDup_app_r in ND. exact ND.
Qed.

Lemma tight_memt t : forall vs v, oks vs -> tightb t vs = true -> In v vs -> memt v t = true.
Proof.
  induction t as [ | c | x IH | | x IH | x IH | x IH | a b IHa IHb | a b IHa IHb | xs IH | x IH
                 | a1 a2 a3 IH1 IH2 IH3 | xs IH | r o IHr IHo | s ] using ty_ind';
    intros vs v OK T Hv; try (cbn [tightb] in T; discriminate T).
  - destruct vs; [destruct Hv|discriminate T].
  - rewrite tightb_TCls in T. bdestr T. rewrite forallb_forall in T0. specialize (T0 v Hv). exact T0.
  - cbn [tightb] in T. destruct x; try discriminate T. bdestr T. rewrite forallb_forall in T0.
    specialize (T0 v Hv). destruct v; try discriminate T0. cbn [memt]. rewrite N.eqb_sym. exact T0.
  - cbn [tightb] in T. bdestr T. rewrite forallb_forall in T0. specialize (T0 v Hv).
    destruct v; try discriminate T0. reflexivity.
  - rewrite tightb_TList in T. bdestr T. bdestr T. rewrite forallb_forall in T1. specialize (T1 v Hv).
    destruct v; try discriminate T1. cbn [memt]. apply forallb_forall. intros e He.
    apply (IH (flat_map list_elems vs)); [apply oks_list_elems; exact OK|exact T0|].
    apply in_flat_map. exists (VList es). split; [exact Hv|exact He].
  - rewrite tightb_TSet in T. bdestr T. bdestr T. rewrite forallb_forall in T1. specialize (T1 v Hv).
    destruct v; try discriminate T1. cbn [memt]. apply forallb_forall. intros e He.
    apply (IH (flat_map set_elems vs)); [apply oks_set_elems; exact OK|exact T0|].
    apply in_flat_map. exists (VSet es). split; [exact Hv|exact He].
  - cbn [tightb] in T. destruct x; try discriminate T. bdestr T. rewrite forallb_forall in T0.
    specialize (T0 v Hv). destruct v; try discriminate T0. reflexivity.
  - rewrite tightb_TDict in T. bdestr T. bdestr T. bdestr T. rewrite forallb_forall in T2. specialize (T2 v Hv).
    destruct v; try discriminate T2. cbn [memt]. apply forallb_forall. intros kv Hkv.
    assert (X : In kv (flat_map dict_items vs)) by (apply in_flat_map; exists (VDict kvs); split; [exact Hv|exact Hkv]).
    bsplit.
    + apply (IHa (map fst (flat_map dict_items vs))); [apply oks_keys; exact OK|exact T1|apply in_map; exact X].
    + apply (IHb (map snd (flat_map dict_items vs))); [apply oks_vals; exact OK|exact T0|apply in_map; exact X].
  - rewrite tightb_TDefaultDict in T. bdestr T. bdestr T. bdestr T. rewrite forallb_forall in T2. specialize (T2 v Hv).
    destruct v; try discriminate T2. cbn [memt]. apply forallb_forall. intros kv Hkv.
    assert (X : In kv (flat_map dict_items vs)) by (apply in_flat_map; exists (VDefaultDict kvs); split; [exact Hv|exact Hkv]).
    bsplit.
    + apply (IHa (map fst (flat_map dict_items vs))); [apply oks_keys; exact OK|exact T1|apply in_map; exact X].
    + apply (IHb (map snd (flat_map dict_items vs))); [apply oks_vals; exact OK|exact T0|apply in_map; exact X].
  - rewrite tightb_TTuple in T. bdestr T. bdestr T. rewrite forallb_forall in T1. specialize (T1 v Hv).
    destruct v; try discriminate T1. rewrite memt_TTuple.
    apply (tcols_mtup xs (map tuple_elems vs) es IH); [apply oks_tuple_elems; exact OK|exact T0|].
    change es with (tuple_elems (VTuple es)). apply in_map. exact Hv.
  - rewrite tightb_TUnion in T. bdestr T. bdestr T. rewrite forallb_forall in T1. rewrite memt_TUnion.
    rewrite (existsb_ext' _ (fun ti => memt v ti)); [apply T1; exact Hv|reflexivity].
  - rewrite tightb_TTypedDict in T.
    apply andb_prop in T; destruct T as [T Topt]. apply andb_prop in T; destruct T as [T Treq].
    apply andb_prop in T; destruct T as [T Tdecl]. apply andb_prop in T; destruct T as [Tne Tsk].
    rewrite forallb_forall in Topt, Treq, Tdecl, Tsk.
    pose proof (Tsk v Hv) as SK. pose proof (Tdecl v Hv) as DK. pose proof (OK v Hv) as OKv.
    rewrite memt_TTypedDict. destruct v; try discriminate SK.
    cbn [str_keyed] in SK. cbn [dict_items] in DK. bsplit.
    + apply forallb_forall. intros [kk vv] Hkv. cbn [fst snd].
      rewrite forallb_forall in SK, DK. specialize (SK _ Hkv). specialize (DK _ Hkv). cbn [fst] in *.
      destruct kk; try discriminate SK.
      assert (UK : In vv (under_key s vs)).
      { apply in_under_key. exists (VDict kvs). split; [exact Hv|]. cbn [dict_items].
        apply lookup_str_nodup; [apply okv_nodup; exact OKv|exact Hkv]. }
      unfold field_ty. destruct (lookup_f s r) as [ft|] eqn:Lr.
      * pose proof (lookup_f_In _ _ _ Lr) as Hin. specialize (Treq _ Hin). cbn [fst snd] in Treq.
        apply andb_prop in Treq. destruct Treq as [_ Tf].
        rewrite Forall_forall in IHr.
        apply (IHr _ Hin (under_key s vs)); [apply oks_under_key; exact OK|exact Tf|exact UK].
      * apply orb_prop in DK. destruct DK as [DK|DK].
        { apply existsb_key in DK. apply lookup_f_None in Lr. contradiction. }
        apply existsb_key in DK. destruct (lookup_f s o) as [ft|] eqn:Lo; [|apply lookup_f_None in Lo; contradiction].
        pose proof (lookup_f_In _ _ _ Lo) as Hin. specialize (Topt _ Hin). cbn [fst snd] in Topt.
        apply andb_prop in Topt. destruct Topt as [_ Tf].
        rewrite Forall_forall in IHo.
        apply (IHo _ Hin (under_key s vs)); [apply oks_under_key; exact OK|exact Tf|exact UK].
    + apply forallb_forall. intros f Hf. specialize (Treq f Hf). apply andb_prop in Treq. destruct Treq as [Th _].
      rewrite forallb_forall in Th. apply (Th _ Hv).
Qed.

(* ---------- a tight type stays tight when more of its exact members are observed ---------- *)
Lemma under_key_memt req opt s ft vs :
  field_ty s req opt = Some ft ->
  (forall v, In v vs -> memt v (TTypedDict req opt) = true) ->
  forall x, In x (under_key s vs) -> memt x ft = true.
Proof.
  intros FT M x Hx. apply in_under_key in Hx. destruct Hx as [v [Hv L]].
  specialize (M v Hv). rewrite memt_TTypedDict in M.
  destruct v; try discriminate M. cbn [dict_items] in L. apply lookup_str_In in L.
  bdestr M. rewrite forallb_forall in M. specialize (M _ L). cbn [fst snd] in M. rewrite FT in M. exact M.
Qed.

Lemma tcols_mono ts : forall ws vs,
  Forall (fun t => forall ws vs, wf_ty t -> tightb t ws = true -> incl ws vs -> oks vs ->
                                 (forall v, In v vs -> memt v t = true) -> tightb t vs = true) ts ->
  Forall wf_ty ts ->
  tcols ts ws = true -> incl ws vs -> (forall r, In r vs -> oks r) ->
  (forall r, In r vs -> mtup ts r = true) -> tcols ts vs = true.
Proof.
  induction ts as [|t ts IHts]; intros ws vs IH W T Hi OK M; cbn [tcols] in *.
  - apply forallb_forall. intros r Hr. specialize (M r Hr). destruct r; [reflexivity|discriminate M].
  - bdestr T. bdestr T. inversion IH as [|? ? IHt IHts']; subst. inversion W as [|? ? Wt Wts]; subst.
    bsplit; [bsplit|].
    + apply forallb_forall. intros r Hr. specialize (M r Hr). destruct r; [discriminate M|reflexivity].
    + apply (IHt (heads ws)); [exact Wt|exact T1|apply incl_heads; exact Hi| |].
      * intros x Hx. apply in_heads in Hx. destruct Hx as [r0 Hr0]. apply (OK _ Hr0). left. reflexivity.
      * intros x Hx. apply in_heads in Hx. destruct Hx as [r0 Hr0]. specialize (M _ Hr0). cbn [mtup] in M.
        bdestr M. exact M.
    + apply (IHts (tails ws)); [exact IHts'|exact Wts|exact T0|apply incl_tails; exact Hi| |].
      * intros r1 Hr1 x Hx. apply in_tails in Hr1. destruct Hr1 as [r0 [Hr0 ->]].
        apply (OK _ Hr0). destruct r0; [destruct Hx|right; exact Hx].
      * intros r1 Hr1. apply in_tails in Hr1. destruct Hr1 as [r0 [Hr0 ->]]. specialize (M _ Hr0).
        destruct r0 as [|e r0]; [discriminate M|]. cbn [mtup] in M. bdestr M. exact M0.
Qed.

Lemma tight_mono t : forall ws vs,
  wf_ty t -> tightb t ws = true -> incl ws vs -> oks vs ->
  (forall v, In v vs -> memt v t = true) -> tightb t vs = true.
Proof.
  induction t as [ | c | x IH | | x IH | x IH | x IH | a b IHa IHb | a b IHa IHb | xs IH | x IH
                 | a1 a2 a3 IH1 IH2 IH3 | xs IH | r o IHr IHo | s ] using ty_ind';
    intros ws vs W T Hi OK M; try (cbn [tightb] in T; discriminate T).
  - (* TAny *) destruct vs as [|v vs]; [reflexivity|]. specialize (M v (or_introl eq_refl)). discriminate M.
  - (* TCls *) rewrite tightb_TCls in *. bdestr T. bsplit; [eapply nonempty_incl; eauto|].
    apply forallb_forall. intros v Hv. specialize (M v Hv). cbn [memt] in M. exact M.
  - (* TType *) cbn [tightb] in *. destruct x; try discriminate T. bdestr T.
    bsplit; [eapply nonempty_incl; eauto|]. apply forallb_forall. intros v Hv. specialize (M v Hv).
    cbn [memt] in M. destruct v; try discriminate M. rewrite N.eqb_sym. exact M.
  - (* TCallable *) cbn [tightb] in *. bdestr T. bsplit; [eapply nonempty_incl; eauto|].
    apply forallb_forall. intros v Hv. specialize (M v Hv). cbn [memt] in M. exact M.
  - (* TList *) rewrite tightb_TList in *. bdestr T. bdestr T. bsplit; [bsplit|].
    + eapply nonempty_incl; eauto.
    + apply forallb_forall. intros v Hv. specialize (M v Hv). destruct v; try discriminate M. reflexivity.
    + apply (IH (flat_map list_elems ws)); [exact W|exact T0|apply incl_flat_map; exact Hi|apply oks_list_elems; exact OK|].
      intros e He. apply in_flat_map in He. destruct He as [v [Hv He]]. specialize (M v Hv).
      destruct v; try destruct He. cbn [memt] in M. rewrite forallb_forall in M. apply M. exact He.
  - (* TSet *) rewrite tightb_TSet in *. bdestr T. bdestr T. bsplit; [bsplit|].
    + eapply nonempty_incl; eauto.
    + apply forallb_forall. intros v Hv. specialize (M v Hv). destruct v; try discriminate M. reflexivity.
    + apply (IH (flat_map set_elems ws)); [exact W|exact T0|apply incl_flat_map; exact Hi|apply oks_set_elems; exact OK|].
      intros e He. apply in_flat_map in He. destruct He as [v [Hv He]]. specialize (M v Hv).
      destruct v; try destruct He. cbn [memt] in M. rewrite forallb_forall in M. apply M. exact He.
  - (* TIterator *) cbn [tightb] in *. destruct x; try discriminate T. bdestr T.
    bsplit; [eapply nonempty_incl; eauto|]. apply forallb_forall. intros v Hv. specialize (M v Hv).
    cbn [memt] in M. exact M.
  - (* TDict *) rewrite tightb_TDict in *. bdestr T. bdestr T. bdestr T. cbn [wf_ty] in W. destruct W as [Wa Wb].
    assert (Hi' : incl (flat_map dict_items ws) (flat_map dict_items vs)) by (apply incl_flat_map; exact Hi).
    assert (MI : forall kv, In kv (flat_map dict_items vs) -> memt (fst kv) a = true /\ memt (snd kv) b = true).
    { intros kv Hkv. apply in_flat_map in Hkv. destruct Hkv as [v [Hv Hkv]]. specialize (M v Hv).
      destruct v; try discriminate M. cbn [memt] in M. cbn [dict_items] in Hkv. rewrite forallb_forall in M.
      specialize (M kv Hkv). bdestr M. auto. }
    bsplit; [bsplit; [bsplit|]|].
    + eapply nonempty_incl; eauto.
    + apply forallb_forall. intros v Hv. specialize (M v Hv). destruct v; try discriminate M. reflexivity.
    + apply (IHa (map fst (flat_map dict_items ws))); [exact Wa|exact T1|apply incl_map; exact Hi'|apply oks_keys; exact OK|].
      intros e He. apply in_map_iff in He. destruct He as [kv [<- Hkv]]. apply MI. exact Hkv.
    + apply (IHb (map snd (flat_map dict_items ws))); [exact Wb|exact T0|apply incl_map; exact Hi'|apply oks_vals; exact OK|].
      intros e He. apply in_map_iff in He. destruct He as [kv [<- Hkv]]. apply MI. exact Hkv.
  - (* TDefaultDict *) rewrite tightb_TDefaultDict in *. bdestr T. bdestr T. bdestr T. cbn [wf_ty] in W. destruct W as [Wa Wb].
    assert (Hi' : incl (flat_map dict_items ws) (flat_map dict_items vs)) by (apply incl_flat_map; exact Hi).
    assert (MI : forall kv, In kv (flat_map dict_items vs) -> memt (fst kv) a = true /\ memt (snd kv) b = true).
    { intros kv Hkv. apply in_flat_map in Hkv. destruct Hkv as [v [Hv Hkv]]. specialize (M v Hv).
      destruct v; try discriminate M. cbn [memt] in M. cbn [dict_items] in Hkv. rewrite forallb_forall in M.
      specialize (M kv Hkv). bdestr M. auto. }
    bsplit; [bsplit; [bsplit|]|].
    + eapply nonempty_incl; eauto.
    + apply forallb_forall. intros v Hv. specialize (M v Hv). destruct v; try discriminate M. reflexivity.
    + apply (IHa (map fst (flat_map dict_items ws))); [exact Wa|exact T1|apply incl_map; exact Hi'|apply oks_keys; exact OK|].
      intros e He. apply in_map_iff in He. destruct He as [kv [<- Hkv]]. apply MI. exact Hkv.
    + apply (IHb (map snd (flat_map dict_items ws))); [exact Wb|exact T0|apply incl_map; exact Hi'|apply oks_vals; exact OK|].
      intros e He. apply in_map_iff in He. destruct He as [kv [<- Hkv]]. apply MI. exact Hkv.
  - (* TTuple *) rewrite tightb_TTuple in *. bdestr T. bdestr T. apply wf_TTuple in W. bsplit; [bsplit|].
    + eapply nonempty_incl; eauto.
    + apply forallb_forall. intros v Hv. specialize (M v Hv). destruct v; try discriminate M. reflexivity.
    + apply (tcols_mono xs (map tuple_elems ws)); [exact IH|exact W|exact T0|apply incl_map; exact Hi
                                                    |apply oks_tuple_elems; exact OK|].
      intros r Hr. apply in_map_iff in Hr. destruct Hr as [v [<- Hv]]. specialize (M v Hv).
      rewrite memt_TTuple in M. destruct v; try discriminate M. exact M.
  - (* TUnion *) rewrite tightb_TUnion in *. bdestr T. bdestr T. apply wf_TUnion in W. bsplit; [bsplit|].
    + exact T.
    + apply forallb_forall. intros v Hv. specialize (M v Hv). rewrite memt_TUnion in M.
      rewrite (existsb_ext' _ (memt v)); [exact M|reflexivity].
    + rewrite forallb_forall in T0 |- *. intros ti Hti. specialize (T0 ti Hti). bdestr T0.
      assert (Hi' : incl (filter (fun v => memt v ti) ws) (filter (fun v => memt v ti) vs)) by (apply incl_filter; exact Hi).
      bsplit; [eapply nonempty_incl; eauto|].
      rewrite Forall_forall in IH, W.
      apply (IH ti Hti (filter (fun v => memt v ti) ws)); [apply W; exact Hti|exact T2|exact Hi'| |].
      * intros v Hv. apply filter_In in Hv. apply OK. tauto.
      * intros v Hv. apply filter_In in Hv. tauto.
  - (* TTypedDict *)
    rewrite tightb_TTypedDict in *.
    apply andb_prop in T; destruct T as [T Topt]. apply andb_prop in T; destruct T as [T Treq].
    apply andb_prop in T; destruct T as [T Tdecl]. apply andb_prop in T; destruct T as [Tne Tsk].
    apply wf_TTypedDict in W. destruct W as [ND [Wr Wo]].
    assert (MV : forall v, In v vs -> exists kvs, v = VDict kvs /\
              forallb (fun kv => match fst kv with
                         | VStr s => match field_ty s r o with Some t => memt (snd kv) t | None => false end
                         | _ => false end) kvs = true /\ forallb (fun f => has_key (fst f) kvs) r = true).
    { intros v Hv. specialize (M v Hv). rewrite memt_TTypedDict in M.
      destruct v; try discriminate M. bdestr M. eauto. }
    bsplit; [bsplit; [bsplit; [bsplit|]|]|].
    + eapply nonempty_incl; eauto.
    + apply forallb_forall. intros v Hv. destruct (MV v Hv) as [kvs [-> [MA _]]]. cbn [str_keyed].
      revert MA. apply forallb_imp. intros kv _ H. destruct (fst kv); try discriminate H. reflexivity.
    + apply forallb_forall. intros v Hv. destruct (MV v Hv) as [kvs [-> [MA _]]]. cbn [dict_items].
      revert MA. apply forallb_imp. intros kv _ H. destruct (fst kv); try discriminate H.
      destruct (field_ty s r o) as [ft|] eqn:FT; [|discriminate H]. unfold field_ty in FT.
      destruct (lookup_f s r) eqn:Lr.
      * apply orb_true_intro. left. apply existsb_key. eapply lookup_f_Some_key. exact Lr.
      * apply orb_true_intro. right. apply existsb_key. eapply lookup_f_Some_key. exact FT.
    + rewrite forallb_forall in Treq |- *. intros f Hf. specialize (Treq f Hf).
      apply andb_prop in Treq. destruct Treq as [_ Tf]. bsplit.
      * apply forallb_forall. intros v Hv. destruct (MV v Hv) as [kvs [-> [_ MB]]].
        rewrite forallb_forall in MB. apply (MB f Hf).
      * rewrite Forall_forall in IHr, Wr.
        apply (IHr f Hf (under_key (fst f) ws)); [apply Wr; exact Hf|exact Tf|apply incl_under_key; exact Hi
                                                  |apply oks_under_key; exact OK|].
        apply (under_key_memt r o (fst f) (snd f) vs); [|exact M].
        apply field_ty_req; [exact ND|]. destruct f; exact Hf.
    + rewrite forallb_forall in Topt |- *. intros f Hf. specialize (Topt f Hf).
      apply andb_prop in Topt. destruct Topt as [Te Tf]. apply andb_prop in Te. destruct Te as [Te1 Te2].
      bsplit; [bsplit|].
      * eapply existsb_incl; eauto.
      * eapply existsb_incl; eauto.
      * rewrite Forall_forall in IHo, Wo.
        apply (IHo f Hf (under_key (fst f) ws)); [apply Wo; exact Hf|exact Tf|apply incl_under_key; exact Hi
                                                  |apply oks_under_key; exact OK|].
        apply (under_key_memt r o (fst f) (snd f) vs); [|exact M].
        apply field_ty_opt; [exact ND|]. destruct f; exact Hf.
Qed.

(* the same values in another order / multiplicity *)
Lemma tight_equiv t ws vs :
  wf_ty t -> oks vs -> tightb t ws = true -> incl ws vs -> incl vs ws -> tightb t vs = true.
Proof.
  intros W OK T H1 H2. apply (tight_mono t ws vs W T H1 OK).
  intros v Hv. apply (tight_memt t ws v); [|exact T|apply H2; exact Hv].
  eapply oks_incl; eauto.
Qed.
