(* Proofs/StubSetRewrite.v — C14: the rewriter chain respects the order-insensitive reading of Union[...].
   For every class table h with consistent MROs that list each class in its own MRO, every shipped rewriter r and
   every chain rs: two normal types that are Python-== (equivalently: equivb-equal, well-formed and outside the
   class kf_td_under_union — no Union anywhere has a TypedDict-bearing member) are rewritten to Python-== (hence
   equivb-equal) types.  Composed with MergePermEquiv.merge_perm_equivb: the annotation produced from a permutation
   of the traced types is the same up to the order of union members.
   Also here: the literal statement Props/C14.C14_full (premise mro_consistentb only) is refuted by a class table
   whose MRO of a class omits the class itself, and plain equivb is NOT preserved by the rewriters inside
   kf_td_under_union (equivb ignores the multiplicity of identity-hashed members; RewriteLargeUnion and the
   singleton collapse of Union[...] do not). *)
From MT Require Import Types StubSet Infer Rewrite RewriteTrigger Hier TypesFacts UnionFacts StubSetEquiv StubSetMerge
  MergePermBase MergePermEquiv RewriteMono RewriteTriggerFacts RewriteTriggerInfer RewriteHier GetTypeSound
  TdBoundedE2ERewrite StubSetRewriteBase StubSetRewriteHier StubSetRewriteUnion.
From Coq Require Import Lia Sorting.Permutation.
Open Scope list_scope.

(* ---------- RewriteGenerator ---------- *)
Definition is_none (t : ty) : bool := match t with TCls 1%N => true | _ => false end.

Lemma rw_gen_eq h bt a b c :
  rw h bt RGenerator (TGenerator a b c) = if is_none b && is_none c then TIterator a else TGenerator a b c.
Proof.
  cbn [rw]. destruct b as [ | [|[p|p|]] | | | | | | | | | | | | | ]; try reflexivity.
  destruct c as [ | [|[p|p|]] | | | | | | | | | | | | | ]; reflexivity.
Qed.

Lemma py_is_none a b : py_eqb a b = true -> is_none a = is_none b.
Proof.
  intros E. destruct a; destruct b; try (cbn in E; discriminate E); try reflexivity.
  cbn [py_eqb] in E. apply N.eqb_eq in E. subst. reflexivity.
Qed.

(* ---------- structural helpers ---------- *)
Definition respects (f : ty -> ty) (a : ty) : Prop :=
  forall b, normal a = true -> normal b = true -> py_eqb a b = true -> py_eqb (f a) (f b) = true.

Lemma tuple_respects (f : ty -> ty) xs : forall ys,
  Forall (respects f) xs -> forallb normal xs = true -> forallb normal ys = true ->
  forallb2 py_eqb xs ys = true -> forallb2 py_eqb (map f xs) (map f ys) = true.
Proof.
  induction xs as [|x xs IHxs]; intros [|y ys] IH Na Nb E; cbn [forallb2 map] in *; try discriminate E; [reflexivity|].
  apply andb_prop in E. destruct E as [E1 E2]. cbn [forallb] in Na, Nb.
  apply andb_prop in Na. destruct Na as [Nx Nxs]. apply andb_prop in Nb. destruct Nb as [Ny Nys].
  inversion IH as [|? ? IHx IHr]; subst. apply andb_true_intro. split; [apply IHx; assumption|apply IHxs; assumption].
Qed.

Lemma fields_respects (f : ty -> ty) r r' :
  Forall (fun fd => respects f (snd fd)) r ->
  forallb (fun fd => normal (snd fd)) r = true -> forallb (fun fd => normal (snd fd)) r' = true ->
  fsubP r r' = true ->
  fsubP (map (fun fd => (fst fd, f (snd fd))) r) (map (fun fd => (fst fd, f (snd fd))) r') = true.
Proof.
  intros IH Na Nb E. unfold fsubP in *. rewrite forallb_forall in *. rewrite Forall_forall in IH.
  intros g Hg. apply in_map_iff in Hg. destruct Hg as [fd [<- Hfd]]. cbn [fst snd].
  rewrite lookup_f_map. specialize (E fd Hfd).
  destruct (lookup_f (fst fd) r') as [y|] eqn:L; [|discriminate E]. cbn [option_map].
  apply (IH fd Hfd); [apply Na; exact Hfd| |exact E].
  apply (Nb (fst fd, y)). apply lookup_f_In. exact L.
Qed.

(* the members of two ==-equal unions, rewritten member by member *)
Lemma members_respects (f : ty -> ty) xs ys :
  (forall x, has_td x = false -> has_td (f x) = false) ->
  Forall (respects f) xs -> forallb normal xs = true -> forallb normal ys = true -> tfl xs -> tfl ys ->
  forall kx ky, incl kx xs -> incl ky ys -> psub kx ky -> psub ky kx ->
    tfl (map f kx) /\ tfl (map f ky) /\ psub (map f kx) (map f ky) /\ psub (map f ky) (map f kx).
Proof.
  intros Hf IH Na Nb Tx Ty kx ky Ix Iy P1 P2. rewrite Forall_forall in IH. rewrite forallb_forall in Na, Nb.
  assert (Tkx : tfl (map f kx)) by (apply tfl_map; [intros x _; apply Hf|apply (tfl_incl kx xs Tx Ix)]).
  assert (Tky : tfl (map f ky)) by (apply tfl_map; [intros x _; apply Hf|apply (tfl_incl ky ys Ty Iy)]).
  split; [exact Tkx|]. split; [exact Tky|]. split.
  - apply psub_map; [|exact P1]. intros x y Hx Hy E. apply (IH x (Ix x Hx)); auto.
  - apply psub_map; [|exact P2]. intros y x Hy Hx E.
    apply py_eqb_sym_tdfree; [apply Hf; apply Tx; apply Ix; exact Hx|apply Hf; apply Ty; apply Iy; exact Hy|].
    apply (IH x (Ix x Hx)); auto.
    apply py_eqb_sym_tdfree; [apply Ty; apply Iy; exact Hy|apply Tx; apply Ix; exact Hx|exact E].
Qed.

Section Main.
Variable h : hierarchy.
Variable bt : bases_table.
Hypothesis Hcons : rw_mro_consistentb h = true.
Hypothesis Hself : mro_selfb h = true.
Notation rw := (rw h bt).

(* ---------- THE induction: every rewriter respects Python's == on normal types ---------- *)
Theorem rw_py r a : forall b, normal a = true -> normal b = true -> py_eqb a b = true ->
  py_eqb (rw r a) (rw r b) = true.
Proof.
  induction a as [ | c | x IH | | x IH | x IH | x IH | k v0 IHk IHv | k v0 IHk IHv | xs IH | x IH
                 | a1 a2 a3 IH1 IH2 IH3 | xs IH | rq op IHr IHo | s ] using ty_ind';
    intros b Na Nb E;
    destruct b as [ | c' | y | | y | y | y | k' v' | k' v' | ys | y | b1 b2 b3 | ys | rq' op' | s' ];
    try (cbn in E; discriminate E);
    try (destruct r; exact E).
  - (* TList *) destruct r; try exact E; cbn [Rewrite.rw py_eqb normal] in *; apply IH; assumption.
  - (* TSet *) destruct r; try exact E; cbn [Rewrite.rw py_eqb normal] in *; apply IH; assumption.
  - (* TDict *) destruct r; try exact E; cbn [Rewrite.rw py_eqb normal] in *;
      apply andb_prop in E; destruct E as [E1 E2]; apply andb_prop in Na; destruct Na as [Na1 Na2];
      apply andb_prop in Nb; destruct Nb as [Nb1 Nb2]; rewrite (IHk k'), (IHv v') by assumption; reflexivity.
  - (* TTuple *) destruct r; try exact E; cbn [Rewrite.rw]; rewrite py_eqb_TTuple in *; cbn [normal] in Na, Nb;
      apply tuple_respects; assumption.
  - (* TTupleVar *) destruct r; try exact E; cbn [Rewrite.rw py_eqb normal] in *; apply IH; assumption.
  - (* TGenerator *)
    cbn [py_eqb] in E. apply andb_prop in E. destruct E as [E E3]. apply andb_prop in E. destruct E as [E1 E2].
    cbn [normal] in Na, Nb. apply andb_prop in Na. destruct Na as [Na Na3]. apply andb_prop in Na. destruct Na as [Na1 Na2].
    apply andb_prop in Nb. destruct Nb as [Nb Nb3]. apply andb_prop in Nb. destruct Nb as [Nb1 Nb2].
    destruct r.
    5: { rewrite !rw_gen_eq. rewrite (py_is_none _ _ E2), (py_is_none _ _ E3).
         destruct (is_none b2 && is_none b3); cbn [py_eqb]; [exact E1|]. rewrite E1, E2, E3. reflexivity. }
    1: { cbn [Rewrite.rw py_eqb]. rewrite E1, E2, E3. reflexivity. }
    all: cbn [Rewrite.rw py_eqb]; rewrite (IH1 b1), (IH2 b2), (IH3 b3) by assumption; reflexivity.
  - (* TUnion *)
    pose proof (py_union_inv xs ys E) as [Tx [Ty [P1 P2]]].
    cbn [normal] in Na, Nb. apply andb_prop in Na. destruct Na as [NMa NAa]. apply andb_prop in Nb. destruct Nb as [NMb NAb].
    destruct r.
    + exact E.
    + (* RemoveEmptyContainers *)
      rewrite !rw_rme_union.
      pose proof (psub_filter_keep xs ys P1 P2) as K1. pose proof (psub_filter_keep ys xs P2 P1) as K2.
      destruct (members_respects (rw RRemoveEmpty) xs ys (rw_no_td h bt RRemoveEmpty) IH NAa NAb Tx Ty
                  (filter (keep xs) xs) (filter (keep ys) ys)) as [T1 [T2 [Q1 Q2]]];
        try assumption; try (intros z Hz; apply filter_In in Hz; tauto).
      destruct (filter (keep xs) xs) as [|kx0 kxr] eqn:KX; destruct (filter (keep ys) ys) as [|ky0 kyr] eqn:KY.
      * exact E.
      * apply psub_nil_r in K2. discriminate K2.
      * apply psub_nil_r in K1. discriminate K1.
      * apply union_mk_py; assumption.
    + (* RewriteConfigDict *) cbn [Rewrite.rw]. apply rcd_union_py; assumption.
    + (* RewriteLargeUnion *) cbn [Rewrite.rw].
      unfold normal_members in NMa, NMb. apply andb_prop in NMa. destruct NMa as [_ NDa].
      apply andb_prop in NMb. destruct NMb as [_ NDb]. apply rlu_union_py; assumption.
    + (* RewriteGenerator: the generic rewrite_Union *)
      cbn [Rewrite.rw].
      destruct (members_respects (rw RGenerator) xs ys (rw_no_td h bt RGenerator) IH NAa NAb Tx Ty xs ys)
        as [T1 [T2 [Q1 Q2]]]; try assumption; try apply incl_refl.
      apply union_mk_py; assumption.
    + (* RewriteMostSpecificCommonBase *) cbn [Rewrite.rw]. apply msb_union_py; assumption.
  - (* TTypedDict *)
    destruct r; try exact E; cbn [Rewrite.rw]; rewrite py_eqb_TTypedDict in *; rewrite !map_length;
      cbn [normal] in Na, Nb; apply andb_prop in Na; destruct Na as [Nar Nao]; apply andb_prop in Nb; destruct Nb as [Nbr Nbo];
      apply andb_prop in E; destruct E as [E Eo]; apply andb_prop in E; destruct E as [E Elo];
      apply andb_prop in E; destruct E as [Elr Er]; rewrite Elr, Elo;
      rewrite (fields_respects _ rq rq' IHr Nar Nbr Er), (fields_respects _ op op' IHo Nao Nbo Eo); reflexivity.
Qed.

Theorem rw_chain_py rs : forall a b, normal a = true -> normal b = true -> py_eqb a b = true ->
  py_eqb (rw_chain h bt rs a) (rw_chain h bt rs b) = true.
Proof.
  unfold rw_chain. induction rs as [|r rs IH]; intros a b Na Nb E; cbn [fold_left]; [exact E|].
  apply IH; [apply rw_normal; exact Na|apply rw_normal; exact Nb|apply rw_py; assumption].
Qed.

(* ---------- the same, read with equivb ---------- *)
Theorem rw_equiv_invariant r a b :
  wf_ty a -> wf_ty b -> normal a = true -> normal b = true -> kf_td_under_union a = false ->
  equivb a b = true ->
  equivb (rw r a) (rw r b) = true /\ kf_td_under_union (rw r a) = false /\ kf_td_under_union (rw r b) = false.
Proof.
  intros Wa Wb Na Nb T E. pose proof (equivb_py a b Wa Wb E T) as P.
  apply (py_eqb_char _ _ (rw_wf h bt r a Wa) (rw_wf h bt r b Wb)). apply rw_py; assumption.
Qed.

Theorem rw_chain_equiv_invariant rs a b :
  wf_ty a -> wf_ty b -> normal a = true -> normal b = true -> kf_td_under_union a = false ->
  equivb a b = true ->
  equivb (rw_chain h bt rs a) (rw_chain h bt rs b) = true
  /\ kf_td_under_union (rw_chain h bt rs a) = false /\ kf_td_under_union (rw_chain h bt rs b) = false.
Proof.
  intros Wa Wb Na Nb T E. pose proof (equivb_py a b Wa Wb E T) as P.
  apply (py_eqb_char _ _ (rw_chain_wf h bt rs a Wa) (rw_chain_wf h bt rs b Wb)). apply rw_chain_py; assumption.
Qed.

(* ---------- the pipeline: merge, then rewrite ---------- *)
Lemma forallb_perm {A} (p : A -> bool) l l' : Permutation l l' -> forallb p l = forallb p l'.
Proof. intros P. induction P; cbn [forallb]; try congruence. rewrite !andb_assoc, (andb_comm (p y)). reflexivity. Qed.

Theorem merge_rewrite_perm k rs ts ts' t t' :
  Forall wf_ty ts -> forallb normal ts = true -> Permutation ts ts' ->
  shrink_top k ts = Some t -> shrink_top k ts' = Some t' -> kf_td_under_union t = false ->
  equivb (rw_chain h bt rs t) (rw_chain h bt rs t') = true.
Proof.
  intros W N P S S' T.
  assert (W' : Forall wf_ty ts').
  { rewrite Forall_forall in *. intros x Hx. apply W. eapply Permutation_in; [apply Permutation_sym; exact P|exact Hx]. }
  assert (N' : forallb normal ts' = true) by (rewrite <- (forallb_perm normal ts ts' P); exact N).
  pose proof (merge_perm_equivb k ts ts' W P) as E. rewrite S, S' in E. cbn [opt_equivb] in E.
  exact (proj1 (rw_chain_equiv_invariant rs t t' (shrink_top_wf k ts t W S) (shrink_top_wf k ts' t' W' S')
                  (merge_normal k ts t W N S) (merge_normal k ts' t' W' N' S') T E)).
Qed.

Theorem merge_rewrite_perm_opt k rs ts ts' :
  Forall wf_ty ts -> forallb normal ts = true -> Permutation ts ts' ->
  (forall t, shrink_top k ts = Some t -> kf_td_under_union t = false) ->
  opt_equivb (option_map (rw_chain h bt rs) (shrink_top k ts)) (option_map (rw_chain h bt rs) (shrink_top k ts')) = true.
Proof.
  intros W N P T. pose proof (merge_perm_equivb k ts ts' W P) as E.
  destruct (shrink_top k ts) as [t|] eqn:S; destruct (shrink_top k ts') as [t'|] eqn:S'; cbn [opt_equivb option_map] in *;
    try discriminate E; [|reflexivity].
  apply (merge_rewrite_perm k rs ts ts' t t'); auto.
Qed.

End Main.

(* the exported form: the statement of Props/C14.C14_rw_stmt with the premises it needs *)
Definition C14_rw_partial_stmt : Prop :=
  forall k h bt rs ts ts' t t',
    rw_mro_consistentb h = true -> mro_selfb h = true ->
    Forall wf_ty ts -> forallb normal ts = true -> Permutation ts ts' ->
    shrink_top k ts = Some t -> shrink_top k ts' = Some t' -> kf_td_under_union t = false ->
    equivb (rw_chain h bt rs t) (rw_chain h bt rs t') = true.

Theorem rw_equiv_invariant_partial : C14_rw_partial_stmt.
Proof. intros k h bt rs ts ts' t t' Hc Hs. apply merge_rewrite_perm; assumption. Qed.

Print Assumptions rw_py.
Print Assumptions rw_chain_py.
Print Assumptions rw_equiv_invariant.
Print Assumptions rw_chain_equiv_invariant.
Print Assumptions merge_rewrite_perm_opt.
Print Assumptions rw_equiv_invariant_partial.
