(* Proofs/ConfineRender.v — C16: every moved item is in the rendered `if TYPE_CHECKING:` block. *)
From Coq Require Import List Bool Arith String Ascii Lia.
From MT Require Import Confine ConfineEmb ConfineItems.
Import ListNotations.
Open Scope list_scope.

Lemma sinsert_In x s l : In x (sinsert s l) <-> x = s \/ In x l.
Proof.
  induction l as [|y r IH]; simpl; [intuition|].
  destruct (String.eqb s y) eqn:E.
  - apply String.eqb_eq in E. subst y. simpl. intuition.
  - destruct (String.ltb s y); simpl; [intuition|]. rewrite IH. intuition.
Qed.

Lemma ssort_In x l : In x (ssort l) <-> In x l.
Proof.
  unfold ssort. induction l as [|y r IH]; simpl; [tauto|]. rewrite sinsert_In, IH. intuition.
Qed.

Lemma ninsert_In x n l : In x (ninsert n l) <-> x = n \/ In x l.
Proof.
  induction l as [|y r IH]; simpl; [intuition|].
  destruct (name_eqb n y) eqn:E.
  - apply name_eqb_eq in E. subst y. simpl. intuition.
  - destruct (name_ltb n y); simpl; [intuition|]. rewrite IH. intuition.
Qed.

Lemma nsort_In x l : In x (nsort l) <-> In x l.
Proof.
  unfold nsort. induction l as [|y r IH]; simpl; [tauto|]. rewrite ninsert_In, IH. intuition.
Qed.

(* one alias per module among the `import m as a` items *)
Definition alias_unique (l : list item) : Prop :=
  forall x y a b, In x l -> In y l -> i_obj x = None -> i_obj y = None -> i_mod x = i_mod y ->
                  i_alias x = Some a -> i_alias y = Some b -> a = b.

Lemma alias_unique_filter f l : alias_unique l -> alias_unique (filter f l).
Proof.
  intros H x y a b Hx Hy. apply filter_In in Hx as [Hx _]. apply filter_In in Hy as [Hy _]. now apply H.
Qed.

Lemma in_domain_item moved it :
  in_domain moved = true -> In it moved ->
  String.eqb (i_mod it) "__future__" = false /\ is_rel (i_mod it) = false.
Proof.
  unfold in_domain. rewrite forallb_forall. intros H Hin. specialize (H it Hin).
  apply andb_true_iff in H as [H H4]. apply andb_true_iff in H as [H H3]. apply andb_true_iff in H as [H1 _].
  apply negb_true_iff in H1. apply negb_true_iff in H3. split; assumption.
Qed.

Lemma in_domain_alias_unique moved : in_domain moved = true -> alias_unique moved.
Proof.
  unfold in_domain. rewrite forallb_forall. intros H x y a b Hx Hy Ox Oy Hm Ax Ay.
  specialize (H x Hx). apply andb_true_iff in H as [_ H]. rewrite Ox, Ax in H.
  rewrite forallb_forall in H. specialize (H y Hy). rewrite Oy, Ay in H.
  apply orb_true_iff in H as [H | H].
  - apply negb_true_iff in H. rewrite Hm, String.eqb_refl in H. discriminate.
  - now apply String.eqb_eq in H.
Qed.

Lemma alias_set_same k a d : In (k, a) (alias_set k a d).
Proof.
  induction d as [|[k' a'] r IH]; simpl; [now left|].
  destruct (String.eqb k k'); simpl; [now left | now right].
Qed.

Lemma alias_set_keep k a k' a' d :
  In (k, a) d -> (k' = k -> a' = a) -> In (k, a) (alias_set k' a' d).
Proof.
  induction d as [|[k0 a0] r IH]; simpl; [intros []|].
  intros [E | Hin] Hu.
  - injection E as -> ->. destruct (String.eqb k' k) eqn:Q; simpl.
    + apply String.eqb_eq in Q. subst k'. rewrite (Hu eq_refl). now left.
    + now left.
  - destruct (String.eqb k' k0); simpl; [now right | right; now apply IH].
Qed.

Lemma aliased_mods_has l md a :
  alias_unique l -> In (Item md None (Some a)) l -> In (md, a) (aliased_mods l).
Proof.
  unfold aliased_mods. intros U Hin.
  assert (G : forall l0 d, (forall y b, In y l0 -> i_obj y = None -> i_alias y = Some b -> i_mod y = md -> b = a) ->
                           (In (md, a) d \/ In (Item md None (Some a)) l0) ->
                           In (md, a) (fold_left (fun d it => match i_obj it, i_alias it with
                                                              | None, Some a => alias_set (i_mod it) a d
                                                              | _, _ => d end) l0 d)).
  { induction l0 as [|y r IH]; intros d Hu [H | H]; simpl; try assumption; try destruct H.
    - apply IH; [intros; eapply Hu; eauto; now right|]. left.
      destruct (i_obj y) eqn:Oy; [assumption|]. destruct (i_alias y) eqn:Ay; [|assumption].
      apply alias_set_keep; [assumption|]. intro E. eapply Hu; eauto. now left.
    - subst y. simpl. apply IH; [intros; eapply Hu; eauto; now right|]. left. apply alias_set_same.
    - apply IH; [intros; eapply Hu; eauto; now right|]. now right. }
  apply G; [|now right].
  intros y b Hy Oy Ay My. symmetry. eapply (U (Item md None (Some a)) y a b); eauto.
Qed.

Lemma render_has l it :
  In it l -> is_rel (i_mod it) = false -> alias_unique l ->
  In it (items_of (render l)).
Proof.
  intros Hin Hrel Hal.
  unfold items_of, render. rewrite !flat_map_app, !in_app_iff.
  destruct it as [md o al]. simpl in *. destruct o as [o|].
  - (* from md import o [as al] *)
    right. right. apply in_flat_map.
    exists (IFrom md (nsort (from_names md l))). split.
    + apply in_map_iff. exists md. split; [reflexivity|]. apply in_app_iff.
      set (am := ssort (from_mods true l)).
      destruct al as [a|].
      * left. apply ssort_In. unfold from_mods. apply in_flat_map.
        exists (Item md (Some o) (Some a)). split; [assumption | simpl; now left].
      * destruct (smemb md am) eqn:E.
        -- left. now apply smemb_In.
        -- right. apply filter_In. split; [| now rewrite E].
           apply ssort_In. unfold from_mods. apply in_flat_map.
           exists (Item md (Some o) None). split; [assumption | simpl; now left].
    + simpl. rewrite Hrel. apply in_map_iff. exists (o, al). split; [reflexivity|].
      apply nsort_In. unfold from_names. apply in_flat_map.
      exists (Item md (Some o) al). split; [assumption|]. simpl. rewrite String.eqb_refl. now left.
  - destruct al as [a|].
    + (* import md as a *)
      right. left. apply in_flat_map. exists (IImport [(md, Some a)]). split; [| simpl; now left].
      apply in_map_iff. exists (md, a). split; [reflexivity|]. now apply aliased_mods_has.
    + (* import md *)
      left. apply in_flat_map.
      exists (IImport [(md, None)]). split; [| simpl; now left].
      apply in_map_iff. exists md. split; [reflexivity|]. apply ssort_In. unfold plain_mods. apply in_flat_map.
      exists (Item md None None). split; [assumption | simpl; now left].
Qed.

(* ------------------------------------------------------------ the symbol mapping holds only items of its imports *)
Lemma dict_set_In k v d x : In x (map snd (dict_set k v d)) -> x = v \/ In x (map snd d).
Proof.
  induction d as [|[k' v'] r IH]; simpl; [intuition|].
  destruct (String.eqb k k'); simpl; intuition.
Qed.

Lemma set_items_In its : forall d x, In x (map snd (set_items d its)) -> In x (map snd d) \/ In x its.
Proof.
  unfold set_items. induction its as [|it r IH]; intros d x H; simpl in *; [now left|].
  apply IH in H as [H | H]; [|right; now right].
  apply dict_set_In in H as [-> | H]; [right; now left | now left].
Qed.

Lemma gather_go_In is : forall stars d x,
  In x (map snd (gather_go stars d is)) -> In x (map snd d) \/ In x (items_of is).
Proof.
  unfold items_of. induction is as [|i r IH]; intros stars d x H; simpl in *; [now left|].
  rewrite in_app_iff. destruct i as [ns | md ns | md].
  - apply IH in H as [H | H]; [|tauto]. apply set_items_In in H. tauto.
  - destruct (is_rel md) eqn:Rel.
    + apply IH in H. tauto.
    + destruct (has_plain ns && smemb md stars).
      * apply IH in H. tauto.
      * apply IH in H as [H | H]; [|tauto]. apply set_items_In in H.
        simpl imp_items. rewrite Rel. tauto.
  - apply IH in H. tauto.
Qed.

Lemma already_confined_tc m it : In it (already_confined m) -> In it (tc_items m).
Proof.
  unfold already_confined. intro H. apply gather_go_In in H as [[] | H].
  unfold items_of, tc_block_imps in H. unfold tc_items.
  apply in_flat_map in H as [i [Hi Hit]]. apply in_flat_map in Hi as [s [Hs Hi]].
  apply in_flat_map. exists i. split; [|exact Hit]. apply in_flat_map. exists s. split; [exact Hs|].
  destruct s; simpl in *; try contradiction. exact Hi.
Qed.

Lemma tc_items_insert_go_keeps x m it :
  In it (tc_items m) -> In it (tc_items (insert_after_last_go x m)).
Proof.
  induction m as [|s r IH]; simpl; [unfold tc_items; simpl; tauto|].
  destruct (existsb is_simp r); rewrite !tc_items_cons, !in_app_iff; [|tauto].
  intros [H | H]; [now left | right; now apply IH].
Qed.

Lemma tc_items_insert_block_keeps l m it : In it (tc_items m) -> In it (tc_items (insert_block l m)).
Proof.
  intro H. unfold insert_block. destruct l; [exact H|]. unfold insert_after_last.
  destruct (existsb is_simp m); [now apply tc_items_insert_go_keeps|].
  rewrite tc_items_cons, in_app_iff. now right.
Qed.

(* clause 2: every moved item sits under `if TYPE_CHECKING:` - in the new block, or in a block that was already there -
   and in no module-level import statement *)
Theorem confine_moved_under_tc moved applied it :
  in_domain moved = true -> In it moved ->
  In it (tc_items (confine_with moved applied)) /\ ~ In it (top_items (confine_with moved applied)).
Proof.
  intros Hd Hin. destruct (in_domain_item moved it Hd Hin) as [_ Hrel].
  pose proof (in_domain_alias_unique moved Hd) as Hal. split.
  - unfold confine_with. set (t := remove moved (add_tc applied)).
    destruct (memb it (already_confined t)) eqn:E.
    + apply tc_items_insert_block_keeps. apply already_confined_tc. now apply memb_In.
    + assert (L : In it (to_block moved t)).
      { unfold to_block. apply filter_In. split; [assumption | now rewrite E]. }
      apply tc_items_insert_block; [exact L |]. apply render_has; [exact L | exact Hrel |].
      unfold to_block. now apply alias_unique_filter.
  - now apply confine_moved_not_toplevel.
Qed.

Lemma in_domain_no_future moved :
  in_domain moved = true -> forall it, In it moved -> String.eqb (i_mod it) "__future__" = false.
Proof. intros Hd it Hin. now destruct (in_domain_item moved it Hd Hin). Qed.
