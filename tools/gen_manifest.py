#!/usr/bin/env python3
"""Regenerates MANIFEST.json from the table below (single source of truth for claimed checks)."""
import json, os
HERE = os.path.dirname(os.path.dirname(os.path.abspath(__file__)))
props = [json.loads(l) for l in open(os.path.join(HERE, "properties.jsonl"))]

CLAIMED = {
 "C04": dict(
   text="Coq theorem infer_sound: for every hierarchy, every limit k and every finite collection of values, each observed value is a member of the inferred type (both readings of Any); plus infer_well_formed. The model (Model/Infer.v) is tied to typing.py by a differential check whose verdicts (membership + multiset correspondence) are computed inside Coq.",
   note="Trusted: Coq kernel + vm_compute; harness reifiers; typing's Union/==/hash semantics as modelled (union_mk, py_eqb). Totality and order/multiplicity invariance are checked by correspondence only so far.",
   technique="Coq proof by nested induction over values/types + vm_compute differential correspondence", ref="4/C04"),
 "C07": dict(
   text="Coq model of the generic traversal and all shipped rewriters (Model/Rewrite.v) with DEFAULT_REWRITER regenerated from source; theorems default_chain_modelled, noop_identity (monotonicity development pending); differential check over ~22k (rewriter chain, type) cases with Coq-evaluated verdicts: no exception, no witness value lost (tight reading in, annotation reading out), change only with trigger, model = implementation.",
   note="Trusted: Coq kernel + vm_compute; harness; typing's Union/==/`is` semantics as modelled; live __mro__/__bases__ tables.",
   technique="Coq model + theorems, vm_compute differential correspondence", ref="4/C07"),
}

checks = []
for p in props:
    i = p["id"]
    if i in CLAIMED:
        c = CLAIMED[i]
        checks.append({
            "property_id": i,
            "quick_cmd": f"./check {i} --tier quick",
            "thorough_cmd": f"./check {i} --tier thorough",
            "evidence_file": f"/verif/evidence/{i}.json",
            "replay_cmd_template": f"./check {i} --replay {{path}}",
            "engine": "coq-model-proofs",
            "level_claimed": {"category": "proof", "text": c["text"], "design_ref": "DESIGN.md section " + c["ref"]},
            "level_note": c["note"],
            "technique": c["technique"],
        })
m = {
 "version": 1,
 "setup_cmd": "./setup.sh",
 "hooks": {"guard": "MONKEYTYPE_VERIF",
           "enable": "no source hooks are needed: the harness wraps tracer/logger/store objects from outside; MONKEYTYPE_VERIF is not read by /repo",
           "baseline_off_cmd": "cd /repo && /venv/bin/python -m pytest -ra -q -p no:cacheprovider --timeout=900 --continue-on-collection-errors",
           "source_commits": [], "add_only": True},
 "engines": [
   {"name": "coq-model-proofs", "path": "coq/", "serves_properties": sorted(CLAIMED),
    "kind_free_text": "Gallina models + theorems (Coq 8.16.1, stdlib only), correspondence verdicts by vm_compute; driven by harness/driver.py"},
 ],
 "checks": checks,
 "notes": "See DESIGN.md. ./check <id> [--tier quick|thorough] [--replay FILE]; known findings in known_findings.json.",
 "not_applicable": [{"property_id": p["id"], "reason": "check under construction in this session (DESIGN.md section 8); not yet claimed"}
                    for p in props if p["id"] not in CLAIMED],
}
json.dump(m, open(os.path.join(HERE, "MANIFEST.json"), "w"), indent=1)
print("claimed:", sorted(CLAIMED))
