"""C08 fixture package, generated under ctx.work: functions of every kind the property lists (module
functions, methods, classmethods, staticmethods, read-only properties, functools.wraps-decorated
functions, nested classes) plus the edge kinds that are NOT importable (property with a setter, local
function, lambda, a name rebound to a non-wrapping decorator, a function whose module does not exist...).
FUNCS maps a label to (the function object a tracer would record, importable-by-construction?, kind)."""
import importlib
import os
import sys

PKG = "c08fx"

SOURCE = '''
import functools
import inspect
import typing


def deco(f):
    @functools.wraps(f)
    def w(*a, **k):
        return f(*a, **k)
    return w


def deco2(f):
    return deco(deco(f))


def sigdeco(f):
    """functools.wraps AND the wrapper publishes its own __signature__ (as signature-preserving decorator libraries do)"""
    @functools.wraps(f)
    def w(*a, **k):
        return f(*a, **k)
    w.__signature__ = inspect.signature(f)
    return w


def nowraps(f):
    def w(*a, **k):
        return f(*a, **k)
    return w


ORIG = {}


class DecoClass:
    """A decorator CLASS: the name is bound to an instance (not a function) whose __wrapped__ is the function."""

    def __init__(self, f):
        functools.update_wrapper(self, f)
        self.f = f

    def __call__(self, *a, **k):
        return self.f(*a, **k)


def keep(label):
    def d(f):
        ORIG[label] = f
        return f
    return d


def mfunc(a, b=1):
    return a


def gen(a):
    yield a


async def coro(a):
    return a


@deco
@keep("wrapped")
def wrapped(a):
    return a


@deco2
@keep("wrapped2")
def wrapped2(a):
    return a


@functools.lru_cache(maxsize=None)
@keep("lru")
def lru(a):
    return a


@DecoClass
@keep("dclass")
def dclass(a):
    return a


@DecoClass
@deco
@keep("dclass_over_wraps")
def dclass_over_wraps(a):
    return a


@sigdeco
@keep("sig1")
def sig1(a):
    return a


@sigdeco
@sigdeco
@keep("sig2")
def sig2(a):
    return a


@deco
@sigdeco
@keep("sig_under_plain")
def sig_under_plain(a):
    return a


@nowraps
@keep("shadowed")
def shadowed(a):
    return a


lam = lambda x: x


def make_local():
    def loc(x):
        return x
    return loc


LOCAL = make_local()


class K:
    def meth(self, x):
        return x

    @classmethod
    def cm(cls, x):
        return x

    @staticmethod
    def sm(x):
        return x

    @property
    def ro(self):
        return 1

    @property
    def rw(self):
        return 1

    @rw.setter
    def rw(self, v):
        pass

    @property
    def rd(self):
        return 1

    @rd.deleter
    def rd(self):
        pass

    wo = property(None, lambda self, v: None)

    @deco
    @keep("K.wmeth")
    def wmeth(self, x):
        return x

    @classmethod
    @deco
    @keep("K.wcm")
    def wcm(cls, x):
        return x

    @staticmethod
    @deco
    @keep("K.wsm")
    def wsm(x):
        return x

    @property
    @deco
    @keep("K.wprop")
    def wprop(self):
        return 1

    def __call__(self, x):
        return x

    @sigdeco
    @keep("K.sig_meth")
    def sig_meth(self, x):
        return x

    @classmethod
    @sigdeco
    @keep("K.sig_cm")
    def sig_cm(cls, x):
        return x

    @staticmethod
    @sigdeco
    @keep("K.sig_sm")
    def sig_sm(x):
        return x

    @functools.lru_cache(maxsize=None)
    @keep("K.lru_meth")
    def lru_meth(self, x):
        return x

    @DecoClass
    @keep("K.dc_meth")
    def dc_meth(self, x):
        return x

    @staticmethod
    @functools.lru_cache(maxsize=None)
    @keep("K.lru_sm")
    def lru_sm(x):
        return x

    @staticmethod
    @DecoClass
    @keep("K.dc_sm")
    def dc_sm(x):
        return x

    class Inner:
        def im(self, x):
            return x

        @classmethod
        def icm(cls, x):
            return x

        @property
        def iro(self):
            return 2

        class Deep:
            def dm(self):
                return 3

            @staticmethod
            def dsm():
                return 4


class Sub(K):
    pass


# user TypedDict CLASSES made with typing.TypedDict: as class objects they are ordinary named classes (encoded by name),
# not MonkeyType's anonymous TypedDicts
class Movie(typing.TypedDict):
    title: str
    year: int


class PartialMovie(typing.TypedDict, total=False):
    title: str
    rating: float


class Sequel(Movie, total=False):
    number: int


FunctionalTD = typing.TypedDict("FunctionalTD", {"a": int})

TYPING_TDS = [Movie, PartialMovie, Sequel, FunctionalTD]


# classes whose qualnames also exist in c08fx.other (another module of the package): different classes
class User:
    pass


class Account:
    pass


class Ledger:
    class Entry:
        pass


# user classes that merely share the NAME of an entry of encoding._HIDDEN_BUILTIN_TYPES (sentinel classes);
# only module "builtins" may be answered from that table
class NoneType:
    pass


class NotImplementedType:
    pass


class mappingproxy:
    pass


# plain classes that EXPOSE attributes only typing's generic aliases are supposed to carry; they are classes, nothing else
class ArgsTypes:
    __args__ = (int, str)


class ArgsEmpty:
    __args__ = ()


class ArgsNames:                       # e.g. a CLI command listing its argument names
    __args__ = ("name", "verbose")


class ArgsText:
    __args__ = "ab"


class HasOrigin:
    __origin__ = list


class OriginAndArgs:
    __origin__ = dict
    __args__ = ("k", 3)


class _AnswersEverything(type):
    def __getattr__(cls, name):
        if name == "__wrapped__":      # keep inspect.unwrap finite for the harness' own reifier
            raise AttributeError(name)
        return name


class Chatty(metaclass=_AnswersEverything):
    pass


ATTR_CLASSES = [ArgsTypes, ArgsEmpty, ArgsNames, ArgsText, HasOrigin, OriginAndArgs, Chatty]


# non-ASCII identifiers
class Caf\u00e9:
    def m\u00e9thode(self, x):
        return x


def na\u00efve(\u00e9, b=1):
    return \u00e9


class Outer:
    class NoneType:                    # control: the qualname "Outer.NoneType" is not a key of the table
        pass

    class mappingproxy:
        pass


class Plain:
    pass


def make_local_class():
    class LocalCls:
        pass
    return LocalCls


LocalCls = make_local_class()          # importable by accident? no: its qualname has <locals>


class Rebound:
    pass


ReboundOrig = Rebound
Rebound = Plain                        # the name now leads to another class


class Gone:
    pass


GoneOrig = Gone
del Gone                               # the name leads nowhere


class NotAType:
    pass


NotATypeOrig = NotAType
NotAType = 3                           # the name leads to something that is not a type


class FarAway:
    pass


FarAway.__module__ = "c08fx_no_such_module"


def renamed(x):
    return x


renamed.__qualname__ = "NotAType"      # leads to an int


def faraway(x):
    return x


faraway.__module__ = "c08fx_no_such_module"


def nowhere(x):
    return x


nowhere.__qualname__ = "K.no_such_attr"

alias = mfunc


# names that were re-bound after the function was traced: the row still says `aliased` / `relocal` / `K.swapped`
def aliased(x):
    return x


aliased_orig = aliased
aliased = mfunc                        # now another module-level function


def relocal(x):
    return x


relocal_orig = relocal
relocal = make_local()                 # now a local function


def _swapped(self, x):
    return x


_swapped.__qualname__ = "K.swapped"
K.swapped = K.__dict__["meth"]         # the name K.swapped leads to K.meth


SENTINELS = [NoneType, NotImplementedType, mappingproxy, Outer.NoneType, Outer.mappingproxy]

FUNCS = {
    "mfunc": (mfunc, True, "module function"),
    "gen": (gen, True, "module function"),
    "coro": (coro, True, "module function"),
    "alias": (alias, True, "module function"),
    "wrapped": (ORIG["wrapped"], True, "wraps"),
    "wrapped2": (ORIG["wrapped2"], True, "wraps"),
    "lru": (ORIG["lru"], True, "wrapper object (lru_cache)"),
    "dclass": (ORIG["dclass"], True, "wrapper object (decorator class)"),
    "dclass_over_wraps": (ORIG["dclass_over_wraps"], True, "wrapper object (decorator class)"),
    "K.lru_meth": (ORIG["K.lru_meth"], True, "wrapper object (lru_cache)"),
    "K.dc_meth": (ORIG["K.dc_meth"], True, "wrapper object (decorator class)"),
    "K.lru_sm": (ORIG["K.lru_sm"], True, "wrapper object (lru_cache)"),
    "K.dc_sm": (ORIG["K.dc_sm"], True, "wrapper object (decorator class)"),
    "na\u00efve": (na\u00efve, True, "non-ASCII name"),
    "Caf\u00e9.m\u00e9thode": (Caf\u00e9.__dict__["m\u00e9thode"], True, "non-ASCII name"),
    "sig1": (ORIG["sig1"], True, "wraps + __signature__"),
    "sig2": (ORIG["sig2"], True, "wraps + __signature__"),
    "sig_under_plain": (ORIG["sig_under_plain"], True, "wraps + __signature__"),
    "K.sig_meth": (ORIG["K.sig_meth"], True, "wraps + __signature__"),
    "K.sig_cm": (ORIG["K.sig_cm"], True, "wraps + __signature__"),
    "K.sig_sm": (ORIG["K.sig_sm"], True, "wraps + __signature__"),
    "K.meth": (K.__dict__["meth"], True, "method"),
    "K.__call__": (K.__dict__["__call__"], True, "method"),
    "K.cm": (K.__dict__["cm"].__func__, True, "classmethod"),
    "K.sm": (K.__dict__["sm"].__func__, True, "staticmethod"),
    "K.ro": (K.__dict__["ro"].fget, True, "read-only property"),
    "K.wmeth": (ORIG["K.wmeth"], True, "wraps"),
    "K.wcm": (ORIG["K.wcm"], True, "wraps"),
    "K.wsm": (ORIG["K.wsm"], True, "wraps"),
    "K.Inner.im": (K.Inner.__dict__["im"], True, "nested class"),
    "K.Inner.icm": (K.Inner.__dict__["icm"].__func__, True, "nested class"),
    "K.Inner.iro": (K.Inner.__dict__["iro"].fget, True, "nested class"),
    "K.Inner.Deep.dm": (K.Inner.Deep.__dict__["dm"], True, "nested class"),
    "K.Inner.Deep.dsm": (K.Inner.Deep.__dict__["dsm"].__func__, True, "nested class"),
    # ---- not importable: the name does not lead back to the function ----
    "K.rw": (K.__dict__["rw"].fget, False, "property with setter"),
    "K.rd": (K.__dict__["rd"].fget, False, "property with deleter"),
    "K.wo.fset": (K.__dict__["wo"].fset, False, "lambda"),
    "K.wprop": (ORIG["K.wprop"], False, "property over a wrapper"),
    "shadowed": (ORIG["shadowed"], False, "rebound by a non-wrapping decorator"),
    "aliased": (aliased_orig, False, "name re-bound to another function"),
    "relocal": (relocal_orig, False, "name re-bound to another function"),
    "K.swapped": (_swapped, False, "name re-bound to another function"),
    "lam": (lam, False, "lambda"),
    "LOCAL": (LOCAL, False, "local function"),
    "renamed": (renamed, False, "name leads to a non-function"),
    "faraway": (faraway, False, "module does not exist"),
    "nowhere": (nowhere, False, "attribute does not exist"),
}

CLASSES = {
    "K": (K, True), "K.Inner": (K.Inner, True), "K.Inner.Deep": (K.Inner.Deep, True), "Sub": (Sub, True),
    "Movie": (Movie, True), "PartialMovie": (PartialMovie, True), "Sequel": (Sequel, True), "FunctionalTD": (FunctionalTD, True),
    "Plain": (Plain, True), "User": (User, True), "Account": (Account, True), "Ledger": (Ledger, True),
    "Ledger.Entry": (Ledger.Entry, True),
    "ArgsTypes": (ArgsTypes, True), "ArgsEmpty": (ArgsEmpty, True), "ArgsNames": (ArgsNames, True), "ArgsText": (ArgsText, True),
    "HasOrigin": (HasOrigin, True), "OriginAndArgs": (OriginAndArgs, True), "Chatty": (Chatty, True), "Caf\u00e9": (Caf\u00e9, True),
    "NoneType": (NoneType, True), "NotImplementedType": (NotImplementedType, True), "mappingproxy": (mappingproxy, True),
    "Outer.NoneType": (Outer.NoneType, True), "Outer.mappingproxy": (Outer.mappingproxy, True),
    "LocalCls": (LocalCls, False), "Rebound": (ReboundOrig, False), "Gone": (GoneOrig, False),
    "NotAType": (NotATypeOrig, False), "FarAway": (FarAway, False),
}
'''


OTHER_SOURCE = '''
"""Second module of the fixture package: classes (and a function) with the SAME qualnames as c08fx.mod's."""


class User:
    pass


class Account:
    pass


class Plain:
    pass


class K:
    def meth(self, x):
        return x

    class Inner:
        def im(self, x):
            return x

        class Deep:
            pass


class Ledger:
    class Entry:
        pass


def mfunc(a, b=1):
    return a


CLASSES = {"User": (User, True), "Account": (Account, True), "Plain": (Plain, True), "K": (K, True),
           "K.Inner": (K.Inner, True), "K.Inner.Deep": (K.Inner.Deep, True), "Ledger.Entry": (Ledger.Entry, True)}
FUNCS = {"other.mfunc": (mfunc, True, "same qualname in another module"),
         "other.K.meth": (K.__dict__["meth"], True, "same qualname in another module"),
         "other.K.Inner.im": (K.Inner.__dict__["im"], True, "same qualname in another module")}
'''


def build(workdir: str):
    """Write the package under workdir, import it, return the module."""
    d = os.path.join(workdir, PKG)
    os.makedirs(d, exist_ok=True)
    with open(os.path.join(d, "__init__.py"), "w") as f:
        f.write("")
    with open(os.path.join(d, "mod.py"), "w", encoding="utf-8") as f:
        f.write(SOURCE)
    with open(os.path.join(d, "other.py"), "w", encoding="utf-8") as f:
        f.write(OTHER_SOURCE)
    if workdir not in sys.path:
        sys.path.insert(0, workdir)
    for k in [k for k in sys.modules if k == PKG or k.startswith(PKG + ".")]:
        del sys.modules[k]
    importlib.invalidate_caches()
    mod = importlib.import_module(PKG + ".mod")
    mod.OTHER = importlib.import_module(PKG + ".other")      # survives importlib.reload(mod): reload keeps unrelated names
    return mod


def teardown(workdir: str):
    if workdir in sys.path:
        sys.path.remove(workdir)
    for k in [k for k in sys.modules if k == PKG or k.startswith(PKG + ".") or k.startswith("c08fx_")]:
        del sys.modules[k]
