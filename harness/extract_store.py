"""Fail-closed `ast` extractor for the trace store (C09): reads the shape of monkeytype/db/sqlite.py and
monkeytype/encoding.serialize_traces the Coq model Model/Store.v depends on and writes coq/Gen/StoreConstants.v.

What is read (every item fails closed on a shape it does not recognise):
  * CREATE TABLE column list and the INSERT's value tuple (column -> CallTraceRow attribute);
  * `add`: every trace is serialised *before* the single `executemany` that sits alone inside one
    `with self.conn:` block  ->  store_add_shape = "SerialiseThenOneTransaction";
  * `serialize_traces`: `for trace in traces: try: yield from_trace(trace) except Exception: <log>`
    ->  store_serialise_shape = "SkipOnException";
  * make_query: module predicate, the qualname operator *and* the number of parameters appended for it,
    GROUP BY / SELECT columns, LIMIT ? as the last parameter  (operator classification:
    `qualname LIKE ? || '%'` with 1 parameter -> "LikePrefix";
    `substr(qualname, 1, length(?)) == ?` (or `=`) with the same value passed 2 times -> "ExactPrefix");
  * filter: rows are turned into CallTraceRow(*row) positionally, all rows fetched;
  * list_modules: SELECT module ... GROUP BY module, python-side `if row[0]` filter -> drops falsy (empty/NULL).
"""
import ast
import os
import re

from harness import common

ALL5 = ["module", "qualname", "arg_types", "return_type", "yield_type"]


class ExtractError(Exception):
    pass


def _parse(rel):
    p = os.path.join(common.REPO, rel)
    return ast.parse(open(p).read(), filename=p)


def _func(tree, name):
    for node in ast.walk(tree):
        if isinstance(node, (ast.FunctionDef, ast.AsyncFunctionDef)) and node.name == name:
            return node
    raise ExtractError(f"function {name} not found")


def _strs(node):
    """string literals below `node`, in source order"""
    ns = [n for n in ast.walk(node) if isinstance(n, ast.Constant) and isinstance(n.value, str)]
    return [n.value for n in sorted(ns, key=lambda n: (n.lineno, n.col_offset))]


def _norm(s):
    return re.sub(r"\s+", " ", s).strip()


def _cs(s):
    return '"' + s.replace('"', '""') + '"'


def _body(fn):
    return [s for s in fn.body if not (isinstance(s, ast.Expr) and isinstance(s.value, ast.Constant))]


def _is_self_conn(e):
    return isinstance(e, ast.Attribute) and e.attr == "conn" and isinstance(e.value, ast.Name) and e.value.id == "self"


def table_columns(tree):
    fn = _func(tree, "create_call_trace_table")
    sql = _norm(" ".join(_strs(fn)))
    m = re.search(r"CREATE TABLE IF NOT EXISTS \{table\} \(([^)]*)\)", sql)
    if not m:
        raise ExtractError("CREATE TABLE statement not recognised")
    cols = []
    for part in m.group(1).split(","):
        ws = part.split()
        if len(ws) != 2 or ws[1] != "TEXT":
            raise ExtractError(f"column declaration not `<name> TEXT`: {part!r}")   # constraints would change semantics
        cols.append(ws[0])
    if re.search(r"\b(UNIQUE|TRIGGER|PRIMARY|CHECK)\b", sql, flags=re.I):
        raise ExtractError("table has constraints/triggers the model does not know")
    return cols


def add_shape(tree):
    """-> (shape name, [attribute inserted per column])"""
    fn = _func(tree, "add")
    body = _body(fn)
    if len(body) != 3:
        raise ExtractError("add: expected `values = []; for ...; with self.conn: ...`")
    init, loop, w = body
    if not (isinstance(init, ast.Assign) and isinstance(init.value, ast.List) and not init.value.elts
            and isinstance(init.targets[0], ast.Name)):
        raise ExtractError("add: first statement is not `values = []`")
    vname = init.targets[0].id
    if not (isinstance(loop, ast.For) and isinstance(loop.iter, ast.Call) and isinstance(loop.iter.func, ast.Name)
            and loop.iter.func.id == "serialize_traces" and len(loop.iter.args) == 1
            and isinstance(loop.iter.args[0], ast.Name) and loop.iter.args[0].id == fn.args.args[1].arg
            and not loop.orelse and len(loop.body) == 1 and isinstance(loop.target, ast.Name)):
        raise ExtractError("add: second statement is not `for row in serialize_traces(traces): values.append(...)`")
    rname = loop.target.id
    app = loop.body[0]
    if not (isinstance(app, ast.Expr) and isinstance(app.value, ast.Call) and isinstance(app.value.func, ast.Attribute)
            and app.value.func.attr == "append" and isinstance(app.value.func.value, ast.Name)
            and app.value.func.value.id == vname and len(app.value.args) == 1
            and isinstance(app.value.args[0], ast.Tuple)):
        raise ExtractError("add: loop body is not values.append((...))")
    attrs = []
    for e in app.value.args[0].elts:
        if isinstance(e, ast.Attribute) and isinstance(e.value, ast.Name) and e.value.id == rname:
            attrs.append(e.attr)
        elif isinstance(e, ast.Call) and ast.unparse(e.func) == "datetime.datetime.now" and not e.args:
            attrs.append("<now>")
        else:
            raise ExtractError("add: inserted value not recognised: " + ast.unparse(e))
    if not (isinstance(w, ast.With) and len(w.items) == 1 and _is_self_conn(w.items[0].context_expr)
            and w.items[0].optional_vars is None and len(w.body) == 1):
        raise ExtractError("add: third statement is not a single-statement `with self.conn:`")
    ex = w.body[0]
    if not (isinstance(ex, ast.Expr) and isinstance(ex.value, ast.Call) and isinstance(ex.value.func, ast.Attribute)
            and ex.value.func.attr == "executemany" and _is_self_conn(ex.value.func.value)
            and len(ex.value.args) == 2 and isinstance(ex.value.args[1], ast.Name) and ex.value.args[1].id == vname):
        raise ExtractError("add: the transaction body is not one self.conn.executemany(<sql>, values)")
    sql = _norm(" ".join(_strs(ex.value.args[0])))
    m = re.fullmatch(r"INSERT INTO \{table\} VALUES \(((?:\?, )*\?)\)", sql)
    if not m:
        raise ExtractError("add: INSERT statement not recognised: " + sql)
    if m.group(1).count("?") != len(attrs):
        raise ExtractError("add: number of placeholders differs from the value tuple")
    return "SerialiseThenOneTransaction", attrs


def serialise_shape(enc_tree):
    fn = _func(enc_tree, "serialize_traces")
    body = _body(fn)
    if not (len(body) == 1 and isinstance(body[0], ast.For) and len(body[0].body) == 1
            and isinstance(body[0].body[0], ast.Try)):
        raise ExtractError("serialize_traces: not `for trace in traces: try: ...`")
    t = body[0].body[0]
    if not (len(t.body) == 1 and isinstance(t.body[0], ast.Expr) and isinstance(t.body[0].value, ast.Yield)
            and ast.unparse(t.body[0].value.value) == f"CallTraceRow.from_trace({body[0].target.id})"
            and len(t.handlers) == 1 and isinstance(t.handlers[0].type, ast.Name)
            and t.handlers[0].type.id == "Exception" and not t.orelse and not t.finalbody):
        raise ExtractError("serialize_traces: try body/handler not recognised")
    for s in t.handlers[0].body:
        if any(isinstance(n, (ast.Raise, ast.Return, ast.Break, ast.Yield)) for n in ast.walk(s)):
            raise ExtractError("serialize_traces: the handler does more than log")
    return "SkipOnException"


def query_shape(tree):
    fn = _func(tree, "make_query")
    sql = _norm(" ".join(_strs(fn)))
    if not re.search(r"WHERE module ==? \?", sql):
        raise ExtractError("make_query: module predicate is not `module == ?`")
    # parameters: values = [module]; (qualname appended k times under `if qualname is not None`); values.append(limit)
    args = [a.arg for a in fn.args.args]
    if args != ["table", "module", "qualname", "limit"]:
        raise ExtractError("make_query: unexpected parameter list")
    init = None
    n_qual, last_append, cond_ok = 0, None, False
    for node in ast.walk(fn):
        if isinstance(node, (ast.Assign, ast.AnnAssign)):
            tgt = node.targets[0] if isinstance(node, ast.Assign) else node.target
            if isinstance(tgt, ast.Name) and tgt.id == "values":
                init = node.value
    if not (isinstance(init, ast.List) and len(init.elts) == 1 and isinstance(init.elts[0], ast.Name)
            and init.elts[0].id == "module"):
        raise ExtractError("make_query: values is not initialised to [module]")
    ifs = [s for s in fn.body if isinstance(s, ast.If)]
    if len(ifs) != 1 or ast.unparse(ifs[0].test) != "qualname is not None" or ifs[0].orelse:
        raise ExtractError("make_query: expected exactly one `if qualname is not None:`")
    qual_sql = _norm(" ".join(_strs(ifs[0])))
    for node in ast.walk(ifs[0]):
        if isinstance(node, ast.Call) and isinstance(node.func, ast.Attribute) and isinstance(node.func.value, ast.Name) \
                and node.func.value.id == "values":
            if node.func.attr == "append" and len(node.args) == 1 and ast.unparse(node.args[0]) == "qualname":
                n_qual += 1
            elif node.func.attr == "extend" and len(node.args) == 1 and isinstance(node.args[0], (ast.List, ast.Tuple)) \
                    and all(ast.unparse(e) == "qualname" for e in node.args[0].elts):
                n_qual += len(node.args[0].elts)
            else:
                raise ExtractError("make_query: unrecognised parameter for the qualname clause")
    for s in fn.body:
        if isinstance(s, ast.Expr) and isinstance(s.value, ast.Call) and ast.unparse(s.value.func) == "values.append":
            last_append = ast.unparse(s.value.args[0])
    if last_append != "limit":
        raise ExtractError("make_query: the last parameter is not the limit")
    if re.fullmatch(r"AND qualname LIKE \? \|\| '%'", qual_sql) and n_qual == 1:
        op = "LikePrefix"
    elif re.fullmatch(r"AND substr\(qualname, 1, length\(\?\)\) ==? \?", qual_sql) and n_qual == 2:
        op = "ExactPrefix"
    else:
        raise ExtractError(f"make_query: qualname operator not recognised: {qual_sql!r} with {n_qual} parameter(s)")
    if qual_sql.count("?") != n_qual:
        raise ExtractError("make_query: placeholders and parameters of the qualname clause differ")
    m = re.search(r"GROUP BY ([a-z_, ]+?) ORDER BY", sql)
    m2 = re.search(r"SELECT ([a-z_, ]+?) FROM \{table\}", sql)
    if not m or not m2:
        raise ExtractError("make_query: SELECT / GROUP BY not found")
    if not sql.endswith("LIMIT ?") or sql.count("?") != 2 + n_qual:
        raise ExtractError("make_query: LIMIT ? is not the last placeholder")
    if re.search(r"\b(COLLATE|ESCAPE|HAVING|DISTINCT|JOIN|OR)\b", sql):
        raise ExtractError("make_query: clause the model does not know")
    return op, [c.strip() for c in m2.group(1).split(",")], [c.strip() for c in m.group(1).split(",")]


def filter_shape(tree):
    fn = _func(tree, "filter")
    src = ast.unparse(fn)
    if "make_query(self.table, module, qualname_prefix, limit)" not in src:
        raise ExtractError("filter: make_query call not recognised")
    if "[CallTraceRow(*row) for row in cur.fetchall()]" not in src:
        raise ExtractError("filter: result construction not recognised")
    return "AllRowsPositional"


def list_modules_shape(tree):
    fn = None
    for node in ast.walk(tree):
        if isinstance(node, ast.ClassDef) and node.name == "SQLiteStore":
            for s in node.body:
                if isinstance(s, ast.FunctionDef) and s.name == "list_modules":
                    fn = s
    if fn is None:
        raise ExtractError("SQLiteStore.list_modules not found")
    sql = _norm(" ".join(_strs(fn)))
    if not re.fullmatch(r"SELECT module FROM \{table\} GROUP BY module( ORDER BY date\(created_at\) DESC)?", sql):
        raise ExtractError("list_modules: query not recognised: " + sql)
    src = ast.unparse(fn)
    if "[row[0] for row in cur.fetchall() if row[0]]" in src:
        return True
    if "[row[0] for row in cur.fetchall()]" in src:
        return False
    raise ExtractError("list_modules: result construction not recognised")


def render():
    sq = _parse("monkeytype/db/sqlite.py")
    enc = _parse("monkeytype/encoding.py")
    cols = table_columns(sq)
    shape, attrs = add_shape(sq)
    if len(attrs) != len(cols):
        raise ExtractError("INSERT arity differs from the table's column count")
    op, select, group = query_shape(sq)
    L = []
    w = L.append
    w("(* GENERATED by harness/extract_store.py from monkeytype/db/sqlite.py and encoding.py. Do not edit. *)")
    w("From Coq Require Import List String.")
    w("Import ListNotations.")
    w("Open Scope string_scope.")
    w("")
    w("Definition store_table_columns : list string := [" + "; ".join(_cs(c) for c in cols) + "].")
    w("Definition store_insert_values : list string := [" + "; ".join(_cs(c) for c in attrs) + "].")
    w(f"Definition store_add_shape : string := {_cs(shape)}.")
    w(f"Definition store_serialise_shape : string := {_cs(serialise_shape(enc))}.")
    w(f"Definition store_qualname_operator : string := {_cs(op)}.")
    w("Definition store_select_columns : list string := [" + "; ".join(_cs(c) for c in select) + "].")
    w("Definition store_group_columns : list string := [" + "; ".join(_cs(c) for c in group) + "].")
    w(f"Definition store_filter_shape : string := {_cs(filter_shape(sq))}.")
    w(f"Definition store_list_modules_drops_falsy : bool := {'true' if list_modules_shape(sq) else 'false'}.")
    return "\n".join(L) + "\n"


def regenerate():
    """Returns (ok, message).  Writes only when the content changed, so make stays incremental."""
    path = os.path.join(common.COQ, "Gen", "StoreConstants.v")
    try:
        text = render()
    except (ExtractError, SyntaxError, OSError, AttributeError, KeyError, IndexError) as e:
        # keep the previously generated file: the proof status is reported as broken by the caller, but the
        # correspondence harness can still be built (against the last understood model) to search for a failing input
        return False, f"{type(e).__name__}: {e}"
    old = open(path).read() if os.path.exists(path) else None
    if old != text:
        os.makedirs(os.path.dirname(path), exist_ok=True)
        with open(path, "w") as f:
            f.write(text)
    return True, "ok"


if __name__ == "__main__":
    print(regenerate())
    p = os.path.join(common.COQ, "Gen", "StoreConstants.v")
    if os.path.exists(p):
        print(open(p).read())
