(* Model/Tight.v — C05: an executable reading of "the inferred type admits nothing that was not seen".
   tightb t vs : the type t is tight for the collection vs of values observed at one position. *)
From MT Require Export Types.

Definition nonempty {A} (l : list A) : bool := match l with [] => false | _ => true end.
Definition subN (c a : cls) : bool := N.eqb c a.          (* exact runtime class *)
Notation memx := (member false subN).                     (* tight reading: Any admits nothing *)

Definition is_plain (v : value) : bool := match v with VAtom _ _ | VStr _ => true | _ => false end.
Definition list_elems (v : value) : list value := match v with VList es => es | _ => [] end.
Definition set_elems (v : value) : list value := match v with VSet es => es | _ => [] end.
Definition tuple_elems (v : value) : list value := match v with VTuple es => es | _ => [] end.
Definition dict_items (v : value) : list (value * value) :=
  match v with VDict kvs | VDefaultDict kvs => kvs | _ => [] end.
Definition is_vlist v := match v with VList _ => true | _ => false end.
Definition is_vset v := match v with VSet _ => true | _ => false end.
Definition is_vtuple v := match v with VTuple _ => true | _ => false end.
Definition is_vdict v := match v with VDict _ => true | _ => false end.
Definition is_vddict v := match v with VDefaultDict _ => true | _ => false end.

Definition heads (rows : list (list value)) : list value :=
  flat_map (fun r => match r with [] => [] | x :: _ => [x] end) rows.
Definition tails (rows : list (list value)) : list (list value) := map (@tl value) rows.

Definition str_keyed (v : value) : bool :=
  match v with
  | VDict kvs => forallb (fun kv => match fst kv with VStr _ => true | _ => false end) kvs
  | _ => false end.
Definition under_key (s : string) (vs : list value) : list value :=
  flat_map (fun v => match lookup_str s (dict_items v) with Some x => [x] | None => [] end) vs.
Definition has_skey (s : string) (v : value) : bool := has_key s (dict_items v).

(* memt v t: v is exactly an instance of t's shape in the tight reading: exact runtime classes, Any admits
   nothing, and (unlike `member`) Dict does NOT admit a defaultdict — get_type gives a defaultdict its own
   DefaultDict alternative, so that is the alternative it witnesses. *)
Fixpoint memt (v : value) (t : ty) {struct t} : bool :=
  match t with
  | TAny => false
  | TCls c => is_plain v && N.eqb (class_of v) c     (* only plain instances witness a class alternative *)
  | TType t' => match v with VClassObj c => match t' with TCls c0 => N.eqb c c0 | _ => false end | _ => false end
  | TCallable => match v with VCallable => true | _ => false end
  | TList t' => match v with VList es => forallb (fun e => memt e t') es | _ => false end
  | TSet t' => match v with VSet es => forallb (fun e => memt e t') es | _ => false end
  | TIterator _ | TGenerator _ _ _ => match v with VGen => true | _ => false end
  | TDict k vt => match v with
                 | VDict kvs => forallb (fun kv => memt (fst kv) k && memt (snd kv) vt) kvs
                 | _ => false end
  | TDefaultDict k vt => match v with
                 | VDefaultDict kvs => forallb (fun kv => memt (fst kv) k && memt (snd kv) vt) kvs
                 | _ => false end
  | TTuple ts => match v with
                 | VTuple es => (fix go (ts : list ty) (es : list value) : bool :=
                                   match ts, es with
                                   | [], [] => true
                                   | t1 :: ts', e :: es' => memt e t1 && go ts' es'
                                   | _, _ => false end) ts es
                 | _ => false end
  | TTupleVar t' => match v with VTuple es => forallb (fun e => memt e t') es | _ => false end
  | TUnion ts => (fix ex (ts : list ty) : bool :=
                    match ts with [] => false | t1 :: r => memt v t1 || ex r end) ts
  | TTypedDict req opt =>
      (* as `member`, but field values are matched with memt again (so a defaultdict under a key does not
         witness a Dict-typed field) *)
      match v with
      | VDict kvs =>
          forallb (fun kv =>
                     match fst kv with
                     | VStr s =>
                         (fix find (fs : list (string * ty)) : bool :=
                            match fs with
                            | f :: r => if String.eqb s (fst f) then memt (snd kv) (snd f) else find r
                            | [] =>
                                (fix find2 (fs2 : list (string * ty)) : bool :=
                                   match fs2 with
                                   | f :: r => if String.eqb s (fst f) then memt (snd kv) (snd f) else find2 r
                                   | [] => false
                                   end) opt
                            end) req
                     | _ => false
                     end) kvs
          && forallb (fun f => has_key (fst f) kvs) req
      | _ => false end
  | TFwd _ => false
  end.

Fixpoint tightb (t : ty) (vs : list value) {struct t} : bool :=
  match t with
  | TAny => negb (nonempty vs)                  (* Any only where nothing was seen *)
  | TCls c => nonempty vs && forallb (fun v => is_plain v && N.eqb (class_of v) c) vs
  | TType (TCls c) => nonempty vs && forallb (fun v => match v with VClassObj d => N.eqb c d | _ => false end) vs
  | TType _ => false
  | TCallable => nonempty vs && forallb (fun v => match v with VCallable => true | _ => false end) vs
  | TIterator TAny => nonempty vs && forallb (fun v => match v with VGen => true | _ => false end) vs
  | TIterator _ => false
  | TList x => nonempty vs && forallb is_vlist vs && tightb x (flat_map list_elems vs)
  | TSet x => nonempty vs && forallb is_vset vs && tightb x (flat_map set_elems vs)
  | TDict k v =>
      nonempty vs && forallb is_vdict vs
      && tightb k (map fst (flat_map dict_items vs)) && tightb v (map snd (flat_map dict_items vs))
  | TDefaultDict k v =>
      nonempty vs && forallb is_vddict vs
      && tightb k (map fst (flat_map dict_items vs)) && tightb v (map snd (flat_map dict_items vs))
  | TTuple ts =>
      nonempty vs && forallb is_vtuple vs
      && (fix go (ts : list ty) (rows : list (list value)) : bool :=
            match ts with
            | [] => forallb (fun r => negb (nonempty r)) rows
            | t1 :: ts' => forallb (fun r => nonempty r) rows && tightb t1 (heads rows) && go ts' (tails rows)
            end) ts (map tuple_elems vs)
  | TUnion ts =>
      Nat.leb 2 (List.length ts)
      && forallb (fun v => existsb (fun ti => memt v ti) ts) vs
      && forallb (fun ti => nonempty (filter (fun v => memt v ti) vs)
                            && tightb ti (filter (fun v => memt v ti) vs)) ts
  | TTypedDict req opt =>
      nonempty vs && forallb str_keyed vs
      && forallb (fun v => forallb (fun kv => match fst kv with
                                              | VStr s => existsb (fun f => String.eqb s (fst f)) req
                                                          || existsb (fun f => String.eqb s (fst f)) opt
                                              | _ => false end) (dict_items v)) vs
      && forallb (fun f => forallb (has_skey (fst f)) vs && tightb (snd f) (under_key (fst f) vs)) req
      && forallb (fun f => existsb (has_skey (fst f)) vs && existsb (fun v => negb (has_skey (fst f) v)) vs
                           && tightb (snd f) (under_key (fst f) vs)) opt
  | TTupleVar _ | TGenerator _ _ _ | TFwd _ => false     (* never inferred before rewriting *)
  end.
