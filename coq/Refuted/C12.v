(* C12, finding kf_nested_class: a method of a nested class (traces of tgt.Outer.Inner.m) is rendered under
   `class Outer.Inner:`, which is not a class header; the whole module stub fails to parse.  The repair is the
   `TODO: Handle nested classes` of build_module_stubs (ClassStub would have to nest), not a small patch. *)
From Coq Require Import List Bool Arith ZArith String Ascii.
From MT Require Import Constants StubRender.
Import ListNotations.
Open Scope list_scope.

Definition nested_witness : list fdef :=
  [FDef "tgt" "Outer.Inner.m" KInstance false [Param "self" PK None false; Param "x" PK (Some "int") false] None [];
   FDef "tgt" "f" KModule false [] None []]%string.

(* module_parses without its premise `kf_nested_class d = false` is false *)
Theorem module_parses_refuted :
  exists ds : list fdef,
    NoDup (map fd_qualname ds)
    /\ Forall (fun d => valid_def d = true) ds
    /\ (exists d, In d ds /\ kf_nested_class d = true)
    /\ lines_text (render_module (build_one ds)) =
"def f(): ...


class Outer.Inner:
    def m(self, x: int): ..."%string
    /\ parse_module (render_module (build_one ds)) = None.
Proof.
  exists nested_witness. split; [|split; [|split; [|split]]].
  - repeat constructor; cbn; intuition discriminate.
  - repeat constructor.
  - eexists. split; [left; reflexivity|reflexivity].
  - vm_compute. reflexivity.
  - vm_compute. reflexivity.
Qed.
Print Assumptions module_parses_refuted.
