(* Check/Common.v — helpers shared by the correspondence verdict files. *)
From MT Require Export Types.

Section Bad.
Context {A : Type} (verdict : A -> nat).
(* indices and codes of the cases whose verdict is not 0 *)
Fixpoint bad (i : nat) (cs : list A) : list (nat * nat) :=
  match cs with
  | [] => []
  | c :: r => let v := verdict c in
              if Nat.eqb v 0 then bad (S i) r else (i, v) :: bad (S i) r
  end.
End Bad.
