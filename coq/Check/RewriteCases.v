(* Check/RewriteCases.v — verdicts for the rewriter correspondence (C07).
   0 ok; 1 model/implementation mismatch; 2 property predicate false on the implementation's output
   (raised, narrowed a witness value, or changed the type without its trigger). *)
From MT Require Export Rewrite Hier RewriteTrigger Common.

Record rcase := RCase {
  rrs : list rewriter;        (* the chain applied, in order *)
  rin : ty;                   (* input type *)
  rimpl : ty;                 (* what /repo returned *)
  rraised : bool;             (* /repo raised instead *)
  rws : list value            (* witness values *)
}.

(* the trigger predicates live in Model/RewriteTrigger.v (proved necessary for any change: Props/C07.v) *)

(* 3 = the emitted class tables violate the premises of the C07 theorems (harness bug, never the code's fault) *)
Definition verdict_c07 (h : hierarchy) (bt : bases_table) (c : rcase) : nat :=
  if negb (wf_hier h && bt_ok h bt) then 3 else
  if negb (normal (rin c)) then 3 else        (* typing never builds a non-normal union *)
  if rraised c then 2
  else if negb (forallb (fun v => implb (member false (subclass h) v (rin c))
                                        (member true (subclass h) v (rimpl c))) (rws c)) then 2
  else if (match rrs c with
           | [r] => negb (corrb (rin c) (rimpl c)) && negb (fires r (rin c))
           | _ => false end) then 2
  (* a chain that, by the model, leaves this type as it is (no rewriter fires at any stage: rw_unchanged_without_trigger)
     must leave it as it is *)
  else if corrb (rw_chain h bt (rrs c) (rin c)) (rin c) && negb (corrb (rin c) (rimpl c)) then 2
  else if corrb (rw_chain h bt (rrs c) (rin c)) (rimpl c) then 0 else 1.
