(* C12 — stubs are valid Python and mirror the traced functions' real signatures. *)
From Coq Require Import List Bool Arith ZArith String Ascii Permutation.
From MT Require Import Constants StubRenderConstants StubRender StubRenderSig StubRenderModule StubRenderProps.
Import ListNotations.
Open Scope list_scope.

(* What render_signature writes for any signature inspect accepts, Python's parameter grammar reads back with the same
   names, kinds, order, presence of defaults and of annotations — in the single-line layout and in the
   one-parameter-per-line layout with any prefix. *)
Theorem signature_roundtrip :
  forall (l : layout) (ps : list param) (ret : option string),
    valid_signature ps = true -> reparse (render_sig l ps ret) = Some (map erase ps).
Proof. exact signature_roundtrip_lemma. Qed.
Print Assumptions signature_roundtrip.

(* ... hence also for the layout the length test picks, whatever the limit and prefix, and after the strip_modules
   replacement FunctionStub.render applies to the annotation texts *)
Theorem signature_roundtrip_as_rendered :
  forall (mods : list string) (mx : option Z) (prefix : string) (ps : list param) (ret : option string),
    valid_signature ps = true ->
    reparse_sig (map (strip_tok mods) (render_signature mx prefix ps ret)) = Some (map erase ps, isSome ret).
Proof. exact reparse_sig_as_rendered. Qed.
Print Assumptions signature_roundtrip_as_rendered.

(* the wrapped layout differs from the single line in layout tokens only (no validity premise) *)
Theorem wrap_irrelevant :
  forall (prefix : string) (ps : list param) (ret : option string),
    strip_layout (render_sig (Multi prefix) ps ret) = strip_layout (render_sig Single ps ret).
Proof. exact wrap_irrelevant_lemma. Qed.
Print Assumptions wrap_irrelevant.

(* For definitions with pairwise distinct qualnames, none of them in the nested-class finding, the rendered module
   parses; every definition's (class path, name) occurs exactly once; every item shown is the expected item of some
   definition (nothing untraced appears); and there are as many items as definitions. *)
Theorem placed_once :
  forall ds : list fdef,
    NoDup (map fd_qualname ds) ->
    Forall (fun d => valid_def d = true /\ kf_nested_class d = false) ds ->
    exists items,
      parse_module (render_module (build_one ds)) = Some items
      /\ (forall d, In d ds -> count_occ key_dec (map item_key items) (fd_key d) = 1)
      /\ (forall it, In it items -> exists d, In d ds /\ it = expected_item d)
      /\ List.length items = List.length ds.
Proof. exact placed_once_lemma. Qed.
Print Assumptions placed_once.

(* the item shown under a definition's (class, name) sits in that class, carries the decorator of its kind
   (CLASS classmethod, STATIC staticmethod, PROPERTY property, DJANGO_CACHED_PROPERTY cached_property, none otherwise),
   is `async` iff the definition is, and has the definition's parameters *)
Theorem decorator_matches_kind :
  forall (ds : list fdef) (d : fdef),
    NoDup (map fd_qualname ds) ->
    Forall (fun d => valid_def d = true /\ kf_nested_class d = false) ds -> In d ds ->
    exists items,
      parse_module (render_module (build_one ds)) = Some items
      /\ (exists it, In it items /\ item_key it = fd_key d)
      /\ (forall it, In it items -> item_key it = fd_key d ->
            it_class it = fd_class_path d
            /\ it_decor it = decorator_of (fd_kind d)
            /\ it_async it = fd_async d
            /\ it_params it = map erase (fd_params d)).
Proof. exact decorator_matches_kind_lemma. Qed.
Print Assumptions decorator_matches_kind.

(* any list of definitions outside the finding class (repeated qualnames allowed: the dict keeps the last) gives, for
   every module, a stub that parses, to exactly the functions placed in it *)
Theorem module_parses :
  forall (ds : list fdef) (m : string) (ms : mstub),
    Forall (fun d => valid_def d = true /\ kf_nested_class d = false) ds ->
    In (m, ms) (build_module_stubs ds) ->
    parse_module (render_module ms) = Some (items_of_mstub ms).
Proof. exact module_parses_lemma. Qed.
Print Assumptions module_parses.

(* update_signature_args never gives the receiver of a method a traced type: it keeps the source's annotation
   (drops it under OMIT), whatever was traced for that name *)
Theorem receiver_untouched :
  forall (k : fkind) (st : strategy) (traced : string -> option string) (p : param) (r : list param),
    has_self k = true ->
    exists p' r',
      update_signature_args k st traced (p :: r) = p' :: r'
      /\ p_name p' = p_name p /\ p_kind p' = p_kind p /\ p_default p' = p_default p
      /\ p_anno p' = (if strategy_eqb st OMIT then None else p_anno p).
Proof. exact receiver_lemma. Qed.
Print Assumptions receiver_untouched.

(* ... so the stub shows a method's receiver unannotated whenever the source leaves it unannotated *)
Theorem receiver_never_annotated :
  forall (ds : list fdef) (d : fdef) (st : strategy) (traced : string -> option string) (p : param) (r : list param),
    NoDup (map fd_qualname ds) ->
    Forall (fun d => valid_def d = true /\ kf_nested_class d = false) ds -> In d ds ->
    has_self (fd_kind d) = true -> p_anno p = None ->
    fd_params d = update_signature_args (fd_kind d) st traced (p :: r) ->
    exists items it rest,
      parse_module (render_module (build_one ds)) = Some items
      /\ In it items /\ item_key it = fd_key d
      /\ it_params it = (p_name p, p_kind p, p_default p, false) :: rest.
Proof. exact receiver_never_annotated_lemma. Qed.
Print Assumptions receiver_never_annotated.

(* ---------------------------------------------------------------------------------------------- *)
(* non-vacuity                                                                                     *)
(* ---------------------------------------------------------------------------------------------- *)
Definition ex_ps : list param :=
  [Param "a" PO None false; Param "b" PO (Some "int") true; Param "c" PK None true;
   Param "args" VP (Some "str") false; Param "k" KO (Some "Optional[typing.List[int]]") true;
   Param "k2" KO None false; Param "kw" VK None false]%string.

(* a valid signature with all five kinds; the two layouts are different texts and the same parameters *)
Example ex_signature_roundtrip :
  valid_signature ex_ps = true
  /\ toks_text (render_sig Single ex_ps (Some "int"%string))
     = "(a, b: int = ..., /, c = ..., *args: str, k: Optional[typing.List[int]] = ..., k2, **kw) -> int"%string
  /\ toks_text (render_sig (Multi "    ") ex_ps None) <> toks_text (render_sig Single ex_ps None)
  /\ reparse (render_sig (Multi "    ") ex_ps None)
     = Some [("a", PO, false, false); ("b", PO, true, true); ("c", PK, true, false); ("args", VP, false, true);
             ("k", KO, true, true); ("k2", KO, false, false); ("kw", VK, false, false)]%string
  /\ valid_signature [Param "x" PK None true; Param "y" PK None false]%string = false
  /\ reparse (render_sig Single [Param "x" PK None true; Param "y" PK None false]%string None) = None.
Proof. vm_compute. repeat split; try reflexivity. discriminate. Qed.

(* the length test really picks both layouts *)
Example ex_wrap_chosen :
  choose_layout (Some 120%Z) "" ex_ps None = Single
  /\ choose_layout (Some 40%Z) "    " ex_ps None = Multi "    ".
Proof. vm_compute. split; reflexivity. Qed.

Definition ex_ds : list fdef :=
  [FDef "m" "Outer.cm" KClass false [Param "cls" PK None false; Param "x" PK (Some "int") false] (Some "int") ["typing"];
   FDef "m" "run" KModule true [] None [];
   FDef "m" "Outer.sm" KStatic false [Param "x" PO (Some "typing.List[int]") true] None ["typing"];
   FDef "m" "Zed.p" KProperty false [Param "self" PK None false] (Some "str") [];
   FDef "m" "Outer.meth" KInstance true
        (update_signature_args KInstance REPLICATE (fun _ => Some "int")
           [Param "self" PK None false; Param "y" KO None true]) None []]%string.

Example ex_placed :
  NoDup (map fd_qualname ex_ds)
  /\ Forall (fun d => valid_def d = true /\ kf_nested_class d = false) ex_ds
  /\ lines_text (render_module (build_one ex_ds)) =
"async def run(): ...


class Outer:
    @classmethod
    def cm(cls, x: int) -> int: ...
    async def meth(self, *, y: int = ...): ...
    @staticmethod
    def sm(x: List[int] = ..., /): ...


class Zed:
    @property
    def p(self) -> str: ..."%string
  /\ option_map (map (fun it => (item_key it, it_decor it, it_async it))) (parse_module (render_module (build_one ex_ds)))
     = Some [(([], "run"), [], true); ((["Outer"], "cm"), ["classmethod"], false); ((["Outer"], "meth"), [], true);
             ((["Outer"], "sm"), ["staticmethod"], false); ((["Zed"], "p"), ["property"], false)]%string.
Proof.
  split; [|split; [|split]].
  - repeat constructor; cbn; intuition discriminate.
  - repeat constructor; reflexivity.
  - vm_compute. reflexivity.
  - vm_compute. reflexivity.
Qed.

(* _KIND_WITH_SELF as it is in the source today *)
Example ex_has_self :
  map has_self [KModule; KClass; KInstance; KStatic; KProperty; KCachedProperty] = [false; true; true; false; true; true].
Proof. vm_compute. reflexivity. Qed.

(* the literals the model copies from monkeytype/stubs.py equal what the source says now
   (Gen/StubRenderConstants.v is regenerated from /repo on every run) *)
Example ex_source_literals :
  max_line = stub_max_line_len
  /\ map (fun k => (fkind_name k, decorator_of k)) [KModule; KClass; KInstance; KStatic; KProperty; KCachedProperty]
     = stub_decorators
  /\ map fst stub_decorators = map fst function_kinds
  /\ indent4 = stub_class_body_prefix
  /\ lines_multi "" [FSlash] = [TLayout (String nl stub_wrapped_param_indent); TSlash]
  /\ toks_text (join_single [FSlash; FSlash]) = ("/" ++ stub_single_line_separator ++ "/")%string
  /\ lines_text (join_parts [[LBlank]; [LBlank]]) = string_of_list_ascii (repeat nl stub_part_separator_newlines)
  /\ stub_strip_pattern = "(?<![\w.])(?:%s)\."%string
  /\ strip_text ["typing"; "a.b"; "a"] "typing.Dict[str, a.b.C, mytyping.X, a.D, x.a.E, typing.Optional[a.b.typing.Q]]"
     = "Dict[str, C, mytyping.X, D, x.a.E, Optional[typing.Q]]"%string.
Proof. vm_compute. repeat split; reflexivity. Qed.
