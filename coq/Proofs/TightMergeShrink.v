(* Proofs/TightMergeShrink.v — C05: shrink (all four paths) maps witnessed, covered inputs to a tight type;
   get_type and infer are tight. *)
From MT Require Import Types Infer Tight TypesFacts UnionFacts InferFacts InferSound GetTypeSound
                       TightMergeBase TightMergeUnion.
From Coq Require Import Lia.

Notation keys m := (map fst m) (only parsing).

(* ---------- where the merged maps' entries come from ---------- *)
Lemma merge_origin ts e ft :
  In e (required_of ts) \/ In e (optional_of ts) -> In ft (snd e) ->
  exists x, In x ts /\ (In (fst e, ft) (td_req x) \/ In (fst e, ft) (td_opt x)).
Proof.
  intros [H|H] Hft.
  - destruct (required_entry ts e H) as [E _]. rewrite E, kv_lookup in Hft.
    apply in_flat_map in Hft. destruct Hft as [x [Hx Hft]]. apply In_vals_of in Hft. eauto.
  - pose proof (optional_entry ts e H) as E. rewrite E in Hft. apply in_app_or in Hft. destruct Hft as [Hft|Hft].
    + destruct (lookup_m_filter (fun e0 : string * list ty => negb (Nat.eqb (List.length (snd e0)) (List.length ts)))
                  (fst e) (kvmap ts []) (ND_kv ts)) as [Z|[Z _]]; rewrite Z in Hft; [destruct Hft|].
      rewrite kv_lookup in Hft. apply in_flat_map in Hft. destruct Hft as [x [Hx Hft]].
      apply In_vals_of in Hft. eauto.
    + apply In_vals_of in Hft. apply in_flat_map in Hft. destruct Hft as [x [Hx Hft]]. eauto.
Qed.

Lemma optional_key_origin ts s :
  In s (keys (optional_of ts)) ->
  exists x, In x ts /\ (In s (keys (td_req x)) \/ In s (keys (td_opt x))).
Proof.
  intros H.
  change (optional_of ts) with
    (add_fields (flat_map td_opt ts)
       (filter (fun e0 : string * list ty => negb (Nat.eqb (List.length (snd e0)) (List.length ts))) (kvmap ts []))) in H.
  apply keys_add_fields in H. destruct H as [H|H].
  - apply in_map_iff in H. destruct H as [f [<- Hf]]. apply in_flat_map in Hf. destruct Hf as [x [Hx Hf]].
    exists x. split; [exact Hx|]. right. apply in_map. exact Hf.
  - apply in_map_iff in H. destruct H as [e [<- He]]. apply filter_In in He. destruct He as [He _].
    apply (in_map fst) in He. apply keys_kvmap in He. destruct He as [[x [Hx Hs]]|[]]. eauto.
Qed.

Lemma forallb_false_exists {A} (f : A -> bool) l : forallb f l = false -> exists x, In x l /\ f x = false.
Proof.
  induction l as [|a l IH]; cbn [forallb]; intros H; [discriminate H|].
  destruct (f a) eqn:E; cbn [andb] in H.
  - destruct (IH H) as [x [Hx Fx]]. exists x. split; [right; exact Hx|exact Fx].
  - exists a. split; [left; reflexivity|exact E].
Qed.

Lemma flat_map_length_exact {A B} (g : A -> list B) l :
  (forall x, In x l -> List.length (g x) = 1) -> List.length (flat_map g l) = List.length l.
Proof.
  induction l as [|a l IH]; intros H; [reflexivity|]. cbn [flat_map List.length]. rewrite app_length, IH.
  - rewrite (H a (or_introl eq_refl)). reflexivity.
  - intros x Hx. apply H. right. exact Hx.
Qed.

Lemma required_unfold ts :
  required_of ts = filter (fun e0 : string * list ty => Nat.eqb (List.length (snd e0)) (List.length ts)) (kvmap ts []).
Proof. reflexivity. Qed.

(* a key that is not required is missing from the required fields of some input *)
Lemma not_everywhere ts s :
  Forall wf_ty ts -> ts <> [] -> ~ In s (keys (required_of ts)) ->
  exists x, In x ts /\ ~ In s (keys (td_req x)).
Proof.
  intros W N NR.
  destruct (forallb (fun x => if in_dec string_dec s (keys (td_req x)) then true else false) ts) eqn:A.
  - exfalso. apply NR. rewrite forallb_forall in A.
    assert (All : forall x, In x ts -> In s (keys (td_req x))).
    { intros x Hx. specialize (A x Hx). destruct (in_dec string_dec s (keys (td_req x))); [assumption|discriminate A]. }
    assert (L : List.length (lookup_m s (kvmap ts [])) = List.length ts).
    { rewrite kv_lookup. apply flat_map_length_exact. intros x Hx.
      rewrite Forall_forall in W. destruct (wf_td_parts x (W x Hx)) as [ND _].
      pose proof (vals_of_length_le s (td_req x) ND) as LE.
      pose proof (All x Hx) as Hs. apply in_map_iff in Hs. destruct Hs as [[s' ft] [E Hf]]. cbn [fst] in E. subst s'.
      apply In_vals_of in Hf. destruct (vals_of s (td_req x)) as [|a [|b l]]; [destruct Hf|reflexivity|cbn in LE; lia]. }
    assert (K : In s (keys (kvmap ts []))).
    { apply keys_kvmap. left. destruct ts as [|x ts']; [congruence|]. exists x. split; [left; reflexivity|].
      apply All. left. reflexivity. }
    apply lookup_m_In in K. rewrite required_unfold.
    apply (in_map fst) with (x := (s, lookup_m s (kvmap ts []))). apply filter_In. split; [exact K|].
    cbn [snd]. apply Nat.eqb_eq. exact L.
  - apply forallb_false_exists in A. destruct A as [x [Hx Fx]]. exists x. split; [exact Hx|].
    destruct (in_dec string_dec s (keys (td_req x))); [discriminate Fx|assumption].
Qed.

Lemma entry_eq (m : list (string * list ty)) e e' :
  NoDup (keys m) -> In e m -> In e' m -> fst e = fst e' -> e = e'.
Proof.
  intros ND H H' E. destruct e as [s l], e' as [s' l']. cbn [fst] in E. subst s'.
  rewrite <- (lookup_m_NoDup s l m ND H), <- (lookup_m_NoDup s l' m ND H'). reflexivity.
Qed.

Lemma entry_unique ts e e' :
  keys_disjoint (required_of ts) (optional_of ts) = true ->
  In e (required_of ts) \/ In e (optional_of ts) ->
  In e' (required_of ts) \/ In e' (optional_of ts) -> fst e = fst e' -> e = e'.
Proof.
  intros DJ [H|H] [H'|H'] E.
  - apply (entry_eq _ e e' (ND_required' ts)); assumption.
  - exfalso. apply (keys_disjoint_spec _ _ (fst e) DJ); [apply in_map; exact H|rewrite E; apply in_map; exact H'].
  - exfalso. apply (keys_disjoint_spec _ _ (fst e) DJ); [rewrite E; apply in_map; exact H'|apply in_map; exact H].
  - apply (entry_eq _ e e' (ND_optional' ts)); assumption.
Qed.

(* ---------- what a collection tight for a TypedDict gives for one field / one item ---------- *)
Lemma is_td_shape' t : is_td t = true -> t = TTypedDict (td_req t) (td_opt t).
Proof. destruct t; cbn; intros H; try discriminate H. reflexivity. Qed.

Lemma td_field_wit x ws s ft :
  is_td x = true -> tightb x ws = true -> In (s, ft) (td_req x) \/ In (s, ft) (td_opt x) ->
  under_key s ws <> [] /\ tightb ft (under_key s ws) = true.
Proof.
  intros TD T H. rewrite (is_td_shape' x TD) in T. destruct (td_tight_parts _ _ _ T) as [N [_ [R O]]].
  destruct H as [H|H].
  - destruct (R _ H) as [A B]. cbn [fst snd] in *. split; [|exact B]. apply under_key_nonempty.
    destruct ws as [|v ws]; [congruence|]. exists v. split; [left; reflexivity|]. apply A. left. reflexivity.
  - destruct (O _ H) as [A [_ B]]. cbn [fst snd] in *. split; [|exact B]. apply under_key_nonempty. exact A.
Qed.

Lemma in_keys_field s (fs : list (string * ty)) : In s (keys fs) -> exists ft, In (s, ft) fs.
Proof. intros H. apply in_map_iff in H. destruct H as [[s' ft] [E Hf]]. cbn [fst] in E. subst. eauto. Qed.

Lemma td_item_field x ws v kk e' :
  is_td x = true -> oks ws -> tightb x ws = true -> In v ws -> In (kk, e') (dict_items v) ->
  exists s ft, kk = VStr s /\ (In (s, ft) (td_req x) \/ In (s, ft) (td_opt x)) /\ In e' (under_key s ws).
Proof.
  intros TD OK T Hv Hkv. rewrite (is_td_shape' x TD) in T. destruct (td_tight_parts _ _ _ T) as [_ [D _]].
  destruct (D v Hv) as [kvs [-> K]]. cbn [dict_items] in Hkv. destruct (K kk e' Hkv) as [s [-> Hs]].
  assert (UK : In e' (under_key s ws)).
  { apply in_under_key. exists (VDict kvs). split; [exact Hv|]. cbn [dict_items].
    apply lookup_str_nodup; [apply okv_nodup; apply OK; exact Hv|exact Hkv]. }
  destruct Hs as [Hs|Hs]; apply in_keys_field in Hs; destruct Hs as [ft Hf]; exists s, ft; auto.
Qed.

Lemma td_key_present x ws s :
  is_td x = true -> tightb x ws = true -> In s (keys (td_req x)) \/ In s (keys (td_opt x)) ->
  exists v, In v ws /\ has_skey s v = true.
Proof.
  intros TD T H. rewrite (is_td_shape' x TD) in T. destruct (td_tight_parts _ _ _ T) as [N [_ [R O]]].
  destruct H as [H|H]; apply in_keys_field in H; destruct H as [ft H].
  - destruct (R _ H) as [A _]. cbn [fst] in A. destruct ws as [|v ws]; [congruence|].
    exists v. split; [left; reflexivity|]. apply A. left. reflexivity.
  - destruct (O _ H) as [A _]. exact A.
Qed.

Lemma td_key_absent x ws s :
  is_td x = true -> tightb x ws = true -> ~ In s (keys (td_req x)) ->
  exists v, In v ws /\ has_skey s v = false.
Proof.
  intros TD T NR. rewrite (is_td_shape' x TD) in T. destruct (td_tight_parts _ _ _ T) as [N [D [_ O]]].
  destruct (in_dec string_dec s (keys (td_opt x))) as [Ho|Ho].
  - apply in_keys_field in Ho. destruct Ho as [ft H]. destruct (O _ H) as [_ [B _]]. exact B.
  - destruct ws as [|v ws]; [congruence|]. exists v. split; [left; reflexivity|].
    destruct (has_skey s v) eqn:E; [|reflexivity]. exfalso.
    destruct (D v (or_introl eq_refl)) as [kvs [-> K]]. unfold has_skey in E. cbn [dict_items] in E.
    apply has_key_In in E. destruct E as [x0 Hx0]. destruct (K _ _ Hx0) as [s' [E [H|H]]];
      injection E as <-; contradiction.
Qed.

(* ---------- the per-key value lists of a merge are witnessed and covered ---------- *)
Section MergeWit.
Variable ts : list ty.
Hypothesis W : Forall wf_ty ts.
Hypothesis ATD : forallb is_td ts = true.
Variable V : list value.
Hypothesis OK : oks V.
Hypothesis Wi : witnessed ts V.
Hypothesis Cs : covered_s ts V.

Lemma all_td x : In x ts -> is_td x = true.
Proof. rewrite forallb_forall in ATD. apply ATD. Qed.

Lemma entry_witnessed e :
  In e (required_of ts) \/ In e (optional_of ts) -> witnessed (snd e) (under_key (fst e) V).
Proof.
  intros He ft Hft. destruct (merge_origin ts e ft He Hft) as [x [Hx Hf]].
  destruct (Wi x Hx) as [ws [Nw [Hi T]]].
  destruct (td_field_wit x ws (fst e) ft (all_td x Hx) T Hf) as [NE TT].
  exists (under_key (fst e) ws). split; [exact NE|]. split; [apply incl_under_key; exact Hi|exact TT].
Qed.

Lemma entry_covered e :
  keys_disjoint (required_of ts) (optional_of ts) = true ->
  In e (required_of ts) \/ In e (optional_of ts) -> covered_s (snd e) (under_key (fst e) V).
Proof.
  intros DJ He x' Hx'. apply in_under_key in Hx'. destruct Hx' as [v [Hv L]].
  destruct (Cs v Hv) as [x [ws [Hx [Hw [Hi T]]]]]. apply lookup_str_In in L.
  destruct (td_item_field x ws v _ _ (all_td x Hx) (oks_incl _ _ Hi OK) T Hw L) as [s [ft [E [Hf UK]]]].
  injection E as <-.
  destruct (merge_complete' ts W x (fst e) ft Hx Hf) as [e' [He' [Es Hft]]].
  assert (e' = e) by (apply (entry_unique ts e' e DJ He' He Es)). subst e'.
  destruct (td_field_wit x ws (fst e) ft (all_td x Hx) T Hf) as [NE TT].
  exists ft, (under_key (fst e) ws). split; [exact Hft|]. split; [exact UK|].
  split; [apply incl_under_key; exact Hi|exact TT].
Qed.

Lemma all_witnessed :
  witnessed (flat_map snd (required_of ts) ++ flat_map snd (optional_of ts)) (map snd (flat_map dict_items V)).
Proof.
  intros ft Hft.
  assert (X : exists e, (In e (required_of ts) \/ In e (optional_of ts)) /\ In ft (snd e)).
  { apply in_app_or in Hft. destruct Hft as [H|H]; apply in_flat_map in H; destruct H as [e [He H]]; eauto. }
  destruct X as [e [He Hfe]]. destruct (entry_witnessed e He ft Hfe) as [ws [Nw [Hi T]]].
  exists ws. split; [exact Nw|]. split; [|exact T].
  intros w Hw. apply (under_key_incl_vals (fst e)). apply Hi. exact Hw.
Qed.

Lemma all_covered :
  covered_s (flat_map snd (required_of ts) ++ flat_map snd (optional_of ts)) (map snd (flat_map dict_items V)).
Proof.
  intros e' He'. apply in_map_iff in He'. destruct He' as [[kk x'] [<- Hkv]]. cbn [snd].
  apply in_flat_map in Hkv. destruct Hkv as [v [Hv Hkv]].
  destruct (Cs v Hv) as [x [ws [Hx [Hw [Hi T]]]]].
  destruct (td_item_field x ws v _ _ (all_td x Hx) (oks_incl _ _ Hi OK) T Hw Hkv) as [s [ft [E [Hf UK]]]].
  destruct (merge_complete' ts W x s ft Hx Hf) as [e [He [Es Hft]]].
  destruct (td_field_wit x ws s ft (all_td x Hx) T Hf) as [NE TT].
  exists ft, (under_key s ws). split; [|split; [exact UK|split; [|exact TT]]].
  - apply in_or_app. destruct He as [He|He]; [left|right]; apply in_flat_map; exists e; auto.
  - intros w Hw'. apply (under_key_incl_vals s). apply (incl_under_key s ws V Hi). exact Hw'.
Qed.

(* every observed dict, its keys *)
Lemma merged_dicts v : In v V -> exists kvs, v = VDict kvs /\
  forall kk x', In (kk, x') kvs -> exists s, kk = VStr s /\
     (In s (keys (required_of ts)) \/ In s (keys (optional_of ts))).
Proof.
  intros Hv. destruct (Cs v Hv) as [x [ws [Hx [Hw [Hi T]]]]].
  pose proof T as T'. rewrite (is_td_shape' x (all_td x Hx)) in T'.
  destruct (td_tight_parts _ _ _ T') as [_ [D _]]. destruct (D v Hw) as [kvs [-> _]].
  exists kvs. split; [reflexivity|]. intros kk x' Hkv.
  destruct (td_item_field x ws (VDict kvs) kk x' (all_td x Hx) (oks_incl _ _ Hi OK) T Hw Hkv) as [s [ft [E [Hf _]]]].
  exists s. split; [exact E|].
  destruct (merge_complete' ts W x s ft Hx Hf) as [e [He [Es _]]]. rewrite <- Es.
  destruct He as [He|He]; [left|right]; apply in_map; exact He.
Qed.

Lemma merged_key_present s :
  In s (keys (required_of ts)) \/ In s (keys (optional_of ts)) -> ts <> [] ->
  exists v, In v V /\ has_skey s v = true.
Proof.
  intros H N.
  assert (X : exists x, In x ts /\ (In s (keys (td_req x)) \/ In s (keys (td_opt x)))).
  { destruct H as [H|H].
    - destruct ts as [|x ts'] eqn:E; [congruence|]. exists x. split; [left; reflexivity|]. left.
      apply in_map_iff in H. destruct H as [e [<- He]]. rewrite <- E in *.
      apply (required_everywhere' ts W e x He). rewrite E. left. reflexivity.
    - apply optional_key_origin. exact H. }
  destruct X as [x [Hx Hs]]. destruct (Wi x Hx) as [ws [Nw [Hi T]]].
  destruct (td_key_present x ws s (all_td x Hx) T Hs) as [v [Hv Hk]]. exists v. split; [apply Hi; exact Hv|exact Hk].
Qed.

Lemma required_key_everywhere e v : In e (required_of ts) -> In v V -> has_skey (fst e) v = true.
Proof.
  intros He Hv. destruct (Cs v Hv) as [x [ws [Hx [Hw [Hi T]]]]].
  pose proof (required_everywhere' ts W e x He Hx) as Hk. apply in_keys_field in Hk. destruct Hk as [ft Hf].
  rewrite (is_td_shape' x (all_td x Hx)) in T. destruct (td_tight_parts _ _ _ T) as [_ [_ [R _]]].
  destruct (R _ Hf) as [A _]. apply A. exact Hw.
Qed.

Lemma optional_key_absent s :
  ts <> [] -> ~ In s (keys (required_of ts)) -> exists v, In v V /\ has_skey s v = false.
Proof.
  intros N NR. destruct (not_everywhere ts s W N NR) as [x [Hx Hn]].
  destruct (Wi x Hx) as [ws [Nw [Hi T]]].
  destruct (td_key_absent x ws s (all_td x Hx) T Hn) as [v [Hv Hk]]. exists v. split; [apply Hi; exact Hv|exact Hk].
Qed.

End MergeWit.

(* ---------- the merge induction ---------- *)
Section ShrinkTight.
Variable k : nat.

Lemma covered_s_nil V : covered_s [] V -> V = [].
Proof. intros C. destruct V as [|v V]; [reflexivity|]. destruct (C v (or_introl eq_refl)) as [x [ws [[] _]]]. Qed.

Lemma shrink_tight fuel : forall ts t V,
  Forall wf_ty ts -> oks V -> witnessed ts V -> covered_s ts V ->
  shrink k fuel ts = Some t -> tightb t V = true.
Proof.
  induction fuel as [|fuel IH]; intros ts t V W OK Wi Cs S; [cbn in S; discriminate S|].
  cbn [shrink] in S. destruct ts as [|t0 rest].
  { injection S as <-. rewrite (covered_s_nil V Cs). reflexivity. }
  assert (NV : V <> []) by (apply (witnessed_nonempty (t0 :: rest)); [discriminate|exact Wi]).
  pose proof (covered_s_covered _ _ OK Cs) as Cw.
  destruct (forallb is_td (t0 :: rest)) eqn:ATD.
  - (* ---- all TypedDicts ---- *)
    set (ts := t0 :: rest) in *.
    assert (Nts : ts <> []) by discriminate.
    rewrite (merge_maps_pair ts) in S. cbn iota beta in S.
    set (required := required_of ts) in *. set (optional := optional_of ts) in *.
    pose proof (merged_dicts ts W ATD V OK Cs) as MD.
    destruct (Nat.ltb k (List.length required + List.length optional)) eqn:BIG.
    + (* oversize: Dict[str, shrink(all value types)] *)
      destruct (shrink k fuel (flat_map snd required ++ flat_map snd optional)) as [T|] eqn:ST;
        [|cbn [option_map] in S; discriminate S]. cbn [option_map] in S. injection S as <-.
      rewrite tightb_TDict. bsplit; [bsplit; [bsplit|]|].
      * apply nonempty_neq. exact NV.
      * apply forallb_forall. intros v Hv. destruct (MD v Hv) as [kvs [-> _]]. reflexivity.
      * rewrite tightb_TCls. bsplit.
        -- assert (X : exists s, In s (keys required) \/ In s (keys optional)).
           { apply Nat.ltb_lt in BIG. destruct required as [|e r'].
             - destruct optional as [|e o']; [cbn in BIG; lia|]. exists (fst e). right. left. reflexivity.
             - exists (fst e). left. left. reflexivity. }
           destruct X as [s Hs].
           destruct (merged_key_present ts W ATD V Wi Cs s Hs Nts) as [v [Hv Hk]].
           unfold has_skey in Hk. apply has_key_In in Hk. destruct Hk as [x0 Hx0].
           apply nonempty_In. exists (VStr s). apply in_map_iff. exists (VStr s, x0). split; [reflexivity|].
           apply in_flat_map. eauto.
        -- apply forallb_forall. intros kk Hk. apply in_map_iff in Hk. destruct Hk as [[kk' x0] [<- Hkv]].
           apply in_flat_map in Hkv. destruct Hkv as [v [Hv Hkv]]. destruct (MD v Hv) as [kvs [-> K]].
           destruct (K kk' x0 Hkv) as [s [-> _]]. reflexivity.
      * apply (IH _ _ _ (all_entries_wf ts W)); [apply oks_vals; exact OK| | |exact ST].
        -- apply (all_witnessed ts ATD V Wi).
        -- apply (all_covered ts W ATD V OK Cs).
    + destruct (negb (keys_disjoint required optional)) eqn:DJ; [discriminate S|].
      apply negb_false_iff in DJ.
      destruct (mapM (fun e => option_map (pair (fst e)) (shrink k fuel (snd e))) required) as [R|] eqn:MR;
        [|cbn [option_map] in S; discriminate S]. cbn [option_map] in S.
      destruct (mapM (fun e => option_map (pair (fst e)) (shrink k fuel (snd e))) optional) as [O|] eqn:MO;
        [|cbn [option_map] in S; discriminate S]. cbn [option_map] in S.
      injection S as <-.
      pose proof (mapM_pair_keys _ _ _ MR) as KR. pose proof (mapM_pair_keys _ _ _ MO) as KO.
      assert (FT : forall e T, In e required \/ In e optional -> shrink k fuel (snd e) = Some T ->
                   tightb T (under_key (fst e) V) = true).
      { intros e T He ST. apply (IH _ _ _ (entries_wf' ts W e He)); [apply oks_under_key; exact OK| | |exact ST].
        - apply (entry_witnessed ts ATD V Wi e He).
        - apply (entry_covered ts W ATD V OK Cs e DJ He). }
      apply td_tight_intro.
      * exact NV.
      * intros v Hv. destruct (MD v Hv) as [kvs [-> K]]. exists kvs. split; [reflexivity|].
        intros kk x0 Hkv. destruct (K kk x0 Hkv) as [s [-> Hs]]. exists s. split; [reflexivity|].
        rewrite KR, KO. exact Hs.
      * intros f Hf. destruct (mapM_pair_bwd _ _ _ _ MR Hf) as [e [He [Ef ST]]]. rewrite Ef. split.
        -- intros v Hv. apply (required_key_everywhere ts W ATD V Cs e v He Hv).
        -- apply FT; auto.
      * intros f Hf. destruct (mapM_pair_bwd _ _ _ _ MO Hf) as [e [He [Ef ST]]]. rewrite Ef.
        assert (Hk : In (fst e) (keys optional)) by (apply in_map; exact He).
        split; [|split].
        -- apply (merged_key_present ts W ATD V Wi Cs (fst e)); auto.
        -- apply (optional_key_absent ts W ATD V Wi (fst e) Nts).
           intros Hc. apply (keys_disjoint_spec required optional (fst e) DJ Hc Hk).
        -- apply FT; auto.
  - destruct (forallb (fun t => py_eqb t t0) rest) eqn:AEQ.
    + (* ---- all equal to the first ---- *)
      injection S as <-. destruct (Wi t0 (or_introl eq_refl)) as [ws [Nw [Hi T]]].
      inversion W as [|? ? W0 Wr]; subst.
      apply (tight_mono t0 ws V W0 T Hi OK). intros v Hv. destruct (Cw v Hv) as [x [[<-|Hx] M]]; [exact M|].
      rewrite forallb_forall in AEQ. rewrite Forall_forall in Wr.
      apply (memt_py_eqb x t0 v); auto.
    + destruct (forallb is_tlist (t0 :: rest)) eqn:AL.
      * (* ---- all lists ---- *)
        set (ts := t0 :: rest) in *.
        destruct (shrink k fuel (filter (fun a => negb (is_tany a)) (map list_arg ts))) as [T|] eqn:ST;
          [|cbn [option_map] in S; discriminate S]. cbn [option_map] in S. injection S as <-.
        rewrite forallb_forall in AL.
        assert (Sh : forall x, In x ts -> x = TList (list_arg x)).
        { intros x Hx. specialize (AL x Hx). destruct x; try discriminate AL. reflexivity. }
        rewrite tightb_TList. bsplit; [bsplit|].
        -- apply nonempty_neq. exact NV.
        -- apply forallb_forall. intros v Hv. destruct (Cs v Hv) as [x [ws [Hx [Hw [Hi T0]]]]].
           rewrite (Sh x Hx), tightb_TList in T0. bdestr T0. bdestr T0. rewrite forallb_forall in T2. auto.
        -- apply (IH (filter (fun a => negb (is_tany a)) (map list_arg ts)) T); [|apply oks_list_elems; exact OK| | |exact ST].
           ++ rewrite Forall_forall in *. intros y Hy. apply filter_In in Hy. destruct Hy as [Hy _].
              apply in_map_iff in Hy. destruct Hy as [z [<- Hz]]. pose proof (W z Hz) as Wz.
              rewrite (Sh z Hz) in Wz. exact Wz.
           ++ intros a Ha. apply filter_In in Ha. destruct Ha as [Ha NA]. apply in_map_iff in Ha.
              destruct Ha as [x [<- Hx]]. destruct (Wi x Hx) as [ws [Nw [Hi T0]]].
              rewrite (Sh x Hx), tightb_TList in T0. bdestr T0. bdestr T0.
              exists (flat_map list_elems ws). split; [|split; [apply incl_flat_map; exact Hi|exact T1]].
              apply (tight_notany _ _ T1). intros E. rewrite E in NA. discriminate NA.
           ++ intros e He. apply in_flat_map in He. destruct He as [v [Hv He]].
              destruct (Cs v Hv) as [x [ws [Hx [Hw [Hi T0]]]]].
              rewrite (Sh x Hx), tightb_TList in T0. bdestr T0. bdestr T0.
              assert (He' : In e (flat_map list_elems ws)) by (apply in_flat_map; eauto).
              exists (list_arg x), (flat_map list_elems ws).
              split; [|split; [exact He'|split; [apply incl_flat_map; exact Hi|exact T1]]].
              apply filter_In. split; [apply in_map; exact Hx|].
              destruct (list_arg x) eqn:E; try reflexivity.
              destruct (flat_map list_elems ws); [destruct He'|discriminate T1].
      * (* ---- Union of the dict-ified types ---- *)
        injection S as <-. change (td2dict t0 :: map td2dict rest) with (map td2dict (t0 :: rest)).
        set (ts := t0 :: rest) in *. rewrite Forall_forall in W.
        apply union_mk_tight.
        -- discriminate.
        -- rewrite Forall_forall. intros y Hy. apply in_map_iff in Hy. destruct Hy as [z [<- Hz]].
           apply td2dict_wf. apply W. exact Hz.
        -- exact OK.
        -- intros y Hy. apply in_map_iff in Hy. destruct Hy as [x [<- Hx]].
           destruct (Wi x Hx) as [ws [Nw [Hi T]]]. exists ws. split; [exact Nw|]. split; [exact Hi|].
           apply td2dict_tight; auto. eapply oks_incl; eauto.
        -- intros v Hv. destruct (Cs v Hv) as [x [ws [Hx [Hw [Hi T]]]]].
           exists (td2dict x). split; [apply in_map; exact Hx|].
           apply (tight_memt _ ws); [eapply oks_incl; eauto| |exact Hw].
           apply td2dict_tight; auto. eapply oks_incl; eauto.
Qed.

Lemma shrink_top_tight ts t V :
  Forall wf_ty ts -> oks V -> witnessed ts V -> covered_s ts V ->
  shrink_top k ts = Some t -> tightb t V = true.
Proof. unfold shrink_top. apply shrink_tight. Qed.

(* ---------- get_type ---------- *)
Definition gt_tight (v : value) : Prop :=
  wf_valueb v = true -> forall t, get_type k v = Some t -> tightb t [v] = true.

Lemma gt_wf v t : wf_valueb v = true -> get_type k v = Some t -> wf_ty t.
Proof. intros WV G. apply (get_type_ok subN wf_subN_refl k v WV t G). Qed.

(* the types of a list of observed values are witnessed and cover them *)
Lemma mapM_wit {A} (proj : A -> value) (l : list A) ts :
  Forall (fun a => gt_tight (proj a)) l ->
  forallb (fun a => wf_valueb (proj a)) l = true ->
  mapM (fun a => get_type k (proj a)) l = Some ts ->
  Forall wf_ty ts /\ oks (map proj l) /\ witnessed ts (map proj l) /\ covered_s ts (map proj l).
Proof.
  intros HF HW HM. apply mapM_Forall2 in HM. rewrite forallb_forall in HW. rewrite Forall_forall in HF.
  assert (E1 : forall t, In t ts -> exists a, In a l /\ get_type k (proj a) = Some t).
  { clear -HM. induction HM as [|a t l ts Ht _ IH]; intros t' Ht'; [destruct Ht'|].
    destruct Ht' as [<-|Ht']; [exists a; split; [left; reflexivity|exact Ht]|].
    destruct (IH t' Ht') as [a' [Ha' G]]. exists a'. split; [right; exact Ha'|exact G]. }
  assert (E2 : forall a, In a l -> exists t, In t ts /\ get_type k (proj a) = Some t).
  { clear -HM. induction HM as [|a t l ts Ht _ IH]; intros a' Ha'; [destruct Ha'|].
    destruct Ha' as [<-|Ha']; [exists t; split; [left; reflexivity|exact Ht]|].
    destruct (IH a' Ha') as [t' [Ht' G]]. exists t'. split; [right; exact Ht'|exact G]. }
  split; [|split; [|split]].
  - rewrite Forall_forall. intros t Ht. destruct (E1 t Ht) as [a [Ha G]]. apply (gt_wf (proj a)); auto.
  - intros v Hv. apply in_map_iff in Hv. destruct Hv as [a [<- Ha]]. auto.
  - intros t Ht. destruct (E1 t Ht) as [a [Ha G]]. exists [proj a]. split; [discriminate|]. split.
    + intros w [<-|[]]. apply in_map. exact Ha.
    + apply (HF a Ha); auto.
  - intros v Hv. apply in_map_iff in Hv. destruct Hv as [a [<- Ha]]. destruct (E2 a Ha) as [t [Ht G]].
    exists t, [proj a]. split; [exact Ht|]. split; [left; reflexivity|]. split.
    + intros w [<-|[]]. apply in_map. exact Ha.
    + apply (HF a Ha); auto.
Qed.

Lemma seq_tight es ts T :
  Forall gt_tight es -> forallb wf_valueb es = true ->
  mapM (get_type k) es = Some ts -> shrink_top k ts = Some T -> tightb T es = true.
Proof.
  intros HF HW HM HS. destruct (mapM_wit (fun e => e) es ts HF HW HM) as [Wts [OK [Wi Cs]]].
  rewrite map_id in *. eapply shrink_top_tight; eauto.
Qed.

Lemma dict_tight kvs kt vt ks vs :
  Forall (fun kv => gt_tight (fst kv) /\ gt_tight (snd kv)) kvs ->
  forallb (fun kv => wf_valueb (fst kv) && wf_valueb (snd kv)) kvs = true ->
  mapM (fun kv => get_type k (fst kv)) kvs = Some ks ->
  mapM (fun kv => get_type k (snd kv)) kvs = Some vs ->
  shrink_top k ks = Some kt -> shrink_top k vs = Some vt ->
  tightb kt (map fst kvs) = true /\ tightb vt (map snd kvs) = true.
Proof.
  intros HF HW HK HV HSK HSV.
  assert (HF1 : Forall (fun kv => gt_tight (fst kv)) kvs) by (rewrite Forall_forall in *; intros x Hx; apply HF; exact Hx).
  assert (HF2 : Forall (fun kv => gt_tight (snd kv)) kvs) by (rewrite Forall_forall in *; intros x Hx; apply HF; exact Hx).
  assert (HW1 : forallb (fun kv => wf_valueb (fst kv)) kvs = true).
  { rewrite forallb_forall in *. intros x Hx. specialize (HW x Hx). apply andb_prop in HW. tauto. }
  assert (HW2 : forallb (fun kv => wf_valueb (snd kv)) kvs = true).
  { rewrite forallb_forall in *. intros x Hx. specialize (HW x Hx). apply andb_prop in HW. tauto. }
  destruct (mapM_wit fst kvs ks HF1 HW1 HK) as [W1 [OK1 [Wi1 Cs1]]].
  destruct (mapM_wit snd kvs vs HF2 HW2 HV) as [W2 [OK2 [Wi2 Cs2]]].
  split; [apply (shrink_top_tight ks kt (map fst kvs))|apply (shrink_top_tight vs vt (map snd kvs))]; assumption.
Qed.

Lemma tcols_single es ts :
  Forall2 (fun e t => tightb t [e] = true) es ts -> tcols ts [es] = true.
Proof.
  intros H. induction H as [|e t es ts Ht _ IH]; [reflexivity|].
  cbn [tcols forallb nonempty heads tails flat_map map tl app andb]. rewrite Ht, IH. reflexivity.
Qed.

Lemma get_type_tight_all v : gt_tight v.
Proof.
  induction v as [c p|s|c| | |es IH|es IH|es IH|kvs IH|kvs IH] using value_ind'; intros WV t G;
    cbn [get_type] in G.
  - injection G as <-. cbn. rewrite N.eqb_refl. reflexivity.
  - injection G as <-. reflexivity.
  - injection G as <-. cbn. rewrite N.eqb_refl. reflexivity.
  - injection G as <-. reflexivity.
  - injection G as <-. reflexivity.
  - (* list *) cbn [wf_valueb] in WV. apply opt_bind_Some in G. destruct G as [ts [HM G]].
    apply option_map_Some in G. destruct G as [T [HS ->]].
    rewrite tightb_TList. cbn [nonempty forallb is_vlist flat_map list_elems andb]. rewrite app_nil_r.
    eapply seq_tight; eauto.
  - (* set *) cbn [wf_valueb] in WV. apply opt_bind_Some in G. destruct G as [ts [HM G]].
    apply option_map_Some in G. destruct G as [T [HS ->]].
    rewrite tightb_TSet. cbn [nonempty forallb is_vset flat_map set_elems andb]. rewrite app_nil_r.
    eapply seq_tight; eauto.
  - (* tuple *) cbn [wf_valueb] in WV. apply option_map_Some in G. destruct G as [ts [HM ->]].
    rewrite tightb_TTuple. cbn [nonempty forallb is_vtuple map tuple_elems andb].
    apply tcols_single. apply mapM_Forall2 in HM. rewrite forallb_forall in WV.
    clear -HM IH WV. induction HM as [|e t es ts Ht _ IH']; [constructor|].
    inversion IH as [|? ? He IHes]; subst. constructor.
    + apply He; [apply WV; left; reflexivity|exact Ht].
    + apply IH'; [exact IHes|]. intros x Hx. apply WV. right. exact Hx.
  - (* dict *) cbn [wf_valueb] in WV. apply andb_prop in WV. destruct WV as [ND WV].
    destruct kvs as [|kv0 kvs0]; [injection G as <-; reflexivity|].
    set (kvs := kv0 :: kvs0) in *.
    destruct (forallb is_strkey kvs && Nat.leb (List.length kvs) k) eqn:C.
    + (* TypedDict *)
      apply andb_prop in C. destruct C as [SK _].
      apply option_map_Some in G. destruct G as [r [HM ->]].
      pose proof (mapM_Forall2 _ _ _ HM) as F2.
      assert (Each : forall f, In f r -> exists kv, In kv kvs /\ fst f = strkey kv /\ get_type k (snd kv) = Some (snd f)).
      { clear -F2. induction F2 as [|kv y l r Hy _ IH']; intros f Hf; [destruct Hf|].
        destruct Hf as [<-|Hf].
        - exists kv. split; [left; reflexivity|]. destruct (get_type k (snd kv)) as [tv|]; [|discriminate Hy].
          injection Hy as <-. auto.
        - destruct (IH' f Hf) as [kv' [H1 H2]]. exists kv'. split; [right; exact H1|exact H2]. }
      assert (KR : map fst r = map strkey kvs).
      { clear -F2. induction F2 as [|kv y l r Hy _ IH']; [reflexivity|]. cbn [map]. rewrite IH'. f_equal.
        destruct (get_type k (snd kv)); [|discriminate Hy]. injection Hy as <-. reflexivity. }
      rewrite forallb_forall in SK.
      apply td_tight_intro.
      * discriminate.
      * intros v [<-|[]]. exists kvs. split; [reflexivity|]. intros kk x Hkv.
        pose proof (SK _ Hkv) as S1. unfold is_strkey in S1. cbn [fst] in S1. destruct kk; try discriminate S1.
        exists s. split; [reflexivity|]. left. rewrite KR.
        change s with (strkey (VStr s, x)). apply in_map. exact Hkv.
      * intros f Hf. destruct (Each f Hf) as [kv [Hkv [Ef Gf]]].
        pose proof (SK _ Hkv) as S1. unfold is_strkey in S1. unfold strkey in Ef.
        destruct kv as [kk x]. cbn [fst snd] in *. destruct kk; try discriminate S1. rewrite Ef.
        split.
        -- intros v [<-|[]]. unfold has_skey. cbn [dict_items]. apply has_key_In. eauto.
        -- unfold under_key. cbn [flat_map dict_items].
           rewrite (lookup_str_nodup s kvs x ND Hkv). cbn [app].
           rewrite Forall_forall in IH. destruct (IH _ Hkv) as [_ Hv]. cbn [snd] in Hv. apply Hv; [|exact Gf].
           rewrite forallb_forall in WV. specialize (WV _ Hkv). cbn [fst snd] in WV. apply andb_prop in WV. tauto.
      * intros f [].
    + apply opt_bind_Some in G. destruct G as [ks [HK G]].
      apply opt_bind_Some in G. destruct G as [vs [HV G]].
      apply opt_bind_Some in G. destruct G as [kt [HSK G]].
      apply option_map_Some in G. destruct G as [vt [HSV ->]].
      destruct (dict_tight kvs kt vt ks vs IH WV HK HV HSK HSV) as [T1 T2].
      rewrite tightb_TDict. cbn [nonempty forallb is_vdict flat_map dict_items andb]. rewrite app_nil_r.
      rewrite T1, T2. reflexivity.
  - (* defaultdict *) cbn [wf_valueb] in WV.
    apply opt_bind_Some in G. destruct G as [ks [HK G]].
    apply opt_bind_Some in G. destruct G as [vs [HV G]].
    apply opt_bind_Some in G. destruct G as [kt [HSK G]].
    apply option_map_Some in G. destruct G as [vt [HSV ->]].
    destruct (dict_tight kvs kt vt ks vs IH WV HK HV HSK HSV) as [T1 T2].
    rewrite tightb_TDefaultDict. cbn [nonempty forallb is_vddict flat_map dict_items andb]. rewrite app_nil_r.
    rewrite T1, T2. reflexivity.
Qed.

End ShrinkTight.

(* ---------- C05 ---------- *)
Theorem get_type_tight k v t :
  wf_valueb v = true -> get_type k v = Some t -> tightb t [v] = true /\ memt v t = true.
Proof.
  intros WV G. pose proof (get_type_tight_all k v WV t G) as T. split; [exact T|].
  apply (tight_memt t [v] v); [|exact T|left; reflexivity]. intros w [<-|[]]. exact WV.
Qed.

Theorem shrink_top_tight_closed k ts t V :
  Forall wf_ty ts -> forallb wf_valueb V = true ->
  (forall x, In x ts -> exists ws, ws <> [] /\ incl ws V /\ tightb x ws = true) ->
  (forall v, In v V -> exists x ws, In x ts /\ In v ws /\ incl ws V /\ tightb x ws = true) ->
  shrink_top k ts = Some t -> tightb t V = true.
Proof. intros W OK Wi Cs S. apply oks_forallb in OK. eapply shrink_top_tight; eauto. Qed.

Theorem infer_tight k vs t :
  forallb wf_valueb vs = true -> infer k vs = Some t -> tightb t vs = true.
Proof.
  unfold infer. intros WV H. apply opt_bind_Some in H. destruct H as [ts [HM HS]].
  apply (seq_tight k vs ts t); auto. rewrite Forall_forall. intros x _. apply get_type_tight_all.
Qed.

Theorem infer_tight_full : forall k vs t,
  vs <> [] -> forallb wf_valueb vs = true -> infer k vs = Some t -> tightb t vs = true.
Proof. intros k vs t _. apply infer_tight. Qed.

(* every observed value is an exact member (memt) of the inferred type *)
Theorem infer_memt k vs t v :
  forallb wf_valueb vs = true -> infer k vs = Some t -> In v vs -> memt v t = true.
Proof.
  intros WV H Hv. apply (tight_memt t vs v); [apply oks_forallb; exact WV|eapply infer_tight; eauto|exact Hv].
Qed.

(* ---------- non-vacuity ---------- *)
Open Scope string_scope.

(* the paths of shrink that fire below: TypedDict merge with optional fields (k = 3), the list path with an
   empty list, the union path with td2dict (k = 1), py_eqb-equal inputs; the oversize fallback in ex_oversize *)
Definition ex_vs : list value :=
  [VList [VDict [(VStr "a", VAtom cInt 1%N)]; VDict [(VStr "a", VAtom cInt 2%N); (VStr "b", VStr "x")]];
   VList [];
   VList [VDict [(VStr "a", VList [VAtom cInt 1%N; VStr "y"]); (VStr "c", VDefaultDict [(VAtom cInt 1%N, VDict [])])]];
   VList [VDict [(VStr "a", VAtom cInt 1%N)]]].

Example ex_infer_tight_k3 :
  forallb wf_valueb ex_vs = true /\ exists t, infer 3 ex_vs = Some t /\ has_td t = true /\ tightb t ex_vs = true.
Proof. split; [reflexivity|]. eexists. split; [vm_compute; reflexivity|]. split; reflexivity. Qed.

Example ex_infer_tight_k1 :
  exists t, infer 1 ex_vs = Some t /\ has_td t = false /\ tightb t ex_vs = true.
Proof. eexists. split; [vm_compute; reflexivity|]. split; reflexivity. Qed.

Example ex_oversize :
  let vs := [VDict [(VStr "a", VAtom cInt 1%N)]; VDict [(VStr "b", VStr "x")]; VDict [(VStr "a", VAtom cInt 2%N)]] in
  infer 1 vs = Some (TDict (TCls cStr) (TUnion [TCls cInt; TCls cStr])) /\
  tightb (TDict (TCls cStr) (TUnion [TCls cInt; TCls cStr])) vs = true.
Proof. split; reflexivity. Qed.

Example ex_infer_tight_applies : forall k t, infer k ex_vs = Some t -> tightb t ex_vs = true.
Proof. intros k t. apply infer_tight. reflexivity. Qed.

(* the two inputs that refuted the first reading of memt (class alternative witnessed by a non-plain value;
   a defaultdict under a string key witnessing a Dict-typed TypedDict field) are tight under Model/Tight.v *)
Example ex_former_counterexamples :
  (exists t, infer 2 [VAtom 4%N 0%N; VList []] = Some t /\ tightb t [VAtom 4%N 0%N; VList []] = true)
  /\ (let vs := [VDefaultDict [(VAtom 2%N 1%N, VDict [(VStr "a", VDict [])])];
                 VDefaultDict [(VAtom 2%N 1%N, VDict [(VStr "a", VDefaultDict [])])]] in
      exists t, infer 2 vs = Some t /\ tightb t vs = true /\ has_td t = true).
Proof.
  split; [eexists; split; [vm_compute; reflexivity|reflexivity]|].
  cbv zeta. eexists. split; [vm_compute; reflexivity|]. split; reflexivity.
Qed.

(* the hypotheses of the merge lemma are satisfiable by a non-trivial input *)
Example ex_shrink_top_tight_hyps :
  let ts := [TList (TCls cInt); TList TAny; TList (TCls cStr)] in
  let V := [VList [VAtom cInt 1%N]; VList []; VList [VStr "a"; VStr "b"]] in
  Forall wf_ty ts /\ forallb wf_valueb V = true
  /\ (forall x, In x ts -> exists ws, ws <> [] /\ incl ws V /\ tightb x ws = true)
  /\ (forall v, In v V -> exists x ws, In x ts /\ In v ws /\ incl ws V /\ tightb x ws = true)
  /\ shrink_top 2 ts = Some (TList (TUnion [TCls cInt; TCls cStr])).
Proof.
  cbv zeta. split; [repeat constructor|]. split; [reflexivity|]. split; [|split; [|reflexivity]].
  - intros x [<-|[<-|[<-|[]]]].
    + exists [VList [VAtom cInt 1%N]]. split; [discriminate|]. split; [|reflexivity]. intros w [<-|[]]. left. reflexivity.
    + exists [VList []]. split; [discriminate|]. split; [|reflexivity]. intros w [<-|[]]. right. left. reflexivity.
    + exists [VList [VStr "a"; VStr "b"]]. split; [discriminate|]. split; [|reflexivity].
      intros w [<-|[]]. right. right. left. reflexivity.
  - intros v [<-|[<-|[<-|[]]]].
    + exists (TList (TCls cInt)), [VList [VAtom cInt 1%N]]. split; [left; reflexivity|]. split; [left; reflexivity|].
      split; [|reflexivity]. intros w [<-|[]]. left. reflexivity.
    + exists (TList TAny), [VList []]. split; [right; left; reflexivity|]. split; [left; reflexivity|].
      split; [|reflexivity]. intros w [<-|[]]. right. left. reflexivity.
    + exists (TList (TCls cStr)), [VList [VStr "a"; VStr "b"]]. split; [right; right; left; reflexivity|].
      split; [left; reflexivity|]. split; [|reflexivity]. intros w [<-|[]]. right. right. left. reflexivity.
Qed.
