(* Proofs/RenderImports.v — get_imports_for_annotation covers every name the rendering uses (C11). *)
From MT Require Import Types Render TypesFacts.

Open Scope string_scope.
Open Scope nat_scope.
Open Scope list_scope.

Definition imap_has (m n : string) (im : imap) : Prop := exists l, In (m, l) im /\ In n l.

Lemma mem_s_In n l : mem_s n l = true -> In n l.
Proof.
  unfold mem_s. intros H. apply existsb_exists in H as (x & Hx & E). apply String.eqb_eq in E. subst. exact Hx.
Qed.

Lemma add_has m n im : imap_has m n (imap_add m n im).
Proof.
  induction im as [|[m' l] r IH]; cbn.
  - exists [n]. cbn. auto.
  - destruct (String.eqb m m') eqn:E.
    + apply String.eqb_eq in E. subst m'.
      destruct (mem_s n l) eqn:M.
      * exists l. split; [left; reflexivity | apply mem_s_In; exact M].
      * exists (l ++ [n]). split; [left; reflexivity | apply in_or_app; right; cbn; auto].
    + destruct IH as (l' & H1 & H2). exists l'. split; [right; exact H1 | exact H2].
Qed.

Lemma add_mono a b m n im : imap_has a b im -> imap_has a b (imap_add m n im).
Proof.
  induction im as [|[m' l] r IH]; intros (l0 & H1 & H2).
  - destruct H1.
  - cbn. destruct (String.eqb m m') eqn:E.
    + destruct H1 as [H1|H1].
      * inversion H1; subst. destruct (mem_s n l0).
        -- exists l0. split; [left; reflexivity | exact H2].
        -- exists (l0 ++ [n]). split; [left; reflexivity | apply in_or_app; left; exact H2].
      * exists l0. split; [right; exact H1 | exact H2].
    + destruct H1 as [H1|H1].
      * exists l0. split; [left; exact H1 | exact H2].
      * destruct IH as (l' & H3 & H4); [exists l0; split; assumption|].
        exists l'. split; [right; exact H3 | exact H4].
Qed.

Section Imports.
Variable ct : ctable.

(* the (module, name) pairs the rendering of t refers to: the root of every non-builtin class, and the typing
   names of both routes *)
Fixpoint need (t : ty) : list (string * string) :=
  match t with
  | TAny => [("typing", "Any")]
  | TCls c => if String.eqb (cmod ct c) "builtins" then [] else [(cmod ct c, root_of (cqual ct c))]
  | TCallable => [("typing", "Callable")]
  | TFwd _ | TTypedDict _ _ => []
  | TType x => ("typing", "Type") :: need x
  | TList x => ("typing", "List") :: need x
  | TSet x => ("typing", "Set") :: need x
  | TIterator x => ("typing", "Iterator") :: need x
  | TTupleVar x => ("typing", "Tuple") :: need x
  | TDict k v => ("typing", "Dict") :: need k ++ need v
  | TDefaultDict k v => ("typing", "DefaultDict") :: need k ++ need v
  | TTuple ts => ("typing", "Tuple") :: flat_map need ts
  | TGenerator a b c => ("typing", "Generator") :: need a ++ need b ++ need c
  | TUnion ts =>
      if existsb is_none_ty ts then
        ("typing", "Optional")
          :: match filter (fun x => negb (is_none_ty x)) ts with [_] => [] | _ => [("typing", "Union")] end
          ++ flat_map (fun x => if is_none_ty x then [] else need x) ts
      else ("typing", "Union") :: flat_map need ts
  end.

Definition covers (t : ty) : Prop :=
  (forall acc a b, imap_has a b acc -> imap_has a b (imps ct t acc))
  /\ (forall acc a b, In (a, b) (need t) -> imap_has a b (imps ct t acc)).

Definition go_all := fix go (l : list ty) (acc : imap) : imap :=
  match l with [] => acc | x :: r => go r (imps ct x acc) end.
Definition go_nn := fix go (l : list ty) (acc : imap) : imap :=
  match l with [] => acc | x :: r => go r (if is_none_ty x then acc else imps ct x acc) end.

Lemma go_all_mono ts : Forall covers ts -> forall acc a b, imap_has a b acc -> imap_has a b (go_all ts acc).
Proof. induction 1 as [|x r [Hm _] _ IH]; intros acc a b Hh; cbn; [exact Hh|]. apply IH. apply Hm. exact Hh. Qed.

Lemma go_all_need ts : Forall covers ts -> forall acc a b, In (a, b) (flat_map need ts) -> imap_has a b (go_all ts acc).
Proof.
  induction 1 as [|x r [Hm Hn] HF IH]; intros acc a b Hin; cbn in *; [destruct Hin|].
  apply in_app_or in Hin as [Hin|Hin].
  - apply go_all_mono; [exact HF|]. apply Hn. exact Hin.
  - apply IH. exact Hin.
Qed.

Lemma go_nn_mono ts : Forall covers ts -> forall acc a b, imap_has a b acc -> imap_has a b (go_nn ts acc).
Proof.
  induction 1 as [|x r [Hm _] _ IH]; intros acc a b Hh; cbn; [exact Hh|]. apply IH.
  destruct (is_none_ty x); [exact Hh | apply Hm; exact Hh].
Qed.

Lemma go_nn_need ts : Forall covers ts -> forall acc a b,
  In (a, b) (flat_map (fun x => if is_none_ty x then [] else need x) ts) -> imap_has a b (go_nn ts acc).
Proof.
  induction 1 as [|x r [Hm Hn] HF IH]; intros acc a b Hin; cbn in *; [destruct Hin|].
  destruct (is_none_ty x); cbn in Hin.
  - apply IH. exact Hin.
  - apply in_app_or in Hin as [Hin|Hin].
    + apply go_nn_mono; [exact HF|]. apply Hn. exact Hin.
    + apply IH. exact Hin.
Qed.

Ltac head_or_rest Hin :=
  destruct Hin as [Hin|Hin]; [inversion Hin; subst; clear Hin|].

Lemma imps_covers : forall t, covers t.
Proof.
  induction t using ty_ind'; unfold covers; cbn [imps need].
  - split; intros; [apply add_mono; assumption|]. destruct H as [H|[]]. inversion H; subst. apply add_has.
  - destruct (String.eqb (cmod ct c) "builtins"); split; intros; try assumption; try contradiction.
    + apply add_mono; assumption.
    + destruct H as [H|[]]. inversion H; subst. apply add_has.
  - destruct IHt as [Hm Hn]. split; intros.
    + apply Hm, add_mono; assumption.
    + head_or_rest H; [apply Hm, add_has | apply Hn; exact H].
  - split; intros; [apply add_mono; assumption|]. destruct H as [H|[]]. inversion H; subst. apply add_has.
  - destruct IHt as [Hm Hn]. split; intros.
    + apply Hm, add_mono; assumption.
    + head_or_rest H; [apply Hm, add_has | apply Hn; exact H].
  - destruct IHt as [Hm Hn]. split; intros.
    + apply Hm, add_mono; assumption.
    + head_or_rest H; [apply Hm, add_has | apply Hn; exact H].
  - destruct IHt as [Hm Hn]. split; intros.
    + apply Hm, add_mono; assumption.
    + head_or_rest H; [apply Hm, add_has | apply Hn; exact H].
  - destruct IHt1 as [Hm1 Hn1], IHt2 as [Hm2 Hn2]. split; intros.
    + apply Hm2, Hm1, add_mono; assumption.
    + head_or_rest H; [apply Hm2, Hm1, add_has|].
      apply in_app_or in H as [H|H]; [apply Hm2, Hn1; exact H | apply Hn2; exact H].
  - destruct IHt1 as [Hm1 Hn1], IHt2 as [Hm2 Hn2]. split; intros.
    + apply Hm2, Hm1, add_mono; assumption.
    + head_or_rest H; [apply Hm2, Hm1, add_has|].
      apply in_app_or in H as [H|H]; [apply Hm2, Hn1; exact H | apply Hn2; exact H].
  - idtac.
    split; intros.
    + apply (go_all_mono ts H). apply add_mono; assumption.
    + head_or_rest H0; [apply (go_all_mono ts H), add_has | apply (go_all_need ts H); exact H0].
  - destruct IHt as [Hm Hn]. split; intros.
    + apply Hm, add_mono; assumption.
    + head_or_rest H; [apply Hm, add_has | apply Hn; exact H].
  - destruct IHt1 as [Hm1 Hn1], IHt2 as [Hm2 Hn2], IHt3 as [Hm3 Hn3]. split; intros.
    + apply Hm3, Hm2, Hm1, add_mono; assumption.
    + head_or_rest H; [apply Hm3, Hm2, Hm1, add_has|].
      apply in_app_or in H as [H|H]; [apply Hm3, Hm2, Hn1; exact H|].
      apply in_app_or in H as [H|H]; [apply Hm3, Hn2; exact H | apply Hn3; exact H].
  - (* Union *)
    destruct (existsb is_none_ty ts).
    + destruct (filter (fun x => negb (is_none_ty x)) ts) as [|o1 [|o2 orest]] eqn:E; split; intros.
      * apply (go_nn_mono ts H), add_mono, add_mono; assumption.
      * head_or_rest H0; [apply (go_nn_mono ts H), add_mono, add_has|].
        cbn [app] in H0. head_or_rest H0; [apply (go_nn_mono ts H), add_has|].
        apply (go_nn_need ts H). exact H0.
      * apply (go_nn_mono ts H), add_mono; assumption.
      * head_or_rest H0; [apply (go_nn_mono ts H), add_has|].
        cbn [app] in H0. apply (go_nn_need ts H). exact H0.
      * apply (go_nn_mono ts H), add_mono, add_mono; assumption.
      * head_or_rest H0; [apply (go_nn_mono ts H), add_mono, add_has|].
        cbn [app] in H0. head_or_rest H0; [apply (go_nn_mono ts H), add_has|].
        apply (go_nn_need ts H). exact H0.
    + split; intros.
      * apply (go_all_mono ts H), add_mono; assumption.
      * head_or_rest H0; [apply (go_all_mono ts H), add_has | apply (go_all_need ts H); exact H0].
  - split; intros; [apply add_mono; assumption | contradiction].
  - split; intros; [assumption | contradiction].
Qed.

(* signature level: get_imports_for_signature covers every annotation, and Optional for a None default *)
Definition sig_step (acc : imap) (p : param) : imap :=
  let '(_, a, d) := p in
  let opt := match a with Some t => is_optional t | None => false end in
  let acc1 := if negb opt && Nat.eqb d 1 then imap_add "typing" "Optional" acc else acc in
  match a with Some t => imps ct t acc1 | None => acc1 end.

Lemma sig_step_mono acc p a b : imap_has a b acc -> imap_has a b (sig_step acc p).
Proof.
  destruct p as [[n o] d]. unfold sig_step. intros H.
  assert (H1 : imap_has a b (if negb match o with Some t => is_optional t | None => false end && Nat.eqb d 1
                             then imap_add "typing" "Optional" acc else acc)).
  { destruct (_ && _); [apply add_mono|]; exact H. }
  destruct o; [apply (proj1 (imps_covers t)); exact H1 | exact H1].
Qed.

Lemma fold_sig_mono ps : forall acc a b, imap_has a b acc -> imap_has a b (fold_left sig_step ps acc).
Proof. induction ps; intros; cbn; [assumption|]. apply IHps, sig_step_mono. assumption. Qed.

Lemma imps_sig_eq ps ret :
  imps_sig ct ps ret = match ret with Some t => imps ct t (fold_left sig_step ps []) | None => fold_left sig_step ps [] end.
Proof. reflexivity. Qed.

Theorem sig_covers ps ret :
  (forall n t d a b, In (n, Some t, d) ps -> In (a, b) (need t) -> imap_has a b (imps_sig ct ps ret))
  /\ (forall n t d, In (n, Some t, d) ps -> d = 1 -> is_optional t = false ->
                    imap_has "typing" "Optional" (imps_sig ct ps ret))
  /\ (forall t a b, ret = Some t -> In (a, b) (need t) -> imap_has a b (imps_sig ct ps ret)).
Proof.
  rewrite imps_sig_eq.
  assert (Hfold : forall ps acc n t d, In (n, Some t, d) ps ->
            (forall a b, In (a, b) (need t) -> imap_has a b (fold_left sig_step ps acc))
            /\ (d = 1 -> is_optional t = false -> imap_has "typing" "Optional" (fold_left sig_step ps acc))).
  { clear ps. induction ps as [|p r IH]; intros acc n t d Hin; [destruct Hin|].
    destruct Hin as [->|Hin]; [|cbn; apply (IH _ n t d Hin)].
    cbn [fold_left]. split.
    - intros a b Hn. apply fold_sig_mono. cbn. apply (proj2 (imps_covers t)). exact Hn.
    - intros -> Ho. apply fold_sig_mono. cbn. rewrite Ho. cbn.
      apply (proj1 (imps_covers t)). apply add_has. }
  repeat split.
  - intros n t d a b Hin Hn. destruct (Hfold ps [] n t d Hin) as [H1 _].
    destruct ret; [apply (proj1 (imps_covers t0))|]; apply H1; exact Hn.
  - intros n t d Hin Hd Ho. destruct (Hfold ps [] n t d Hin) as [_ H2].
    destruct ret; [apply (proj1 (imps_covers t0))|]; apply H2; assumption.
  - intros t a b -> Hn. apply (proj2 (imps_covers t)). exact Hn.
Qed.

End Imports.
