(* Proofs/RenderTextCor.v — corollaries of the text-level rendering theorems (C11) in terms of global,
   directly checkable conditions: ct_lexical_ok on the class table, `ok` / fwd_ok on the type, the harness's
   well-formedness of class names (is_identifier components), and the boolean `tokenwise`. *)
From MT Require Import Types Render TypesFacts RenderTok RenderTextStr RenderTextPx RenderText.
From Coq Require Import Lia.

Open Scope string_scope.
Open Scope nat_scope.
Open Scope list_scope.

(* every forward-reference name of t (structural positions) is quote-free, dot-free and clean *)
Fixpoint fwd_ok (t : ty) : bool :=
  match t with
  | TFwd n => fwd_name_ok n
  | TAny | TCls _ | TCallable | TTypedDict _ _ => true
  | TType x | TList x | TSet x | TIterator x | TTupleVar x => fwd_ok x
  | TDict k v | TDefaultDict k v => fwd_ok k && fwd_ok v
  | TTuple ts | TUnion ts => forallb fwd_ok ts
  | TGenerator a b c => fwd_ok a && fwd_ok b && fwd_ok c
  end.

Section Intro.
Variable cp : cls -> bool.

Ltac split_hyps :=
  repeat match goal with H : _ && _ = true |- _ => apply andb_prop in H as [? ?] end.
Ltac cls_sub Hc := intros c' Hc'; apply Hc; cbn [tcls]; repeat (apply in_or_app; (left; assumption) || right); assumption.

Lemma lexok_r_intro : forall t, ok_r t = true -> (forall c, In c (tcls t) -> cp c = true) -> lexok_r cp t = true.
Proof.
  induction t using ty_ind'; intros Hok Hc; cbn [ok_r lexok_r] in *; try discriminate; try reflexivity; split_hyps.
  - apply Hc. left; reflexivity.
  - auto.
  - auto.
  - auto.
  - auto.
  - rewrite IHt1, IHt2; auto; intros c Hin; apply Hc; cbn [tcls]; apply in_or_app; auto.
  - rewrite IHt1, IHt2; auto; intros c Hin; apply Hc; cbn [tcls]; apply in_or_app; auto.
  - rewrite forallb_forall in *. rewrite Forall_forall in H. intros x Hx.
    apply (H x Hx); [auto|]. intros c Hin. apply Hc. cbn [tcls]. apply in_flat_map. exists x; auto.
  - auto.
  - rewrite IHt1, IHt2, IHt3; auto; intros c Hin; apply Hc; cbn [tcls];
      repeat (apply in_or_app; (left; assumption) || right); assumption.
  - rewrite H0. cbn [andb]. rewrite forallb_forall in *. rewrite Forall_forall in H. intros x Hx.
    apply (H x Hx); [auto|]. intros c Hin. apply Hc. cbn [tcls]. apply in_flat_map. exists x; auto.
Qed.

Lemma lexok_intro : forall t, ok t = true -> fwd_ok t = true -> (forall c, In c (tcls t) -> cp c = true) ->
  lexok cp t = true.
Proof.
  induction t using ty_ind'; intros Hok Hf Hc; try (apply lexok_r_intro; assumption);
    cbn [ok lexok fwd_ok] in *; try discriminate; try reflexivity; split_hyps.
  - apply Hc. left; reflexivity.
  - auto.
  - auto.
  - rewrite IHt1, IHt2; auto; intros c Hin; apply Hc; cbn [tcls]; apply in_or_app; auto.
  - rewrite forallb_forall in *. rewrite Forall_forall in H. intros x Hx.
    apply (H x Hx); [auto | auto |]. intros c Hin. apply Hc. cbn [tcls]. apply in_flat_map. exists x; auto.
  - auto.
  - rewrite IHt1, IHt2, IHt3; auto; intros c Hin; apply Hc; cbn [tcls];
      repeat (apply in_or_app; (left; assumption) || right); assumption.
  - rewrite H0. cbn [andb]. rewrite forallb_forall in *. rewrite Forall_forall in H. intros x Hx.
    apply (H x Hx); [auto | auto |]. intros c Hin. apply Hc. cbn [tcls]. apply in_flat_map. exists x; auto.
  - exact Hf.
Qed.
End Intro.

(* stripping the class's own text yields exactly its qualname *)
Definition strip_exact (ct : ctable) (mods : list string) (c : cls) : bool :=
  N.eqb c cNone || String.eqb (strip_mods mods (cls_text ct c)) (cqual ct c).
Definition is_builtin (ct : ctable) (c : cls) : bool :=
  N.eqb c cNone || String.eqb (cmod ct c) "builtins".

(* the global side condition of the text-level theorem, one boolean *)
Definition text_ok (ct : ctable) (mods : list string) (t : ty) : bool :=
  ct_lexical_ok ct && mods_ok mods && fwd_ok t
  && forallb (fun c => cls_in ct c && strip_exact ct mods c) (tcls t).

Lemma text_ok_lexok ct mods t : ok t = true -> text_ok ct mods t = true ->
  mods_ok mods = true /\ lexok (cls_strip_ok ct mods) t = true.
Proof.
  unfold text_ok. intros Hok H. apply andb_prop in H as [H Hc]. apply andb_prop in H as [H Hf].
  apply andb_prop in H as [Hl Hm]. split; [exact Hm|].
  apply lexok_intro; [exact Hok | exact Hf |]. intros c Hin.
  rewrite forallb_forall in Hc. specialize (Hc c Hin). apply andb_prop in Hc as [Hin' Hs].
  unfold cls_strip_ok. rewrite (ct_lexical_cls ct c Hl Hin'). exact Hs.
Qed.

(* aexpr_eqb is reflexive, so the boolean `tokenwise` of Model/Render.v holds as well *)
Section AInd.
Variable P : aexpr -> Prop.
Hypothesis HName : forall p, P (AName p).
Hypothesis HStr : forall s, P (AStr s).
Hypothesis HEmpty : P AEmpty.
Hypothesis HEll : P AEll.
Hypothesis HSub : forall p args, Forall P args -> P (ASub p args).
Fixpoint aexpr_ind' (e : aexpr) : P e :=
  match e with
  | AName p => HName p | AStr s => HStr s | AEmpty => HEmpty | AEll => HEll
  | ASub p args => HSub p args ((fix go (l : list aexpr) : Forall P l :=
                      match l with [] => Forall_nil _ | x :: r => Forall_cons x (aexpr_ind' x) (go r) end) args)
  end.
End AInd.

Lemma aexpr_eqb_refl : forall e, aexpr_eqb e e = true.
Proof.
  assert (Hseq : forall p : list string,
            (fix seq (xs ys : list string) : bool :=
               match xs, ys with
               | [], [] => true
               | x :: xs', y :: ys' => String.eqb x y && seq xs' ys'
               | _, _ => false end) p p = true).
  { induction p as [|x p IH]; [reflexivity|]. rewrite String.eqb_refl, IH. reflexivity. }
  induction e as [p|s| | |p args IH] using aexpr_ind'; cbn [aexpr_eqb].
  - apply Hseq.
  - apply String.eqb_refl.
  - reflexivity.
  - reflexivity.
  - rewrite Hseq. cbn [andb]. induction IH as [|x l Hx _ IHl]; [reflexivity|]. rewrite Hx, IHl. reflexivity.
Qed.

Theorem tokenwise_true ct mods t : ok t = true -> text_ok ct mods t = true -> tokenwise ct mods t = true.
Proof.
  intros Hok H. destruct (text_ok_lexok ct mods t Hok H) as [Hm Hl].
  unfold tokenwise. rewrite (tokenwise_holds ct mods t Hm Hl). apply aexpr_eqb_refl.
Qed.

(* render_resolves_partial with its premise replaced by the checkable text_ok *)
Theorem resolves_text_checked ct ns mods t :
  binds_base ns -> binds_cls_l ct ns (tcls t) -> ok t = true -> text_ok ct mods t = true ->
  eval_text ct ns (strip_mods mods (ra ct t)) = Some (evt t).
Proof.
  intros Hb Hc Hok H. destruct (text_ok_lexok ct mods t Hok H) as [Hm Hl].
  apply resolves_text_uncond; assumption.
Qed.

(* the printer/parser round trip from global conditions *)
Theorem parse_back_checked ct t :
  ok t = true -> fwd_ok t = true -> ct_lexical_ok ct = true ->
  forallb (fun c => cls_in ct c && is_builtin ct c) (tcls t) = true ->
  parse_anno (ra ct t) = Some (rast ct t).
Proof.
  intros Hok Hf Hl Hc. apply parse_back. apply lexok_intro; [exact Hok | exact Hf |].
  intros c Hin. rewrite forallb_forall in Hc. specialize (Hc c Hin). apply andb_prop in Hc as [Hin' Hb].
  unfold cls_plain_ok. rewrite (ct_lexical_cls ct c Hl Hin'). exact Hb.
Qed.

(* ---- the harness's well-formedness of a class table implies `dotted` ---- *)
Fixpoint allid (s : string) : bool :=
  match s with EmptyString => true | String c r => identc c && allid r end.

Lemma all_allid s :
  (fix all (s : string) : bool :=
     match s with EmptyString => true | String c r => (is_alnum c || Ascii.eqb c "_") && all r end) s = true ->
  allid s = true.
Proof.
  induction s as [|c s IH]; intros H; [reflexivity|].
  apply andb_prop in H as [H1 H2]. cbn [allid]. unfold identc. rewrite H1. exact (IH H2).
Qed.

Lemma is_identifier_allid s : is_identifier s = true -> allid s = true /\ nonemp s = true.
Proof.
  destruct s as [|c s]; [discriminate|]. intros H. unfold is_identifier in H. apply andb_prop in H as [_ H].
  split; [apply all_allid; exact H | reflexivity].
Qed.

Lemma allid_app a b : allid (a +++ b) = allid a && allid b.
Proof. induction a; cbn; [reflexivity | rewrite IHa, andb_assoc; reflexivity]. Qed.

Lemma split_dot_go_hd : forall s cur, exists p t, split_dot_go s cur = (cur +++ p) :: t.
Proof.
  induction s as [|c s IH]; intros cur; cbn [split_dot_go].
  - exists "", []. rewrite app_nil_r_s. reflexivity.
  - destruct (Ascii.eqb c ".").
    + exists "", (split_dot_go s ""). rewrite app_nil_r_s. reflexivity.
    + destruct (IH (cur +++ String c "")) as (p & t & E). exists (String c p), t.
      rewrite E, app_assoc_s. reflexivity.
Qed.

Lemma identifiers_dotted : forall w cur, forallb is_identifier (split_dot_go w cur) = true ->
  wordb w (nonemp cur) = true.
Proof.
  induction w as [|c w IH]; intros cur H; cbn [split_dot_go wordb] in *.
  - cbn [forallb] in H. apply andb_prop in H as [H _]. apply (is_identifier_allid cur H).
  - destruct (Ascii.eqb c ".").
    + cbn [forallb] in H. apply andb_prop in H as [H1 H2].
      rewrite (proj2 (is_identifier_allid cur H1)). exact (IH "" H2).
    + pose proof (IH _ H) as Hw. rewrite nonemp_app in Hw. rewrite Hw, andb_true_r.
      destruct (split_dot_go_hd w (cur +++ String c "")) as (p & t & E). rewrite E in H.
      cbn [forallb] in H. apply andb_prop in H as [H _]. apply is_identifier_allid in H as [H _].
      rewrite !allid_app in H. apply andb_prop in H as [H _]. apply andb_prop in H as [_ H].
      cbn in H. rewrite andb_true_r in H. exact H.
Qed.

Theorem wf_names_dotted w : forallb is_identifier (split_dot w) = true -> dotted w = true.
Proof. apply (identifiers_dotted w ""). Qed.

(* ------------------------------------------------------------------------------------------ *)
(* a syntactic sufficient condition for strip_exact                                            *)
(* ------------------------------------------------------------------------------------------ *)
Lemma best_match_max mods s m :
  In m mods -> prefixb (m +++ ".") s = true ->
  (forall m', In m' mods -> prefixb (m' +++ ".") s = true -> String.length m' <= String.length m) ->
  best_match mods s = Some (S (String.length m)).
Proof.
  intros Hin Hp Hmax. rewrite best_match_fold.
  assert (G : forall l best,
             (forall m', In m' l -> prefixb (m' +++ ".") s = true -> String.length m' <= String.length m) ->
             match best with Some b => b <= S (String.length m) | None => True end ->
             In m l \/ best = Some (S (String.length m)) ->
             fold_left (bm_step s) l best = Some (S (String.length m))).
  { induction l as [|m0 l IH]; intros best Hl Hb Hor; cbn [fold_left].
    - destruct Hor as [[]|E]. exact E.
    - apply IH.
      + intros m' Hm'. apply Hl. right; exact Hm'.
      + unfold bm_step. destruct (prefixb (m0 +++ ".") s) eqn:E0; [|exact Hb].
        pose proof (Hl m0 (or_introl eq_refl) E0) as Hle.
        destruct best as [b|]; [|lia]. destruct (b <? S (String.length m0)); [lia | exact Hb].
      + destruct Hor as [[->|Hin']|E].
        * right. unfold bm_step. rewrite Hp. destruct best as [b|]; [|reflexivity].
          destruct (b <? S (String.length m)) eqn:Eb; [reflexivity|].
          apply Nat.ltb_ge in Eb. f_equal. lia.
        * left; exact Hin'.
        * right. subst best. unfold bm_step. destruct (prefixb (m0 +++ ".") s) eqn:E0; [|reflexivity].
          pose proof (Hl m0 (or_introl eq_refl) E0) as Hle.
          destruct (S (String.length m) <? S (String.length m0)) eqn:Eb; [|reflexivity].
          apply Nat.ltb_lt in Eb. lia. }
  apply G; [exact Hmax | exact I | left; exact Hin].
Qed.

Lemma strip_go_skip_dot mods r : forall a pw,
  strip_go mods (S (String.length a)) pw (a +++ String "." r) = strip_go mods 0 true r.
Proof. induction a as [|c a IH]; intros pw; [reflexivity|]. cbn [append String.length strip_go]. apply IH. Qed.

Lemma wordb_wordchars : forall w ne, wordb w ne = true -> wordchars w = true.
Proof.
  induction w as [|c w IH]; intros ne H; [reflexivity|]. cbn [wordb wordchars] in *.
  destruct (Ascii.eqb c ".").
  - apply andb_prop in H as [_ H]. rewrite (IH _ H). rewrite orb_true_r. reflexivity.
  - apply andb_prop in H as [Hc H]. rewrite (IH _ H). unfold identc in Hc. unfold is_ident_char.
    apply orb_prop in Hc as [Hc|Hc]; rewrite Hc; [reflexivity | rewrite orb_true_r; reflexivity].
Qed.

(* the class's own module is stripped when it is the longest stripped module that is a dotted prefix *)
Lemma strip_own_module mods m q :
  m <> "" -> wordchars q = true -> In m mods ->
  (forall m', In m' mods -> prefixb (m' +++ ".") (m +++ "." +++ q) = true -> String.length m' <= String.length m) ->
  strip_mods mods (m +++ "." +++ q) = q.
Proof.
  intros Hne Hq Hin Hmax.
  assert (Hp : prefixb (m +++ ".") (m +++ "." +++ q) = true).
  { rewrite <- app_assoc_s. generalize (m +++ "."). clear.
    induction s as [|c s IH]; [reflexivity|]. cbn. rewrite Ascii.eqb_refl, IH. reflexivity. }
  pose proof (best_match_max mods _ m Hin Hp Hmax) as Hb.
  destruct m as [|c m]; [congruence|]. unfold strip_mods. cbn [append strip_go] in *. rewrite Hb.
  cbn [String.length]. rewrite strip_go_skip_dot. apply strip_go_inword; exact Hq.
Qed.

(* nothing is stripped from a word no stripped module is a dotted prefix of *)
Lemma strip_keep mods q :
  wordchars q = true -> (forall m', In m' mods -> prefixb (m' +++ ".") q = false) -> strip_mods mods q = q.
Proof.
  intros Hq Hn. destruct q as [|c q]; [reflexivity|]. unfold strip_mods. cbn [strip_go].
  rewrite (best_match_none mods _ Hn). cbn in Hq. apply andb_prop in Hq as [Hc Hq].
  rewrite Hc, (strip_go_inword mods q Hq). reflexivity.
Qed.

(* builtin class: no stripped module is a dotted prefix of the qualname;
   other class: its module is stripped, and no longer stripped module is a dotted prefix of module.qualname *)
Definition strip_syn_ok (ct : ctable) (mods : list string) (c : cls) : bool :=
  match cfind ct c with
  | None => false
  | Some (m, q) =>
      if String.eqb m "builtins" then forallb (fun m' => negb (prefixb (m' +++ ".") q)) mods
      else mem_s m mods
           && forallb (fun m' => negb (prefixb (m' +++ ".") (m +++ "." +++ q))
                                 || (String.length m' <=? String.length m)) mods
  end.

Theorem strip_syn_exact ct mods c :
  cls_lex ct c = true -> strip_syn_ok ct mods c = true -> strip_exact ct mods c = true.
Proof.
  unfold cls_lex, strip_syn_ok, strip_exact. destruct (cfind ct c) as [[m q]|] eqn:E; [|discriminate].
  intros Hl Hs. rewrite (cls_text_of ct c m q E). unfold cqual. rewrite E.
  destruct (N.eqb c cNone); [reflexivity|]. cbn [orb]. apply String.eqb_eq.
  unfold entry_ok in Hl. apply andb_prop in Hl as [Hd _]. unfold text_of in *.
  destruct (String.eqb m "builtins").
  - apply strip_keep; [exact (wordb_wordchars _ _ Hd)|].
    intros m' Hm'. rewrite forallb_forall in Hs. apply negb_true_iff. exact (Hs m' Hm').
  - apply andb_prop in Hs as [Hmem Hs]. unfold mem_s in Hmem. apply existsb_exists in Hmem as (m1 & Hin & Em).
    apply String.eqb_eq in Em. subst m1.
    apply strip_own_module.
    + intros ->. discriminate Hd.
    + unfold dotted in Hd. exact (wordb_wordchars _ _ (wordb_suffix q m false Hd)).
    + exact Hin.
    + intros m' Hm' Hp. rewrite forallb_forall in Hs. specialize (Hs m' Hm'). rewrite Hp in Hs.
      cbn [negb orb] in Hs. apply Nat.leb_le in Hs. exact Hs.
Qed.
