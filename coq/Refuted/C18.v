(* Known finding kf_resume_sampled_after_skip (C18): the draw is taken on EVERY call event, resumptions of a
   generator included; a generator whose first call event was skipped starts a trace mid-life at a later
   resumption: the logged argument types are those of the locals at that later moment and earlier yields are lost. *)
From MT Require Import Types Tracer.

Theorem resume_sampled_after_skip_refuted :
  exists H f, wf_history H = true /\ kf_resume_sampled_after_skip (Some 2) (proj f H) = true
    /\ logged_for f (run (Some 2) H) <> [] /\ logged_for f (run (Some 2) H) <> expected_frame (proj f H).
Proof.
  exists [EvCall 1 (Code 1 false true (Some 5%N) KGen) [("a"%string, TCls cInt)] 1;
          EvReturn 1 (Code 1 false true (Some 5%N) KGen) SYield op_yield (TCls cInt);
          EvCall 1 (Code 1 false true (Some 5%N) KGen) [("a"%string, TCls cStr)] 0;
          EvReturn 1 (Code 1 false true (Some 5%N) KGen) SReturn op_retv (TCls cNone)], 1%N.
  vm_compute. repeat split; discriminate.
Qed.
Print Assumptions resume_sampled_after_skip_refuted.
