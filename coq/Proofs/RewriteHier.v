(* Proofs/RewriteHier.v — on a well-formed class table issubclass is a preorder, and the
   single-inheritance base chain compute_bases walks only through ancestors. *)
From MT Require Import Types Rewrite Hier.

Lemma memN_In a l : memN a l = true <-> In a l.
Proof.
  unfold memN. rewrite existsb_exists. split.
  - intros [x [Hx E]]. apply N.eqb_eq in E. subst. exact Hx.
  - intros H. exists a. split; [exact H|apply N.eqb_refl].
Qed.

Lemma mro_of_In h c m : mro_of h c = Some m -> In (c, m) h.
Proof.
  induction h as [|[c' m'] r IH]; cbn [mro_of]; [discriminate|].
  destruct (N.eqb_spec c c') as [->|E]; intros H.
  - injection H as ->. left. reflexivity.
  - right. apply IH. exact H.
Qed.

Lemma subclass_refl h c : subclass h c c = true.
Proof. unfold subclass. rewrite N.eqb_refl. reflexivity. Qed.

Lemma subclass_object h c : subclass h c cObject = true.
Proof. unfold subclass. rewrite (N.eqb_refl cObject). rewrite orb_true_r. reflexivity. Qed.

Lemma subclass_trans h c a b :
  wf_hier h = true -> subclass h c a = true -> subclass h a b = true -> subclass h c b = true.
Proof.
  intros W H1 H2.
  destruct (N.eqb_spec c a) as [->|Eca]; [exact H2|].
  destruct (N.eqb_spec b cObject) as [->|Ebo]; [apply subclass_object|].
  destruct (N.eqb_spec a b) as [->|Eab]; [exact H1|].
  unfold wf_hier in W. rewrite forallb_forall in W.
  unfold subclass in H2.
  apply (proj2 (N.eqb_neq _ _)) in Eab. apply (proj2 (N.eqb_neq _ _)) in Ebo.
  rewrite Eab, Ebo in H2. cbn [orb] in H2.
  destruct (mro_of h a) as [ma|] eqn:Ma; [|discriminate H2].
  destruct (N.eqb_spec a cObject) as [->|Eao].
  - (* a = object: its MRO is [object], so b = object *)
    specialize (W _ (mro_of_In _ _ _ Ma)). cbn [fst snd] in W.
    apply andb_prop in W. destruct W as [_ W]. rewrite N.eqb_refl in W.
    rewrite forallb_forall in W. apply memN_In in H2. specialize (W _ H2).
    rewrite W in Ebo. discriminate Ebo.
  - unfold subclass in H1 |- *.
    apply (proj2 (N.eqb_neq _ _)) in Eca. apply (proj2 (N.eqb_neq _ _)) in Eao.
    rewrite Eca, Eao in H1. cbn [orb] in H1.
    destruct (mro_of h c) as [mc|] eqn:Mc; [|discriminate H1].
    specialize (W _ (mro_of_In _ _ _ Mc)). cbn [fst snd] in W.
    apply andb_prop in W. destruct W as [W _]. unfold mro_closed in W.
    rewrite forallb_forall in W. apply memN_In in H1. specialize (W _ H1).
    rewrite Ma in W. rewrite forallb_forall in W. apply memN_In in H2. specialize (W _ H2).
    rewrite W. apply orb_true_r.
Qed.

(* ---- __bases__ table ---- *)
Lemma bt_ok_bases h bt c b :
  bt_ok h bt = true -> In b (bases_of bt c) -> subclass h c b = true.
Proof.
  unfold bt_ok. induction bt as [|[c' l] r IH]; cbn [forallb bases_of]; intros H Hin; [destruct Hin|].
  apply andb_prop in H. destruct H as [H0 Hr].
  destruct (N.eqb_spec c c') as [->|E].
  - rewrite forallb_forall in H0. apply H0. exact Hin.
  - apply IH; assumption.
Qed.

Lemma compute_bases_anc h bt :
  wf_hier h = true -> bt_ok h bt = true ->
  forall fuel c acc x, In x (compute_bases bt fuel c acc) -> In x acc \/ subclass h c x = true.
Proof.
  intros W B. induction fuel as [|f IH]; intros c acc x H; cbn [compute_bases] in H.
  - left. exact H.
  - destruct (N.eqb c cObject); [left; exact H|].
    assert (Hself : In x (c :: acc) -> In x acc \/ subclass h c x = true).
    { intros [<-|Hx]; [right; apply subclass_refl|left; exact Hx]. }
    destruct (bases_of bt c) as [|b [|b' l]] eqn:Eb; try (apply Hself; exact H).
    apply IH in H. destruct H as [H|H]; [apply Hself; exact H|].
    right. apply (subclass_trans h c b x W); [|exact H].
    apply (bt_ok_bases h bt c b B). rewrite Eb. left. reflexivity.
Qed.

Lemma compute_bases_nil_anc h bt fuel c x :
  wf_hier h = true -> bt_ok h bt = true ->
  In x (compute_bases bt fuel c []) -> subclass h c x = true.
Proof.
  intros W B H. destruct (compute_bases_anc h bt W B fuel c [] x H) as [[]|H']. exact H'.
Qed.

Print Assumptions subclass_refl.
Print Assumptions subclass_trans.
Print Assumptions compute_bases_nil_anc.
