(* Proofs/ConfineRuntime.v — C16: names bound when the module is imported are preserved. *)
From Coq Require Import List Bool Arith String Ascii Lia.
From MT Require Import Confine ConfineEmb ConfineItems.
Import ListNotations.
Open Scope list_scope.

(* ------------------------------------------------------------ embedding preserves run-time bound names *)
Lemma sub_incl ns ns' : sub ns ns' -> incl ns ns'.
Proof. intros H n Hn. destruct (emb_In eq ns ns' n H Hn) as [b [Hb <-]]. exact Hb. Qed.

Lemma imp_leb_bound i i' : imp_leb i i' = true -> incl (imp_bound i) (imp_bound i').
Proof.
  destruct i, i'; simpl; try discriminate; intro H.
  - apply sub_iff, sub_incl in H. now apply incl_map.
  - apply andb_true_iff in H as [_ H]. apply sub_iff, sub_incl in H. now apply incl_map.
  - apply incl_refl.
Qed.

Definition bound_of (l : list imp) : list string := flat_map imp_bound l.

Lemma pick_run_In i b : In i (pick CRun b) <-> In (CRun, i) b.
Proof.
  unfold pick. rewrite in_flat_map. split.
  - intros [[c j] [Hin H]]. simpl in H. destruct c; simpl in H; try destruct H as [<- | []]; try destruct H. exact Hin.
  - intro H. exists (CRun, i). split; [exact H | simpl; now left].
Qed.

Lemma body_leb_bound b b' :
  embb cimp_leb b b' = true -> incl (bound_of (pick CRun b)) (bound_of (pick CRun b')).
Proof.
  intro H. apply embb_iff in H. intros x Hx. unfold bound_of in *. apply in_flat_map in Hx as [i [Hi Hx]].
  apply pick_run_In in Hi. destruct (emb_In _ _ _ _ H Hi) as [[c' i'] [Hin Hr]].
  unfold cimp_leb in Hr. simpl in Hr. apply andb_true_iff in Hr as [Hc Hl].
  destruct c'; try discriminate. apply in_flat_map. exists i'. split; [now apply pick_run_In|].
  now apply (imp_leb_bound i i' Hl).
Qed.

Lemma stmt_leb_bound s s' :
  stmt_leb s s' = true -> incl (bound_of (stmt_run_imps s)) (bound_of (stmt_run_imps s')).
Proof.
  destruct s, s'; simpl; try discriminate; intro H; try apply incl_refl.
  - unfold bound_of. simpl. rewrite !app_nil_r. now apply imp_leb_bound.
  - apply andb_true_iff in H as [_ H]. now apply body_leb_bound.
  - apply andb_true_iff in H as [_ H]. now apply body_leb_bound.
Qed.

Lemma runtime_bound_In x m : In x (runtime_bound m) <-> exists s, In s m /\ In x (bound_of (stmt_run_imps s)).
Proof.
  unfold runtime_bound, bound_of. rewrite in_flat_map. split.
  - intros [i [Hi Hx]]. apply in_flat_map in Hi as [s [Hs Hi]]. exists s. split; [assumption|].
    apply in_flat_map. now exists i.
  - intros [s [Hs Hx]]. apply in_flat_map in Hx as [i [Hi Hx]]. exists i. split; [|assumption].
    apply in_flat_map. now exists s.
Qed.

Theorem embeds_runtime_bound m m' : embedsb m m' = true -> incl (runtime_bound m) (runtime_bound m').
Proof.
  intro H. apply embedsb_iff in H. intros x Hx. apply runtime_bound_In in Hx as [s [Hs Hx]].
  destruct (emb_In _ _ _ _ H Hs) as [s' [Hs' Hr]]. apply runtime_bound_In. exists s'. split; [assumption|].
  now apply (stmt_leb_bound s s' Hr).
Qed.

(* ------------------------------------------------------------ items bind their names *)
Lemma imp_item_bound i it : In it (imp_items i) -> In (item_bound it) (imp_bound i).
Proof.
  destruct i as [ns | md ns | md]; simpl.
  - intro H. apply in_map_iff in H as [n [<- Hn]]. apply in_map_iff. exists n. split; [|assumption].
    unfold item_bound. simpl. reflexivity.
  - destruct (is_rel md); [intros []|]. intro H. apply in_map_iff in H as [n [<- Hn]]. apply in_map_iff.
    exists n. split; [|assumption]. unfold item_bound. simpl. reflexivity.
  - intros [].
Qed.

Lemma run_item_bound m it : In it (run_items m) -> In (item_bound it) (runtime_bound m).
Proof.
  unfold run_items, runtime_bound. intro H. apply in_flat_map in H as [i [Hi H]].
  apply in_flat_map. exists i. split; [assumption | now apply imp_item_bound].
Qed.

(* ------------------------------------------------------------ class statements are untouched *)
Definition classes (m : module) : list (string * list string) :=
  flat_map (fun s => match s with SClass n bs _ _ => [(n, bs)] | _ => [] end) m.

Lemma class_names_classes m : class_names m = map fst (classes m).
Proof.
  unfold class_names, classes. induction m as [|s r IH]; simpl; [reflexivity|].
  destruct s; simpl; try exact IH. now rewrite IH.
Qed.

Definition needed_from (known cn : list string) (cl : list (string * list string)) : list string :=
  flat_map (fun nb => if smemb (fst nb) known then [] else filter (fun b => negb (smemb b cn)) (snd nb)) cl.

Lemma runtime_needed_classes src m :
  runtime_needed src m = needed_from (class_names src) (map fst (classes m)) (classes m).
Proof.
  unfold runtime_needed. rewrite <- class_names_classes. generalize (class_names m) as cn. intro cn.
  unfold needed_from, classes. induction m as [|s r IH]; simpl; [reflexivity|].
  destruct s; simpl; try exact IH. now rewrite IH.
Qed.

Lemma classes_add_first m : classes (add_first m) = classes m.
Proof.
  unfold classes. induction m as [|s r IH]; simpl; [reflexivity|].
  destruct s; try reflexivity. destruct i; simpl; try exact IH.
  destruct (String.eqb md "typing"); simpl; [reflexivity | exact IH].
Qed.

Lemma classes_insert_after_block i m : classes (insert_after_block (SImp i) m) = classes m.
Proof.
  unfold classes. induction m as [|s r IH]; simpl; [reflexivity|].
  destruct s; try reflexivity. simpl. exact IH.
Qed.

Lemma classes_add_tc m : classes (add_tc m) = classes m.
Proof.
  assert (B : forall m, classes (add_tc_body m) = classes m).
  { intro m0. unfold add_tc_body. destruct (_ || _); [reflexivity|].
    destruct (typing_from _); [apply classes_add_first | apply classes_insert_after_block]. }
  unfold add_tc. destruct m as [|s r]; [apply B|]. destruct s; try apply B.
  unfold classes in *. simpl. apply B.
Qed.

Lemma classes_remove moved m : classes (remove moved m) = classes m.
Proof.
  unfold classes. induction m as [|s r IH]; simpl; [reflexivity|].
  destruct s; simpl; try (now rewrite IH).
  destruct (rm_imp moved i); simpl; exact IH.
Qed.

Lemma classes_insert_go b m : classes (insert_after_last_go (SIfTC b) m) = classes m.
Proof.
  unfold classes. induction m as [|s r IH]; simpl; [reflexivity|].
  destruct (existsb is_simp r); simpl; [now rewrite IH | reflexivity].
Qed.

Lemma classes_insert_block l m : classes (insert_block l m) = classes m.
Proof.
  unfold insert_block. destruct l; [reflexivity|]. unfold insert_after_last. destruct (existsb is_simp m).
  - apply classes_insert_go.
  - reflexivity.
Qed.

Lemma classes_confine moved m : classes (confine_with moved m) = classes m.
Proof. unfold confine_with. now rewrite classes_insert_block, classes_remove, classes_add_tc. Qed.

(* ------------------------------------------------------------ what generated classes need stays bound *)
Theorem confine_needed_bound moved src applied :
  (forall it, In it moved -> runtime_module (i_mod it) = false) ->
  needed_okb src applied = true ->
  incl (runtime_needed src (confine_with moved applied)) (runtime_bound (confine_with moved applied)).
Proof.
  intros Hmv Hok b Hb.
  rewrite runtime_needed_classes, classes_confine, <- runtime_needed_classes in Hb.
  unfold needed_okb in Hok. rewrite forallb_forall in Hok. specialize (Hok b Hb).
  apply existsb_exists in Hok as [it [Hit Hc]]. apply andb_true_iff in Hc as [Hbn Hrm].
  apply String.eqb_eq in Hbn. subst b. apply run_item_bound. apply confine_runtime_kept; [assumption|].
  apply memb_false. intro Hin. apply Hmv in Hin. rewrite Hin in Hrm. discriminate.
Qed.
