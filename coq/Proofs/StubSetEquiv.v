(* Proofs/StubSetEquiv.v — C14: two types equal "up to union order / duplication / TypedDict field order"
   (equivb) admit exactly the same values; equivb is reflexive. *)
From MT Require Import Types StubSet TypesFacts.
From Coq Require Import Lia.

(* ---------- unfolding lemmas for equivb ---------- *)
Definition fsubE (xs ys : list (string * ty)) : bool :=
  forallb (fun f => match lookup_f (fst f) ys with Some y => equivb (snd f) y | None => false end) xs.

Lemma equivb_TTuple xs ys : equivb (TTuple xs) (TTuple ys) = forallb2 equivb xs ys.
Proof.
  cbn [equivb]. revert ys. induction xs as [|x r IH]; intros [|y ys]; try reflexivity.
  cbn [forallb2]. rewrite <- IH. reflexivity.
Qed.

Lemma equivb_TUnion xs ys :
  equivb (TUnion xs) (TUnion ys) =
  forallb (fun x => existsb (equivb x) ys) xs && forallb (fun y => existsb (fun x => equivb x y) xs) ys.
Proof.
  reflexivity.
Qed.

Lemma equivb_TTypedDict r o r' o' :
  equivb (TTypedDict r o) (TTypedDict r' o') =
  Nat.eqb (List.length r) (List.length r') && fsubE r r'
  && Nat.eqb (List.length o) (List.length o') && fsubE o o'.
Proof.
  cbn [equivb]. unfold fsubE.
  assert (E : forall xs ys,
    (fix fsub (xs0 ys0 : list (string * ty)) {struct xs0} : bool :=
       match xs0 with
       | [] => true
       | f :: xs' => match lookup_f (fst f) ys0 with Some y => equivb (snd f) y | None => false end && fsub xs' ys0
       end) xs ys
    = forallb (fun f => match lookup_f (fst f) ys with Some y => equivb (snd f) y | None => false end) xs).
  { induction xs as [|x xs IH]; intros ys; [reflexivity|]. cbn [forallb]. rewrite <- IH. reflexivity. }
  rewrite !E. reflexivity.
Qed.

Lemma fsubE_keys xs ys : fsubE xs ys = true -> incl (map fst xs) (map fst ys).
Proof.
  unfold fsubE. rewrite forallb_forall. intros H s Hs.
  apply in_map_iff in Hs. destruct Hs as [f [<- Hf]]. specialize (H f Hf).
  destruct (lookup_f (fst f) ys) eqn:E; [|discriminate]. eapply lookup_f_Some_key. exact E.
Qed.

(* ---------- reflexivity ---------- *)
Lemma equivb_refl t : wf_ty t -> equivb t t = true.
Proof.
  induction t as [ | c | x IH | | x IH | x IH | x IH | k v0 IHk IHv | k v0 IHk IHv | xs IH | x IH
                 | a1 a2 a3 IH1 IH2 IH3 | xs IH | r o IHr IHo | s ] using ty_ind';
    intros W; cbn [equivb]; try reflexivity; try (apply IH; exact W).
  - apply N.eqb_refl.
  - cbn [wf_ty] in W. destruct W. rewrite IHk, IHv by assumption. reflexivity.
  - cbn [wf_ty] in W. destruct W. rewrite IHk, IHv by assumption. reflexivity.
  - change (equivb (TTuple xs) (TTuple xs) = true). rewrite equivb_TTuple.
    apply wf_TTuple in W. induction xs as [|x xs IHxs]; [reflexivity|].
    inversion IH; subst. inversion W; subst. cbn [forallb2]. apply andb_true_intro. split; auto.
  - cbn [wf_ty] in W. destruct W as [? [? ?]]. rewrite IH1, IH2, IH3 by assumption. reflexivity.
  - change (equivb (TUnion xs) (TUnion xs) = true). rewrite equivb_TUnion.
    apply wf_TUnion in W. rewrite Forall_forall in IH, W.
    apply andb_true_intro; split; apply forallb_forall; intros x Hx; apply existsb_exists; exists x; auto.
  - change (equivb (TTypedDict r o) (TTypedDict r o) = true). rewrite equivb_TTypedDict.
    apply wf_TTypedDict in W. destruct W as [ND [Wr Wo]].
    rewrite !Nat.eqb_refl. cbn [andb]. rewrite andb_true_r.
    rewrite Forall_forall in IHr, IHo, Wr, Wo.
    apply andb_true_intro; split; unfold fsubE; apply forallb_forall; intros [s ft] Hf; cbn [fst snd].
    + rewrite (lookup_f_NoDup s ft r); [|eapply NoDup_app_l; exact ND|exact Hf].
      apply (IHr _ Hf). apply (Wr _ Hf).
    + rewrite (lookup_f_NoDup s ft o); [|eapply NoDup_app_r; exact ND|exact Hf].
      apply (IHo _ Hf). apply (Wo _ Hf).
  - apply String.eqb_refl.
Qed.

(* ---------- equivb implies the same members, at every position ---------- *)
Section EquivMember.
Variable anyb : bool.
Variable sub : cls -> cls -> bool.
Notation mem := (member anyb sub).

Lemma forallb_eq_in {A} (f g : A -> bool) l : (forall x, In x l -> f x = g x) -> forallb f l = forallb g l.
Proof. induction l as [|x r IH]; intros H; [reflexivity|]. cbn [forallb].
  rewrite (H x (or_introl eq_refl)), IH; [reflexivity|]. intros y Hy. apply H. right. exact Hy. Qed.

Lemma bool_eq_iff (a b : bool) : (a = true -> b = true) -> (b = true -> a = true) -> a = b.
Proof. destruct a, b; intros H1 H2; try reflexivity; [symmetry; apply H1|apply H2]; reflexivity. Qed.

(* same key sets from length + inclusion + NoDup *)
Lemma keys_back (r r' : list (string * ty)) :
  NoDup (map fst r) -> List.length r = List.length r' -> incl (map fst r) (map fst r') ->
  incl (map fst r') (map fst r).
Proof.
  intros ND L I. apply NoDup_length_incl; [exact ND| |exact I]. rewrite !map_length. lia.
Qed.

Lemma member_equivb_aux a : forall b v,
  wf_ty a -> wf_ty b -> equivb a b = true -> mem v a = mem v b.
Proof.
  induction a as [ | c | x IH | | x IH | x IH | x IH | k v0 IHk IHv | k v0 IHk IHv | xs IH | x IH
                 | a1 a2 a3 IH1 IH2 IH3 | xs IH | r o IHr IHo | s ] using ty_ind';
    intros b v Wa Wb E; destruct b; cbn [equivb] in E; try discriminate E; try reflexivity.
  - (* TCls *) apply N.eqb_eq in E. subst. reflexivity.
  - (* TType *) cbn [member]. destruct v; try reflexivity.
    destruct x, b; cbn [equivb] in E; try discriminate E; try reflexivity.
    apply N.eqb_eq in E. subst. reflexivity.
  - (* TList *) cbn [member wf_ty] in *. destruct v; try reflexivity.
    apply forallb_ext'. intros e. apply IH; assumption.
  - (* TSet *) cbn [member wf_ty] in *. destruct v; try reflexivity.
    apply forallb_ext'. intros e. apply IH; assumption.
  - (* TDict *) cbn [member wf_ty] in *. destruct Wa as [Wa1 Wa2], Wb as [Wb1 Wb2].
    apply andb_prop in E. destruct E as [E1 E2].
    destruct v; try reflexivity; apply forallb_ext'; intros kv;
      rewrite (IHk b1 (fst kv)), (IHv b2 (snd kv)) by assumption; reflexivity.
  - (* TDefaultDict *) cbn [member wf_ty] in *. destruct Wa as [Wa1 Wa2], Wb as [Wb1 Wb2].
    apply andb_prop in E. destruct E as [E1 E2].
    destruct v; try reflexivity; apply forallb_ext'; intros kv;
      rewrite (IHk b1 (fst kv)), (IHv b2 (snd kv)) by assumption; reflexivity.
  - (* TTuple *) change (equivb (TTuple xs) (TTuple ts) = true) in E. rewrite equivb_TTuple in E.
    apply wf_TTuple in Wa. apply wf_TTuple in Wb.
    destruct v; try reflexivity. rewrite !member_TTuple.
    revert ts es Wb E. induction xs as [|x xs IHxs]; intros [|y ys] es Wb E; cbn [forallb2] in E; try discriminate E.
    + reflexivity.
    + destruct es as [|e es]; [reflexivity|].
      apply andb_prop in E. destruct E as [E1 E2].
      inversion IH as [|? ? IHx IHxs']; subst. inversion Wa; subst. inversion Wb; subst.
      rewrite (IHx y e) by assumption. f_equal. apply IHxs; assumption.
  - (* TTupleVar *) cbn [member wf_ty] in *. destruct v; try reflexivity.
    apply forallb_ext'. intros e. apply IH; assumption.
  - (* TUnion *) change (equivb (TUnion xs) (TUnion ts) = true) in E. rewrite equivb_TUnion in E.
    apply wf_TUnion in Wa. apply wf_TUnion in Wb.
    rewrite !member_TUnion. apply andb_prop in E. destruct E as [E1 E2].
    rewrite forallb_forall in E1, E2. rewrite Forall_forall in IH, Wa, Wb.
    apply bool_eq_iff; intros M; apply existsb_exists in M; destruct M as [z [Hz Mz]]; apply existsb_exists.
    + specialize (E1 z Hz). apply existsb_exists in E1. destruct E1 as [y [Hy Ezy]].
      exists y. split; [exact Hy|]. rewrite <- (IH z Hz y v); auto.
    + specialize (E2 z Hz). apply existsb_exists in E2. destruct E2 as [x [Hx Exz]].
      exists x. split; [exact Hx|]. rewrite (IH x Hx z v); auto.
  - (* TTypedDict *)
    change (equivb (TTypedDict r o) (TTypedDict req opt) = true) in E. rewrite equivb_TTypedDict in E.
    apply wf_TTypedDict in Wa. apply wf_TTypedDict in Wb.
    destruct Wa as [NDa [Wr Wo]], Wb as [NDb [Wr' Wo']].
    apply andb_prop in E. destruct E as [E Eo]. apply andb_prop in E. destruct E as [E Elo].
    apply andb_prop in E. destruct E as [Elr Er]. apply Nat.eqb_eq in Elr, Elo.
    pose proof (fsubE_keys _ _ Er) as Ir. pose proof (fsubE_keys _ _ Eo) as Io.
    pose proof (keys_back _ _ (NoDup_app_l _ _ NDa) Elr Ir) as Ir'.
    pose proof (keys_back _ _ (NoDup_app_r _ _ NDa) Elo Io) as Io'.
    rewrite !member_TTypedDict. destruct v; try reflexivity.
    rewrite Forall_forall in IHr, IHo, Wr, Wo, Wr', Wo'.
    unfold fsubE in Er, Eo. rewrite forallb_forall in Er, Eo.
    f_equal.
    + (* every item admitted: each key resolves to equivalent field types *)
      apply forallb_ext'. intros [kk vv]. cbn [fst snd]. destruct kk; try reflexivity.
      unfold field_ty.
      destruct (lookup_f s r) as [ft|] eqn:Lr.
      * pose proof (lookup_f_In _ _ _ Lr) as Hin. pose proof (Er _ Hin) as Er1. cbn [fst snd] in Er1.
        destruct (lookup_f s req) as [ft'|] eqn:Lr'; [|discriminate Er1].
        apply (IHr _ Hin); cbn [snd]; auto.
        { apply (Wr _ Hin). } { apply (Wr' (s, ft')). apply lookup_f_In. exact Lr'. }
      * assert (Lr' : lookup_f s req = None).
        { apply lookup_f_None. intros Hc. apply Ir' in Hc. apply lookup_f_None in Lr. apply Lr. exact Hc. }
        rewrite Lr'.
        destruct (lookup_f s o) as [ft|] eqn:Lo.
        -- pose proof (lookup_f_In _ _ _ Lo) as Hin. pose proof (Eo _ Hin) as Eo1. cbn [fst snd] in Eo1.
           destruct (lookup_f s opt) as [ft'|] eqn:Lo'; [|discriminate Eo1].
           apply (IHo _ Hin); cbn [snd]; auto.
           { apply (Wo _ Hin). } { apply (Wo' (s, ft')). apply lookup_f_In. exact Lo'. }
        -- assert (Lo' : lookup_f s opt = None).
           { apply lookup_f_None. intros Hc. apply Io' in Hc. apply lookup_f_None in Lo. apply Lo. exact Hc. }
           rewrite Lo'. reflexivity.
    + (* the required keys are the same set *)
      apply bool_eq_iff; rewrite !forallb_forall; intros MB f' Hf'.
      * assert (Hk : In (fst f') (map fst r)) by (apply Ir'; apply in_map; exact Hf').
        apply in_map_iff in Hk. destruct Hk as [f [Ef Hf]]. rewrite <- Ef. apply MB. exact Hf.
      * assert (Hk : In (fst f') (map fst req)) by (apply Ir; apply in_map; exact Hf').
        apply in_map_iff in Hk. destruct Hk as [f [Ef Hf]]. rewrite <- Ef. apply MB. exact Hf.
Qed.

End EquivMember.

Theorem member_equivb : forall anyb sub a b v,
  wf_ty a -> wf_ty b -> equivb a b = true -> member anyb sub v a = member anyb sub v b.
Proof. intros anyb sub a b v. apply member_equivb_aux. Qed.

Example ex_member_equivb :
  let a := TUnion [TCls cInt; TList (TUnion [TCls cStr; TCls cNone]);
                   TTypedDict [("a"%string, TCls cInt); ("b"%string, TUnion [TCls cInt; TCls cStr])] []] in
  let b := TUnion [TTypedDict [("b"%string, TUnion [TCls cStr; TCls cInt; TCls cStr]); ("a"%string, TCls cInt)] [];
                   TList (TUnion [TCls cNone; TCls cStr]); TCls cInt; TCls cInt] in
  equivb a b = true /\ ty_eqb a b = false /\ equivb a a = true
  /\ equivb a (TUnion [TCls cInt]) = false.
Proof. vm_compute. repeat split; reflexivity. Qed.
