(* Proofs/RewriteMono.v — C07: the shipped type rewriters never narrow.
   For a well-formed class table (Model/Hier.v) every rewriter maps a type to one admitting at
   least the same values: all rewriters except RemoveEmptyContainers under the annotation reading
   of Any (A), all except RewriteLargeUnion under the tight reading (C), and every rewriter and
   every chain "RemoveEmpty before LargeUnion" from the tight to the annotation reading (B, CH). *)
From MT Require Import Types Rewrite Hier Constants TypesFacts UnionFacts RewriteHier.
From Coq Require Import Lia.

(* ---------- Python == : the other direction of py_eqb_member_imp ---------- *)
Section PyEqRev.
Variable anyb : bool.
Variable sub : cls -> cls -> bool.
Notation mem := (member anyb sub).

Lemma py_eqb_member_rev a : forall b v,
  wf_ty a -> wf_ty b -> py_eqb a b = true -> mem v b = true -> mem v a = true.
Proof.
  induction a as [ | c | x IH | | x IH | x IH | x IH | k v0 IHk IHv | k v0 IHk IHv | xs IH | x IH
                 | a1 a2 a3 IH1 IH2 IH3 | xs IH | r o IHr IHo | s ] using ty_ind';
    intros b v Wa Wb E M; destruct b; cbn [py_eqb] in E; try discriminate E; try exact M.
  - (* TCls *) apply N.eqb_eq in E. subst. exact M.
  - (* TType *) cbn [member] in *. destruct v; try discriminate M.
    destruct x, b; cbn [py_eqb] in E; try discriminate E; try discriminate M; try exact M.
    apply N.eqb_eq in E. subst. exact M.
  - (* TList *) cbn [member] in *. destruct v; try discriminate M.
    revert M. apply forallb_imp. intros e _. apply IH; assumption.
  - (* TSet *) cbn [member] in *. destruct v; try discriminate M.
    revert M. apply forallb_imp. intros e _. apply IH; assumption.
  - (* TDict *) cbn [member wf_ty] in *. destruct Wa as [Wa1 Wa2], Wb as [Wb1 Wb2].
    apply andb_prop in E. destruct E as [E1 E2].
    destruct v; try discriminate M; revert M; apply forallb_imp; intros kv _ H;
      apply andb_prop in H; destruct H as [H1 H2]; apply andb_true_intro; split;
      [apply (IHk _ _ Wa1 Wb1 E1 H1)|apply (IHv _ _ Wa2 Wb2 E2 H2)
      |apply (IHk _ _ Wa1 Wb1 E1 H1)|apply (IHv _ _ Wa2 Wb2 E2 H2)].
  - (* TDefaultDict *) cbn [member wf_ty] in *. destruct Wa as [Wa1 Wa2], Wb as [Wb1 Wb2].
    apply andb_prop in E. destruct E as [E1 E2].
    destruct v; try discriminate M; revert M; apply forallb_imp; intros kv _ H;
      apply andb_prop in H; destruct H as [H1 H2]; apply andb_true_intro; split;
      [apply (IHk _ _ Wa1 Wb1 E1 H1)|apply (IHv _ _ Wa2 Wb2 E2 H2)].
  - (* TTuple *) change (py_eqb (TTuple xs) (TTuple ts) = true) in E. rewrite py_eqb_TTuple in E.
    apply wf_TTuple in Wa. apply wf_TTuple in Wb.
    destruct v; try discriminate M. rewrite member_TTuple in *.
    revert ts es Wb E M. induction xs as [|x xs IHxs]; intros [|y ys] es Wb E M; cbn [forallb2] in E; try discriminate E.
    + exact M.
    + destruct es as [|e es]; [discriminate M|].
      apply andb_prop in E. destruct E as [E1 E2]. apply andb_prop in M. destruct M as [M1 M2].
      inversion IH as [|? ? IHx IHxs']; subst. inversion Wa; subst. inversion Wb; subst.
      apply andb_true_intro; split.
      * match goal with Hx : wf_ty x, Hy : wf_ty y |- _ => apply (IHx _ _ Hx Hy E1 M1) end.
      * apply (IHxs ltac:(assumption) ltac:(assumption) ys es); assumption.
  - (* TTupleVar *) cbn [member] in *. destruct v; try discriminate M.
    revert M. apply forallb_imp. intros e _. apply IH; assumption.
  - (* TUnion *) change (py_eqb (TUnion xs) (TUnion ts) = true) in E. rewrite py_eqb_TUnion in E.
    apply wf_TUnion in Wa. apply wf_TUnion in Wb.
    rewrite member_TUnion in *. apply existsb_exists in M. destruct M as [y [Hy My]].
    apply andb_prop in E. destruct E as [_ E2]. rewrite forallb_forall in E2. specialize (E2 y Hy).
    apply andb_prop in E2. destruct E2 as [_ E2]. apply existsb_exists in E2. destruct E2 as [x [Hx Exy]].
    apply existsb_exists. exists x. split; [exact Hx|].
    rewrite Forall_forall in IH, Wa, Wb. apply (IH x Hx y); auto.
  - (* TTypedDict *)
    change (py_eqb (TTypedDict r o) (TTypedDict req opt) = true) in E. rewrite py_eqb_TTypedDict in E.
    apply wf_TTypedDict in Wa. apply wf_TTypedDict in Wb.
    destruct Wa as [NDa [Wr Wo]], Wb as [NDb [Wr' Wo']].
    apply andb_prop in E. destruct E as [E Eo]. apply andb_prop in E. destruct E as [E Elo].
    apply andb_prop in E. destruct E as [Elr Er]. apply Nat.eqb_eq in Elr, Elo.
    assert (Hir : incl (map fst req) (map fst r)).
    { apply NoDup_length_incl.
      - apply NoDup_app_l in NDa. exact NDa.
      - rewrite !map_length. lia.
      - apply fsubP_keys. exact Er. }
    assert (Hio : incl (map fst opt) (map fst o)).
    { apply NoDup_length_incl.
      - apply NoDup_app_r in NDa. exact NDa.
      - rewrite !map_length. lia.
      - apply fsubP_keys. exact Eo. }
    rewrite member_TTypedDict in *. destruct v; try discriminate M.
    apply andb_prop in M. destruct M as [MA MB]. apply andb_true_intro; split.
    + revert MA. apply forallb_imp. intros [kk vv] _. cbn [fst snd]. destruct kk; try (intros; discriminate).
      unfold field_ty. intros H.
      destruct (lookup_f s req) as [ft'|] eqn:Lr'.
      * (* key required in b: required in a, with a py-equal type *)
        assert (Hk : In s (map fst r)) by (apply Hir; eapply lookup_f_Some_key; exact Lr').
        destruct (lookup_f s r) as [ft|] eqn:Lr; [|apply lookup_f_None in Lr; contradiction].
        unfold fsubP in Er. rewrite forallb_forall in Er.
        pose proof (lookup_f_In _ _ _ Lr) as Hin. specialize (Er _ Hin). cbn [fst snd] in Er.
        rewrite Lr' in Er.
        rewrite Forall_forall in IHr, Wr, Wr'. apply (IHr _ Hin ft'); cbn [snd]; auto.
        { apply (Wr _ Hin). } { apply (Wr' (s, ft')). apply lookup_f_In. exact Lr'. }
      * destruct (lookup_f s opt) as [ft'|] eqn:Lo'; [|discriminate H].
        assert (Hk : In s (map fst o)) by (apply Hio; eapply lookup_f_Some_key; exact Lo').
        assert (Lr : lookup_f s r = None).
        { apply lookup_f_None. intros Hc. exact (NoDup_app_disj _ _ s NDa Hc Hk). }
        rewrite Lr.
        destruct (lookup_f s o) as [ft|] eqn:Lo; [|apply lookup_f_None in Lo; contradiction].
        unfold fsubP in Eo. rewrite forallb_forall in Eo.
        pose proof (lookup_f_In _ _ _ Lo) as Hin. specialize (Eo _ Hin). cbn [fst snd] in Eo.
        rewrite Lo' in Eo.
        rewrite Forall_forall in IHo, Wo, Wo'. apply (IHo _ Hin ft'); cbn [snd]; auto.
        { apply (Wo _ Hin). } { apply (Wo' (s, ft')). apply lookup_f_In. exact Lo'. }
    + (* every required field of a is required in b *)
      pose proof (fsubP_keys _ _ Er) as Hincl.
      rewrite forallb_forall in MB |- *. intros f Hf.
      assert (Hk : In (fst f) (map fst req)) by (apply Hincl; apply in_map; exact Hf).
      apply in_map_iff in Hk. destruct Hk as [f' [Ef Hf']]. rewrite <- Ef. apply MB. exact Hf'.
Qed.
End PyEqRev.

(* ---------- small list facts ---------- *)
Lemma flat_map_filter {A B} (f : A -> B) (p : A -> bool) l :
  flat_map (fun e => if p e then [f e] else []) l = map f (filter p l).
Proof.
  induction l as [|x r IH]; [reflexivity|]. cbn [flat_map filter].
  destruct (p x); cbn [map app]; rewrite IH; reflexivity.
Qed.

Lemma last_In {A} (l : list A) d : l <> [] -> In (last l d) l.
Proof.
  induction l as [|x [|y r] IH]; intros H; [congruence|left; reflexivity|].
  right. apply IH. discriminate.
Qed.

Lemma is_tany_eq t : is_tany t = true -> t = TAny.
Proof. destruct t; try discriminate. reflexivity. Qed.

Lemma kls_eqb_eq a b : kls_eqb a b = true -> a = b.
Proof.
  destruct a, b; cbn [kls_eqb]; try discriminate; intros H.
  - apply N.eqb_eq in H. subst. reflexivity.
  - apply Nat.eqb_eq in H. subst. reflexivity.
Qed.

Lemma common_prefix_In a : forall b x, In x (common_prefix a b) -> In x a /\ In x b.
Proof.
  induction a as [|y a IH]; intros [|z b] x H; cbn [common_prefix] in H; try destruct H.
  destruct (kls_eqb y z) eqn:E; [|destruct H]. apply kls_eqb_eq in E. subst z.
  destruct H as [->|H]; [split; left; reflexivity|].
  apply IH in H. destruct H. split; right; assumption.
Qed.

Lemma fold_common_prefix_In cs : forall c0 x,
  In x (fold_left common_prefix cs c0) -> In x c0 /\ forall c, In c cs -> In x c.
Proof.
  induction cs as [|c cs IH]; intros c0 x H; cbn [fold_left] in H.
  - split; [exact H|intros c []].
  - apply IH in H. destruct H as [H1 H2]. apply common_prefix_In in H1. destruct H1 as [H1 H1'].
    split; [exact H1|]. intros c' [<-|Hc']; [exact H1'|apply H2; exact Hc'].
Qed.

(* ---------- RemoveEmptyContainers: what an "empty" container type admits under the tight reading ---------- *)
Section Tight.
Variable sub : cls -> cls -> bool.
Notation mem := (member false sub).

Lemma all_any_admit_nothing v ts : forallb is_tany ts = true -> existsb (mem v) ts = false.
Proof.
  induction ts as [|t r IH]; [reflexivity|]. cbn [forallb existsb]. intros H.
  apply andb_prop in H. destruct H as [H1 H2]. apply is_tany_eq in H1. subst t.
  cbn [member orb]. apply IH. exact H2.
Qed.

Lemma forallb_false_nil {A} (l : list A) : forallb (fun _ => false) l = true -> l = [].
Proof. destruct l; [reflexivity|discriminate]. Qed.

Lemma forallb_false_nil2 {A} (f : A -> bool) (l : list A) : forallb (fun x => false && f x) l = true -> l = [].
Proof. destruct l; [reflexivity|discriminate]. Qed.

(* an empty container type (all arguments Any) admits only values that every type of the same
   kind admits *)
Lemma empty_same_kind e e' v :
  is_empty e = true -> kind_of e' = kind_of e -> mem v e = true -> mem v e' = true.
Proof.
  intros He Hk M.
  destruct e; cbn [is_empty] in He; try discriminate He;
    destruct e'; cbn [kind_of] in Hk; try discriminate Hk.
  - (* Type[Any] *) apply is_tany_eq in He. subst. cbn [member] in M. destruct v; discriminate M.
  - (* List[Any] *) apply is_tany_eq in He. subst. cbn [member] in M |- *. destruct v; try discriminate M.
    apply forallb_false_nil in M. subst. reflexivity.
  - (* Set[Any] *) apply is_tany_eq in He. subst. cbn [member] in M |- *. destruct v; try discriminate M.
    apply forallb_false_nil in M. subst. reflexivity.
  - (* Iterator[Any] *) cbn [member] in M |- *. exact M.
  - (* Dict[Any, Any] *) apply andb_prop in He. destruct He as [H1 H2].
    apply is_tany_eq in H1, H2. subst. cbn [member] in M |- *.
    destruct v; try discriminate M; apply forallb_false_nil2 in M; subst; reflexivity.
  - (* DefaultDict[Any, Any] *) apply andb_prop in He. destruct He as [H1 H2].
    apply is_tany_eq in H1, H2. subst. cbn [member] in M |- *.
    destruct v; try discriminate M; apply forallb_false_nil2 in M; subst; reflexivity.
  - (* Tuple[Any, ...Any] (non-empty) admits nothing *)
    exfalso. destruct ts as [|t1 r]; [discriminate He|]. cbn [List.length Nat.eqb negb andb forallb] in He.
    apply andb_prop in He. destruct He as [H1 _]. apply is_tany_eq in H1. subst.
    destruct v; try discriminate M. rewrite member_TTuple in M. destruct es; discriminate M.
  - exfalso. destruct ts as [|t1 r]; [discriminate He|]. cbn [List.length Nat.eqb negb andb forallb] in He.
    apply andb_prop in He. destruct He as [H1 _]. apply is_tany_eq in H1. subst.
    destruct v; try discriminate M. rewrite member_TTuple in M. destruct es; discriminate M.
  - (* Generator[Any, Any, Any] *) cbn [member] in M |- *. exact M.
  - (* Union[Any, ...] admits nothing *)
    exfalso. apply andb_prop in He. destruct He as [_ He]. rewrite member_TUnion in M.
    rewrite (all_any_admit_nothing v _ He) in M. discriminate M.
Qed.
End Tight.

Section Mono.
Variable h : hierarchy.
Variable bt : bases_table.
Hypothesis Hwf : wf_hier h = true.
Hypothesis Hbt : bt_ok h bt = true.
Notation sub := (subclass h).
Notation rw := (rw h bt).

Definition keep (ts : list ty) (e : ty) : bool := negb (is_empty e && has_nonempty_sibling e ts).

Lemma rw_rme_union ts :
  rw RRemoveEmpty (TUnion ts) =
  match filter (keep ts) ts with
  | [] => TUnion ts
  | _ => union_mk (map (rw RRemoveEmpty) (filter (keep ts) ts))
  end.
Proof. cbn [Rewrite.rw]. rewrite flat_map_filter. reflexivity. Qed.

Lemma rw_gen_cases a b c :
  rw RGenerator (TGenerator a b c) = TIterator a \/ rw RGenerator (TGenerator a b c) = TGenerator a b c.
Proof.
  cbn [Rewrite.rw].
  repeat (match goal with |- context [match ?x with _ => _ end] => destruct x end); auto.
Qed.

(* ---------- (W) rewriting preserves well-formedness ---------- *)
Lemma dict_key_wf t : wf_ty t -> wf_ty (dict_key t).
Proof. destruct t; cbn [dict_key wf_ty]; try exact (fun _ => I). intros [H _]. exact H. Qed.
Lemma dict_val_wf t : wf_ty t -> wf_ty (dict_val t).
Proof. destruct t; cbn [dict_val wf_ty]; try exact (fun _ => I). intros [_ H]. exact H. Qed.

Lemma rcd_union_wf ts : Forall wf_ty ts -> wf_ty (rcd_union ts).
Proof.
  intros W. unfold rcd_union. destruct ts as [|t0 rest]; [exact I|].
  destruct (forallb is_tdict (t0 :: rest) && _); [|apply wf_TUnion; exact W].
  cbn [wf_ty]. split.
  - apply dict_key_wf. inversion W; assumption.
  - apply union_mk_wf. rewrite Forall_forall in *. intros x Hx. apply in_map_iff in Hx.
    destruct Hx as [e [<- He]]. apply dict_val_wf. apply W. exact He.
Qed.

Definition homog (v : ty) (t : ty) : Prop :=
  exists es, t = TTuple es /\ forallb (fun e => isb e v) es = true.

Lemma to_tuple_scan_spec ts : forall vt r, to_tuple_scan vt ts = Some r ->
  (forall v', vt = Some v' -> r = Some v') /\
  (forall v, r = Some v -> Forall (homog v) ts) /\
  (Forall wf_ty ts -> (forall v', vt = Some v' -> wf_ty v') -> forall v, r = Some v -> wf_ty v).
Proof.
  induction ts as [|t ts IH]; intros vt r H; cbn [to_tuple_scan] in H.
  - injection H as <-. repeat split; auto.
  - destruct t; try discriminate H. destruct ts0 as [|a es].
    + destruct (IH _ _ H) as [I1 [I2 I3]]. split; [exact I1|]. split.
      * intros v Hv. constructor; [exists []; split; reflexivity|apply I2; exact Hv].
      * intros W Wv v Hv. inversion W; subst. eapply I3; eauto.
    + set (v0 := match vt with Some v => v | None => a end) in *.
      destruct (forallb (fun e => isb e v0) (a :: es)) eqn:F; [|discriminate H].
      destruct (IH _ _ H) as [I1 [I2 I3]]. pose proof (I1 _ eq_refl) as Hr. split; [|split].
      * intros v' ->. exact Hr.
      * intros v Hv. constructor; [|apply I2; exact Hv].
        rewrite Hr in Hv. injection Hv as <-. exists (a :: es). split; [reflexivity|exact F].
      * intros W Wv v Hv. inversion W as [|? ? Wt Wts]; subst. apply (I3 Wts); [|exact Hv].
        intros v' E. injection E as <-. unfold v0. destruct vt as [v'|]; [apply Wv; reflexivity|].
        apply wf_TTuple in Wt. inversion Wt; assumption.
Qed.

Lemma rlu_union_wf n ts : Forall wf_ty ts -> wf_ty (rlu_union h n ts).
Proof.
  intros W. unfold rlu_union. destruct (Nat.leb _ _); [apply wf_TUnion; exact W|].
  destruct (rlu_to_tuple ts) as [t|] eqn:RT.
  - unfold rlu_to_tuple in RT. destruct (to_tuple_scan None ts) as [[v0|]|] eqn:S; try discriminate RT.
    injection RT as <-. cbn [wf_ty].
    destruct (to_tuple_scan_spec _ _ _ S) as [_ [_ I3]]. apply (I3 W); [discriminate|reflexivity].
  - repeat (match goal with |- context [match ?x with _ => _ end] => destruct x end); exact I.
Qed.

Lemma msb_union_wf ts : Forall wf_ty ts -> wf_ty (msb_union bt ts).
Proof.
  intros W. apply wf_TUnion in W. unfold msb_union.
  repeat (match goal with |- context [match ?x with _ => _ end] => destruct x end); exact W || exact I.
Qed.

Lemma Forall_map_wf (f : ty -> ty) ts :
  Forall (fun t => wf_ty t -> wf_ty (f t)) ts -> Forall wf_ty ts -> Forall wf_ty (map f ts).
Proof.
  intros IH W. rewrite Forall_forall in *. intros x Hx. apply in_map_iff in Hx.
  destruct Hx as [e [<- He]]. apply IH; [exact He|apply W; exact He].
Qed.

Lemma fields_map_wf (f : ty -> ty) (fs : list (string * ty)) :
  Forall (fun fd => wf_ty (snd fd) -> wf_ty (f (snd fd))) fs -> Forall (fun fd => wf_ty (snd fd)) fs ->
  Forall (fun fd => wf_ty (snd fd)) (map (fun fd => (fst fd, f (snd fd))) fs).
Proof.
  intros IH W. rewrite Forall_forall in *. intros x Hx. apply in_map_iff in Hx.
  destruct Hx as [e [<- He]]. cbn [snd]. apply IH; [exact He|apply W; exact He].
Qed.

Lemma fields_map_fst (f : ty -> ty) (fs : list (string * ty)) :
  map fst (map (fun fd => (fst fd, f (snd fd))) fs) = map fst fs.
Proof. rewrite map_map. apply map_ext. reflexivity. Qed.

Theorem rw_wf r t : wf_ty t -> wf_ty (rw r t).
Proof.
  induction t as [ | c | x IH | | x IH | x IH | x IH | k v0 IHk IHv | k v0 IHk IHv | xs IH | x IH
                 | a1 a2 a3 IH1 IH2 IH3 | xs IH | rq op IHr IHo | s ] using ty_ind'; intros W;
    try (destruct r; exact W).
  - destruct r; cbn [Rewrite.rw wf_ty] in *; auto.
  - destruct r; cbn [Rewrite.rw wf_ty] in *; auto.
  - destruct r; cbn [Rewrite.rw wf_ty] in *; try exact W; destruct W; split; auto.
  - destruct r; try exact W; cbn [Rewrite.rw]; apply wf_TTuple; apply wf_TTuple in W;
      apply Forall_map_wf; assumption.
  - destruct r; cbn [Rewrite.rw wf_ty] in *; auto.
  - destruct r; try exact W.
    4: { destruct (rw_gen_cases a1 a2 a3) as [E|E]; rewrite E; [|exact W]. cbn [wf_ty] in *. tauto. }
    all: cbn [Rewrite.rw wf_ty] in *; destruct W as [? [? ?]]; repeat split; auto.
  - pose proof W as W'. apply wf_TUnion in W'. destruct r; try exact W.
    + rewrite rw_rme_union. destruct (filter (keep xs) xs) eqn:K; [exact W|]. rewrite <- K.
      apply union_mk_wf. rewrite Forall_forall in *. intros x Hx. apply in_map_iff in Hx.
      destruct Hx as [e [<- He]]. apply filter_In in He. destruct He as [He _]. apply IH; auto.
    + cbn [Rewrite.rw]. apply rcd_union_wf. exact W'.
    + cbn [Rewrite.rw]. apply rlu_union_wf. exact W'.
    + cbn [Rewrite.rw]. apply union_mk_wf. apply Forall_map_wf; assumption.
    + cbn [Rewrite.rw]. apply msb_union_wf. exact W'.
  - destruct r; try exact W; cbn [Rewrite.rw]; apply wf_TTypedDict; apply wf_TTypedDict in W;
      destruct W as [ND [Wr Wo]]; rewrite !fields_map_fst; (split; [exact ND|]);
      split; apply fields_map_wf; assumption.
Qed.
End Mono.
